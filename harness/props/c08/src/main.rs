//! C08 driver. Records what the real `wow_mpq::PatchChain` and `wow_mpq::patch::apply_patch`
//! answer on the cases TLC generated; decides nothing (Trace_PatchChain / Trace_Ptch decide).
//!
//! Case stream (NDJSON, produced by Gen_PatchChain / Gen_Ptch):
//!   {"kind":"world", "names":[..], "archives":{"A1":{"n1":{kind,c,before,after,cls},..},..}}   (first line)
//!   {"kind":"hist", "pre":[op..], "op":op}        replay `pre` on a fresh chain, then `op`, then sweep
//!   {"kind":"walk", "ops":[op..]}                 long history, sweep after every op
//!   {"kind":"plan", ...}                          a PTCH file plan applied directly with apply_patch
//! op = {"op":"add|set|remove|clear|fromPar|addPar","a":"A1","p":5,"l":[{"a":..,"p":..},..]}
mod ptch;

use ptch::*;
use std::collections::BTreeMap;
use std::path::{Path, PathBuf};
use wow_mpq::crypto::{decrypt_block, encrypt_block, hash_string, hash_type};
use wow_mpq::patch::{apply_patch, PatchFile};
use wow_mpq::{Archive, ArchiveBuilder, PatchChain};
use wverif_common::*;

// ------------------------------------------------------------------------------------------
// world: abstract contents -> bytes -> real .mpq files
// ------------------------------------------------------------------------------------------

struct World {
    names: Vec<String>,
    arch_ids: Vec<String>,
    paths: BTreeMap<String, PathBuf>,
    by_path: BTreeMap<PathBuf, String>,
    /// spelling used to *store* the name in archive (the chain must fold case / slashes)
    json: Value,
    ctok: BTreeMap<String, String>,
    real: BTreeMap<String, String>, // abstract name -> canonical real name
}

fn real_name(n: &str) -> String {
    match n {
        "lf" => "(listfile)".to_string(),
        // names with non-ASCII letters (2-byte code points, sharp s, dotted capital I, a 3-byte code point): MPQ
        // hashing folds ASCII case only, so the spellings below change ASCII letters and leave these bytes alone
        "u1" => "Donn\u{e9}es\\Carte_\u{e9}t\u{e9}.txt".to_string(),
        "u2" => "Gr\u{f6}\u{df}e_\u{130}x_\u{20ac}.ttf".to_string(),
        _ => format!("Data\\Sub\\{n}.dat"),
    }
}

/// the spelling stored inside archive `a` for name `n` (A4 stores upper case, A3 lower case)
fn stored_name(a: &str, n: &str) -> String {
    let r = real_name(n);
    match a {
        "A4" => r.to_ascii_uppercase(),
        "A3" => r.to_ascii_lowercase(),
        _ => r,
    }
}

fn gen_bsd0_plan(old: &[u8], cls: &str, rng: &mut Rng) -> (Vec<Ctrl>, Vec<u8>, Vec<u8>) {
    let neg = cls == "bsd0neg";
    // class bsd0lit: every diff byte non-zero and a long non-zero extra block, so that the RLE layer has to use
    // maximal literal runs
    let lit = cls == "bsd0lit";
    let l = old.len() as u32;
    let a1 = l / 2;
    let m1 = if lit { 100 + rng.below(100) as u32 } else { 3 + rng.below(4) as u32 };
    let (s1, a2): (i64, u32) = if neg {
        let back = 1 + rng.below((a1 - 1) as u64) as i64; // 1 ..= a1-1, old offset stays >= 1
        (-back, l / 4)
    } else {
        let fwd = rng.below((l / 8 + 1) as u64) as i64;
        (fwd, l / 4)
    };
    let m2 = if lit { 60 + rng.below(100) as u32 } else { 1 + rng.below(6) as u32 };
    let ctrl = vec![Ctrl { add: a1, mov: m1, seek: s1 }, Ctrl { add: a2, mov: m2, seek: 0 }];
    let nd = (a1 + a2) as usize;
    let mut data = vec![0u8; nd];
    let one_in = if old.len() > 2000 { 64 } else { 4 }; // big files: sparse differences (packs well)
    for d in data.iter_mut() {
        if lit {
            *d = 1 + rng.below(255) as u8;
        } else if rng.chance(1, one_in) {
            *d = rng.byte();
        }
    }
    let extra = if lit { (0..m1 + m2).map(|_| 1 + rng.below(255) as u8).collect() } else { rng.bytes((m1 + m2) as usize) };
    (ctrl, data, extra)
}

/// Edit the flags of named entries of a finished archive: (stored name, bits to set, bits to clear).
///
/// Both views of the flags are edited so that whichever table the reader consults agrees:
///  * the classic block table (decrypted / re-encrypted with the public crypto functions; entry index from the
///    classic hash table);
///  * for V3/V4 the BET table: its flags live in a small array of distinct flag words that the bit-packed entries
///    index. Re-packing the table is avoided: the world is built so that, in an archive with a BET table, the
///    entries to be edited are exactly the entries carrying one flag word (all full files there are encrypted), and
///    that one word is edited in place. The BET payload is decrypted / re-encrypted as a whole (the cipher is
///    content-keyed).
/// A V4 header's MD5s of block table, BET table and header are recomputed. Afterwards the archive is re-opened and
/// the flags the READER reports are compared with the intention (harness sanity check, exit 2 if not).
fn edit_flags(path: &Path, edits: &[(String, u32, u32)]) {
    let ar = Archive::open(path).unwrap_or_else(|e| tool_error(&format!("reopen {path:?}: {e}")));
    let classic: Vec<usize> = edits
        .iter()
        .map(|(sn, _, _)| {
            ar.hash_table()
                .and_then(|h| h.find_file(sn, 0))
                .map(|(_, e)| e.block_index as usize)
                .unwrap_or_else(|| tool_error(&format!("flagging: {sn} not in the classic hash table")))
        })
        .collect();
    // BET view: which flag word do the entries to edit carry, and is it theirs alone?
    let mut bet_word: Option<(u32, u32)> = None; // (old word, new word)
    if let Some(bet) = ar.bet_table() {
        if bet.header.file_count > 0 {
            let pre: Vec<u32> = edits
                .iter()
                .map(|(sn, _, _)| ar.find_file(sn).ok().flatten().unwrap_or_else(|| tool_error("flagging: entry not found")).flags)
                .collect();
            let v0 = pre[0];
            let (set, clear) = (edits[0].1, edits[0].2);
            if pre.iter().any(|&x| x != v0) || edits.iter().any(|e| (e.1, e.2) != (set, clear)) {
                tool_error("world: in an archive with a BET table all patch entries must share one storage form");
            }
            let users = (0..bet.header.file_count).filter(|&i| bet.get_file_info(i).map(|x| x.flags) == Some(v0)).count();
            if users != edits.len() {
                tool_error(&format!("world: BET flag word {v0:08x} is used by {users} entries, {} are to be edited", edits.len()));
            }
            bet_word = Some((v0, (v0 | set) & !clear));
        }
    }
    drop(ar);
    let mut f = std::fs::read(path).unwrap_or_else(|e| tool_error(&format!("read {path:?}: {e}")));
    if &f[0..4] != b"MPQ\x1a" {
        tool_error("world archive does not start with an MPQ header at offset 0");
    }
    let rd = |f: &[u8], o: usize| u32::from_le_bytes([f[o], f[o + 1], f[o + 2], f[o + 3]]);
    let hdr_size = rd(&f, 4) as usize;
    let version = u16::from_le_bytes([f[0x0C], f[0x0D]]);
    let bt_hi = if version >= 1 { u16::from_le_bytes([f[0x2A], f[0x2B]]) as usize } else { 0 };
    let bt_pos = rd(&f, 0x14) as usize + (bt_hi << 32);
    let bt_n = rd(&f, 0x1C) as usize;
    let v4 = version >= 3 && hdr_size >= 0xD0;
    if v4 {
        let stored = u64::from_le_bytes(f[0x4C..0x54].try_into().unwrap()) as usize;
        if stored != bt_n * 16 {
            tool_error("world archive has a compressed block table; cannot edit flags");
        }
    }
    let key = hash_string("(block table)", hash_type::FILE_KEY);
    let mut words: Vec<u32> = (0..bt_n * 4).map(|i| rd(&f, bt_pos + 4 * i)).collect();
    decrypt_block(&mut words, key);
    for (k, &(_, set, clear)) in edits.iter().enumerate() {
        let bi = classic[k];
        if bi >= bt_n {
            tool_error("block index out of range while flagging a patch entry");
        }
        words[bi * 4 + 3] = (words[bi * 4 + 3] | set) & !clear;
    }
    encrypt_block(&mut words, key);
    for (i, w) in words.iter().enumerate() {
        f[bt_pos + 4 * i..bt_pos + 4 * i + 4].copy_from_slice(&w.to_le_bytes());
    }
    if let Some((old, new)) = bet_word {
        let bet_pos = u64::from_le_bytes(f[0x34..0x3C].try_into().unwrap()) as usize;
        if bet_pos == 0 || bet_pos + 12 > f.len() || rd(&f, bet_pos) != 0x1A54_4542 {
            tool_error("world archive: BET table not found where the header says");
        }
        let data_size = rd(&f, bet_pos + 8) as usize;
        if bet_pos + 12 + data_size > f.len() {
            tool_error("world archive has a compressed BET table; cannot edit flags");
        }
        if v4 {
            let stored = u64::from_le_bytes(f[0x64..0x6C].try_into().unwrap()) as usize;
            if stored != 12 + data_size {
                tool_error("world archive has a compressed BET table; cannot edit flags");
            }
        }
        let n = data_size / 4; // a trailing partial word is keyed by position only and stays as it is
        let base = bet_pos + 12;
        let mut w: Vec<u32> = (0..n).map(|i| rd(&f, base + 4 * i)).collect();
        decrypt_block(&mut w, key);
        let flag_count = w[18] as usize;
        let hits: Vec<usize> = (0..flag_count).filter(|&j| w[19 + j] == old).collect();
        if hits.len() != 1 {
            tool_error(&format!("world archive: BET flag word {old:08x} occurs {} times in the flag array", hits.len()));
        }
        w[19 + hits[0]] = new;
        encrypt_block(&mut w, key);
        for (i, x) in w.iter().enumerate() {
            f[base + 4 * i..base + 4 * i + 4].copy_from_slice(&x.to_le_bytes());
        }
        if v4 {
            let m = md5_raw(&f[bet_pos..bet_pos + 12 + data_size]);
            f[0xA0..0xB0].copy_from_slice(&m);
        }
    }
    if v4 {
        let m = md5_raw(&f[bt_pos..bt_pos + bt_n * 16]);
        f[0x70..0x80].copy_from_slice(&m);
        let h = md5_raw(&f[0..0xC0]);
        f[0xC0..0xD0].copy_from_slice(&h);
    }
    std::fs::write(path, f).unwrap_or_else(|e| tool_error(&format!("write {path:?}: {e}")));
    // what does the reader see now?
    let ar = Archive::open(path).unwrap_or_else(|e| tool_error(&format!("world archive unreadable after the flag edit: {e}")));
    for (sn, set, clear) in edits {
        let fl = ar.find_file(sn).ok().flatten().unwrap_or_else(|| tool_error("flag edit: entry lost")).flags;
        if fl & set != *set || fl & clear != 0 {
            tool_error(&format!("flag edit of {sn} is not visible to the reader: flags {fl:08x}, wanted +{set:08x} -{clear:08x}"));
        }
    }
    match ar.find_file("(listfile)") {
        Ok(Some(i)) if i.flags & F_PATCH == 0 => {}
        _ => tool_error("flag edit damaged the (listfile) entry"),
    }
}

const F_PATCH: u32 = 0x0010_0000;
const F_COMPRESS: u32 = 0x0000_0200;
const F_SINGLE: u32 = 0x0100_0000;

/// Bytes stored for a patch entry and the flag edits that make the reader see them as intended.
///  raw      TPatchInfo + PTCH                       single unit, as the builder wrote it
///  zsingle  TPatchInfo + [method, zlib(PTCH)]       single unit, COMPRESS set
///  zsect    TPatchInfo + sector table + sectors     SINGLE_UNIT cleared, COMPRESS set; each sector [method, zlib(..)]
fn stored_patch(ptch: &[u8], sto: &str, sector: usize) -> (Vec<u8>, u32, u32) {
    let mut o = mpq_patch_entry(ptch);
    o.truncate(28);
    match sto {
        "zsingle" => {
            let z = wow_mpq::compress(ptch, 0x02).unwrap_or_else(|e| tool_error(&format!("compress: {e}")));
            if z.len() >= ptch.len() {
                o.extend_from_slice(ptch); // did not shrink: stays raw
                return (o, F_PATCH, 0);
            }
            o.extend_from_slice(&z);
            (o, F_PATCH | F_COMPRESS, 0)
        }
        "zsect" => {
            let secs: Vec<Vec<u8>> = ptch
                .chunks(sector)
                .map(|c| {
                    let z = wow_mpq::compress(c, 0x02).unwrap_or_else(|e| tool_error(&format!("compress: {e}")));
                    if z.len() >= c.len() {
                        tool_error("zsect: sector did not shrink (content class must be compressible)");
                    }
                    z
                })
                .collect();
            let mut off = (secs.len() as u32 + 1) * 4;
            for sct in &secs {
                o.extend_from_slice(&off.to_le_bytes());
                off += sct.len() as u32;
            }
            o.extend_from_slice(&off.to_le_bytes());
            for sct in &secs {
                o.extend_from_slice(sct);
            }
            (o, F_PATCH | F_COMPRESS, F_SINGLE)
        }
        _ => {
            o.extend_from_slice(ptch);
            (o, F_PATCH, 0)
        }
    }
}

fn build_world(w: &Value, dir: &Path, seed: u64) -> World {
    let names: Vec<String> = ga(w, "names").iter().map(|x| x.as_str().unwrap().to_string()).collect();
    let archs = w.get("archives").and_then(|x| x.as_object()).unwrap_or_else(|| tool_error("world.archives"));
    let arch_ids: Vec<String> = archs.keys().cloned().collect();
    // 1. contents: plain ids are free (random bytes); patch `after` ids are defined by their patch
    let mut bytes: BTreeMap<String, Vec<u8>> = BTreeMap::new();
    // ids "Br.." / "Bt..": ~10 KB random / text (multi-sector in the archives with 4 KiB sectors)
    let plain = |id: &str| -> Vec<u8> {
        let mut r = Rng::derive(seed, &format!("c08-content-{id}"));
        if id == "E0" {
            // the distinguished content of length zero (PatchChain!EmptyC)
            Vec::new()
        } else if id.starts_with("Br") {
            let len = 9000 + r.below(2500) as usize;
            r.bytes(len)
        } else if id.starts_with("Bt") {
            let len = 9000 + r.below(2500) as usize;
            gen_content("text", len, &mut r)
        } else {
            let len = 24 + r.below(180) as usize;
            r.bytes(len)
        }
    };
    let mut patches: Vec<(String, String, Value)> = Vec::new(); // (arch, name, entry)
    for (a, row) in archs {
        for n in &names {
            let e = &row[n];
            match gs(e, "kind") {
                "plain" => {
                    let id = gs(e, "c");
                    bytes.entry(id.to_string()).or_insert_with(|| plain(id));
                }
                "patch" => patches.push((a.clone(), n.clone(), e.clone())),
                _ => {}
            }
        }
    }
    // patch payloads, resolved in dependency order (before must be known)
    let mut ptch_bytes: BTreeMap<(String, String), Vec<u8>> = BTreeMap::new();
    let mut pending = patches.clone();
    let mut guard = 0;
    while !pending.is_empty() {
        guard += 1;
        if guard > 100 {
            tool_error("world: cyclic patch content definitions");
        }
        let mut rest = Vec::new();
        for (a, n, e) in pending {
            let before = gs(&e, "before").to_string();
            let after = gs(&e, "after").to_string();
            let cls = gs(&e, "cls");
            // a `before` that nothing defines is a free content (e.g. a base that is in no archive)
            let defined_later = patches.iter().any(|(_, _, p)| gs(p, "after") == before && gs(p, "cls").contains("bsd0"));
            if !bytes.contains_key(&before) {
                if defined_later {
                    rest.push((a, n, e));
                    continue;
                }
                bytes.insert(before.clone(), plain(&before));
            }
            let old = bytes[&before].clone();
            let mut rng = Rng::derive(seed, &format!("c08-patch-{a}-{n}"));
            let p = match cls {
                "copy" | "corrupt" | "zerocopy" => {
                    let newc = bytes.entry(after.clone()).or_insert_with(|| plain(&after)).clone();
                    let mut p = make_copy(&old, &newc);
                    if cls == "zerocopy" {
                        // "no digest recorded" and a payload that is not the intended content
                        for b in p[40..56].iter_mut() {
                            *b = 0;
                        }
                        let k = p.len() - 1;
                        p[k] ^= 0x40;
                    }
                    if cls == "corrupt" {
                        // parses, base verifies, but the payload no longer has the declared digest
                        let k = p.len() - 1 - rng.below(newc.len() as u64) as usize;
                        p[k] ^= 0x40;
                    }
                    p
                }
                "bsd0" | "bsd0neg" | "bsd0lit" | "zerobsd0" => {
                    let (ctrl, data, extra) = gen_bsd0_plan(&old, cls, &mut rng);
                    let (mut p, newc) = make_bsd0(&old, &ctrl, &data, &extra);
                    bytes.insert(after.clone(), newc);
                    if cls == "zerobsd0" {
                        for b in p[40..56].iter_mut() {
                            *b = 0;
                        }
                        let k = p.len() - 1; // last literal of the extra block
                        p[k] ^= 0x40;
                    }
                    p
                }
                "garbage" => {
                    // an entry flagged as patch whose payload is not a PTCH file at all
                    bytes.entry(after.clone()).or_insert_with(|| plain(&after));
                    let mut g = rng.bytes(96);
                    g[0..4].copy_from_slice(b"XTCH");
                    g
                }
                other => tool_error(&format!("unknown patch class {other}")),
            };
            ptch_bytes.insert((a, n), p);
        }
        pending = rest;
    }
    // 2. archives
    let mut paths = BTreeMap::new();
    let mut by_path = BTreeMap::new();
    let mut lf_content: BTreeMap<String, Vec<u8>> = BTreeMap::new();
    for (a, row) in archs {
        let path = dir.join(format!("{a}.mpq"));
        let fmt = &w["fmt"][a];
        let (ver, shift) = if fmt.is_object() { (gi(fmt, "ver"), gi(fmt, "shift") as u16) } else { (1, 5) };
        let version = match ver {
            2 => wow_mpq::FormatVersion::V2,
            3 => wow_mpq::FormatVersion::V3,
            4 => wow_mpq::FormatVersion::V4,
            _ => wow_mpq::FormatVersion::V1,
        };
        let sector = 512usize << shift;
        let mut b = ArchiveBuilder::new().version(version).block_size(shift);
        let mut listed = String::new();
        let mut flagged: Vec<(String, u32, u32)> = Vec::new();
        for n in &names {
            if n == "lf" {
                continue;
            }
            let e = &row[n];
            let sn = stored_name(a, n);
            match gs(e, "kind") {
                "plain" => {
                    // alternate compression so that both stored forms occur
                    let id = gs(e, "c");
                    let comp = if id.starts_with("Br") { 0 } else if id.starts_with("Bt") { 0x02 } else if bytes[id].len() % 2 == 0 { 0x02 } else { 0 };
                    // archives with a BET table (V3/V4): full files are encrypted, so that the flag word of the
                    // raw patch entries is theirs alone (see edit_flags)
                    b = b.add_file_data_with_options(bytes[gs(e, "c")].clone(), &sn, comp, ver >= 3, 0);
                }
                "patch" => {
                    let sto = e.get("sto").and_then(|x| x.as_str()).unwrap_or("raw");
                    let (entry, set, clear) = stored_patch(&ptch_bytes[&(a.clone(), n.clone())], sto, sector);
                    if entry.len() > sector {
                        tool_error(&format!("world: stored patch entry {a}/{n} ({} bytes) exceeds one sector; the builder would re-sector it", entry.len()));
                    }
                    b = b.add_file_data_with_options(entry, &sn, 0, false, 0);
                    flagged.push((sn.clone(), set, clear));
                }
                _ => continue,
            }
            listed.push_str(&sn);
            listed.push_str("\r\n");
        }
        listed.push_str("(listfile)\r\n");
        lf_content.insert(a.clone(), listed.into_bytes());
        b.build(&path).unwrap_or_else(|e| tool_error(&format!("building world archive {a}: {e}")));
        if !flagged.is_empty() {
            edit_flags(&path, &flagged);
        }
        by_path.insert(path.clone(), a.clone());
        paths.insert(a.clone(), path);
    }
    // 3. tokens of every content id (+ the generated listfiles as contents "lf:<arch>")
    let mut ctok: BTreeMap<String, String> = bytes.iter().map(|(k, v)| (k.clone(), tok(v))).collect();
    for (a, v) in &lf_content {
        ctok.insert(format!("lf{a}"), tok(v));
    }
    let real = names.iter().map(|n| (n.clone(), real_name(n))).collect();
    World { names, arch_ids, paths, by_path, json: w.clone(), ctok, real }
}

impl World {
    fn path_of(&self, a: &str, dir: &Path) -> PathBuf {
        self.paths.get(a).cloned().unwrap_or_else(|| dir.join(format!("{a}-does-not-exist.mpq")))
    }
    fn arch_of(&self, p: &Path) -> String {
        self.by_path.get(p).cloned().unwrap_or_else(|| format!("?{}", p.display()))
    }
    /// abstract name of a listed file name (case / separator folded), if it is one of ours
    fn abstract_of(&self, listed: &str) -> Option<String> {
        let k = listed.replace('/', "\\").to_uppercase();
        self.real.iter().find(|(_, r)| r.to_uppercase() == k).map(|(n, _)| n.clone())
    }
    fn reset_event(&self, case: &str) -> Value {
        json!({"ev":"Reset","case":case,"hook":cfg!(have_verif_yield),"names":self.names,"world":self.json["archives"],"ctok":self.ctok})
    }
}

// ------------------------------------------------------------------------------------------
// schedule perturbation of the parallel constructors (verif_yield hook of the tree under test)
// ------------------------------------------------------------------------------------------
static HOOK_SEED: std::sync::atomic::AtomicU64 = std::sync::atomic::AtomicU64::new(1);
#[allow(dead_code)]
fn yield_hook(_tag: &'static str) {
    thread_local!(static R: std::cell::Cell<u64> = const { std::cell::Cell::new(0) });
    R.with(|r| {
        let mut x = r.get();
        if x == 0 {
            x = HOOK_SEED.fetch_add(0x9E37_79B9, std::sync::atomic::Ordering::Relaxed) | 1;
        }
        x ^= x << 13;
        x ^= x >> 7;
        x ^= x << 17;
        r.set(x);
        match x % 8 {
            0..=3 => std::thread::yield_now(),
            4 | 5 => {
                let until = std::time::Instant::now() + std::time::Duration::from_micros(1 + (x >> 8) % 40);
                while std::time::Instant::now() < until {
                    std::hint::spin_loop();
                }
            }
            6 => std::thread::sleep(std::time::Duration::from_micros(20 + (x >> 8) % 80)),
            _ => {}
        }
    });
}

// ------------------------------------------------------------------------------------------
// replaying operations on the real PatchChain
// ------------------------------------------------------------------------------------------

fn spellings(real: &str) -> [String; 3] {
    // canonical, case-flipped with forward slashes, lower case
    let flipped: String = real
        .chars()
        .map(|c| if c.is_ascii_lowercase() { c.to_ascii_uppercase() } else { c.to_ascii_lowercase() })
        .collect();
    [real.to_string(), flipped.replace('\\', "/"), real.to_ascii_lowercase()]
}

fn read_obs(chain: &mut PatchChain, name: &str) -> Value {
    // [class, token, variant]; class in ok | notfound | err | panic | hang
    match guarded(|| chain.read_file(name)) {
        Outcome::Done(Ok(d)) => json!(["ok", tok(&d), ""]),
        Outcome::Done(Err(wow_mpq::Error::FileNotFound(m))) if !m.contains("No base file") => json!(["notfound", "", ""]),
        Outcome::Done(Err(e)) => json!(["err", "", variant_name(&e)]),
        Outcome::Panic(m) => json!(["panic", "", m]),
        Outcome::Hang => json!(["hang", "", ""]),
    }
}

fn sweep(w: &World, chain: &mut PatchChain) -> Value {
    let mut rd = [Vec::new(), Vec::new(), Vec::new()];
    let mut has = Vec::new();
    let mut fnd = Vec::new();
    let mut panics: Vec<String> = Vec::new();
    for n in &w.names {
        let sp = spellings(&w.real[n]);
        for k in 0..3 {
            rd[k].push(read_obs(chain, &sp[k]));
        }
        // a panic of the code under test is data: recorded in `panics`, never a harness failure
        match guarded(|| [chain.contains_file(&sp[0]), chain.contains_file(&sp[1]), chain.contains_file(&sp[2])]) {
            Outcome::Done(h) => has.push(json!(h)),
            _ => {
                panics.push(format!("contains:{n}"));
                has.push(json!([false, false, false]));
            }
        }
        match guarded(|| chain.find_file_archive(&sp[1]).map(|p| w.arch_of(p)).unwrap_or_default()) {
            Outcome::Done(f) => fnd.push(json!(f)),
            _ => {
                panics.push(format!("find:{n}"));
                fnd.push(json!(""));
            }
        }
    }
    let (lres, lst, lstx) = match guarded(|| chain.list()) {
        Outcome::Done(Ok(es)) => {
            let mut known: Vec<String> = Vec::new();
            let mut unknown: Vec<String> = Vec::new();
            for e in es {
                match w.abstract_of(&e.name) {
                    Some(n) => known.push(n),
                    None => unknown.push(e.name),
                }
            }
            ("ok".to_string(), known, unknown)
        }
        Outcome::Done(Err(_)) => ("err".to_string(), vec![], vec![]),
        Outcome::Panic(_) => ("panic".into(), vec![], vec![]),
        Outcome::Hang => ("hang".into(), vec![], vec![]),
    };
    // the batch entry point: one extract_files call over all names (canonical spelling), answers in request order
    let canon: Vec<String> = w.names.iter().map(|n| spellings(&w.real[n])[0].clone()).collect();
    let refs: Vec<&str> = canon.iter().map(|x| x.as_str()).collect();
    let rdx: Vec<Value> = match guarded(|| chain.extract_files(&refs)) {
        Outcome::Done(v) => (0..canon.len())
            .map(|i| match v.get(i) {
                Some((nm, r)) if *nm == canon[i] => match r {
                    Ok(d) => json!(["ok", tok(d), ""]),
                    Err(wow_mpq::Error::FileNotFound(m)) if !m.contains("No base file") => json!(["notfound", "", ""]),
                    Err(e) => json!(["err", "", variant_name(e)]),
                },
                _ => json!(["missing", "", ""]),
            })
            .collect(),
        Outcome::Panic(m) => canon.iter().map(|_| json!(["panic", "", m])).collect(),
        Outcome::Hang => canon.iter().map(|_| json!(["hang", "", ""])).collect(),
    };
    json!({"rd":rd[0],"rd2":rd[1],"rd3":rd[2],"rdx":rdx,"has":has,"fnd":fnd,"lres":lres,"lst":lst,"lstx":lstx,"panics":panics})
}

fn list_arg(w: &World, dir: &Path, op: &Value) -> Vec<(PathBuf, i32)> {
    ga(op, "l").iter().map(|x| (w.path_of(gs(x, "a"), dir), gi(x, "p") as i32)).collect()
}

/// apply one abstract op to the real chain; returns the result class
fn apply_op(w: &World, dir: &Path, chain: &mut PatchChain, op: &Value) -> (String, String) {
    let kind = gs(op, "op");
    let a = gs(op, "a");
    let p = gi(op, "p") as i32;
    let path = w.path_of(a, dir);
    let r = guarded(|| -> Result<String, wow_mpq::Error> {
        match kind {
            "new" => {
                *chain = PatchChain::new();
                Ok("ok".into())
            }
            "add" => chain.add_archive(&path, p).map(|_| "ok".into()),
            "set" => chain.set_priority(&path, p).map(|_| "ok".into()),
            "remove" => chain.remove_archive(&path).map(|b| if b { "ok".into() } else { "absent".into() }),
            "clear" => {
                chain.clear();
                Ok("ok".into())
            }
            "fromPar" => {
                let c = PatchChain::from_archives_parallel(list_arg(w, dir, op))?;
                *chain = c;
                Ok("ok".into())
            }
            "addPar" => chain.add_archives_parallel(list_arg(w, dir, op)).map(|_| "ok".into()),
            other => tool_error(&format!("unknown op {other}")),
        }
    });
    match r {
        Outcome::Done(Ok(s)) => (s, String::new()),
        Outcome::Done(Err(e)) => ("err".into(), variant_name(&e)),
        Outcome::Panic(m) => ("panic".into(), m),
        Outcome::Hang => ("hang".into(), String::new()),
    }
}

fn chain_obs(w: &World, chain: &mut PatchChain) -> Value {
    match guarded(|| chain.get_chain_info()) {
        Outcome::Done(info) => Value::Array(info.iter().map(|i| json!([w.arch_of(&i.path), i.priority])).collect()),
        _ => json!([["?panic", 0]]),
    }
}

fn op_event(w: &World, dir: &Path, chain: &mut PatchChain, case: &str, op: &Value, do_sweep: bool) -> Value {
    let (res, resv) = apply_op(w, dir, chain, op);
    let n = chain.archive_count();
    let ch = chain_obs(w, chain);
    let sw = if do_sweep {
        sweep(w, chain)
    } else {
        json!({"rd":[],"rd2":[],"rd3":[],"rdx":[],"has":[],"fnd":[],"lres":"","lst":[],"lstx":[],"panics":[]})
    };
    json!({"ev":"Op","case":case,"op":gs(op,"op"),"a":gs(op,"a"),"p":gi(op,"p"),"l":op["l"],
           "res":res,"resv":resv,"count":n,"chain":ch,"sw":do_sweep,"obs":sw})
}

// ------------------------------------------------------------------------------------------
// direct patch application (Trace_Ptch)
// ------------------------------------------------------------------------------------------

fn put32(b: &mut [u8], off: usize, v: u32) {
    if off + 4 <= b.len() {
        b[off..off + 4].copy_from_slice(&v.to_le_bytes());
    }
}

/// Concretise one abstract patch plan: returns (base, ptch file bytes, intended new content).
fn concretise_plan(c: &Value, rng: &mut Rng) -> (Vec<u8>, Vec<u8>, Vec<u8>) {
    let old_len = gi(c, "oldLen") as usize;
    let alpha = gs(c, "alpha");
    let mut old = match alpha {
        "zeros" => vec![0u8; old_len],
        "high" => (0..old_len).map(|_| 0x80 | rng.byte()).collect(),
        _ => rng.bytes(old_len),
    };
    if alpha == "sparse" {
        for (i, b) in old.iter_mut().enumerate() {
            if i % 3 != 0 {
                *b = 0;
            }
        }
    }
    let shape = gs(c, "shape");
    let (mut file, newc) = if shape == "copy" {
        let nl = gi(c, "newLen") as usize;
        let newc = rng.bytes(nl);
        (make_copy(&old, &newc), newc)
    } else {
        let ctrl: Vec<Ctrl> = ga(c, "ctrl")
            .iter()
            .map(|t| {
                let t = t.as_array().unwrap();
                Ctrl { add: t[0].as_i64().unwrap() as u32, mov: t[1].as_i64().unwrap() as u32, seek: t[2].as_i64().unwrap() }
            })
            .collect();
        let nd: usize = ctrl.iter().map(|x| x.add as usize).sum();
        let ne: usize = ctrl.iter().map(|x| x.mov as usize).sum();
        let dens = gi(c, "density") as u64; // out of 4: how many diff bytes are non-zero
        let mut data = vec![0u8; nd];
        for d in data.iter_mut() {
            if rng.below(4) < dens {
                *d = 1 + rng.below(255) as u8;
            }
        }
        let mut extra = rng.bytes(ne);
        // "runs" plans (RLE control-byte space): one block of the image is laid out as runs <<kind, length>>,
        // kind 1 = non-zero bytes, 0 = zero bytes
        let runs = c.get("runs").and_then(|x| x.as_array()).cloned().unwrap_or_default();
        if !runs.is_empty() {
            let mut block = Vec::new();
            for r in &runs {
                let r = r.as_array().unwrap_or_else(|| tool_error("plan.runs"));
                let (k, n) = (r[0].as_i64().unwrap_or(0), r[1].as_i64().unwrap_or(0) as usize);
                for _ in 0..n {
                    block.push(if k == 0 { 0 } else { 1 + rng.below(255) as u8 });
                }
            }
            if gs(c, "blk") == "data" {
                if block.len() != nd {
                    tool_error("plan.runs: block length differs from the add total");
                }
                data = block;
            } else {
                if block.len() != ne {
                    tool_error("plan.runs: block length differs from the mov total");
                }
                extra = block;
            }
        }
        // encoder-level mutations (inside the RLE-packed bsdiff image): one control field or one
        // 64-bit header field replaced; digests and sizes stay those of the intended result
        let m = &c["mut"];
        let special = |v: i64| -> u64 {
            match v {
                -1 => 0xFFFF_FFFF,
                -2 => 0x8000_0000,
                -3 => 0x7FFF_FFFF,
                -4 => 0xFFFF_FFFF_FFFF_FFFF,
                -5 => 0x1_0000_0000,
                v => v as u64,
            }
        };
        let newc = encode_apply(&old, &ctrl, &data, &extra);
        let mut raw: Vec<[u32; 3]> = ctrl.iter().map(|c| [c.add, c.mov, seek_raw(c.seek)]).collect();
        if gs(m, "k") == "ctrl" {
            let idx = gi(m, "off") as usize / 3;
            let fld = gi(m, "off") as usize % 3;
            if idx < raw.len() {
                let v = gi(m, "v");
                raw[idx][fld] = if v <= -10 { raw[idx][fld].wrapping_add((v + 20) as u32) } else { special(v) as u32 };
            }
        }
        let mut img = bsdiff_image(&raw, &data, &extra, newc.len() as u64);
        if gs(m, "k") == "img64" {
            let off = gi(m, "off") as usize;
            let v = gi(m, "v");
            let cur = u64::from_le_bytes(img[off..off + 8].try_into().unwrap());
            let nv = if v <= -10 { cur.wrapping_add((v + 20) as u64) } else { special(v) };
            img[off..off + 8].copy_from_slice(&nv.to_le_bytes());
        }
        let mut payload = (img.len() as u32).to_le_bytes().to_vec();
        payload.extend_from_slice(&rle_encode(&img));
        let h = Header {
            patch_data_size: img.len() as u32,
            size_before: old.len() as u32,
            size_after: newc.len() as u32,
            md5_before: md5_raw(&old),
            md5_after: md5_raw(&newc),
            xfrm_block_size: 12 + payload.len() as u32,
            kind: BSD0,
        };
        (ptch_file(&h, &payload), newc)
    };
    // mutation of the finished file / of the base
    let m = &c["mut"];
    let mk = gs(m, "k");
    let arg = gi(m, "v");
    let val: u32 = match arg {
        -1 => 0xFFFF_FFFF,
        -2 => 0x8000_0000,
        -3 => 0x7FFF_FFFF,
        v => v as u32,
    };
    let rd = |b: &[u8], o: usize| u32::from_le_bytes([b[o], b[o + 1], b[o + 2], b[o + 3]]);
    match mk {
        "none" | "ctrl" | "img64" => {}
        // header words: absolute (set) or relative (delta) changes
        "set32" => put32(&mut file, gi(m, "off") as usize, val),
        "add32" => {
            let off = gi(m, "off") as usize;
            if off + 4 <= file.len() {
                let v = rd(&file, off).wrapping_add(arg as u32);
                put32(&mut file, off, v);
            }
        }
        "flip" => {
            // byte at a position given as per-mille of the file length
            let pos = ((file.len() - 1) as i64 * gi(m, "off") / 1000) as usize;
            file[pos] ^= 1 << (arg as u32 % 8);
        }
        "trunc" => {
            let keep = gi(m, "off") as usize;
            file.truncate(keep.min(file.len()));
        }
        "truncTail" => {
            let cut = gi(m, "off") as usize;
            let l = file.len().saturating_sub(cut);
            file.truncate(l);
        }
        "payload" | "dig" | "dig+payload" | "dig+base" => {
            if mk != "payload" {
                let off = gi(m, "off") as usize;
                for b in file[off..off + 16].iter_mut() {
                    *b = arg as u8;
                }
            }
            if mk == "payload" || mk == "dig+payload" {
                let k = file.len() - 1; // last payload byte: a COPY byte / the last literal of the extra block
                if k >= 68 {
                    file[k] ^= 0x40;
                }
            }
            if mk == "dig+base" {
                if old.is_empty() {
                    old.push(1);
                } else {
                    let pos = old.len() / 2;
                    old[pos] ^= 0x20;
                }
            }
        }
        "base" => {
            // the base is not the one the patch was made for
            if old.is_empty() {
                old.push(1);
            } else {
                let pos = (old.len() - 1) * (gi(m, "off") as usize) / 1000;
                old[pos] ^= 0x20;
            }
        }
        "baseLen" => {
            if arg > 0 {
                old.push(0);
            } else {
                old.pop();
            }
        }
        other => tool_error(&format!("unknown mutation {other}")),
    }
    (old, file, newc)
}

fn plan_event(case: &str, c: &Value, rng: &mut Rng) -> Value {
    let (base, file, newc) = concretise_plan(c, rng);
    let f2 = file.clone();
    let b2 = base.clone();
    let out = with_watchdog(std::time::Duration::from_secs(20), move || {
        let parsed = PatchFile::parse(&f2);
        match parsed {
            Err(e) => ("parse".to_string(), "err".to_string(), variant_name(&e), Vec::new()),
            Ok(pf) => match apply_patch(&pf, &b2) {
                Ok(d) => ("apply".to_string(), "ok".to_string(), String::new(), d),
                Err(e) => ("apply".to_string(), "err".to_string(), variant_name(&e), Vec::new()),
            },
        }
    });
    let (stage, res, resv, data) = match out {
        Outcome::Done((s, r, v, d)) => (s, r, v, d),
        Outcome::Panic(m) => ("apply".into(), "panic".into(), m, Vec::new()),
        Outcome::Hang => ("apply".into(), "hang".into(), String::new(), Vec::new()),
    };
    json!({"ev":"Apply","case":case,"shape":gs(c,"shape"),"mut":c["mut"],"neg":gb(c,"neg"),
           "file":file,"base":base,"newc":newc,
           "md5base":md5_raw(&base).to_vec(),"md5new":md5_raw(&newc).to_vec(),
           "stage":stage,"res":res,"resv":resv,"out":data.clone(),"md5out":md5_raw(&data).to_vec()})
}

// ------------------------------------------------------------------------------------------

fn main() {
    let a = args();
    install_quiet_panic_hook();
    let cases = read_cases(&a.cases);
    let trace = Trace::create(&a.trace);
    let seed = seed();
    let scratch = Scratch::new("c08");
    let dir = scratch.path.clone();
    let per_reset = 40usize;

    if a.extra.first().map(|s| s.as_str()) == Some("plans") {
        let mut emitted = 0usize;
        for (ci, c) in cases.iter().enumerate() {
            if gs(c, "kind") != "plan" {
                continue;
            }
            if emitted % 50 == 0 {
                trace.ev(json!({"ev":"Reset","case":format!("{ci}:plans")}));
            }
            emitted += 1;
            let case = format!("{ci}:{}:{}", gs(c, "shape"), gs(&c["mut"], "k"));
            let mut rng = Rng::derive(seed, &format!("c08-plan-{ci}"));
            trace.ev(plan_event(&case, c, &mut rng));
        }
        return;
    }

    #[cfg(have_verif_yield)]
    {
        HOOK_SEED.store(seed.wrapping_mul(0x2545_F491_4F6C_DD1D) | 1, std::sync::atomic::Ordering::Relaxed);
        wow_mpq::verif::set_yield_hook(Some(yield_hook));
    }
    let wcase = cases.iter().find(|c| gs(c, "kind") == "world").unwrap_or_else(|| tool_error("no world case"));
    let world = build_world(wcase, &dir, seed);
    let idx: Vec<usize> = (0..cases.len()).filter(|&i| matches!(gs(&cases[i], "kind"), "hist" | "walk")).collect();
    let groups: Vec<&[usize]> = idx.chunks(per_reset).collect();
    // parallel construction is exercised under contention: spinning threads + yields
    let stop = std::sync::atomic::AtomicBool::new(false);
    std::thread::scope(|s| {
        for _ in 0..4 {
            s.spawn(|| {
                let mut x = 0u64;
                while !stop.load(std::sync::atomic::Ordering::Relaxed) {
                    x = x.wrapping_mul(6364136223846793005).wrapping_add(1);
                    if x % 1024 == 0 {
                        std::thread::yield_now();
                    }
                }
            });
        }
        struct StopOnDrop<'a>(&'a std::sync::atomic::AtomicBool);
        impl Drop for StopOnDrop<'_> {
            fn drop(&mut self) {
                self.0.store(true, std::sync::atomic::Ordering::Relaxed);
            }
        }
        let _stop_guard = StopOnDrop(&stop);
        let blocks: std::sync::Mutex<Vec<Vec<Value>>> = std::sync::Mutex::new(vec![Vec::new(); groups.len()]);
        par_for(groups.len(), 6, |g| {
            let mut evs = Vec::new();
            evs.push(world.reset_event(&format!("{}:reset", groups[g][0])));
            for &ci in groups[g] {
                let c = &cases[ci];
                let mut chain = PatchChain::new();
                let newop = json!({"op":"new","a":"","p":0,"l":[]});
                if gs(c, "kind") == "hist" {
                    let case = format!("{ci}:hist:{}", gs(&c["op"], "op"));
                    evs.push(op_event(&world, &dir, &mut chain, &case, &newop, false));
                    for op in ga(c, "pre") {
                        evs.push(op_event(&world, &dir, &mut chain, &case, op, false));
                    }
                    evs.push(op_event(&world, &dir, &mut chain, &case, &c["op"], true));
                } else {
                    let case = format!("{ci}:walk");
                    evs.push(op_event(&world, &dir, &mut chain, &case, &newop, false));
                    for op in ga(c, "ops") {
                        evs.push(op_event(&world, &dir, &mut chain, &case, op, true));
                    }
                }
            }
            blocks.lock().unwrap()[g] = evs;
        });
        // written in case order: the trace is a deterministic function of (tree, seed, cases)
        for b in blocks.into_inner().unwrap() {
            trace.block(b);
        }
        stop.store(true, std::sync::atomic::Ordering::Relaxed);
    });
    let _ = &world.arch_ids;
}
