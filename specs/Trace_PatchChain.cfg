CONSTANT Cont <- TraceWorld
INIT Init
NEXT Next
INVARIANT Sorted
INVARIANT StableAmongEquals
INVARIANT MapIsWinner
POSTCONDITION Accepted
CHECK_DEADLOCK FALSE
