CONSTANT Dev = {}
INIT GInit
NEXT GNext
CHECK_DEADLOCK FALSE
