---------------------------- MODULE Gen_StormFfi ----------------------------
(* Stage (B) for C19: TLC produces the call histories / thread programs the driver replays.       *)
(*   GEN_MODE = "enum": every single call (every function x handle class {NULL, read-only archive, *)
(*       writable archive, open file, open search, closed file, closed search, closed archive,     *)
(*       never issued} x buffer / offset classes) after a fixed setup history; in thorough also    *)
(*       every ordered pair of calls of the reduced argument classes (seed-rotated sample).        *)
(*   simulate ("seq"/"mt" configurations): whole behaviours of the machine; the history of         *)
(*       invocations of each behaviour is one case (programs of <= Budget calls per thread).       *)
EXTENDS MC_StormFfi, Json, IOUtils, SequencesExt

VARIABLES ghist, gdone
gvars == <<mcvars, ghist, gdone>>

CallRec(c) == [fn |-> c[1], h |-> c[2], name |-> c[3], n1 |-> c[4], n2 |-> c[5], dat |-> c[6]]
C(fn, h, name, n1, n2) == [fn |-> fn, h |-> h, name |-> name, n1 |-> n1, n2 |-> n2, dat |-> <<>>]
\* the history that leads to MCInit with PreOpen = 5 on the real API
Setup == << C("OpenArchive", 0, "A", 0, 0), C("OpenArchive", 0, "B", 1, 0), C("OpenFileEx", 1, "f0", 0, 0),
            C("ReadFile", 3, "", 1, 0), C("FindFirst", 1, "", 0, 0),
            C("OpenFileEx", 1, "f1", 0, 0), C("CloseFile", 5, "", 0, 0),
            C("FindFirst", 2, "", 0, 0), C("FindClose", 6, "", 0, 0),
            C("OpenArchive", 0, "A", 0, 0), C("CloseArchive", 7, "", 0, 0) >>
SetupN(n) == CASE n = 5 -> Setup [] n = 4 -> SubSeq(Setup, 1, 5) [] n = 3 -> SubSeq(Setup, 1, 4)
               [] n = 2 -> SubSeq(Setup, 1, 2) [] n = 1 -> SubSeq(Setup, 1, 1) [] OTHER -> <<>>
DiskJ == [f \in ArchFiles |-> [x \in Names |-> Disk0[f][x]]]

GInit == MCInit /\ ghist = [t \in Threads |-> <<>>] /\ gdone = FALSE

GInvoke(t) ==
    /\ ~gdone /\ vbudget[t] > 0
    /\ \E fn \in CallFns : \E c \in CallsOf(fn) :
          /\ (c[1] = "OpenArchive" => vnext <= MaxOpen)
          /\ (c[1] = "OpenArchive" /\ c[4] # 0 => \A a \in DOMAIN varch : varch[a].file # c[3])
          /\ Invoke(t, c[1], c[2], c[3], c[4], c[5], c[6])
          /\ ghist' = [ghist EXCEPT ![t] = Append(@, CallRec(c))]
    /\ vbudget' = [vbudget EXCEPT ![t] = @ - 1]
    /\ UNCHANGED gdone
GStep(t) == ~gdone /\ Step(t) /\ UNCHANGED <<vbudget, ghist, gdone>>
TName(t) == CASE t = CHOOSE x \in Threads : TRUE -> "T1" [] OTHER -> "T2"
GDone ==
    /\ ~gdone /\ \A t \in Threads : vpc[t] = "Idle" /\ vbudget[t] = 0
    /\ gdone' = TRUE
    /\ PrintT("CASE " \o ToJson([kind |-> IF Cardinality(Threads) = 1 THEN "seq" ELSE "mt", disk |-> DiskJ,
                                 setup |-> SetupN(PreOpen), prog |-> ghist, label |-> "sim"]))
    /\ UNCHANGED <<mcvars, ghist>>
GNext == (\E t \in Threads : GInvoke(t) \/ GStep(t)) \/ GDone

\* ---- enumeration (constant level): handles 0..8 as prepared by Setup ------------------------------
Thorough == IOEnv.VERIF_TIER = "thorough"
EnumMode == "GEN_MODE" \in DOMAIN IOEnv /\ IOEnv.GEN_MODE = "enum"
EHandles == 0..8
ECalls(fn, rich) ==
    LET H == EHandles IN
    CASE fn = "OpenArchive"    -> {<<fn, 0, f, 0, 0, <<>>>> : f \in ArchFiles \cup {"nofile"}} \cup {<<fn, 0, "B", 2, 0, <<>>>>}
      [] fn = "CloseArchive"   -> {<<fn, h, "", 0, 0, <<>>>> : h \in H}
      [] fn = "OpenFileEx"     -> {<<fn, h, x, 0, 0, <<>>>> : h \in H, x \in (IF rich THEN ArgNames ELSE {"f0"})}
      [] fn = "CloseFile"      -> {<<fn, h, "", 0, 0, <<>>>> : h \in H}
      [] fn = "ReadFile"       -> IF rich THEN {<<fn, h, "", req, 0, <<>>>> : h \in H, req \in {0, 1, 2, 3}}
                                              \cup {<<fn, h, "", 2147483647, k, <<>>>> : h \in H, k \in {0, 1}}
                                  ELSE {<<fn, h, "", 3, 0, <<>>>> : h \in H}
      [] fn = "GetFileSize"    -> {<<fn, h, "", 0, 0, <<>>>> : h \in H}
      [] fn = "SetFilePointer" -> IF rich THEN {<<fn, h, "", off, m, <<>>>> : h \in H,
                                                   off \in {0, 1, 2, 3, -1, -2, -3, 2147483647, -2147483647 - 1}, m \in {0, 1, 2, 7}}
                                  ELSE {<<fn, h, "", -1, 1, <<>>>> : h \in H}
      [] fn = "GetFileName"    -> {<<fn, h, "", 0, 0, <<>>>> : h \in H}
      [] fn = "GetFileInfo"    -> IF rich THEN {<<fn, h, "", c, b, <<>>>> : h \in H, c \in {1, 2, 7, 10, 99}, b \in {0, 3, 4, 7, 8, 16}}
                                  ELSE {<<fn, h, "", 10, 8, <<>>>> : h \in H}
      [] fn = "HasFile"        -> {<<fn, h, x, 0, 0, <<>>>> : h \in H, x \in (IF rich THEN ArgNames ELSE {"f0"})}
      [] fn = "VerifyFile"     -> {<<fn, h, x, 0, 0, <<>>>> : h \in H, x \in (IF rich THEN {"f0", "f3"} ELSE {"f0"})}
      [] fn = "EnumFiles"      -> {<<fn, h, "", 0, 0, <<>>>> : h \in H}
      [] fn = "GetArchiveName" -> {<<fn, h, "", 0, b, <<>>>> : h \in H, b \in (IF rich THEN {0, 1, 2, 3} ELSE {1})}
      [] fn = "ExtractFile"    -> {<<fn, h, x, 0, 0, <<>>>> : h \in H, x \in (IF rich THEN {"f0", "f2", "f3"} ELSE {"f2"})}
      [] fn = "AddFile"        -> {<<fn, h, x, k, 0, D2>> : h \in H, x \in (IF rich THEN {"f0", "f3"} ELSE {"f3"}), k \in (IF rich THEN {0, 1} ELSE {0})}
      [] fn = "RemoveFile"     -> {<<fn, h, x, 0, 0, <<>>>> : h \in H, x \in (IF rich THEN {"f0", "f3"} ELSE {"f3"})}
      [] fn = "RenameFile"     -> {<<fn, h, "f3", 0, 0, <<"f1">>>> : h \in H}
      [] fn = "FlushArchive"   -> {<<fn, h, "", k, 0, <<>>>> : h \in H, k \in {0, 1}}
      [] fn = "VerifyArchive"  -> {<<fn, h, "", k, 0, <<>>>> : h \in H, k \in {0, 1}}
      [] fn = "FindFirst"      -> {<<fn, h, "", 0, 0, <<>>>> : h \in H}
      [] fn = "FindNext"       -> {<<fn, h, "", 0, 0, <<>>>> : h \in H}
      [] fn = "FindClose"      -> {<<fn, h, "", 0, 0, <<>>>> : h \in H}
Singles == UNION {ECalls(fn, TRUE) : fn \in Fns}
Reduced == UNION {ECalls(fn, FALSE) : fn \in Fns}
ECase(calls, lab) == [kind |-> "seq", disk |-> DiskJ, setup |-> Setup, prog |-> [T1 |-> calls], label |-> lab]
SeedN == IF "VERIF_SEED" \in DOMAIN IOEnv THEN atoi(IOEnv.VERIF_SEED) ELSE 1
\* pairs: writable-archive mutations first, then any call (the second call observes the first)
Firsts == {c \in Reduced : c[1] \in {"AddFile", "RemoveFile", "RenameFile", "CloseArchive", "CloseFile", "FindClose", "FlushArchive",
                                      "OpenFileEx", "FindFirst", "SetFilePointer", "ReadFile", "FindNext"}}
PairSeq == SetToSeq({<<a, b>> : a \in Firsts, b \in Reduced})
Stride == IF Thorough THEN 3 ELSE 61
Pairs == {PairSeq[i] : i \in {j \in 1..Len(PairSeq) : (j + SeedN) % Stride = 0}}
\* F-C06-b through the C API: fill the 16-slot hash table of a created archive (one name per slot)
FillCase == [kind |-> "seq", disk |-> DiskJ, setup |-> SubSeq(Setup, 1, 2), label |-> "fill",
             prog |-> [T1 |-> [i \in 1..Cardinality(Names) |->
                                 [fn |-> "AddFile", h |-> 2, name |-> SetToSeq(Names)[i], n1 |-> 0, n2 |-> 0, dat |-> <<i>>]]
                              \o <<C("HasFile", 2, "f0", 0, 0)>>]]
\* "closing an archive invalidates exactly its own file and search handles": after closing the read-only (1)
\* or the writable (2) archive, every function on every handle class (3 = file of 1, 4 = search of 1)
ClosePairs == {<<a, b>> : a \in {c \in Reduced : c[1] = "CloseArchive" /\ c[2] \in {1, 2}}, b \in Reduced}
\* cursor arithmetic: every read / seek class on the open file (3, two bytes, cursor at 1) followed by an observer of
\* the cursor (position query, relative seeks, a read)
CursorObs == {<<"GetFileInfo", 3, "", 10, 8, <<>>>>, <<"SetFilePointer", 3, "", -1, 1, <<>>>>,
              <<"SetFilePointer", 3, "", 0, 1, <<>>>>, <<"ReadFile", 3, "", 3, 0, <<>>>>}
CursorPairs == {<<a, b>> : a \in {c \in Singles : c[1] \in {"ReadFile", "SetFilePointer"} /\ c[2] = 3}, b \in CursorObs}
\* "exactly its own": three archives (1 = A, 2 = B writable, 9 = A again), each with a live search handle (4, 8, 11)
\* and two with a live file (3, 10); one of them is closed, then every handle is probed
Setup3 == Setup \o << C("FindFirst", 2, "", 0, 0), C("OpenArchive", 0, "A", 0, 0), C("OpenFileEx", 9, "f1", 0, 0),
                      C("FindFirst", 9, "", 0, 0) >>
Probes3 == << C("FindNext", 4, "", 0, 0), C("FindNext", 8, "", 0, 0), C("FindNext", 11, "", 0, 0),
              C("ReadFile", 3, "", 1, 0), C("ReadFile", 10, "", 1, 0), C("HasFile", 1, "f0", 0, 0), C("HasFile", 9, "f0", 0, 0) >>
ThreeArch == {[kind |-> "seq", disk |-> DiskJ, setup |-> Setup3, label |-> "threearch",
               prog |-> [T1 |-> <<C("CloseArchive", a, "", 0, 0)>> \o Probes3]] : a \in {1, 2, 9}}
\* id allocation after a close: a closing call, two allocating calls, then the old handles are probed (an id that
\* collides with a live handle of any table is rejected by FreshId)
Closers == {C("CloseFile", 3, "", 0, 0), C("FindClose", 4, "", 0, 0), C("CloseArchive", 1, "", 0, 0), C("CloseArchive", 2, "", 0, 0)}
Allocs  == {C("OpenArchive", 0, "A", 0, 0), C("OpenFileEx", 1, "f1", 0, 0), C("FindFirst", 1, "", 0, 0), C("FindFirst", 2, "", 0, 0),
            C("OpenFileEx", 2, "f0", 0, 0)}
AllocChains == {[kind |-> "seq", disk |-> DiskJ, setup |-> Setup, label |-> "allocchain",
                 prog |-> [T1 |-> <<c, a1, a2, C("GetFileSize", 3, "", 0, 0), C("FindNext", 4, "", 0, 0),
                                    C("GetFileInfo", 8, "", 7, 8), C("GetFileInfo", 9, "", 7, 8)>>]] : c \in Closers, a1 \in Allocs, a2 \in Allocs}
\* multi-sector contents (sector = 4096 bytes): reads and seeks across sector boundaries of a 9000-byte file
BigLen == 9000
BigData == [i \in 1..BigLen |-> (i * 7 + i \div 256) % 251]
BigDisk == [DiskJ EXCEPT !["A"]["f2"] = BigData]
BigOffs == IF Thorough THEN {0, 4095, 4096, 4097, 8191, 8192, 8999, 9000} ELSE {4095, 4097, 8999}
BigReqs == IF Thorough THEN {1, 4096, 4097, 9001} ELSE {4097, 9001}
BigCases == {[kind |-> "seq", disk |-> BigDisk, label |-> "big",
              setup |-> << C("OpenArchive", 0, "A", 0, 0), C("OpenFileEx", 1, "f2", 0, 0) >>,
              prog |-> [T1 |-> << C("SetFilePointer", 2, "", off, 0), C("ReadFile", 2, "", req, 0), C("GetFileInfo", 2, "", 10, 8),
                                  C("SetFilePointer", 2, "", -4097, 1), C("ReadFile", 2, "", 2, 0) >>]] : off \in BigOffs, req \in BigReqs}
            \cup {[kind |-> "seq", disk |-> BigDisk, label |-> "big",
                   setup |-> << C("OpenArchive", 0, "A", 0, 0), C("OpenArchive", 0, "B", 1, 0) >>,
                   prog |-> [T1 |-> << C("ExtractFile", 1, "f2", 0, 0), [C("AddFile", 2, "f3", 0, 0) EXCEPT !.dat = BigData],
                                       C("OpenFileEx", 2, "f3", 0, 0), C("SetFilePointer", 3, "", 4090, 0), C("ReadFile", 3, "", 4916, 0),
                                       C("FlushArchive", 2, "", 0, 0), C("OpenFileEx", 2, "f3", 0, 0), C("ReadFile", 4, "", 9001, 0) >>]]}
\* lock discipline: one call of every function on every handle class, run with the lock tracer of the driver
LockOrderCases == {ECase(<<CallRec(c)>>, "lockorder") : c \in Reduced}
\* forged handles derived from LIVE handles (1 = archive, 2 = writable archive, 3 = file, 4 = search): hf = 1: h | 1<<32,
\* 2: h | 1<<63, 3: h + 7<<32, 4: h | 0xFFFFFFFF00000000, 5: h + 1<<16, 6: h + 1<<31.  Every entry point must answer
\* invalid, and the live handles must be unaffected (probed afterwards).
CF(c, hf) == [fn |-> c[1], h |-> c[2], name |-> c[3], n1 |-> c[4], n2 |-> c[5], dat |-> c[6], hf |-> hf]
HandleFns == Fns \ {"OpenArchive"}
LiveProbes == << C("GetFileSize", 3, "", 0, 0), C("FindNext", 4, "", 0, 0), C("HasFile", 1, "f0", 0, 0), C("GetFileInfo", 2, "", 2, 4),
                C("ReadFile", 3, "", 1, 0) >>
ForgedCases == {[kind |-> "seq", disk |-> DiskJ, setup |-> Setup, label |-> "forged",
                 prog |-> [T1 |-> [i \in 1..4 |-> CF(CHOOSE c \in ECalls(fn, FALSE) : c[2] = i, hf)] \o LiveProbes]]
                   : fn \in HandleFns, hf \in 1..6}
\* archived names of 259, 260, 261 and 1024 bytes around the MAX_PATH (260) arrays of the API
LongNames == <<"n259", "n260", "n261", "n1024">>
LongDisk == [DiskJ EXCEPT !["A"] = [x \in Names |-> CASE x = "n259" -> <<1>> [] x = "n260" -> <<2>> [] x = "n261" -> <<3>>
                                                     [] x = "n1024" -> <<4>> [] OTHER -> DiskJ["A"][x]]]
LongCases == {[kind |-> "seq", disk |-> LongDisk, label |-> "longname",
               setup |-> << C("OpenArchive", 0, "A", 0, 0), C("FindFirst", 1, "", 0, 0) >>,
               prog |-> [T1 |-> [i \in 1..9 |-> C("FindNext", 2, "", 0, 0)] \o << C("EnumFiles", 1, "", 0, 0) >>]]}
             \cup {[kind |-> "seq", disk |-> LongDisk, label |-> "longname",
                    setup |-> << C("OpenArchive", 0, "A", 0, 0) >>,
                    prog |-> [T1 |-> << C("HasFile", 1, LongNames[i], 0, 0), C("OpenFileEx", 1, LongNames[i], 0, 0),
                                        C("GetFileName", 2, "", 0, 0), C("GetFileName", 2, "", 0, 1), C("ReadFile", 2, "", 5, 0),
                                        C("ExtractFile", 1, LongNames[i], 0, 0), C("VerifyFile", 1, LongNames[i], 0, 0) >>]] : i \in 1..4}
\* search masks x a listing with matching and non-matching entries interleaved (f0 f1 f2 g0 g1 n259 (listfile)):
\* find iteration = the listing filtered by the mask, in order, every name once
MaskDisk == [DiskJ EXCEPT !["A"] = [x \in Names |-> CASE x = "g0" -> <<9>> [] x = "g1" -> <<9, 9>> [] x = "n259" -> <<1>>
                                                     [] OTHER -> DiskJ["A"][x]]]
MaskCases == {[kind |-> "seq", disk |-> MaskDisk, label |-> "mask", setup |-> << C("OpenArchive", 0, "A", 0, 0) >>,
               prog |-> [T1 |-> << C("FindFirst", 1, m, 0, 0) >> \o [i \in 1..8 |-> C("FindNext", 2, "", 0, 0)]
                                  \o << C("FindClose", 2, "", 0, 0), C("EnumFiles", 1, "", 0, 0) >>]]
                : m \in {"m0", "m1", "m2", "m3", "m4", "m5", "m6", "m7"}}
\* frame condition "a call on archive A leaves every handle of B unchanged": archives 1 and 8 (both file "A", read-only)
\* and the writable archive 2 hold same-named files; every mutating call on 2 is followed by probes of the file and
\* search handles of 1 and 8
XSetup == Setup \o << [C("AddFile", 2, "f0", 0, 0) EXCEPT !.dat = <<6, 6, 6>>], [C("AddFile", 2, "f1", 0, 0) EXCEPT !.dat = <<6>>],
                       C("OpenArchive", 0, "A", 0, 0), C("OpenFileEx", 8, "f0", 0, 0), C("OpenFileEx", 2, "f0", 0, 0) >>
XMut == { [C("RenameFile", 2, "f0", 0, 0) EXCEPT !.dat = <<"f3">>], C("RemoveFile", 2, "f0", 0, 0),
          [C("AddFile", 2, "f0", 1, 0) EXCEPT !.dat = <<4, 4>>], [C("AddFile", 2, "f3", 0, 0) EXCEPT !.dat = <<4>>],
          C("FlushArchive", 2, "", 0, 0), C("FlushArchive", 2, "", 1, 0), C("CloseArchive", 2, "", 0, 0), C("CloseFile", 10, "", 0, 0) }
XProbes == << C("GetFileName", 3, "", 0, 0), C("GetFileSize", 3, "", 0, 0), C("ReadFile", 3, "", 1, 0), C("FindNext", 4, "", 0, 0),
              C("GetFileName", 9, "", 0, 0), C("ReadFile", 9, "", 2, 0), C("HasFile", 1, "f0", 0, 0), C("HasFile", 8, "f3", 0, 0),
              C("GetFileInfo", 9, "", 10, 8) >>
XCases == {[kind |-> "seq", disk |-> DiskJ, setup |-> XSetup, label |-> "xarch", prog |-> [T1 |-> <<m>> \o XProbes]] : m \in XMut}
EnumCases == <<FillCase>> \o SetToSeq(MaskCases) \o SetToSeq(XCases) \o SetToSeq(ForgedCases) \o SetToSeq(LongCases) \o SetToSeq(LockOrderCases) \o SetToSeq(ThreeArch) \o SetToSeq(AllocChains) \o SetToSeq(BigCases)
             \o SetToSeq({ECase(<<CallRec(p[1]), CallRec(p[2])>>, "closepair") : p \in ClosePairs})
             \o SetToSeq({ECase(<<CallRec(p[1]), CallRec(p[2])>>, "cursorpair") : p \in CursorPairs}) \o SetToSeq({ECase(<<CallRec(c)>>, "single") : c \in Singles})
             \o SetToSeq({ECase(<<CallRec(p[1]), CallRec(p[2])>>, "pair") : p \in Pairs})
ASSUME EnumMode => ndJsonSerialize(IOEnv.CASES, EnumCases) /\ PrintT(<<"GENERATED", Len(EnumCases)>>)
=============================================================================
