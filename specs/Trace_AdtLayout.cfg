CONSTANTS
  Deviations = {"MtxfAlways"}
  MhdrFileRelative = FALSE
  NK = 256
  MaxRounds = 4
INIT TInit
NEXT TNext
POSTCONDITION Accepted
CHECK_DEADLOCK FALSE
