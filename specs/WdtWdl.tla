------------------------------- MODULE WdtWdl -------------------------------
(* C18 -- WDT (map definition) and WDL (low-resolution map) files, and the tile <-> world maps.   *)
(*                                                                                                 *)
(* Modelled after the code (file-formats/world-data/wow-wdt, wow-wdl):                             *)
(*   WdtWriter::write      MVER, MPHD, MAIN(GridN x GridN <flags,area>, row-major y*N+x), [MAID],  *)
(*                         [MWMO if present AND should_have_chunk("MWMO", wmoOnly, version)], [MODF]*)
(*   WdtReader::read       chunk loop by tag, required chunks, detect_version                      *)
(*   WdlParser::write      MVER, [MWMO MWID MODF], [MLDD] [MLDX] [MLMD] [MLMX], MAOF, (MARE [MAHO])*  *)
(*                         with MAOF[y*N+x] = absolute offset of the tile's MARE *header*          *)
(*   WdlParser::parse      sequential scan of all chunks, then seek to every non-zero MAOF entry   *)
(*   convert_wdt / convert_wdl_file                                                                *)
(*   tile_to_world / world_to_tile   (exact rationals, scaled by 3)                                *)
(*                                                                                                 *)
(* Payloads are abstract values (the reader must hand back what the writer was given); sizes and   *)
(* offsets are concrete.  GridN is 64 in trace validation and small in the exhaustive model.       *)
EXTENDS ChunkFile, TLC

CONSTANT GridN                       \* tiles per side (64 in the format)

Min2(aa, bb) == IF aa < bb THEN aa ELSE bb
Max2(aa, bb) == IF aa > bb THEN aa ELSE bb

\* ================================ coordinates ===================================================
\* One tile is 1600/3 yards; the map centre is the corner of tile (32,32).  Everything is scaled by
\* 3 so that the arithmetic is exact.  Note the axis swap: world x depends on tile y.
TILE3    == 1600
OFFSET3  == 32 * TILE3                                          \* 51200 = 3 * 17066.66..
TileToWorld3(wtx, wty) == <<OFFSET3 - TILE3 * wty, OFFSET3 - TILE3 * wtx>>          \* <<3*world_x, 3*world_y>>
ClampTile(wv) == Min2(63, Max2(0, wv))
WorldToTile3(wwx, wwy) == <<ClampTile((OFFSET3 - wwy) \div TILE3), ClampTile((OFFSET3 - wwx) \div TILE3)>>
AllTiles64 == (0..63) \X (0..63)
\* the law of the property: every tile index survives tile -> world -> tile
InverseLaw == \A wt \in AllTiles64 :
                 LET ww == TileToWorld3(wt[1], wt[2]) IN WorldToTile3(ww[1], ww[2]) = wt
\* a world position strictly inside a tile (tile_to_world gives the corner with the LARGEST world
\* coordinates of the tile) maps to that tile: moving by less than one tile size does not change it
InteriorLaw == \A wt \in AllTiles64 : \A wd \in {0, 1, 799, 1599} :
                 LET ww == TileToWorld3(wt[1], wt[2]) IN WorldToTile3(ww[1] - wd, ww[2] - wd) = wt
\* forward map tolerance used against the implementation: |3*world - spec| <= 0.03 yards, in 1/1000 yd
FwdTol == 30
FwdOk(wmilli, wexact3) == LET wdiff == 3 * wmilli - 1000 * wexact3 IN wdiff <= FwdTol /\ -wdiff <= FwdTol

\* ================================ WDT ===========================================================
WdtVersions == <<"Classic", "TBC", "WotLK", "Cataclysm", "MoP", "WoD", "Legion", "BfA", "Shadowlands", "Dragonflight">>
VOrd(wv) == CHOOSE wi \in 1..Len(WdtVersions) : WdtVersions[wi] = wv
VLt(wa, wb) == VOrd(wa) < VOrd(wb)
VGe(wa, wb) == VOrd(wa) >= VOrd(wb)

F_WMO_ONLY == 1
F_MCCV     == 2
F_BIGALPHA == 4
F_SORTED   == 8
F_LIGHTV   == 16
F_FIRELANDS == 64
F_HEIGHTTEX == 128
F_MAID     == 512

\* A WDT definition (abstract):
\*   ver      : version the file is built for
\*   flags    : set of MPHD flag bits
\*   hasMwmo, names  : MWMO chunk present, name lengths (bytes, without NUL); <<>> = empty chunk
\*   hasModf, nModf  : MODF chunk present, number of 64-byte entries
\*   hasMaid, nSec   : MAID chunk present, number of GridN x GridN sections
\*   tiles    : set of <<x, y>> carrying data in MAIN (payload identity = the tile index)
WmoOnly(wd)  == F_WMO_ONLY \in wd.flags
MaidFlag(wd) == F_MAID \in wd.flags

HasTerrainMwmo(wv) == VLt(wv, "Cataclysm")
HasMaidChunk(wv)   == VGe(wv, "BfA")
\* version.rs: VersionConfig::should_have_chunk
ShouldHave(wchunk, wwmoOnly, wv) ==
    CASE wchunk \in {"MVER", "MPHD", "MAIN"} -> TRUE
      [] wchunk = "MWMO" -> wwmoOnly \/ HasTerrainMwmo(wv)
      [] wchunk = "MODF" -> wwmoOnly
      [] wchunk = "MAID" -> HasMaidChunk(wv)
      [] OTHER -> FALSE

\* WdtFile::validate() reports nothing
FlagsValidFor(wflags, wv) ==
    /\ (F_MAID \in wflags => HasMaidChunk(wv))
    /\ (F_FIRELANDS \in wflags => VGe(wv, "Cataclysm"))
    /\ (F_HEIGHTTEX \in wflags => VGe(wv, "MoP"))
\* structural validity: which chunks a map kind / version carries.  Header flags are free: validate() only
\* WARNS about flags that do not fit the version, the writer writes them, so the round trip has to hold
WdtStructValid(wd) ==
    /\ IF WmoOnly(wd) THEN wd.hasMwmo /\ wd.hasModf
       ELSE ~wd.hasModf /\ (wd.hasMwmo <=> ShouldHave("MWMO", FALSE, wd.ver))
    /\ (MaidFlag(wd) <=> wd.hasMaid)
    /\ (wd.hasMaid => wd.nSec >= 1 /\ HasMaidChunk(wd.ver))       \* flag 0x0200 + MAID chunk are one structural feature (8.1+)
    /\ (~wd.hasMwmo => wd.names = <<>>) /\ (~wd.hasModf => wd.nModf = 0) /\ (~wd.hasMaid => wd.nSec = 0)
\* WdtFile::validate() reports nothing
WdtValid(wd) == FlagsValidFor(wd.flags, wd.ver) /\ WdtStructValid(wd)

SumSeq(wseq) == FoldLeft(LAMBDA wa, wb : wa + wb, 0, wseq)
NamesBytes(wnames) == SumSeq(wnames) + Len(wnames)                 \* every name is NUL terminated
MainSize == GridN * GridN * 8
MaidSize(wn) == wn * GridN * GridN * 4

\* does the writer put the MWMO chunk into the file?  (lib.rs WdtWriter::write)
MwmoWritten(wd) == wd.hasMwmo /\ ShouldHave("MWMO", WmoOnly(wd), wd.ver)

\* the chunk list <<tag, size>> the writer produces, in its order
WdtChunkSpecs(wd) ==
       <<<<"MVER", 4>>, <<"MPHD", 32>>, <<"MAIN", MainSize>>>>
    \o (IF wd.hasMaid THEN <<<<"MAID", MaidSize(wd.nSec)>>>> ELSE <<>>)
    \o (IF MwmoWritten(wd) THEN <<<<"MWMO", NamesBytes(wd.names)>>>> ELSE <<>>)
    \o (IF wd.hasModf THEN <<<<"MODF", 64 * wd.nModf>>>> ELSE <<>>)
WdtLayout(wd)   == CF_LayOut(WdtChunkSpecs(wd), 0)
WdtFileSize(wd) == CF_TotalSize(WdtChunkSpecs(wd))

\* lib.rs WdtReader::detect_version, from what the reader has in hand
FlagBits(wflags) == SumSeq(SetToSeq(wflags))
DetectVersion(whasMaid, whasMwmo, whasModf, wflags, whint) ==
    LET wbits == FlagBits(wflags)  wonly == F_WMO_ONLY \in wflags IN
    IF whasMaid THEN "BfA"
    ELSE IF ~wonly /\ ~whasMwmo THEN "Cataclysm"
    ELSE IF ~wonly /\ whasMwmo THEN
         (IF F_MCCV \in wflags \/ F_BIGALPHA \in wflags \/ F_SORTED \in wflags THEN "WotLK"
          ELSE IF wbits > 1 THEN "TBC" ELSE "Classic")      \* (flags & 1) is 0 here: terrain map
    ELSE IF wonly /\ whasModf THEN
         (IF wbits > 15 THEN "WotLK" ELSE IF wbits > 1 THEN "TBC" ELSE "Classic")
    ELSE whint

\* the definition a reader reconstructs from a chunk sequence with abstract payloads
WdtContentSections == {"mphd", "main", "maid", "mwmo", "modf"}

\* conversion.rs convert_wdt (effects on the abstract definition; MAIN is never touched)
FlagCommon(wbit, wv) ==
    CASE wbit = 1 -> TRUE
      [] wbit \in {2, 4, 8} -> VGe(wv, "WotLK")
      [] wbit = 16 -> VGe(wv, "WotLK") /\ VLt(wv, "BfA")
      [] wbit = 64 -> VGe(wv, "Cataclysm")
      [] wbit = 128 -> VGe(wv, "MoP")
      [] wbit = 512 -> VGe(wv, "BfA")
      [] OTHER -> FALSE
ConvertWdt(wd, wfrom, wto) ==
    IF wfrom = wto THEN wd ELSE
    LET wtoCata == VLt(wfrom, "Cataclysm") /\ VGe(wto, "Cataclysm")
        wtoPre  == VGe(wfrom, "Cataclysm") /\ VLt(wto, "Cataclysm")
        wtoBfa  == VLt(wfrom, "BfA") /\ VGe(wto, "BfA")
        wfromBfa == VGe(wfrom, "BfA") /\ VLt(wto, "BfA")
        wd1 == IF wtoCata
               THEN [wd EXCEPT !.hasMwmo = IF ~WmoOnly(wd) /\ wd.hasMwmo /\ wd.names = <<>> THEN FALSE ELSE @,
                               !.flags = @ \cup {F_FIRELANDS}]
               ELSE wd
        wd2 == IF wtoPre
               THEN [wd1 EXCEPT !.hasMwmo = IF ~WmoOnly(wd1) /\ ~wd1.hasMwmo THEN TRUE ELSE @,
                                !.flags = @ \ {F_FIRELANDS, F_HEIGHTTEX}]
               ELSE wd1
        wd3 == IF wtoBfa
               THEN (IF ~wd2.hasMaid
                     THEN [wd2 EXCEPT !.hasMaid = TRUE, !.nSec = 8, !.flags = (@ \cup {F_MAID}) \ {F_LIGHTV}]
                     ELSE [wd2 EXCEPT !.flags = @ \ {F_LIGHTV}])
               ELSE wd2
        wd4 == IF wfromBfa /\ wd3.hasMaid
               THEN [wd3 EXCEPT !.hasMaid = FALSE, !.nSec = 0, !.flags = @ \ {F_MAID}]
               ELSE wd3
        wdrop == {wb \in {2, 4, 8, 64, 128, 512} : ~FlagCommon(wb, wto)}
    IN [wd4 EXCEPT !.ver = wto, !.flags = @ \ wdrop]

\* ================================ WDL ===========================================================
WdlVersions == <<"Vanilla", "Wotlk", "Cataclysm", "Mop", "Wod", "Legion", "Bfa", "Shadowlands", "Dragonflight", "Latest">>
LOrd(wv) == CHOOSE wi \in 1..Len(WdlVersions) : WdlVersions[wi] = wv
HasWmoChunks(wv) == wv \in {"Wotlk", "Cataclysm", "Mop", "Wod"}
HasMlChunks(wv)  == LOrd(wv) >= LOrd("Legion")
HasMaho(wv)      == wv # "Vanilla"

MARE_SIZE == (17 * 17 + 16 * 16) * 2          \* 1090
MAHO_SIZE == 16 * 2
MaofSize  == GridN * GridN * 4
MODF_ENTRY == 64
MLDD_ENTRY == 40                               \* id, m2_id, position, rotation, scale, flags
MLDX_ENTRY == 28                               \* bounding box, radius

TileIdx(wx, wy) == wy * GridN + wx            \* row-major: y selects the row
\* tiles in file order (the writer's double loop: y outer, x inner)
TileOfIdx(wi) == <<wi % GridN, wi \div GridN>>
AllInOrder == [wi \in 1..(GridN * GridN) |-> TileOfIdx(wi - 1)]
TileOrder(wtiles) == SelectSeq(AllInOrder, LAMBDA wt : wt \in wtiles)

\* A WDL definition:
\*   ver    : version written (file.version)
\*   tiles  : set of <<x, y>> with a height map        holes : subset of tiles with a MAHO record
\*   names  : MWMO name lengths, nIdx : MWID entries, nPlace : MODF entries
\*   nMldd (= MLDX count), nMlmd (= MLMX count)
WdlValid(wd) ==
    /\ wd.holes \subseteq wd.tiles
    /\ (~HasMaho(wd.ver) => wd.holes = {})
    /\ (~HasWmoChunks(wd.ver) => wd.names = <<>> /\ wd.nIdx = 0 /\ wd.nPlace = 0)
    /\ (wd.names = <<>> => wd.nIdx = 0 /\ wd.nPlace = 0)          \* placements need indices need names
    /\ (wd.nPlace > 0 => wd.nIdx > 0)
    /\ (~HasMlChunks(wd.ver) => wd.nMldd = 0 /\ wd.nMlmd = 0)

WmoGroupWritten(wd) == HasWmoChunks(wd.ver) /\ wd.names # <<>>
WdlHeadSpecs(wd) ==
       <<<<"MVER", 4>>>>
    \o (IF WmoGroupWritten(wd)
        THEN <<<<"MWMO", NamesBytes(wd.names)>>, <<"MWID", 4 * wd.nIdx>>, <<"MODF", MODF_ENTRY * wd.nPlace>>>>
        ELSE <<>>)
    \o (IF HasMlChunks(wd.ver) /\ wd.nMldd > 0 THEN <<<<"MLDD", MLDD_ENTRY * wd.nMldd>>, <<"MLDX", MLDX_ENTRY * wd.nMldd>>>> ELSE <<>>)
    \o (IF HasMlChunks(wd.ver) /\ wd.nMlmd > 0 THEN <<<<"MLMD", MLDD_ENTRY * wd.nMlmd>>, <<"MLMX", MLDX_ENTRY * wd.nMlmd>>>> ELSE <<>>)
MahoWritten(wd, wt) == HasMaho(wd.ver) /\ wt \in wd.holes
TileSpecs(wd, wt) == IF MahoWritten(wd, wt) THEN <<<<"MARE", MARE_SIZE>>, <<"MAHO", MAHO_SIZE>>>> ELSE <<<<"MARE", MARE_SIZE>>>>
TileBytes(wd, wt) == CF_HDR + MARE_SIZE + (IF MahoWritten(wd, wt) THEN CF_HDR + MAHO_SIZE ELSE 0)
WdlChunkSpecs(wd) ==
    LET word == TileOrder(wd.tiles) IN
    WdlHeadSpecs(wd) \o <<<<"MAOF", MaofSize>>>> \o
    FoldLeft(LAMBDA wacc, wt : wacc \o TileSpecs(wd, wt), <<>>, word)
WdlLayout(wd)   == CF_LayOut(WdlChunkSpecs(wd), 0)
WdlFileSize(wd) == CF_TotalSize(WdlChunkSpecs(wd))
\* first byte after the MAOF chunk = where the first tile record starts
WdlTilesBase(wd) == CF_TotalSize(WdlHeadSpecs(wd)) + CF_HDR + MaofSize
\* the offset table the format demands: absolute offset of each tile's MARE header, 0 for no tile
MaofIdxs == 0..(GridN * GridN - 1)
ZeroMaof == [wi \in MaofIdxs |-> 0]
PlanMaof(wd, wbase) ==
    LET word == TileOrder(wd.tiles)
        wstep(wacc, wt) == [off |-> wacc.off + TileBytes(wd, wt), tab |-> [wacc.tab EXCEPT ![TileIdx(wt[1], wt[2])] = wacc.off]]
    IN FoldLeft(wstep, [off |-> wbase, tab |-> ZeroMaof], word).tab
ExpectedMaof(wd) == PlanMaof(wd, WdlTilesBase(wd))

\* parser.rs version detection when the parser is created with WdlVersion::Latest (as coded since
\* 19bcef3): WMO chunks are carried by Wotlk..Wod only, so their presence means a Wotlk-class file
DetectWdl(wtags, whint) ==
    IF whint # "Latest" THEN whint
    ELSE IF \E wi \in 1..Len(wtags) : wtags[wi] \in {"MLDD", "MLDX", "MLMD", "MLMX"} THEN "Legion"
    ELSE IF \E wi \in 1..Len(wtags) : wtags[wi] \in {"MWMO", "MWID", "MODF"} THEN "Wotlk"
    ELSE "Latest"
\* the detection before 19bcef3 (kept as a named deviation, see LR_DetectVanillaForWmo): WMO chunks
\* without any MAHO answered Vanilla, a version that cannot carry WMO chunks
DetectWdlPreFix(wtags, whint) ==
    IF whint # "Latest" THEN whint
    ELSE IF \E wi \in 1..Len(wtags) : wtags[wi] \in {"MLDD", "MLDX", "MLMD", "MLMX"} THEN "Legion"
    ELSE IF \E wi \in 1..Len(wtags) : wtags[wi] \in {"MWMO", "MWID", "MODF"}
         THEN (IF \E wi \in 1..Len(wtags) : wtags[wi] = "MAHO" THEN "Wotlk" ELSE "Vanilla")
    ELSE "Latest"

\* sections of a WDL file whose content must survive write -> parse at version v
WdlSections(wv) == {"tiles"} \cup (IF HasMaho(wv) THEN {"holes"} ELSE {})
                   \cup (IF HasWmoChunks(wv) THEN {"mwmo", "mwid", "modf"} ELSE {})
                   \cup (IF HasMlChunks(wv) THEN {"mldd", "mldx", "mlmd", "mlmx"} ELSE {})

\* conversion.rs convert_wdl_file: result class and which tile data must be preserved
ConvertWdlRefuses(wd, wto) == ~HasMaho(wto) /\ HasMaho(wd.ver) /\ wd.holes # {}
ConvertWdl(wd, wto) ==
    [ver |-> wto, tiles |-> wd.tiles,
     holes |-> IF HasMaho(wto) THEN (IF HasMaho(wd.ver) THEN wd.holes ELSE wd.tiles) ELSE {},
     names |-> IF HasWmoChunks(wto) /\ HasWmoChunks(wd.ver) THEN wd.names ELSE <<>>,   \* ML -> WMO invents names: not modelled
     nIdx |-> IF HasWmoChunks(wto) /\ HasWmoChunks(wd.ver) THEN wd.nIdx ELSE 0,
     nPlace |-> IF HasWmoChunks(wto) /\ HasWmoChunks(wd.ver) THEN wd.nPlace ELSE 0,
     nMldd |-> IF HasMlChunks(wto) /\ HasMlChunks(wd.ver) THEN wd.nMldd ELSE 0,
     nMlmd |-> IF HasMlChunks(wto) THEN (IF HasMlChunks(wd.ver) THEN wd.nMlmd ELSE IF HasWmoChunks(wd.ver) THEN wd.nPlace ELSE 0) ELSE 0]
\* holes survive a conversion exactly when both versions carry MAHO
HolesPreserved(wfrom, wto) == HasMaho(wfrom) /\ HasMaho(wto)

\* types.rs WdlFile::convert_to: the second public conversion; never refuses, copies tiles AND holes
\* unconditionally (a Vanilla object may carry holes in memory: the writer must not let them disturb
\* the layout), model lists by the target's capabilities
ConvertTo(wd, wto) ==
    [ver |-> wto, tiles |-> wd.tiles, holes |-> wd.holes,
     names |-> IF HasWmoChunks(wto) THEN wd.names ELSE <<>>,
     nIdx |-> IF HasWmoChunks(wto) THEN wd.nIdx ELSE 0,
     nPlace |-> IF HasWmoChunks(wto) THEN wd.nPlace ELSE 0,
     nMldd |-> IF HasMlChunks(wto) THEN wd.nMldd ELSE 0,
     nMlmd |-> IF HasMlChunks(wto) THEN wd.nMlmd ELSE 0]

\* ---- conversion histories (chains) --------------------------------------------------------------
\* a chain is a sequence of target versions applied one after the other; wapi selects the WDL API
WdlStep(wapi, wd, wto) == IF wapi = "to" THEN ConvertTo(wd, wto) ELSE ConvertWdl(wd, wto)
WdlChainDefs(wapi, wd, wchain) ==                      \* <<d0, d1, ..., dk>>
    FoldLeft(LAMBDA wacc, wto : Append(wacc, WdlStep(wapi, wacc[Len(wacc)], wto)), <<wd>>, wchain)
WdlChainDef(wapi, wd, wchain) == LET wds == WdlChainDefs(wapi, wd, wchain) IN wds[Len(wds)]
\* convert_wdl_file may refuse step k (holes would be lost); convert_to never does
WdlChainRefusesAt(wapi, wd, wchain, wk) ==
    wapi = "file" /\ wk \in 1..Len(wchain) /\ ConvertWdlRefuses(WdlChainDefs(wapi, wd, wchain)[wk], wchain[wk])
WdtChainDef(wd, wchain) == FoldLeft(LAMBDA wacc, wto : ConvertWdt(wacc, wacc.ver, wto), wd, wchain)
\* hole masks are representable along the whole history iff every version visited carries MAHO
HolesSurviveChain(wv0, wchain) == HasMaho(wv0) /\ \A wi \in 1..Len(wchain) : HasMaho(wchain[wi])
\* laws of histories on the model: tiles are never touched; A -> B -> A gives back the tile set and, when
\* both versions carry MAHO, the holes; convert_to keeps even unrepresentable holes in memory
WdlChainLaw(wd) ==
    \A wapi \in {"file", "to"} : \A wb \in {WdlVersions[wi] : wi \in 1..Len(WdlVersions)} :
       LET wc == <<wb, wd.ver>>  wr == WdlChainDef(wapi, wd, wc) IN
       /\ wr.tiles = wd.tiles /\ wr.ver = wd.ver
       /\ (HolesSurviveChain(wd.ver, wc) => wr.holes = wd.holes)
       /\ (wapi = "to" => wr.holes = wd.holes)
       /\ \A wt \in wr.tiles : TileBytes(wr, wt) = CF_HDR + MARE_SIZE + (IF HasMaho(wr.ver) /\ wt \in wr.holes THEN CF_HDR + MAHO_SIZE ELSE 0)
WdtChainLaw(wd) ==
    \A wb \in {WdtVersions[wi] : wi \in 1..8} :
       /\ WdtChainDef(wd, <<wb, wd.ver>>).tiles = wd.tiles
       /\ \A wc \in {"Classic", "Cataclysm", "BfA"} : WdtChainDef(wd, <<wb, wc>>).tiles = wd.tiles     \* one target per era

\* ================================ the writer / reader machines ===================================
\* One behaviour = one file: the writer emits its chunks one per step, then the reader consumes
\* them.  vdef is the object handed to the writer; vrd is what the reader has reconstructed.
VARIABLES vfmt, vdef, vpc, vcf, vrd, vrpos, vmaof

mvars == <<vfmt, vdef, vpc, vcf, vrd, vrpos, vmaof>>

EmitP(wtag, wsize, wpay) == CF_Walk(vcf, [tag |-> wtag, off |-> vcf.cur, size |-> wsize, pay |-> wpay])
NoPay == <<>>
EmptyRd == [flags |-> {}, main |-> {}, hasMaid |-> FALSE, nSec |-> 0, hasMwmo |-> FALSE, names |-> <<>>,
            hasModf |-> FALSE, nModf |-> 0, got |-> {}, det |-> "?"]
EmptyLrd == [tags |-> <<>>, names |-> <<>>, nIdx |-> 0, nPlace |-> 0, nMldd |-> 0, nMldx |-> 0, nMlmd |-> 0, nMlmx |-> 0,
             tiles |-> {}, holes |-> {}, det |-> "?", hint |-> "?", dev |-> {}, bad |-> FALSE]

WStart(wfmt, wd) == /\ vfmt = wfmt /\ vdef = wd /\ vpc = "w0"
                    /\ vcf = CF_Init(0, 2147483647)
                    /\ vrd = IF wfmt = "wdt" THEN EmptyRd ELSE EmptyLrd
                    /\ vrpos = 1 /\ vmaof = ZeroMaof

Keep(wvars) == UNCHANGED wvars

\* ---- WDT writer (lib.rs:WdtWriter::write) -------------------------------------------------------
W_Mver == /\ vfmt = "wdt" /\ vpc = "w0" /\ vpc' = "w1" /\ vcf' = EmitP("MVER", 4, 18)
          /\ UNCHANGED <<vfmt, vdef, vrd, vrpos, vmaof>>
W_Mphd == /\ vfmt = "wdt" /\ vpc = "w1" /\ vpc' = "w2" /\ vcf' = EmitP("MPHD", 32, vdef.flags)
          /\ UNCHANGED <<vfmt, vdef, vrd, vrpos, vmaof>>
W_Main == /\ vfmt = "wdt" /\ vpc = "w2" /\ vpc' = "w3" /\ vcf' = EmitP("MAIN", MainSize, vdef.tiles)
          /\ UNCHANGED <<vfmt, vdef, vrd, vrpos, vmaof>>
W_Maid == /\ vfmt = "wdt" /\ vpc = "w3" /\ vpc' = "w4"
          /\ vcf' = IF vdef.hasMaid THEN EmitP("MAID", MaidSize(vdef.nSec), vdef.nSec) ELSE vcf
          /\ UNCHANGED <<vfmt, vdef, vrd, vrpos, vmaof>>
W_Mwmo == /\ vfmt = "wdt" /\ vpc = "w4" /\ vpc' = "w5"
          /\ vdef.hasMwmo => ShouldHave("MWMO", WmoOnly(vdef), vdef.ver)
          /\ vcf' = IF vdef.hasMwmo THEN EmitP("MWMO", NamesBytes(vdef.names), vdef.names) ELSE vcf
          /\ UNCHANGED <<vfmt, vdef, vrd, vrpos, vmaof>>
\* named deviation: an MWMO the version rule forbids is silently not written
W_MwmoSuppressed == /\ vfmt = "wdt" /\ vpc = "w4" /\ vpc' = "w5"
                    /\ vdef.hasMwmo /\ ~ShouldHave("MWMO", WmoOnly(vdef), vdef.ver)
                    /\ UNCHANGED <<vfmt, vdef, vcf, vrd, vrpos, vmaof>>
W_Modf == /\ vfmt = "wdt" /\ vpc = "w5" /\ vpc' = "r"
          /\ vcf' = LET wst == IF vdef.hasModf THEN EmitP("MODF", 64 * vdef.nModf, vdef.nModf) ELSE vcf
                    IN [wst EXCEPT !.lim = <<wst.cur>>]            \* file ends here
          /\ UNCHANGED <<vfmt, vdef, vrd, vrpos, vmaof>>

\* ---- WDT reader (lib.rs:WdtReader::read) --------------------------------------------------------
R_Chunk == /\ vfmt = "wdt" /\ vpc = "r" /\ vrpos <= Len(vcf.seen)
           /\ LET wc == vcf.seen[vrpos] IN
              vrd' = CASE wc.tag = "MVER" -> [vrd EXCEPT !.got = @ \cup {"MVER"}]
                       [] wc.tag = "MPHD" -> [vrd EXCEPT !.got = @ \cup {"MPHD"}, !.flags = wc.pay]
                       [] wc.tag = "MAIN" -> [vrd EXCEPT !.got = @ \cup {"MAIN"}, !.main = wc.pay]
                       [] wc.tag = "MAID" -> [vrd EXCEPT !.hasMaid = TRUE, !.nSec = wc.pay]
                       [] wc.tag = "MWMO" -> [vrd EXCEPT !.hasMwmo = TRUE, !.names = wc.pay]
                       [] wc.tag = "MODF" -> [vrd EXCEPT !.hasModf = TRUE, !.nModf = wc.pay]
                       [] OTHER -> vrd
           /\ vrpos' = vrpos + 1
           /\ UNCHANGED <<vfmt, vdef, vpc, vcf, vmaof>>
R_Eof == /\ vfmt = "wdt" /\ vpc = "r" /\ vrpos = Len(vcf.seen) + 1
         /\ {"MVER", "MPHD", "MAIN"} \subseteq vrd.got
         /\ vrd' = [vrd EXCEPT !.det = DetectVersion(vrd.hasMaid, vrd.hasMwmo, vrd.hasModf, vrd.flags, vdef.ver)]
         /\ vpc' = "done"
         /\ UNCHANGED <<vfmt, vdef, vcf, vrpos, vmaof>>

\* what the reader hands back, as a definition
ReadBackWdt == [ver |-> vrd.det, flags |-> vrd.flags, hasMwmo |-> vrd.hasMwmo, names |-> vrd.names,
                hasModf |-> vrd.hasModf, nModf |-> vrd.nModf, hasMaid |-> vrd.hasMaid, nSec |-> vrd.nSec,
                tiles |-> vrd.main]
SameContentWdt(wa, wb) == /\ wa.flags = wb.flags /\ wa.tiles = wb.tiles
                          /\ wa.hasMwmo = wb.hasMwmo /\ wa.names = wb.names
                          /\ wa.hasModf = wb.hasModf /\ wa.nModf = wb.nModf
                          /\ wa.hasMaid = wb.hasMaid /\ wa.nSec = wb.nSec

\* ---- WDL writer (parser.rs:WdlParser::write) ----------------------------------------------------
L_Mver == /\ vfmt = "wdl" /\ vpc = "w0" /\ vpc' = "w1" /\ vcf' = EmitP("MVER", 4, 18)
          /\ UNCHANGED <<vfmt, vdef, vrd, vrpos, vmaof>>
L_WmoGroup == /\ vfmt = "wdl" /\ vpc = "w1" /\ vpc' = "w2"
              /\ WmoGroupWritten(vdef)
              /\ vcf' = LET w1 == EmitP("MWMO", NamesBytes(vdef.names), vdef.names)
                            w2 == CF_Walk(w1, [tag |-> "MWID", off |-> w1.cur, size |-> 4 * vdef.nIdx, pay |-> vdef.nIdx])
                        IN CF_Walk(w2, [tag |-> "MODF", off |-> w2.cur, size |-> MODF_ENTRY * vdef.nPlace, pay |-> vdef.nPlace])
              /\ UNCHANGED <<vfmt, vdef, vrd, vrpos, vmaof>>
\* named deviation: with no file names the index and placement lists are not written either
L_WmoSkipped == /\ vfmt = "wdl" /\ vpc = "w1" /\ vpc' = "w2"
                /\ ~WmoGroupWritten(vdef)
                /\ UNCHANGED <<vfmt, vdef, vcf, vrd, vrpos, vmaof>>
L_Ml == /\ vfmt = "wdl" /\ vpc = "w2" /\ vpc' = "w3"
        /\ vcf' = LET wml == HasMlChunks(vdef.ver)
                      w1 == IF wml /\ vdef.nMldd > 0 THEN EmitP("MLDD", MLDD_ENTRY * vdef.nMldd, vdef.nMldd) ELSE vcf
                      w2 == IF wml /\ vdef.nMldd > 0 THEN CF_Walk(w1, [tag |-> "MLDX", off |-> w1.cur, size |-> MLDX_ENTRY * vdef.nMldd, pay |-> vdef.nMldd]) ELSE w1
                      w3 == IF wml /\ vdef.nMlmd > 0 THEN CF_Walk(w2, [tag |-> "MLMD", off |-> w2.cur, size |-> MLDD_ENTRY * vdef.nMlmd, pay |-> vdef.nMlmd]) ELSE w2
                  IN IF wml /\ vdef.nMlmd > 0 THEN CF_Walk(w3, [tag |-> "MLMX", off |-> w3.cur, size |-> MLDX_ENTRY * vdef.nMlmd, pay |-> vdef.nMlmd]) ELSE w3
        /\ UNCHANGED <<vfmt, vdef, vrd, vrpos, vmaof>>
\* the offsets are planned before MAOF is written: running offset starting right after MAOF
L_PlanOffsets == /\ vfmt = "wdl" /\ vpc = "w3" /\ vpc' = "w4"
                 /\ vmaof' = PlanMaof(vdef, vcf.cur + CF_HDR + MaofSize)
                 /\ UNCHANGED <<vfmt, vdef, vcf, vrd, vrpos>>
L_Maof == /\ vfmt = "wdl" /\ vpc = "w4" /\ vpc' = "w5"
          /\ vcf' = EmitP("MAOF", MaofSize, vmaof)
          /\ UNCHANGED <<vfmt, vdef, vrd, vrpos, vmaof>>
\* tiles are appended in row-major order: the next tile is the first one not yet written
NextTileToWrite == LET wdone == {vcf.seen[wi].pay : wi \in {wj \in 1..Len(vcf.seen) : vcf.seen[wj].tag = "MARE"}}
                       wleft == TileOrder(vdef.tiles \ wdone)
                   IN IF wleft = <<>> THEN <<>> ELSE <<wleft[1]>>
L_Tile == /\ vfmt = "wdl" /\ vpc = "w5" /\ NextTileToWrite # <<>>
          /\ LET wt == NextTileToWrite[1]
                 w1 == EmitP("MARE", MARE_SIZE, wt)
             IN vcf' = IF MahoWritten(vdef, wt)
                       THEN CF_Walk(w1, [tag |-> "MAHO", off |-> w1.cur, size |-> MAHO_SIZE, pay |-> wt])
                       ELSE w1
          /\ UNCHANGED <<vfmt, vdef, vpc, vrd, vrpos, vmaof>>
L_Finish == /\ vfmt = "wdl" /\ vpc = "w5" /\ NextTileToWrite = <<>>
            /\ vcf' = [vcf EXCEPT !.lim = <<vcf.cur>>]
            /\ vpc' = "r"
            /\ UNCHANGED <<vfmt, vdef, vrd, vrpos, vmaof>>

\* ---- WDL reader (parser.rs:WdlParser::parse) ----------------------------------------------------
\* pass 1: every chunk in file order (MARE / MAHO are only recorded by tag here)
LR_Scan == /\ vfmt = "wdl" /\ vpc = "r" /\ vrpos <= Len(vcf.seen)
           /\ LET wc == vcf.seen[vrpos]
                  wr == [vrd EXCEPT !.tags = Append(@, wc.tag)] IN
              vrd' = CASE wc.tag = "MWMO" -> [wr EXCEPT !.names = wc.pay]
                       [] wc.tag = "MWID" -> [wr EXCEPT !.nIdx = wc.pay]
                       [] wc.tag = "MODF" -> [wr EXCEPT !.nPlace = wc.pay]
                       [] wc.tag = "MLDD" -> [wr EXCEPT !.nMldd = wc.pay]
                       [] wc.tag = "MLDX" -> [wr EXCEPT !.nMldx = wc.pay]
                       [] wc.tag = "MLMD" -> [wr EXCEPT !.nMlmd = wc.pay]
                       [] wc.tag = "MLMX" -> [wr EXCEPT !.nMlmx = wc.pay]
                       [] OTHER -> wr
           /\ vrpos' = vrpos + 1
           /\ UNCHANGED <<vfmt, vdef, vpc, vcf, vmaof>>
\* the parser is created either for the file's version or with WdlVersion::Latest (auto-detect)
LR_Detect == /\ vfmt = "wdl" /\ vpc = "r" /\ vrpos = Len(vcf.seen) + 1
             /\ \E wi \in 1..Len(vrd.tags) : vrd.tags[wi] = "MVER"
             /\ \E whint \in {vdef.ver, "Latest"} :
                  vrd' = [vrd EXCEPT !.det = DetectWdl(vrd.tags, whint), !.hint = whint]
             /\ vpc' = "r2"
             /\ UNCHANGED <<vfmt, vdef, vcf, vrpos, vmaof>>
\* named deviation (the code before 19bcef3): auto-detection answers Vanilla for WMO chunks without MAHO
LR_DetectVanillaForWmo ==
             /\ vfmt = "wdl" /\ vpc = "r" /\ vrpos = Len(vcf.seen) + 1
             /\ \E wi \in 1..Len(vrd.tags) : vrd.tags[wi] = "MVER"
             /\ DetectWdlPreFix(vrd.tags, "Latest") # DetectWdl(vrd.tags, "Latest")
             /\ vrd' = [vrd EXCEPT !.det = DetectWdlPreFix(vrd.tags, "Latest"), !.hint = "Latest", !.dev = {"detect-vanilla-for-wmo"}]
             /\ vpc' = "r2"
             /\ UNCHANGED <<vfmt, vdef, vcf, vrpos, vmaof>>
\* pass 2: for every non-zero MAOF entry seek to it; the chunk there must be a MARE; the next chunk
\* is taken as this tile's MAHO if it carries that tag (the parser is created for the file's version)
LR_Tiles == /\ vfmt = "wdl" /\ vpc = "r2"
            /\ LET wmi   == CHOOSE wi \in 1..Len(vcf.seen) : vcf.seen[wi].tag = "MAOF"
                   wtab  == vcf.seen[wmi].pay
                   \* the parser's double loop: for y, for x: index = y * 64 + x
                   wtl   == {wt \in (0..(GridN - 1)) \X (0..(GridN - 1)) : wtab[TileIdx(wt[1], wt[2])] # 0}
                   wofs(wt) == wtab[TileIdx(wt[1], wt[2])]
                   wbad  == \E wt \in wtl : ~CF_PointsAt(vcf.seen, wofs(wt), "MARE")
                   wat(wt) == CF_IndexAt(vcf.seen, wofs(wt))
                   wholes == {wt \in wtl : /\ HasMaho(vrd.hint)
                                           /\ wat(wt) + 1 <= Len(vcf.seen)
                                           /\ vcf.seen[wat(wt) + 1].tag = "MAHO"}
               IN vrd' = IF wbad THEN [vrd EXCEPT !.bad = TRUE]
                         ELSE [vrd EXCEPT !.tiles = {<<wt, vcf.seen[wat(wt)].pay>> : wt \in wtl},
                                          !.holes = {<<wt, vcf.seen[wat(wt) + 1].pay>> : wt \in wholes}]
            /\ vpc' = "done"
            /\ UNCHANGED <<vfmt, vdef, vcf, vrpos, vmaof>>

ReadBackWdl == [ver |-> vrd.det, tiles |-> {wp[1] : wp \in vrd.tiles}, holes |-> {wp[1] : wp \in vrd.holes},
                names |-> vrd.names, nIdx |-> vrd.nIdx, nPlace |-> vrd.nPlace, nMldd |-> vrd.nMldd, nMlmd |-> vrd.nMlmd]

MachineNext == \/ W_Mver \/ W_Mphd \/ W_Main \/ W_Maid \/ W_Mwmo \/ W_MwmoSuppressed \/ W_Modf
               \/ R_Chunk \/ R_Eof
               \/ L_Mver \/ L_WmoGroup \/ L_WmoSkipped \/ L_Ml \/ L_PlanOffsets \/ L_Maof \/ L_Tile \/ L_Finish
               \/ LR_Scan \/ LR_Detect \/ LR_DetectVanillaForWmo \/ LR_Tiles

\* ================================ invariants of the machines =====================================
\* what has been emitted so far is a prefix of the functional layout, and tiles the written bytes
Strip(wcs) == [wi \in 1..Len(wcs) |-> [tag |-> wcs[wi].tag, off |-> wcs[wi].off, size |-> wcs[wi].size]]
LayoutOf(wd) == IF vfmt = "wdt" THEN WdtLayout(wd) ELSE WdlLayout(wd)
WrittenIsPrefix == LET wl == LayoutOf(vdef) IN
                   /\ Len(vcf.seen) <= Len(wl)
                   /\ Strip(vcf.seen) = SubSeq(wl, 1, Len(vcf.seen))
FramingTiles == CF_Tiles(vcf.seen, 0, vcf.cur)
FinishedLayout == vpc \in {"r", "r2", "done"} =>
                  /\ Strip(vcf.seen) = LayoutOf(vdef)
                  /\ CF_Done(vcf)
                  /\ vcf.cur = IF vfmt = "wdt" THEN WdtFileSize(vdef) ELSE WdlFileSize(vdef)

\* WDT: for a definition that is valid for its version the reader returns equal content, and a
\* second write of what was read (with the re-detected version) produces the same chunk list
WdtRoundTrip == (vfmt = "wdt" /\ vpc = "done" /\ WdtStructValid(vdef)) =>
                /\ SameContentWdt(ReadBackWdt, vdef)
                /\ WdtChunkSpecs(ReadBackWdt) = WdtChunkSpecs(vdef)
\* for an invalid one the only loss is the MWMO the version rule forbids
WdtLossIsOnlyMwmo == (vfmt = "wdt" /\ vpc = "done" /\ ~SameContentWdt(ReadBackWdt, vdef)) =>
                     /\ vdef.hasMwmo /\ ~ShouldHave("MWMO", WmoOnly(vdef), vdef.ver)
                     /\ ReadBackWdt.tiles = vdef.tiles /\ ReadBackWdt.flags = vdef.flags

\* WDL: the table written equals the table the format demands and every entry is the header
\* offset of the MARE chunk that carries exactly this tile
MaofPointsAtMare == (vfmt = "wdl" /\ vpc \in {"r", "r2", "done"}) =>
    /\ vmaof = ExpectedMaof(vdef)
    /\ \A wi \in MaofIdxs : (vmaof[wi] # 0) <=> (TileOfIdx(wi) \in vdef.tiles)
    /\ \A wt \in vdef.tiles :
         LET wo == vmaof[TileIdx(wt[1], wt[2])]
             wj == CF_IndexAt(vcf.seen, wo) IN
         /\ CF_IsAt(vcf.seen, wj, wo, "MARE")
         /\ vcf.seen[wj].pay = wt
         /\ MahoWritten(vdef, wt) => (vcf.seen[wj + 1].tag = "MAHO" /\ vcf.seen[wj + 1].pay = wt)
WdlRoundTrip == (vfmt = "wdl" /\ vpc = "done" /\ WdlValid(vdef)) =>
    /\ ~vrd.bad
    /\ vrd.tiles = {<<wt, wt>> : wt \in vdef.tiles}            \* every tile got its own heights
    /\ vrd.holes = {<<wt, wt>> : wt \in vdef.holes}
    /\ vrd.names = vdef.names /\ vrd.nIdx = vdef.nIdx /\ vrd.nPlace = vdef.nPlace
    /\ vrd.nMldd = vdef.nMldd /\ vrd.nMldx = vdef.nMldd /\ vrd.nMlmd = vdef.nMlmd /\ vrd.nMlmx = vdef.nMlmd
    \* second write: the writer takes every decision from the version the reader put into the file
    /\ (vrd.dev = {} => WdlChunkSpecs(ReadBackWdl) = WdlChunkSpecs(vdef))
\* the pre-fix detection loses exactly the WMO group on the second write, and only in auto-detect mode
WdlDeviationLoss == (vfmt = "wdl" /\ vpc = "done" /\ WdlValid(vdef) /\ vrd.dev # {}) =>
    /\ vrd.hint = "Latest" /\ HasWmoChunks(vdef.ver) /\ vdef.names # <<>> /\ ~(\E wt \in vdef.tiles : MahoWritten(vdef, wt))
    /\ WdlChunkSpecs(ReadBackWdl) = WdlChunkSpecs([vdef EXCEPT !.names = <<>>, !.nIdx = 0, !.nPlace = 0])

\* conversions: tile data are never touched; a conversion of a valid WDT stays valid whenever the
\* terrain MWMO is empty (as in every shipped terrain map)
WdtHistoryLaw == (vfmt = "wdt" /\ vpc = "w0") => WdtChainLaw(vdef)
WdlHistoryLaw == (vfmt = "wdl" /\ vpc = "w0" /\ WdlValid(vdef)) => WdlChainLaw(vdef)
WdtConvertLaw == (vfmt = "wdt" /\ vpc = "w0") =>
    \A wto \in {WdtVersions[wi] : wi \in 1..8} :
       LET wc == ConvertWdt(vdef, vdef.ver, wto) IN
       /\ wc.tiles = vdef.tiles
       /\ (WdtValid(vdef) /\ (WmoOnly(vdef) \/ vdef.names = <<>>)) => WdtValid(wc)
       /\ ConvertWdt(vdef, vdef.ver, vdef.ver) = vdef
WdlConvertLaw == (vfmt = "wdl" /\ vpc = "w0" /\ WdlValid(vdef)) =>
    \A wto \in {WdlVersions[wi] : wi \in 1..Len(WdlVersions)} :
       ~ConvertWdlRefuses(vdef, wto) =>
          LET wc == ConvertWdl(vdef, wto) IN
          /\ wc.tiles = vdef.tiles
          /\ WdlValid(wc)
          /\ HolesPreserved(vdef.ver, wto) => wc.holes = vdef.holes
=============================================================================
