INIT Init
NEXT Next
INVARIANT WellFormed
INVARIANT NeverLost
INVARIANT DoneTiles
CHECK_DEADLOCK FALSE
