---------------------------- MODULE MC_Integrity ----------------------------
(* Stage (A) for C10: every configuration x region kind x effect, all detectors run.              *)
(*   MC_Integrity.cfg                intended coverage map: Sound                                  *)
(*   MC_Integrity_ascoded.cfg        the code (D1, D2): Sound up to the predicted gap; gap is real *)
(*   MC_Integrity_ascoded_sound.cfg  the code against plain Sound: TLC must refute                 *)
EXTENDS Integrity
=============================================================================
