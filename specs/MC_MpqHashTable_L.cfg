\* designed machine, layout + termination: two colliding names, NO listfile at the start (compact may refuse),
\* two entries of slack, up to 7 calls; every started call finishes (liveness under weak fairness of the steps)
CONSTANTS
  H = 4
  UNames <- LNames
  Home <- LHome
  InitSeq <- LInit
  InitTok <- LInitTok
  InitRaw = {}
  SubOf <- LSub
  HasLF0 = FALSE
  HasAT0 = FALSE
  Slack = 2
  FU = 32
  Ver = 1
  MaxCalls = 5
  MCToks = {"t1"}
SPECIFICATION MCFairSpec
INVARIANT CursorBehindImage SlotType TableInv ProbeBounded TablesDisjointFromData NoDamage
PROPERTY Termination AbsSpec
CHECK_DEADLOCK FALSE
