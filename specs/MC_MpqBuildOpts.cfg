CONSTANTS
  ListfileAttrSource = "attrs"
  MaxCalls = 4
INIT OInit
NEXT MCNext
INVARIANT HistoryDeterminesOpts
INVARIANT MCListingExact
INVARIANT MCListingCountsBlocks
INVARIANT CouplingShape
CHECK_DEADLOCK FALSE
