
