CONSTANT Dev = {}
CONSTANT MaxCalls = 5
CONSTANT Dts = {0, 1, 3, 5, 13, 1000003}
CONSTANT TabIds = {1, 2, 3, 4, 5, 6, 7, 8, 9}
INIT MCInit
NEXT MCNext
INVARIANT IndexValid
INVARIANT NoNaN
INVARIANT TimeBound
INVARIANT BlendRange
INVARIANT GlobalRange
INVARIANT Terminates
INVARIANT AliasResolved
INVARIANT Additive
INVARIANT NoStuck
CHECK_DEADLOCK FALSE
