CONSTANT GridN = 2
INIT Init
NEXT Next
INVARIANT WrittenIsPrefix
INVARIANT FramingTiles
INVARIANT FinishedLayout
INVARIANT WdtRoundTrip
INVARIANT WdtLossIsOnlyMwmo
INVARIANT MaofPointsAtMare
INVARIANT WdlRoundTrip
INVARIANT WdlDeviationLoss
INVARIANT WdtConvertLaw
INVARIANT WdtHistoryLaw
INVARIANT WdlHistoryLaw
INVARIANT WdlConvertLaw
CHECK_DEADLOCK FALSE
