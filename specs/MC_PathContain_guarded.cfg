CONSTANTS
  Guard = TRUE
  Plat = "posix"
  MaxComps = 4
  MaxEntries = 1
  MCForms = {"rel", "abs", "dotrel", "trail"}
INIT Init
NEXT Next
CHECK_DEADLOCK FALSE
INVARIANTS
  TypeOK
  OrderIndependent
  UnreadTouchesNothing
  PredictionMatchesMachine
  AbortCharacterised
  Contained
