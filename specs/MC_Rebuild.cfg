CONSTANTS
  RFiles <- MFiles
  RTok <- MTok
  REnc = {"secret"}
  RSig = {"(signature)"}
  REmpty = {"empty"}
  RHetBet = FALSE
SPECIFICATION DesignSpec
INVARIANT TargetExact ListOnlyNoTarget CountsTruthful SkippedOnlyByOption VerifyMeansEqual NeverFails
PROPERTY Terminates
CHECK_DEADLOCK FALSE
