CONSTANT PresentAt <- TracePresentAt
CONSTANT StaleReuse = FALSE
CONSTANT SwapShorter = FALSE
CONSTANT DefaultBatch = 10
CONSTANT SwitchAt = 1000
CONSTANT AdaptAt = 5000
CONSTANT SharedHandle = FALSE
INIT Init
NEXT Next
POSTCONDITION Accepted
CHECK_DEADLOCK FALSE
