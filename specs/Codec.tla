-------------------------------- MODULE Codec --------------------------------
(***************************************************************************)
(* The MPQ codec layer as a state machine (property C03).  The constant-   *)
(* level definitions (selector classification, compressor / decompressor   *)
(* pipelines, store-raw rule, limit checks, named deviations) live in      *)
(* CodecDefs.tla so that MpqBuild.tla (C01) can re-use them without this   *)
(* module's state variables.                                               *)
(***************************************************************************)
EXTENDS CodecDefs

---------------------------------------------------------------------------
(* State machine: one behaviour = one compress / decompress round trip.    *)

VARIABLES cph,      \* phase: "start" | "piped" | "failed" | "stored" | "rejected" | "admitted" | "decoded"
          csel,     \* selector
          cin,      \* input length
          cpl,      \* abstract length of the pipeline output
          cout,     \* [raw, len, first] what compress() returned
          cterm,    \* symbolic content
          cres,     \* result of the last call
          chist     \* HISTORY: bytes decompressed by earlier decompress() calls of the same process
cvars == <<cph, csel, cin, cpl, cout, cterm, cres, chist>>

\* volumes around every session budget of security.rs that fits TLC's integers (default 1 GiB; strict 100 MB); the
\* permissive budget (16 GiB) is reached in the driver's thorough history case only
HistVolumes == {0, 104857600, MaxSession - 1, MaxSession, MaxSession + 2097152}
\* the legacy entry point builds a SessionTracker per call; a tracker shared by all calls of the process would make the
\* n-th call see the volume of the n-1 before it (negative control MC_Codec_neg: LegacyTrackerIsPerCall <- FALSE)
LegacyTrackerIsPerCall == TRUE
LegacySessionVolume(h) == IF LegacyTrackerIsPerCall THEN 0 ELSE h

NoOut == [raw |-> TRUE, len |-> 0, first |-> -1]

CInitWithH(M, N, C(_), H) ==
  /\ csel \in M /\ cin \in N /\ cpl \in C(cin) /\ chist \in H
  /\ cph = "start" /\ cout = NoOut /\ cterm = Src /\ cres = "-"
CInitWith(M, N, C(_)) == CInitWithH(M, N, C, {0})

\* compress_internal: run the pipeline (or refuse)
RunPipeline ==
  /\ cph = "start"
  /\ IF CompressPlan(csel).ok /\ AdpcmAligned(csel, cin)
     THEN cph' = "piped" /\ cterm' = Encode(CompressPlan(csel).stages, Src) /\ cres' = "ok"
     ELSE cph' = "failed" /\ cterm' = cterm /\ cres' = "err:Compression"
  /\ UNCHANGED <<csel, cin, cpl, cout, chist>>

\* compress(): store raw when the method byte plus the payload would not be shorter
StoreRaw ==
  /\ cph = "piped" /\ StoresRaw(cin, cpl)
  /\ cph' = "stored" /\ cout' = [raw |-> TRUE, len |-> cin, first |-> -1] /\ cterm' = Src
  /\ UNCHANGED <<csel, cin, cpl, cres, chist>>
EmitPrefixed ==
  /\ cph = "piped" /\ ~StoresRaw(cin, cpl)
  /\ cph' = "stored" /\ cout' = [raw |-> FALSE, len |-> 1 + cpl, first |-> csel]
  /\ UNCHANGED <<csel, cin, cpl, cterm, cres, chist>>

\* decompress(data[1..], data[0], n) on the compressor's own output: limit checks first
LimitCheck ==
  /\ cph = "stored" /\ ~cout.raw
  /\ cres' = PreCheckS(cout.first, cout.len - 1, cin, LegacySessionVolume(chist))
  /\ cph' = IF cres' = "ok" THEN "admitted" ELSE "rejected"
  /\ UNCHANGED <<csel, cin, cpl, cout, cterm, chist>>

\* ... then the decode pipeline and the post checks
DecodeStep ==
  /\ cph = "admitted"
  /\ cterm' = Decode(DecompressPlan(cout.first), cterm)
  /\ cres' = IF cterm' = Garbage THEN "err:Compression" ELSE IF cterm' = Panicked THEN "panic"
              ELSE PostCheck(cin, cin)
  /\ cph' = "decoded"
  /\ UNCHANGED <<csel, cin, cpl, cout, chist>>

CNext == RunPipeline \/ StoreRaw \/ EmitPrefixed \/ LimitCheck \/ DecodeStep

---------------------------------------------------------------------------
(* Invariants = the property, on the model.                                *)

NeverExpand      == cph \in {"stored", "rejected", "admitted", "decoded"} => cout.len <= cin
PrefixIffShrunk  == cph \in {"stored", "rejected", "admitted", "decoded"} =>
                      /\ (cout.raw => cout.len = cin)
                      /\ (~cout.raw => cout.first = csel /\ cout.len < cin)
SupportedSucceed == (cph = "failed" /\ Supported(csel)) => ~AdpcmAligned(csel, cin)
\* accepted under the default limits -- except in the named region
OwnOutputAccepted == cph = "rejected" => BombHeuristicRejectsOwnOutput(cout.len - 1, cin)
\* call-history independence: the verdict on a unit is the verdict of the first call of the process, whatever volume
\* earlier calls decompressed
HistoryIndependent == cph \in {"rejected", "admitted"} => cres = PreCheck(cout.first, cout.len - 1, cin)
\* decode is the reverse of encode -- except for the named deviations
DispatchInverse  == cph = "decoded" =>
                      IF DispatchDeviation(csel) THEN TRUE
                      ELSE /\ cterm = Src /\ cres = "ok"
\* and for every selector the property quantifies over there is no deviation other than multi+bzip2
SupportedInvert  == \A m \in Selectors : Supported(m) => (Inverts(m) \/ DevMultiBzip2StrictSize(m) \/ DevPkwareAsciiMode(m))
\* constant-level: deviations are exactly the non-inverting selectors the compressor accepts
DeviationExact   == \A m \in Selectors : CompressPlan(m).ok => (Inverts(m) <=> ~DispatchDeviation(m))
=============================================================================
