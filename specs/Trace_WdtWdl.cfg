CONSTANT GridN = 64
INIT Init
NEXT Next
POSTCONDITION Accepted
CHECK_DEADLOCK FALSE
