CONSTANTS
  Deviations <- LegacyDeviations
  MhdrFileRelative = FALSE
  NK = 3
  MaxRounds = 2
INIT Init
NEXT Next
INVARIANT CursorBookkeeping
INVARIANT FrameWellFormed
INVARIANT WalkerNeverLost
INVARIANT FramingTiles
INVARIANT MhdrPointsAtNamed
INVARIANT MhdrFlagsConsistent
INVARIANT McinPointsAtMcnk
INVARIANT McnkOfsPointAtNamed
INVARIANT FileEqualsBytes
INVARIANT McnkSizeFieldsConsistent
INVARIANT VersionRuleHolds
INVARIANT OnlyNamedLoss
INVARIANT NoGrowth
CHECK_DEADLOCK FALSE
