--------------------------- MODULE Gen_M2Layout ---------------------------
(* Stage (B) for C13: TLC enumerates the shape space of the quantifier and emits, WITH every shape, the   *)
(* header size, the position of every (count, offset) pair and the element size of every section for that  *)
(* version -- computed from M2Layout (the spec, not the crate, is the source of the numbers the walker in  *)
(* the driver uses).                                                                                       *)
(*   shape space  S = [Dims -> {0,1,3}] x Versions x {kf} x {floats}   (3^20 * 20 points)                  *)
(*   quick   = reduced product: all-empty / all-one / all-many, every dimension populated alone, every    *)
(*             pair of dimensions populated together, + seeded draws from S (LCG on IOEnv.VERIF_SEED)      *)
(*   thorough = the same slices with every version and both cardinalities + many more draws               *)
EXTENDS M2Layout, Json, IOUtils

Thorough == IOEnv.VERIF_TIER = "thorough"
Seed == atoi(IOEnv.VERIF_SEED)

Dims == << "name", "global_sequences", "animations", "bones", "vertices", "textures", "materials", "views",
           "particle_emitters", "ribbon_emitters", "texture_animations", "color_animations",
           "transparency_animations", "events", "attachments", "cameras", "lights",
           "lookupsA", "lookupsB", "bounding" >>
ND == Len(Dims)
SecsOf(dim) == CASE dim = "lookupsA" -> {"animation_lookup", "key_bone_lookup", "bone_lookup_table", "texture_lookup_table", "texture_units"}
                 [] dim = "lookupsB" -> {"transparency_lookup_table", "texture_animation_lookup", "attachment_lookup_table", "camera_lookup_table"}
                 [] dim = "bounding" -> {"bounding_triangles", "bounding_vertices", "bounding_normals"}
                 [] OTHER -> {dim}
DimOf(sec) == CHOOSE j \in 1..ND : sec \in SecsOf(Dims[j])
Cards == <<0, 1, 3>>

\* ZX81-style LCG, period 65536: deterministic draws from (seed, draw index, coordinate)
Lcg(x) == (x * 75 + 74) % 65537
Rnd(a, b, c) == Lcg(Lcg(Lcg((Seed * 131 + a * 31 + 7) % 65537) + b * 977) + c * 389)

M2Secs == SecSet("m2")
LayoutOf(ver) == LET vn == VerNum(ver) IN
  [ hsize  |-> HeaderSize("m2", vn),
    hdrpos |-> [sec \in M2Secs |-> IF HasPair("m2", vn, sec) THEN HdrPos("m2", vn, sec) ELSE -1],
    elem   |-> [sec \in M2Secs |-> RecBytes("m2", sec, vn)] ]
LayoutTab == [ver \in VerSet |-> LayoutOf(ver)]

\* a point of S given as a tuple of cardinalities indexed like Dims
\* string lengths (model name, texture file names -- the two strings of the object model): -1 = short default / 300
StrLens == {0, 1, 260, 261, 1024}
M2CaseS(tag, cards, ver, kf, floats, nlen, tlen) ==
  [ kind |-> "m2", slice |-> tag, namelen |-> nlen, texlen |-> tlen, alias |-> 0, kfmask |-> IF kf THEN 7 ELSE 0, save |-> FALSE, amask |-> -1, arot |-> FALSE, ver |-> ver, vn |-> VerNum(ver), kf |-> kf, floats |-> floats,
    card |-> [sec \in M2Secs |-> cards[DimOf(sec)]],
    convs |-> Versions,
    hsize |-> LayoutTab[ver].hsize, hdrpos |-> LayoutTab[ver].hdrpos, elem |-> LayoutTab[ver].elem,
    order |-> M2Order ]
M2Case(tag, cards, ver, kf, floats) == M2CaseS(tag, cards, ver, kf, floats, -1, -1)

AllOf(c) == [j \in 1..ND |-> c]
Single(d, c) == [j \in 1..ND |-> IF j = d THEN c ELSE 0]
Pair(d1, d2, c1, c2) == [j \in 1..ND |-> IF j = d1 THEN c1 ELSE IF j = d2 THEN c2 ELSE 0]
VerAt(q) == Versions[(q % 5) + 1]

Uniform == { M2Case("uniform", AllOf(c), ver, kf, IF c = 3 THEN "extreme" ELSE "normal") :
               c \in {0, 1, 3}, ver \in VerSet, kf \in BOOLEAN }
Singles == IF Thorough
           THEN { M2Case("single", Single(d, c), ver, kf, "normal") : d \in 1..ND, c \in {1, 3}, ver \in VerSet, kf \in BOOLEAN }
           ELSE { M2Case("single", Single(d, c), ver, TRUE, "normal") : d \in 1..ND, c \in {1, 3}, ver \in VerSet }
PairIdx == {<<d1, d2>> \in (1..ND) \X (1..ND) : d1 < d2}
Pairs == IF Thorough
         THEN { M2Case("pair", Pair(p[1], p[2], c1, c2), ver, TRUE, "normal") : p \in PairIdx, c1 \in {1, 3}, c2 \in {1, 3}, ver \in VerSet }
         ELSE { M2Case("pair", Pair(p[1], p[2], 3, 3), VerAt(Seed + p[1] * 7 + p[2]), TRUE, "normal") : p \in PairIdx }
\* deterministic slice, the same for every seed: every pair of lengths for (model name, texture names) with the name,
\* three textures and one vertex populated; the version rotates with the pair, the boundary pairs run in all versions
StrShape == [j \in 1..ND |-> IF Dims[j] \in {"name", "vertices"} THEN 1 ELSE IF Dims[j] = "textures" THEN 3 ELSE 0]
Strings == { M2CaseS("strings", StrShape, VerAt(nl + tl), TRUE, "normal", nl, tl) : nl \in StrLens, tl \in StrLens }
           \cup { M2CaseS("strings", StrShape, ver, TRUE, "normal", ln, ln) : ln \in {260, 261, 1024}, ver \in VerSet }
\* aliasing pattern of key-frame arrays (0 none, 1 the tracks of one element share a timestamps array, 2 all tracks of a
\* section share one) and per-element presence pattern (bit i of kfmask: element i carries key frames): deterministic slices
\* over a shape with every animated section populated with 3 elements
Animated == {"bones", "particle_emitters", "ribbon_emitters", "texture_animations", "color_animations",
             "transparency_animations", "events", "attachments", "cameras", "lights"}
AnimShape == [j \in 1..ND |-> IF Dims[j] \in Animated THEN 3 ELSE 0]
WithPattern(base, al, km) == [base EXCEPT !.alias = al, !.kfmask = km, !.kf = (km # 0)]
Aliased  == { WithPattern(M2Case("alias", AnimShape, ver, TRUE, "normal"), al, 7) : al \in {1, 2}, ver \in VerSet }
Presence == { WithPattern(M2Case("presence", AnimShape, ver, TRUE, "normal"), 0, km) : km \in 1..6, ver \in VerSet }
\* number of embedded views {0,1,2,4} x every source version (each case is converted to all 5 targets through both APIs)
ViewCounts == { M2Case("views", [j \in 1..ND |-> IF Dims[j] = "views" THEN nv ELSE IF Dims[j] = "vertices" THEN 1 ELSE 0], ver, FALSE, "normal") :
                  nv \in {0, 1, 2, 4}, ver \in VerSet }
\* array presence mask of the tracks (bit 1 ranges, 2 timestamps, 4 values; for events ranges / timestamps): every array of a
\* structure present or absent INDEPENDENTLY.  All 8 combinations for every animated section (3 elements each) at Vanilla and TBC
\* (where bone tracks have ranges) and WotLK; at Cataclysm / MoP the mask additionally rotates over the elements ((m + 3i) mod 8)
ArraySlice == { [M2Case("arrays", AnimShape, ver, TRUE, "normal") EXCEPT !.amask = am] : am \in 0..7, ver \in {"Vanilla", "TBC", "WotLK"} }
               \cup { [M2Case("arrays", AnimShape, ver, TRUE, "normal") EXCEPT !.amask = am, !.arot = TRUE] : am \in 0..7, ver \in {"Cataclysm", "MoP"} }
\* save(path) slice: these cases are additionally saved to a path that is absent / holds a shorter / a longer file
SaveCases == { [M2Case("save", AllOf(c), ver, TRUE, "normal") EXCEPT !.save = TRUE] : c \in {1, 3}, ver \in VerSet }
NDraws == IF Thorough THEN 3000 ELSE 120
LenSeq == <<-1, 0, 1, 260, 261, 1024, -1, -1>>
Draw(q) == WithPattern(M2CaseS("random", [j \in 1..ND |-> Cards[(Rnd(q, j, 1) % 3) + 1]], VerAt(Rnd(q, 0, 2)),
                   Rnd(q, 0, 3) % 4 # 0, IF Rnd(q, 0, 4) % 3 = 0 THEN "extreme" ELSE "normal",
                   LenSeq[(Rnd(q, 0, 5) % 8) + 1], LenSeq[(Rnd(q, 0, 6) % 8) + 1]),
                       Rnd(q, 0, 7) % 3, IF Rnd(q, 0, 3) % 4 = 0 THEN 0 ELSE <<7, 7, 7, 1, 2, 3, 4, 5, 6, 7>>[(Rnd(q, 0, 8) % 10) + 1])
Draws == { Draw(q) : q \in 1..NDraws }

\* ---- skin files: layout x cardinality of the five arrays (full product 2 * 3^5 = 486 in thorough) --------
SkinSecs == SecSet("skin_old")
SkinLayoutOf(fmt) == [ hsize |-> HeaderSize(fmt, 264),
                       hdrpos |-> [sec \in SkinSecs |-> HdrPos(fmt, 264, sec)],
                       elem |-> [sec \in SkinSecs |-> RecBytes(fmt, sec, 264)] ]
SkinCase(tag, fmt, cards, ver) ==
  [ kind |-> "skin", slice |-> tag, layout |-> fmt, ver |-> ver, save |-> (\A sec \in SkinSecs : cards[sec] = cards["triangles"]), card |-> [sec \in SkinSecs |-> cards[sec]],
    hsize |-> SkinLayoutOf(fmt).hsize, hdrpos |-> SkinLayoutOf(fmt).hdrpos, elem |-> SkinLayoutOf(fmt).elem,
    order |-> SkinOrder ]
SkinCards == [SkinSecs -> {0, 1, 3}]
SkinQuick == {f \in SkinCards : Cardinality({sec \in SkinSecs : f[sec] > 0}) <= 2 \/ \A sec \in SkinSecs : f[sec] = f["indices"]}
SkinVers == {"WotLK", "Cataclysm", "MoP"}
Skins == { SkinCase("skin", fmt, f, IF fmt = "skin_old" THEN "WotLK" ELSE ver) :
             fmt \in {"skin_old", "skin_new"}, f \in (IF Thorough THEN SkinCards ELSE SkinQuick),
             ver \in (IF Thorough THEN SkinVers ELSE {"Cataclysm"}) }
           \cup { SkinCase("skin", "skin_old", [sec \in SkinSecs |-> IF sec = "indices" THEN 6 ELSE f[sec]], "WotLK") :
                    f \in (IF Thorough THEN SkinCards ELSE SkinQuick) }

\* ---- anim files: format x sections x bones per section x key-frame data ----------------------------------
\* presence pattern over the bone table: bit i of mask = bone i carries key frames (all 8 patterns over 3 bones)
MasksOf(nb) == IF nb = 0 THEN {0} ELSE IF nb = 1 THEN {0, 1} ELSE 0..7
Anims == { [ kind |-> "anim", slice |-> "anim", format |-> fm, nsec |-> ns, nbones |-> nb, mask |-> mk, data |-> (mk # 0), save |-> (ns = 3 /\ mk \in {0, 1, 5}),
             hsize |-> 20 + 12 * ns, entrypos |-> [j \in 1..ns |-> 20 + 12 * (j - 1)] ] :
             fm \in {"modern", "legacy"}, ns \in {0, 1, 3}, nb \in {0, 1, 3}, mk \in 0..7 } \ {c2 \in {} : TRUE}
AnimsOk == {c2 \in Anims : c2.mask \in MasksOf(c2.nbones) /\ (c2.nsec > 0 \/ (c2.nbones = 0 /\ c2.mask = 0))}

Cases == SetToSeq(Uniform) \o SetToSeq(Strings) \o SetToSeq(Aliased) \o SetToSeq(Presence) \o SetToSeq(ViewCounts) \o SetToSeq(SaveCases) \o SetToSeq(ArraySlice) \o SetToSeq(Singles) \o SetToSeq(Pairs) \o SetToSeq(Draws) \o SetToSeq(Skins) \o SetToSeq(AnimsOk)
ASSUME ndJsonSerialize(IOEnv.CASES, Cases)
ASSUME PrintT(<<"GENERATED", Len(Cases), Cardinality(Uniform), Cardinality(Singles), Cardinality(Pairs), Cardinality(Draws), Cardinality(Skins), Cardinality(AnimsOk)>>)

VARIABLE gdummy
Init == /\ gdummy = 0 /\ mfmt = "m2" /\ mver = "WotLK" /\ mshape = ZeroFn /\ mtail = ZeroFn /\ mpc = "start" /\ msec = 1
        /\ mcur = 0 /\ memit = 0 /\ mhdr = NoHdr /\ mtrk = ZeroFn /\ mfile = << >> /\ mparsed = NoParse /\ mgen = 0 /\ mfirst = 0
Next == UNCHANGED <<gdummy, mvars>>
=============================================================================
