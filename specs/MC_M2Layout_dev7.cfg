\* named deviation (must be refuted): structures without timestamps are not preserved (seeded change C13-s10) -> ASSUME ArraysPreserved false
CONSTANT SubmeshStep = 48
CONSTANT AnimBoneRule = "table"
CONSTANT RelocAdvanceAlways = FALSE
CONSTANT CollectSkipRule = "no-times"
CONSTANT SaveTruncates = TRUE
CONSTANT ViewBatchBytes = 24
INIT Init
NEXT Next
INVARIANT CursorIsEmitted
INVARIANT SegmentsTile
INVARIANT RegionsInsideFile
INVARIANT RegionsDisjoint
INVARIANT HeaderMatchesEmitted
INVARIANT RoundTrip
INVARIANT RewriteStable
INVARIANT ConvertSame
INVARIANT ConvertKeeps
CHECK_DEADLOCK FALSE
