---------------------------- MODULE MC_Integrity ----------------------------
(* Stage (A) for C10: every configuration x region kind x effect, all detectors run.              *)
(*   MC_Integrity.cfg                intended map = the code since da9094c: Sound                  *)
(*   MC_Integrity_ascoded.cfg        legacy code (D1, D2): Sound up to the predicted gap; real *)
(*   MC_Integrity_ascoded_sound.cfg  legacy code (before 48c5310) against plain Sound: refuted      *)
(*   MC_Integrity_gatehole.cfg       7734a50 before da9094c: Sound up to the gate gap; gap real   *)
(*   MC_Integrity_gatehole_sound.cfg 7734a50 before da9094c against plain Sound: must be refuted  *)
EXTENDS Integrity
=============================================================================
