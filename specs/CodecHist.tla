------------------------------ MODULE CodecHist ------------------------------
(***************************************************************************)
(* Call histories of the MPQ codec layer (property C03).                   *)
(*                                                                         *)
(* The property quantifies over CALLS: every compress / decompress of a    *)
(* valid unit must give the round-trip result whatever the same thread or  *)
(* process did before -- in particular after calls that FAILED (a damaged  *)
(* sector, a truncated stream, a wrong expected size, a refused compress). *)
(* That is true by construction when every call builds its own encoder /   *)
(* decoder object (the code as it is: DecoderScope = "call").  It stops    *)
(* being true when the working state of a stage outlives the call (a       *)
(* thread_local or a static, re-initialised on the success path only):     *)
(* scope "thread" / "process" are the negative controls of the model       *)
(* (MC_CodecHist_thread / _process: TLC must refute CallIndependent).      *)
(*                                                                         *)
(* State: for every object (side, stage) the condition in which the next   *)
(* call finds it: "fresh" (as constructed), "mid" (stopped inside a stream *)
(* without an error), "err" (hard error).  A stage applied to its own      *)
(* encoder's output yields the input only when it starts fresh.            *)
(***************************************************************************)
EXTENDS CodecDefs

HThreads == {1, 2}
\* what can be wrong with the stored bytes / the arguments of a decompress call
\*   flip      a few bytes in the middle altered            (hard error inside the stream)
\*   junk      header kept, the rest replaced               (hard error at the first block)
\*   trunc     stream cut in the middle                     (input exhausted; no hard error in most codecs)
\*   shortexp  intact stream, expected size too small       (output limit reached inside the stream)
\*   hugeexp   intact stream, expected size absurdly large  (refused by the limit checks before any stage runs)
HDamage == {"flip", "junk", "trunc", "shortexp", "hugeexp"}
HStageNames == {"huffman", "zlib", "implode", "pkware", "bzip2", "sparse", "lzma", "adpcm_mono", "adpcm_stereo"}
HObjects == {"enc", "dec"} \X HStageNames

\* lifetime of a stage's working state: "call" = built by every call (the code as it is)
DecoderScope == "call"

HSlot(scope, t) == IF scope = "process" THEN 1 ELSE t
HFreshAll == [t \in HThreads |-> [o \in HObjects |-> "fresh"]]
HFound(scope, hd, t, o) == IF scope = "call" THEN "fresh" ELSE hd[HSlot(scope, t)][o]

SeqSet(sq) == {sq[j] : j \in 1..Len(sq)}
PlanStages(m) == [j \in 1..Len(DecompressPlan(m)) |-> DecompressPlan(m)[j].stage]
\* the objects a full round trip of selector m goes through: compress, then decompress / decompress_secure
HUses(m) == {<<"enc", s>> : s \in SeqSet(CompressPlan(m).stages)} \cup {<<"dec", s>> : s \in SeqSet(PlanStages(m))}

\* result class of the round trip of a valid unit with selector m, run on thread t
HGoodRes(scope, hd, t, m) ==
  IF DecodeClass(m) # "ok" THEN "err"                                   \* the named dispatch deviations (CodecDefs)
  ELSE IF \A o \in HUses(m) : HFound(scope, hd, t, o) = "fresh" THEN "ok" ELSE "err"
\* a round trip re-initialises what it ran through successfully and leaves an object it failed in as it found it
HAfterGood(scope, hd, t, m) == hd

\* the object a damaged decompress call leaves behind: the damage is in the bytes the FIRST stage of the decode plan reads
HHit(m, dmg) == IF dmg = "hugeexp" \/ DecompressPlan(m) = <<>> THEN {} ELSE {<<"dec", PlanStages(m)[1]>>}
HLeft(dmg) == IF dmg \in {"flip", "junk"} THEN "err" ELSE "mid"
HAfterBad(scope, hd, t, m, dmg) ==
  IF scope = "call" THEN hd
  ELSE [hd EXCEPT ![HSlot(scope, t)] = [o \in HObjects |-> IF o \in HHit(m, dmg) /\ @[o] = "fresh" THEN HLeft(dmg) ELSE @[o]]]
\* a refused compress call: an ADPCM flavour handed a length that is not a whole number of sample frames
HAfterBadC(scope, hd, t, m) ==
  IF scope = "call" \/ CompressPlan(m).stages = <<>> THEN hd
  ELSE LET o1 == <<"enc", CompressPlan(m).stages[1]>> IN
       [hd EXCEPT ![HSlot(scope, t)] = [o \in HObjects |-> IF o = o1 /\ @[o] = "fresh" THEN "err" ELSE @[o]]]

---------------------------------------------------------------------------
VARIABLES hobj,    \* [thread slot -> [object -> condition]]
          hcnt,    \* calls so far
          hlast    \* the last call and the model's result class for it
hvars == <<hobj, hcnt, hlast>>

HNoCall == [thr |-> 0, op |-> "-", m |-> 0, dmg |-> "-", res |-> "-"]
HInit == hobj = HFreshAll /\ hcnt = 0 /\ hlast = HNoCall

\* compress + decompress + decompress_secure of a valid unit
HGood(t, m) ==
  /\ hlast' = [thr |-> t, op |-> "good", m |-> m, dmg |-> "-", res |-> HGoodRes(DecoderScope, hobj, t, m)]
  /\ hobj' = HAfterGood(DecoderScope, hobj, t, m)
  /\ hcnt' = hcnt + 1
\* decompress + decompress_secure of a damaged unit: whatever they return (the property does not say) -- "any"
HBad(t, m, dmg) ==
  /\ hlast' = [thr |-> t, op |-> "bad", m |-> m, dmg |-> dmg, res |-> "any"]
  /\ hobj' = HAfterBad(DecoderScope, hobj, t, m, dmg)
  /\ hcnt' = hcnt + 1
\* compress refused (misaligned ADPCM length)
HBadC(t, m) ==
  /\ ~AdpcmAligned(m, 6 + 1)          \* such a length exists for m: the selector starts with an ADPCM stage
  /\ hlast' = [thr |-> t, op |-> "badc", m |-> m, dmg |-> "-", res |-> "any"]
  /\ hobj' = HAfterBadC(DecoderScope, hobj, t, m)
  /\ hcnt' = hcnt + 1

HSel == {m \in Selectors : Supported(m)}
HNext == \E t \in HThreads :
           \/ \E m \in HSel : HGood(t, m)
           \/ \E m \in HSel, d \in HDamage : HBad(t, m, d)
           \/ \E m \in HSel : HBadC(t, m)

\* THE PROPERTY on histories: the result of a round trip does not depend on what was called before
CallIndependent == hlast.op = "good" => hlast.res = (IF DecodeClass(hlast.m) = "ok" THEN "ok" ELSE "err")
HTypeOK == /\ hobj \in [HThreads -> [HObjects -> {"fresh", "mid", "err"}]]
           /\ hlast.op \in {"-", "good", "bad", "badc"}

---------------------------------------------------------------------------
(* Which round trips does a failed call endanger?  Under the negative-control scope the model tells: the selectors   *)
(* whose result class changes when the call precedes them on the same thread.  The generator derives its histories   *)
(* from this (Gen_Codec!CallHistories), so a new stage / plan in CodecDefs extends the histories by itself.           *)
SensitiveToBad(mb, dmg) ==
  {g \in HSel : HGoodRes("thread", HAfterBad("thread", HFreshAll, 1, mb, dmg), 1, g) # HGoodRes("thread", HFreshAll, 1, g)}
SensitiveToBadC(mb) ==
  {g \in HSel : HGoodRes("thread", HAfterBadC("thread", HFreshAll, 1, mb), 1, g) # HGoodRes("thread", HFreshAll, 1, g)}
=============================================================================
