\* implementation as it is now, archive WITHOUT listfile: compact() refuses instead of dropping; satisfies everything the design does
CONSTANTS
  H = 4
  UNames <- MCNames
  Home <- MCHome
  InitSeq <- MCInit
  InitTok <- MCInitTok
  InitRaw = {}
  SubOf <- MCSub
  HasLF0 = FALSE
  HasAT0 = FALSE
  Slack = 2
  FU = 2
  Ver = 1
  MaxCalls = 4
  MCToks = {"t1"}
SPECIFICATION CodeNowSpec
INVARIANT CursorBehindImage SlotType TableInv ProbeBounded TablesDisjointFromData NoDamage AbsClean
PROPERTY AbsSpec OpRefines AtomicRefines
CHECK_DEADLOCK FALSE
