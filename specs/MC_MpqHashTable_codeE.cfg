\* implementation as it is now: TLC must exhibit a rename that is not the abstract Rename (encrypted file keeps the old key)
CONSTANTS
  H = 4
  UNames <- MCNames
  Home <- MCHome
  InitSeq <- MCInit
  InitTok <- MCInitTok
  InitRaw = {}
  SubOf <- MCSub
  HasLF0 = TRUE
  HasAT0 = FALSE
  Slack = 2
  FU = 2
  Ver = 1
  MaxCalls = 4
  MCToks = {"t1"}
SPECIFICATION CodeNowSpec
PROPERTY OpRefines
CHECK_DEADLOCK FALSE
