CONSTANT SectorBase = 512
