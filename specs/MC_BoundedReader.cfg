CONSTANTS
  MaxLen = 24
  Faults = {}
SPECIFICATION Spec
INVARIANTS TypeOK ReadInBounds AllocBounded TotalBounded WorkBounded CursorInside OutcomeTotal
PROPERTIES ChunkProgress ArrayProgress StringProgress Termination
CHECK_DEADLOCK TRUE
