---------------------------- MODULE Gen_BlpLayout ----------------------------
(* Stage (B) for C16: TLC tabulates, for (w,h) x version x encoding x alpha depth x mipmaps on/off,   *)
(* the expected level count, level dimensions and level byte sizes, header size and locator position: *)
(* the rows are both the cases and the oracle's inputs (stage D recomputes them from the shape).      *)
EXTENDS BlpLayout, Json, IOUtils

Thorough == IOEnv.VERIF_TIER = "thorough"
Seed     == atoi(IOEnv.VERIF_SEED)

SmallDims == {1, 2, 3, 4, 5, 7, 8, 16, 17, 31, 32, 33, 64}
BigDims   == {100, 128, 255, 256, 257, 512}
Images    == <<"gradient", "fewcolors", "noise", "transparent", "binalpha">>
Targets == {gt \in Versions \X Encodings \X {0, 1, 4, 8} : TargetOk(gt[1], gt[2]) /\ AlphaOk(gt[2], gt[3])}

Row(gw, gh, gt, gm, gi) ==
    [kind |-> "blp", ver |-> gt[1], enc |-> gt[2], alpha |-> gt[3], w |-> gw, h |-> gh, mips |-> gm, img |-> Images[(gi % 5) + 1],
     count |-> MipCount(gw, gh, gm), dims |-> Chain(gw, gh, gm), bytes |-> LevelSizes(gt[2], gt[3], gw, gh, gm),
     hdr |-> HeaderSize(gt[1]), loc |-> LocatorPos(gt[1]),
     \* destination pre-states for the file-path API (save_blp / load_blp): BLP0 (external level files) gets all three,
     \* the other versions one, rotating with the shape and the seed
     pre |-> IF gt[1] = "Blp0" THEN <<"absent", "shorter", "longer">>
             ELSE <<SetToSeq(PreStates)[((gw + gh + gt[3] + gi + Seed) % 3) + 1]>>]

Lossless(gt) == gt[2] \in {"raw1", "raw3"}
\* quick: every (w,h) of the small set for BLP2 raw3 / raw1-8bit / DXT1 with mipmaps; every target and both mipmap
\* settings on a seed-rotated 1/7 of the pairs plus fixed non-square / odd pairs; a few large ones
FixedPairs == {<<8, 2>>, <<2, 8>>, <<1, 64>>, <<5, 3>>, <<17, 33>>, <<64, 1>>, <<4, 4>>, <<1, 1>>, <<3, 3>>, <<31, 8>>}
Hash(gw, gh, gt) == gw * 7 + gh * 13 + (IF gt[1] = "Blp2" THEN 3 ELSE 0) + gt[3] + Seed
QuickRows ==
    {Row(gw, gh, gt, TRUE, gw + gh) : gw \in SmallDims, gh \in SmallDims,
        gt \in {<<"Blp2", "raw3", 8>>, <<"Blp2", "raw1", 8>>, <<"Blp2", "dxt1", 0>>, <<"Blp1", "raw1", 4>>}}
    \cup {Row(gp[1], gp[2], gt, gm, gp[1] + gt[3]) : gp \in FixedPairs, gt \in Targets, gm \in BOOLEAN}
    \cup {Row(gq[1], gq[2], gq[3], gm, gq[1] + 2 * gq[2]) : gq \in {gqq \in SmallDims \X SmallDims \X Targets : Hash(gqq[1], gqq[2], gqq[3]) % 7 = 0}, gm \in BOOLEAN}
    \cup {Row(gp[1], gp[2], gt, TRUE, 0) : gp \in {<<256, 100>>, <<257, 255>>}, gt \in {<<"Blp2", "raw3", 8>>, <<"Blp2", "raw1", 1>>, <<"Blp2", "dxt5", 8>>, <<"Blp1", "jpeg", 8>>}}
ThoroughRows ==
    {Row(gw, gh, gt, gm, gw + 2 * gh + gt[3]) : gw \in SmallDims, gh \in SmallDims, gt \in Targets, gm \in BOOLEAN}
    \cup {Row(gw, gh, gt, gm, gw + gh) : gw \in BigDims, gh \in BigDims \cup {1, 3, 8}, gt \in {gtt \in Targets : Lossless(gtt)}, gm \in BOOLEAN}
    \cup {Row(gw, gh, gt, TRUE, gw) : gw \in {100, 128, 255, 256}, gh \in {128, 256, 257, 5}, gt \in {gtt \in Targets : ~Lossless(gtt)}}
    \cup {Row(gp[1], gp[2], gt, TRUE, 0) : gp \in {<<512, 512>>, <<512, 100>>, <<257, 512>>}, gt \in {<<"Blp2", "dxt1", 8>>, <<"Blp2", "dxt3", 8>>, <<"Blp2", "dxt5", 8>>, <<"Blp2", "jpeg", 8>>, <<"Blp1", "jpeg", 0>>, <<"Blp0", "raw1", 8>>}}

Cases == SetToSeq(IF Thorough THEN ThoroughRows ELSE QuickRows)
GInit == vshape = 0 /\ vimgs = 0 /\ vcur = 0 /\ vloc = 0 /\ vext = 0 /\ vpc = "gen" /\ vdev = 0 /\ vgot = 0
GNext == UNCHANGED bvars
ASSUME ndJsonSerialize(IOEnv.CASES, Cases)
ASSUME PrintT(<<"GENERATED", Len(Cases), Cardinality(Targets)>>)
=============================================================================
