CONSTANTS
  RFiles = {}
  RTok = {}
  REnc = {}
  RSig = {}
  REmpty = {}
  RHetBet = FALSE
  RUnlisted = {}
INIT TInit
NEXT TNext
POSTCONDITION Accepted
CHECK_DEADLOCK FALSE
