//! C05 seeds, field inventory and entry points for BLP textures (wow_blp::parser::parse_blp).
//!
//! Every seed is produced by the library's own pipeline: a small RGBA test picture (built as a
//! hand-filled `BlpImage` with Raw3 content and turned into an image with `blp_to_image`, so that
//! this crate does not need the `image` crate) -> `convert::image_to_blp` -> `encode::encode_blp`.
//!
//! Not produced: BLP0. Its mipmaps live in external files (`encode_blp0` returns them separately)
//! and `parse_blp` (no externals) answers `MissingImage(0)` for every BLP0 file, so no BLP0 file
//! has an `ok` baseline through this entry point.
//!
//! Header layout (types/header.rs, parser/header.rs):
//!   BLP2: magic 0, content u32 4, compression u8 8, alpha_bits u8 9, alpha_type u8 10,
//!         has_mipmaps u8 11, width 12, height 16, offsets[16] 20, sizes[16] 84; content at 148
//!   BLP1: magic 0, content u32 4, alpha_bits u32 8, width 12, height 16, extra u32 20,
//!         has_mipmaps u32 24, offsets[16] 28, sizes[16] 92; content at 156
//!   direct content: 256 x u32 palette; jpeg content: u32 header_size, header_size + 2 bytes.
use crate::seed::{Aux, Seed};
use crate::worker::{errname, Runner};
use wow_blp::convert::{image_to_blp, AlphaBits, Blp2Format, BlpOldFormat, BlpTarget, DxtAlgorithm, FilterType};
use wow_blp::encode::encode_blp;
use wow_blp::types::*;

struct Spec {
    name: &'static str,
    w: u32,
    h: u32,
    mips: bool,
    quick: bool,
}

const SPECS: &[Spec] = &[
    Spec { name: "blp2-dxt5-mip-16x16", w: 16, h: 16, mips: true, quick: true },
    Spec { name: "blp1-jpeg-mip-8x8", w: 8, h: 8, mips: true, quick: true },
    Spec { name: "blp2-dxt1-mip-16x16", w: 16, h: 16, mips: true, quick: false },
    Spec { name: "blp2-dxt3-mip-16x4", w: 16, h: 4, mips: true, quick: false },
    Spec { name: "blp2-raw1-a8-mip-16x4", w: 16, h: 4, mips: true, quick: false },
    Spec { name: "blp2-raw1-a1-8x8", w: 8, h: 8, mips: false, quick: false },
    Spec { name: "blp2-raw3-mip-8x8", w: 8, h: 8, mips: true, quick: false },
    Spec { name: "blp2-jpeg-16x4", w: 16, h: 4, mips: false, quick: false },
    Spec { name: "blp1-raw1-a8-mip-16x16", w: 16, h: 16, mips: true, quick: false },
    Spec { name: "blp1-raw1-a0-16x4", w: 16, h: 4, mips: false, quick: false },
    Spec { name: "blp1-jpeg-noalpha-mip-16x4", w: 16, h: 4, mips: true, quick: false },
    // has_mipmaps = 0 on the BLP2 direct decoders that had only mip-mapped seeds (parse_dxtn / parse_raw3 read image 0
    // only: parser/direct/blp2.rs `if blp_header.has_mipmaps()` not taken)
    Spec { name: "blp2-dxt1-nomip-8x8", w: 8, h: 8, mips: false, quick: false },
    Spec { name: "blp2-dxt3-nomip-8x4", w: 8, h: 4, mips: false, quick: false },
    Spec { name: "blp2-dxt5-nomip-4x8", w: 4, h: 8, mips: false, quick: false },
    Spec { name: "blp2-raw3-nomip-8x4", w: 8, h: 4, mips: false, quick: false },
    // the remaining alpha widths of the palettised decoder (parser/direct/blp1.rs: an = ceil(n * alpha_bits / 8))
    Spec { name: "blp2-raw1-a0-mip-8x8", w: 8, h: 8, mips: true, quick: false },
    Spec { name: "blp2-raw1-a4-mip-8x4", w: 8, h: 4, mips: true, quick: false },
    Spec { name: "blp1-raw1-a1-mip-8x8", w: 8, h: 8, mips: true, quick: false },
    Spec { name: "blp1-raw1-a4-8x4", w: 8, h: 4, mips: false, quick: false },
    // DXT data shorter than the block count: mip 0 keeps 100 of its 128 bytes (12 whole blocks + 4 bytes), the last mip 4
    // of its 8 bytes (0 whole blocks). encode_blp always writes whole mips, so the two size words are patched.
    Spec { name: "blp2-dxt1-mip-16x16-short", w: 16, h: 16, mips: true, quick: false },
    // content tag 7 (neither 0 = JPEG nor 1 = direct): parse_header falls back to JPEG. The writer only emits 0 / 1, so
    // the tag word is patched.
    Spec { name: "blp1-jpeg-content7-8x8", w: 8, h: 8, mips: true, quick: false },
];

pub fn seed_names(thorough: bool) -> Vec<String> {
    SPECS.iter().filter(|s| thorough || s.quick).map(|s| s.name.to_string()).collect()
}

fn target(name: &str) -> BlpTarget {
    let alg = DxtAlgorithm::RangeFit;
    match name {
        "blp2-dxt5-mip-16x16" => BlpTarget::Blp2(Blp2Format::Dxt5 { has_alpha: true, compress_algorithm: alg }),
        "blp2-dxt1-mip-16x16" => BlpTarget::Blp2(Blp2Format::Dxt1 { has_alpha: false, compress_algorithm: alg }),
        "blp2-dxt3-mip-16x4" => BlpTarget::Blp2(Blp2Format::Dxt3 { has_alpha: true, compress_algorithm: alg }),
        "blp2-raw1-a8-mip-16x4" => BlpTarget::Blp2(Blp2Format::Raw1 { alpha_bits: AlphaBits::Bit8 }),
        "blp2-raw1-a1-8x8" => BlpTarget::Blp2(Blp2Format::Raw1 { alpha_bits: AlphaBits::Bit1 }),
        "blp2-raw3-mip-8x8" => BlpTarget::Blp2(Blp2Format::Raw3),
        "blp2-jpeg-16x4" => BlpTarget::Blp2(Blp2Format::Jpeg { has_alpha: true }),
        "blp1-raw1-a8-mip-16x16" => BlpTarget::Blp1(BlpOldFormat::Raw1 { alpha_bits: AlphaBits::Bit8 }),
        "blp1-raw1-a0-16x4" => BlpTarget::Blp1(BlpOldFormat::Raw1 { alpha_bits: AlphaBits::NoAlpha }),
        "blp1-jpeg-mip-8x8" => BlpTarget::Blp1(BlpOldFormat::Jpeg { has_alpha: true }),
        "blp1-jpeg-noalpha-mip-16x4" => BlpTarget::Blp1(BlpOldFormat::Jpeg { has_alpha: false }),
        "blp2-dxt1-nomip-8x8" | "blp2-dxt1-mip-16x16-short" => BlpTarget::Blp2(Blp2Format::Dxt1 { has_alpha: false, compress_algorithm: alg }),
        "blp2-dxt3-nomip-8x4" => BlpTarget::Blp2(Blp2Format::Dxt3 { has_alpha: true, compress_algorithm: alg }),
        "blp2-dxt5-nomip-4x8" => BlpTarget::Blp2(Blp2Format::Dxt5 { has_alpha: true, compress_algorithm: alg }),
        "blp2-raw3-nomip-8x4" => BlpTarget::Blp2(Blp2Format::Raw3),
        "blp2-raw1-a0-mip-8x8" => BlpTarget::Blp2(Blp2Format::Raw1 { alpha_bits: AlphaBits::NoAlpha }),
        "blp2-raw1-a4-mip-8x4" => BlpTarget::Blp2(Blp2Format::Raw1 { alpha_bits: AlphaBits::Bit4 }),
        "blp1-raw1-a1-mip-8x8" => BlpTarget::Blp1(BlpOldFormat::Raw1 { alpha_bits: AlphaBits::Bit1 }),
        "blp1-raw1-a4-8x4" => BlpTarget::Blp1(BlpOldFormat::Raw1 { alpha_bits: AlphaBits::Bit4 }),
        "blp1-jpeg-content7-8x8" => BlpTarget::Blp1(BlpOldFormat::Jpeg { has_alpha: true }),
        _ => wverif_common::tool_error(&format!("blp: unknown seed {name}")),
    }
}

/// A w x h colour/alpha gradient as a Raw3 `BlpImage` (ARGB words).
fn picture(w: u32, h: u32) -> BlpImage {
    let mut pixels = Vec::with_capacity((w * h) as usize);
    for y in 0..h {
        for x in 0..w {
            let r = (x * 255 / w.max(2).saturating_sub(1).max(1)) & 0xFF;
            let g = (y * 255 / h.max(2).saturating_sub(1).max(1)) & 0xFF;
            let b = ((x * 7 + y * 13) * 5) & 0xFF;
            let a = if (x + y) % 3 == 0 { 0 } else { 0x40 + ((x * 11 + y * 17) & 0xBF) };
            pixels.push((a << 24) | (r << 16) | (g << 8) | b);
        }
    }
    let content = BlpRaw3 { cmap: vec![0; 256], images: vec![Raw3Image { pixels }] };
    let header = BlpHeader {
        version: BlpVersion::Blp2,
        content: BlpContentTag::Direct,
        flags: BlpFlags::Blp2 { compression: Compression::Raw3, alpha_bits: 8, alpha_type: AlphaType::None, has_mipmaps: 0 },
        width: w,
        height: h,
        mipmap_locator: content.mipmap_locator(BlpVersion::Blp2),
    };
    BlpImage { header, content: BlpContent::Raw3(content) }
}

pub fn build(name: &str) -> Seed {
    let spec = SPECS.iter().find(|s| s.name == name).unwrap_or_else(|| wverif_common::tool_error(&format!("blp: unknown seed {name}")));
    let img = wow_blp::convert::blp_to_image(&picture(spec.w, spec.h), 0).expect("blp: test picture");
    let blp = image_to_blp(img, spec.mips, target(name), FilterType::Nearest).expect("blp: image_to_blp");
    let mut bytes = encode_blp(&blp).expect("blp: encode_blp");
    let put32 = |b: &mut Vec<u8>, o: usize, v: u32| b[o..o + 4].copy_from_slice(&v.to_le_bytes());
    // sizes the locator of a patched seed carries instead of the encoder's (mip index, size)
    let mut short: Vec<(usize, u32)> = vec![];
    match name {
        "blp2-dxt1-mip-16x16-short" => {
            let (_, sizes) = blp.header.internal_mipmaps().expect("blp: internal locator");
            let last = sizes.iter().take_while(|&&z| z != 0).count() - 1;
            assert_eq!((sizes[0], sizes[last]), (128, 8));
            short = vec![(0, 100), (last, 4)];
            for &(i, z) in &short {
                put32(&mut bytes, 20 + 64 + 4 * i, z);
            }
        }
        "blp1-jpeg-content7-8x8" => put32(&mut bytes, 4, 7),
        _ => {}
    }
    let mut s = Seed::new("blp", name, bytes);
    let len = s.bytes.len();

    let blp2 = blp.header.version == BlpVersion::Blp2;
    let (loc, content_at) = if blp2 { (20usize, 148usize) } else { (28usize, 156usize) };
    assert_eq!(BlpHeader::size(blp.header.version), content_at);
    assert_eq!(s.u32_at(12), spec.w);
    assert_eq!(s.u32_at(16), spec.h);

    s.field(0, 4, "index", "hdr.magic");
    s.field(4, 4, "index", "hdr.content");
    if blp2 {
        s.field(8, 1, "index", "hdr.compression");
        s.field(9, 1, "index", "hdr.alpha_bits");
        s.field(10, 1, "index", "hdr.alpha_type");
        s.field(11, 1, "index", "hdr.has_mipmaps");
    } else {
        s.field(8, 4, "index", "hdr.alpha_bits");
        s.field(20, 4, "index", "hdr.extra");
        s.field(24, 4, "index", "hdr.has_mipmaps");
    }

    // bytes per pixel row / column of mip 0 (what width/height are multiplied with)
    let mip0_off = s.u32_at(loc) as usize;
    let (row_unit, col_unit) = match &blp.content {
        BlpContent::Raw1(_) => (spec.h as usize, spec.w as usize),
        BlpContent::Raw3(_) => (spec.h as usize * 4, spec.w as usize * 4),
        BlpContent::Dxt1(_) => ((spec.h as usize / 2).max(1), (spec.w as usize / 2).max(1)),
        BlpContent::Dxt3(_) | BlpContent::Dxt5(_) => (spec.h as usize, spec.w as usize),
        BlpContent::Jpeg(_) => (1, 1),
    };
    s.field_ex(12, 4, "count", "hdr.width", mip0_off, row_unit, None);
    s.field_ex(16, 4, "count", "hdr.height", mip0_off, col_unit, None);

    // mipmap locator: used slots, then the first unused one
    let (offsets, sizes) = blp.header.internal_mipmaps().expect("blp: internal locator");
    let used = sizes.iter().take_while(|&&z| z != 0).count();
    assert!(used >= 1 && used == blp.image_count());
    for i in 0..used {
        let o = s.u32_at(loc + 4 * i);
        let z = s.u32_at(loc + 64 + 4 * i);
        let want = short.iter().find(|p| p.0 == i).map(|p| p.1).unwrap_or(sizes[i]);
        assert_eq!((o, z), (offsets[i], want));
        assert!(o as usize + z as usize <= len);
        s.field_ex(loc + 4 * i, 4, "offset", format!("mip[{i}].offset"), 0, 1, None);
        s.field_ex(loc + 64 + 4 * i, 4, "bsize", format!("mip[{i}].size"), o as usize, 1, None);
    }
    if used < 16 {
        s.field_ex(loc + 4 * used, 4, "offset", format!("mip[{used}].offset"), 0, 1, None);
        s.field_ex(loc + 64 + 4 * used, 4, "bsize", format!("mip[{used}].size"), 0, 1, None);
    }
    if used < 15 {
        s.field_ex(loc + 4 * 15, 4, "offset", "mip[15].offset", 0, 1, None);
        s.field_ex(loc + 64 + 4 * 15, 4, "bsize", "mip[15].size", 0, 1, None);
    }

    if let BlpContent::Jpeg(j) = &blp.content {
        assert_eq!(s.u32_at(content_at) as usize + 2, j.header.len());
        s.field_ex(content_at, 4, "bsize", "jpeg.header_size", content_at + 4, 1, None);
    }
    s
}

pub fn run(r: &mut Runner, bytes: &[u8], _aux: &Aux) {
    r.call("parse_blp", || wow_blp::parser::parse_blp(bytes).map(|_| ()).map_err(errname));
}
