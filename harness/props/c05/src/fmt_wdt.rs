//! C05 seeds, field inventory and entry points for "wdt" (stub: not built yet).
use crate::seed::{Aux, Seed};
use crate::worker::Runner;

pub fn seed_names(_thorough: bool) -> Vec<String> {
    Vec::new()
}

pub fn build(name: &str) -> Seed {
    wverif_common::tool_error(&format!("wdt: unknown seed {name}"))
}

pub fn run(_r: &mut Runner, _bytes: &[u8], _aux: &Aux) {}
