--------------------------- MODULE MC_MpqBuildHash ---------------------------
(* Binds the literal name-hash tables of MC_MpqBuild to the MpqCrypto reference: TLC recomputes every   *)
(* entry with HashString and compares.  Run without -coverage (see MpqBuildNames).                      *)
EXTENDS MC_MpqBuild
ASSUME TableSize = 4
ASSUME \A nm \in NameU : /\ LitNameHash(nm) = NameHashDef(nm) /\ LitFileKey(nm) = LibFileKeyDef(nm)
                           /\ LitHet8(nm) = Het8Def(nm) /\ LitBetL3(nm) = BetL3Def(nm) /\ LitBetOaat(nm) = BetOaatDef(nm)
\* the reader's BET hash is spelling-invariant; the old builder's one-at-a-time value never equals it
ASSUME \A nm \in NameU : \A sp \in Spellings : LitBetL3(Spell(nm, sp)) = LitBetL3(nm) /\ LitHet8(Spell(nm, sp)) = LitHet8(nm)
ASSUME \A n1 \in NameU : \A n2 \in NameU : LitBetOaat(n1) # LitBetL3(n2)
ASSUME PrintT(<<"HASH_TABLES_VERIFIED", Cardinality(NameU)>>)
HInit == BInitWith({<<F2>>})
HNext == UNCHANGED bvars
=============================================================================
