------------------------------ MODULE MpqCrypto ------------------------------
(***************************************************************************)
(* Reference definitions of the MPQ cryptographic primitives, written from *)
(* the published format description (docs/src/formats/archives/mpq.md,     *)
(* "The MoPaQ archive format", Bob Jenkins' lookup3.c) -- NOT from the     *)
(* Rust sources.  TLC evaluates these definitions; the harness compares    *)
(* the library's values with them (translation validation, property C04,   *)
(* and the key derivations used by C01/C02/C06).                           *)
(*                                                                         *)
(* Words are <<hi16, lo16>> limb pairs (module Word32).  Byte strings are  *)
(* sequences of naturals 0..255.                                           *)
(***************************************************************************)
EXTENDS Integers, Sequences, SequencesExt, Word32, TLC

---------------------------------------------------------------------------
(* The crypt table: 0x500 words generated from seed 0x00100001 by          *)
(*   seed <- (seed * 125 + 3) mod 0x2AAAAB,  two draws per entry,          *)
(*   entries filled in the order index1 + 0x100 * i  (i = 0..4).           *)

SeedMod  == 2796203          \* 0x2AAAAB
Seed0    == 1048577          \* 0x00100001
NextSeed(s) == (s * 125 + 3) % SeedMod

\* Seeds[k] is the k-th draw (k = 1..2560); computed by a strict fold.
Seeds == LET step(acc, drawIx) == [last |-> NextSeed(acc.last), out |-> Append(acc.out, NextSeed(acc.last))]
         IN  FoldLeft(step, [last |-> Seed0, out |-> <<>>], [drawIx \in 1..2560 |-> drawIx]).out

\* CryptTable[idx], idx \in 0..1279
CryptTable ==
  [idx \in 0..1279 |->
     LET i1 == idx % 256
         i  == idx \div 256
         nd == (i1 * 5 + i) * 2          \* draws consumed before this entry
     IN  <<Seeds[nd + 1] % 65536, Seeds[nd + 2] % 65536>>]

---------------------------------------------------------------------------
(* Name folding: ASCII lower->upper, '/' -> '\'.  A definition, not a     *)
(* table, so a wrong byte in the implementation's table cannot be copied.  *)

Upper(c)  == IF c >= 97 /\ c <= 122 THEN c - 32 ELSE c
Lower(c)  == IF c >= 65 /\ c <= 90 THEN c + 32 ELSE c
Slash(c)  == IF c = 47 THEN 92 ELSE c
Fold(c)   == Upper(Slash(c))

HashTypes == {0, 256, 512, 768}     \* TABLE_OFFSET, NAME_A, NAME_B, FILE_KEY
TABLE_OFFSET == 0
NAME_A == 256
NAME_B == 512
FILE_KEY == 768

HSeed1 == <<32749, 32749>>          \* 0x7FED7FED
HSeed2 == <<61166, 61166>>          \* 0xEEEEEEEE

\* HashString(bytes, type): the classic MPQ string hash
HashString(s, t) ==
  LET step(acc, c) ==
        LET ch == Fold(c)
            s1 == Xor32(CryptTable[t + ch], Add32(acc.s1, acc.s2))
            s2 == Add32n(Add32(Add32(Add32(WFromNat(ch), s1), acc.s2), Shl32(acc.s2, 5)), 3)
        IN  [s1 |-> s1, s2 |-> s2]
  IN  FoldLeft(step, [s1 |-> HSeed1, s2 |-> HSeed2], s).s1

---------------------------------------------------------------------------
(* Block cipher on sequences of words.                                     *)

NextKey(k) == Or32(Add32(Shl32(Not32(k), 21), <<4369, 4369>>), Shr32(k, 11))   \* ((~k << 0x15) + 0x11111111) | (k >> 0x0B)

EncStep(acc, w) ==
  LET seed1 == Add32(acc.seed, CryptTable[1024 + LowByte(acc.key)])
      outw  == Xor32(w, Add32(acc.key, seed1))
      seed2 == Add32n(Add32(Add32(w, seed1), Shl32(seed1, 5)), 3)
  IN  [key |-> NextKey(acc.key), seed |-> seed2, out |-> Append(acc.out, outw)]

DecStep(acc, w) ==
  LET seed1 == Add32(acc.seed, CryptTable[1024 + LowByte(acc.key)])
      plain == Xor32(w, Add32(acc.key, seed1))
      seed2 == Add32n(Add32(Add32(plain, seed1), Shl32(seed1, 5)), 3)
  IN  [key |-> NextKey(acc.key), seed |-> seed2, out |-> Append(acc.out, plain)]

CInit(k) == [key |-> k, seed |-> HSeed2, out |-> <<>>]

\* The reference algorithm has no special case for key 0; the library treats key 0 as "not
\* encrypted" (identity) on both sides.  That named deviation preserves the inverse law and is
\* modelled here so that traces of the real code are explainable.
EncryptBlock(ws, k) == IF k = WZero THEN ws ELSE FoldLeft(EncStep, CInit(k), ws).out
DecryptBlock(ws, k) == IF k = WZero THEN ws ELSE FoldLeft(DecStep, CInit(k), ws).out
DecryptDword(w, k)  == IF k = WZero THEN w ELSE DecryptBlock(<<w>>, k)[1]

\* Ciphertext words of a constant-plaintext buffer at the probe positions only (O(1) state per step):
\* plaintext word pw repeated nw times; returns a function from probe index to ciphertext word.
EncryptProbes(pw, nw, key, probeSet) ==
  LET step(acc, ix) ==
        LET seed1 == Add32(acc.seed, CryptTable[1024 + LowByte(acc.key)])
            outw  == Xor32(pw, Add32(acc.key, seed1))
            seed2 == Add32n(Add32(Add32(pw, seed1), Shl32(seed1, 5)), 3)
        IN  [key |-> NextKey(acc.key), seed |-> seed2,
             out |-> IF ix \in probeSet THEN acc.out @@ (ix :> outw) ELSE acc.out]
  IN  FoldLeft(step, [key |-> key, seed |-> HSeed2, out |-> <<>>], [ix \in 1..nw |-> ix]).out

\* byte strings <-> words (little endian); Len(bs) must be a multiple of 4 for WordsOf
WordsOf(bs) == [i \in 1..(Len(bs) \div 4) |->
                  WFromBytes(bs[4*i-3], bs[4*i-2], bs[4*i-1], bs[4*i])]
BytesOf(ws) == [i \in 1..(4 * Len(ws)) |-> ByteOf(ws[((i-1) \div 4) + 1], (i-1) % 4)]

(* Byte-level wrappers (ArchiveBuilder::encrypt_data / decrypt_file_data): the full dwords are   *)
(* processed as one block; the trailing r = len mod 4 bytes stay in the clear, as the published  *)
(* cipher (which works on whole dwords only) leaves them.                                        *)
(* Named deviation TailKeyed (the library before fix d86b8d5): the tail was zero-padded to a     *)
(* dword, processed as a one-word block with key + (number of full dwords), r bytes written back.*)
TailBytes(bs)  == SubSeq(bs, 4 * (Len(bs) \div 4) + 1, Len(bs))
Pad4(t)   == t \o [i \in 1..(4 - Len(t)) |-> 0]
XcryptBytes(bs, k, Blk(_,_)) ==
  IF Len(bs) = 0 \/ k = WZero THEN bs
  ELSE LET n    == Len(bs) \div 4
           full == BytesOf(Blk(WordsOf(SubSeq(bs, 1, 4*n)), k))
       IN  full \o TailBytes(bs)
XcryptBytesTailKeyed(bs, k, Blk(_,_)) ==
  IF Len(bs) = 0 \/ k = WZero THEN bs
  ELSE LET n    == Len(bs) \div 4
           full == BytesOf(Blk(WordsOf(SubSeq(bs, 1, 4*n)), k))
           t    == TailBytes(bs)
       IN  IF Len(t) = 0 THEN full
           ELSE full \o SubSeq(BytesOf(Blk(WordsOf(Pad4(t)), Add32n(k, n))), 1, Len(t))
EncryptBytes(bs, k) == XcryptBytes(bs, k, EncryptBlock)
DecryptBytes(bs, k) == XcryptBytes(bs, k, DecryptBlock)

---------------------------------------------------------------------------
(* File keys.                                                              *)

\* plain file name = part after the last '\' or '/'
BaseName(s) ==
  LET idx == {i \in 1..Len(s) : s[i] = 92 \/ s[i] = 47}
  IN  IF idx = {} THEN s ELSE SubSeq(s, (CHOOSE i \in idx : \A j \in idx : j <= i) + 1, Len(s))

FileKey(name) == HashString(BaseName(name), FILE_KEY)
\* FIX_KEY: (key + blockOffset) XOR fileSize
FixKey(key, pos, size) == Xor32(Add32(key, pos), size)

---------------------------------------------------------------------------
(* Bob Jenkins' lookup3 hashlittle2 (little-endian byte-wise tail variant).  *)

Sub32r(a, b) == Sub32(a, b)
Mix(s) ==
  LET a1 == Xor32(Sub32(s.a, s.c), Rotl32(s.c, 4))   c1 == Add32(s.c, s.b)
      b1 == Xor32(Sub32(s.b, a1), Rotl32(a1, 6))     a2 == Add32(a1, c1)
      c2 == Xor32(Sub32(c1, b1), Rotl32(b1, 8))      b2 == Add32(b1, a2)
      a3 == Xor32(Sub32(a2, c2), Rotl32(c2, 16))     c3 == Add32(c2, b2)
      b3 == Xor32(Sub32(b2, a3), Rotl32(a3, 19))     a4 == Add32(a3, c3)
      c4 == Xor32(Sub32(c3, b3), Rotl32(b3, 4))      b4 == Add32(b3, a4)
  IN  [a |-> a4, b |-> b4, c |-> c4]

Final(s) ==
  LET c1 == Sub32(Xor32(s.c, s.b), Rotl32(s.b, 14))
      a1 == Sub32(Xor32(s.a, c1), Rotl32(c1, 11))
      b1 == Sub32(Xor32(s.b, a1), Rotl32(a1, 25))
      c2 == Sub32(Xor32(c1, b1), Rotl32(b1, 16))
      a2 == Sub32(Xor32(a1, c2), Rotl32(c2, 4))
      b2 == Sub32(Xor32(b1, a2), Rotl32(a2, 14))
      c3 == Sub32(Xor32(c2, b2), Rotl32(b2, 24))
  IN  [a |-> a2, b |-> b2, c |-> c3]

\* word j (0,1,2) of a block of <= 12 bytes, missing bytes are 0
ByteAt(bs, i) == IF i <= Len(bs) THEN bs[i] ELSE 0
BlockWord(bs, j) == WFromBytes(ByteAt(bs, 4*j+1), ByteAt(bs, 4*j+2), ByteAt(bs, 4*j+3), ByteAt(bs, 4*j+4))
AddBlock(s, bs) == [a |-> Add32(s.a, BlockWord(bs, 0)), b |-> Add32(s.b, BlockWord(bs, 1)), c |-> Add32(s.c, BlockWord(bs, 2))]

DeadBeef == <<57005, 48879>>

\* returns [c |-> pc_out, b |-> pb_out]
HashLittle2(key, pc, pb) ==
  LET n     == Len(key)
      init0 == Add32(Add32(DeadBeef, WFromNat(n)), pc)
      init  == [a |-> init0, b |-> init0, c |-> Add32(init0, pb)]
      \* number of full 12-byte blocks consumed by the loop "while length > 12"
      nb    == IF n = 0 THEN 0 ELSE (n - 1) \div 12
      loop  == FoldLeft(LAMBDA s, i : Mix(AddBlock(s, SubSeq(key, 12*(i-1)+1, 12*i))), init, [i \in 1..nb |-> i])
      rest  == SubSeq(key, 12*nb + 1, n)
  IN  IF n = 0 THEN init ELSE Final(AddBlock(loop, rest))

\* 64-bit values as 4 limbs <<l3, l2, l1, l0>> (most significant first)
LimbMask(nbits, j) == IF nbits >= 16 * (j + 1) THEN 65535
                      ELSE IF nbits <= 16 * j THEN 0 ELSE Pow2(nbits - 16*j) - 1
LimbBit(bit, j)    == IF bit >= 16*j /\ bit < 16*(j+1) THEN Pow2(bit - 16*j) ELSE 0

LOCAL INSTANCE Bitwise

HetFold(c) == Fold(c)       \* the library folds HET/BET names to UPPER case and '\'

\* HET hash of a name for a given width: [file |-> 4 limbs, name1 |-> 0..255]
HetHash(name, bits) ==
  LET h     == HashLittle2([i \in 1..Len(name) |-> HetFold(name[i])], <<0, 2>>, <<0, 1>>)
      full  == <<h.b[1], h.b[2], h.c[1], h.c[2]>>          \* (pb << 32) | pc
      limb(j) == full[4 - j]
      masked  == [j \in 0..3 |-> IF bits >= 64 THEN limb(j)
                                 ELSE (limb(j) & LimbMask(bits, j)) | LimbBit(bits - 1, j)]
      file    == <<masked[3], masked[2], masked[1], masked[0]>>
      \* bits (bits-8 .. bits-1) of file
      sh      == IF bits >= 64 THEN 56 ELSE bits - 8
      \* extract 8 bits starting at bit sh from the 4 limbs
      bitAt(p) == (masked[p \div 16] \div Pow2(p % 16)) % 2
      name1   == bitAt(sh) + 2*bitAt(sh+1) + 4*bitAt(sh+2) + 8*bitAt(sh+3)
                 + 16*bitAt(sh+4) + 32*bitAt(sh+5) + 64*bitAt(sh+6) + 128*bitAt(sh+7)
  IN  [file |-> file, name1 |-> name1]


---------------------------------------------------------------------------
(* Jenkins one-at-a-time.  The published function works on 32-bit words; the *)
(* library's `jenkins_hash` (BET) runs the same steps on a 64-bit accumulator *)
(* over the LOWER-cased, backslash-folded name.  Both are defined; the 64-bit *)
(* variant is the named deviation "as coded".                                 *)

\* 64-bit words as functions 0..3 -> limb (0 = least significant)
L64Zero == [j \in 0..3 |-> 0]
L64FromByte(c) == [j \in 0..3 |-> IF j = 0 THEN c ELSE 0]
L64Add(a, b) ==
  LET s0 == a[0] + b[0]
      s1 == a[1] + b[1] + (s0 \div 65536)
      s2 == a[2] + b[2] + (s1 \div 65536)
      s3 == a[3] + b[3] + (s2 \div 65536)
  IN  [j \in 0..3 |-> CASE j = 0 -> s0 % 65536 [] j = 1 -> s1 % 65536 [] j = 2 -> s2 % 65536 [] j = 3 -> s3 % 65536]
L64Xor(a, b) == [j \in 0..3 |-> a[j] ^^ b[j]]
L64Shl(a, sh) ==
  LET q == sh \div 16  r == sh % 16 IN
  [j \in 0..3 |-> LET src == j - q IN
       ((IF src >= 0 THEN (a[src] * Pow2(r)) % 65536 ELSE 0)
        + (IF src - 1 >= 0 /\ r > 0 THEN a[src - 1] \div Pow2(16 - r) ELSE 0))]
L64Shr(a, sh) ==
  LET q == sh \div 16  r == sh % 16 IN
  [j \in 0..3 |-> LET src == j + q IN
       ((IF src <= 3 THEN a[src] \div Pow2(r) ELSE 0)
        + (IF src + 1 <= 3 /\ r > 0 THEN (a[src + 1] % Pow2(r)) * Pow2(16 - r) ELSE 0))]
L64Limbs(a) == <<a[3], a[2], a[1], a[0]>>        \* most significant first, as logged

OaatFold(c) == Lower(Slash(c))
Oaat64(name) ==
  LET step(h, c) == LET h1 == L64Add(h, L64FromByte(OaatFold(c)))
                        h2 == L64Add(h1, L64Shl(h1, 10))
                    IN  L64Xor(h2, L64Shr(h2, 6))
      h0 == FoldLeft(step, L64Zero, name)
      f1 == L64Add(h0, L64Shl(h0, 3))
      f2 == L64Xor(f1, L64Shr(f1, 11))
  IN  L64Limbs(L64Add(f2, L64Shl(f2, 15)))

Oaat32(name) ==
  LET step(h, c) == LET h1 == Add32(h, WFromNat(OaatFold(c)))
                        h2 == Add32(h1, Shl32(h1, 10))
                    IN  Xor32(h2, Shr32(h2, 6))
      h0 == FoldLeft(step, WZero, name)
      f1 == Add32(h0, Shl32(h0, 3))
      f2 == Xor32(f1, Shr32(f1, 11))
      f3 == Add32(f2, Shl32(f2, 15))
  IN  <<0, 0, f3[1], f3[2]>>

Hex64(l) == Hex16(l[1]) \o Hex16(l[2]) \o Hex16(l[3]) \o Hex16(l[4])
---------------------------------------------------------------------------
(* ===== Growth round 4 (add-only; nothing above this line was changed) ===== *)

CxConcat(seqs) == FoldLeft(LAMBDA acc, part : acc \o part, <<>>, seqs)
CxMin(a, b) == IF a <= b THEN a ELSE b

(* --- (1) The Jenkins pair for EVERY table width 1..64 ------------------------------------------ *)
(* HetHash above is only defined for widths >= 8.  The 64-bit lookup3 value is computed once        *)
(* (limb 0 = least significant, value = pb * 2^32 + pc) and the pair is derived per width:          *)
(*   file  = (full AND (2^w - 1)) OR 2^(w-1)          (w = 64: full unchanged)                      *)
(*   name1 = bits (w-8 .. w-1) of file                (w = 64: bits 56..63)                         *)
(* For w < 8 the published extraction (shift by w - 8) is not defined; the library returns the whole *)
(* masked hash; `defined` says whether name1 belongs to the property.                               *)
HetFullHash(name) ==
  LET h == HashLittle2([i \in 1..Len(name) |-> HetFold(name[i])], <<0, 2>>, <<0, 1>>)
  IN  [j \in 0..3 |-> CASE j = 0 -> h.c[2] [] j = 1 -> h.c[1] [] j = 2 -> h.b[2] [] j = 3 -> h.b[1]]

HetOfFull(full, bits) ==
  LET masked == [j \in 0..3 |-> IF bits >= 64 THEN full[j]
                                ELSE (full[j] & LimbMask(bits, j)) | LimbBit(bits - 1, j)]
      sh     == IF bits >= 64 THEN 56 ELSE IF bits < 8 THEN 0 ELSE bits - 8
      bitAt(p) == IF p > 63 THEN 0 ELSE (masked[p \div 16] \div Pow2(p % 16)) % 2
      name1  == bitAt(sh) + 2*bitAt(sh+1) + 4*bitAt(sh+2) + 8*bitAt(sh+3)
                + 16*bitAt(sh+4) + 32*bitAt(sh+5) + 64*bitAt(sh+6) + 128*bitAt(sh+7)
  IN  [file |-> <<masked[3], masked[2], masked[1], masked[0]>>, name1 |-> name1, defined |-> bits >= 8,
       limbs |-> masked]
HetHashAny(name, bits) == HetOfFull(HetFullHash(name), bits)
HetWidths == 1..64

(* --- (2) Bodies of the extended (HET / BET) tables ---------------------------------------------- *)
(* A stored table = 12-byte extended header (signature, version, data size: never encrypted)        *)
(* followed by the body (possibly compressed first), encrypted as ONE cipher unit of arbitrary byte *)
(* length: whole dwords through the block cipher, the trailing len mod 4 bytes in the clear.        *)
ExtHdrLen == 12
TblStore(tbl, k) == SubSeq(tbl, 1, CxMin(ExtHdrLen, Len(tbl))) \o EncryptBytes(SubSeq(tbl, ExtHdrLen + 1, Len(tbl)), k)
TblLoad(st, k)   == SubSeq(st, 1, CxMin(ExtHdrLen, Len(st))) \o DecryptBytes(SubSeq(st, ExtHdrLen + 1, Len(st)), k)
HetTableKey == HashString(<<40,104,97,115,104,32,116,97,98,108,101,41>>, FILE_KEY)        \* "(hash table)"
BetTableKey == HashString(<<40,98,108,111,99,107,32,116,97,98,108,101,41>>, FILE_KEY)     \* "(block table)"

(* --- (3) Encrypted files: the cipher units of a stored file ------------------------------------- *)
(* final key: FileKey(name), with FIX_KEY (FileKey + position) XOR size.  ANY 32-bit value can be a *)
(* final key, 0 included.  A file of at most one sector is one unit (key).  A longer file is a      *)
(* sector offset table (unit -1, key - 1) followed by its sectors (unit i, key + i), all mod 2^32.   *)
(* The library's "key 0 = identity" deviation applies per UNIT (EncryptBytes/DecryptBytes), never   *)
(* to the file as a whole: a file whose final key is 0 still has key 0xFFFFFFFF on its offset table *)
(* and keys 1, 2, ... on its later sectors.                                                         *)
FileFinalKey(name, pos, size, fix) == IF fix THEN FixKey(FileKey(name), pos, size) ELSE FileKey(name)
FileUnitKey(key, u)     == IF u < 0 THEN Sub32(key, WFromNat(-u)) ELSE Add32n(key, u)
FileSectorCount(size, ss) == (size + ss - 1) \div ss
FileSector(p, ss, i)    == SubSeq(p, ss * i + 1, CxMin(ss * (i + 1), Len(p)))       \* i = 0, 1, ...
U32Bytes(n)             == WBytes(WFromNat(n))
\* offsets (relative to the file start) of sectors with the given stored lengths; Len = count + 1
FileOffsets(lens) == FoldLeft(LAMBDA acc, l : Append(acc, acc[Len(acc)] + l), <<4 * (Len(lens) + 1)>>, lens)
FileZeroUnits(key, nsect) == {u \in (IF nsect > 1 THEN -1 ELSE 0)..(nsect - 1) : FileUnitKey(key, u) = WZero}

\* stored image of a file whose sectors are stored raw (no sector was compressed)
FileStoreRaw(p, key, ss) ==
  IF Len(p) <= ss THEN EncryptBytes(p, key)
  ELSE LET n    == FileSectorCount(Len(p), ss)
           secs == [i \in 1..n |-> FileSector(p, ss, i - 1)]
           offs == FileOffsets([i \in 1..n |-> Len(secs[i])])
           ot   == CxConcat([i \in 1..(n + 1) |-> U32Bytes(offs[i])])
       IN  EncryptBytes(ot, FileUnitKey(key, -1))
           \o CxConcat([i \in 1..n |-> EncryptBytes(secs[i], FileUnitKey(key, i - 1))])

\* the decrypted sector offset table of a stored sectored file (n sectors, no checksum sector)
FileLoadOffsets(st, key, n) ==
  LET ws == WordsOf(DecryptBytes(SubSeq(st, 1, 4 * (n + 1)), FileUnitKey(key, -1)))
  IN  [i \in 1..(n + 1) |-> IF ws[i][1] >= 32768 THEN -1 ELSE WToNat(ws[i])]     \* -1: beyond 2^31, never sane
FileOffsetsSane(offs, n, stlen) ==
  /\ offs[1] = 4 * (n + 1)
  /\ \A i \in 1..n : offs[i] <= offs[i + 1]
  /\ offs[n + 1] = stlen

\* reading it back (raw sectors)
FileLoadRaw(st, key, ss, size) ==
  IF size <= ss THEN DecryptBytes(st, key)
  ELSE LET n    == FileSectorCount(size, ss)
           offs == FileLoadOffsets(st, key, n)
       IN  IF ~FileOffsetsSane(offs, n, Len(st)) THEN <<>>
           ELSE CxConcat([i \in 1..n |-> DecryptBytes(SubSeq(st, offs[i] + 1, offs[i + 1]), FileUnitKey(key, i - 1))])
\* The published cipher has no identity key: with key 0 it encrypts like with any other key.  These are the
\* reference values WITHOUT the library's "key 0 = not encrypted" deviation (used for DRIFT diagnostics only).
EncryptBlockRef(ws, k) == FoldLeft(EncStep, CInit(k), ws).out
EncryptBytesRef(bs, k) == IF Len(bs) < 4 THEN bs
                          ELSE BytesOf(EncryptBlockRef(WordsOf(SubSeq(bs, 1, 4 * (Len(bs) \div 4))), k)) \o TailBytes(bs)
=============================================================================
