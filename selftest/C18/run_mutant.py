#!/usr/bin/env python3
"""Self-test helper for C16/C17/C18: apply a diff to the scratch worktree, run stages B-D of the check
(generator, driver built against the worktree, TLC trace validation) and report the signatures that are
not covered by known findings.  Does not touch evidence/ or replays/.

  VERIF_REPO=/var/tmp/wt-c18 selftest/C18/run_mutant.py C18 selftest/C18/mutant-1.diff [--tier quick] [--fixed ID,ID]
"""
import importlib.util, json, os, subprocess, sys
VERIF = os.path.dirname(os.path.dirname(os.path.dirname(os.path.abspath(__file__))))
sys.path.insert(0, VERIF)
from vlib import core

def main():
    pid, diff = sys.argv[1].upper(), sys.argv[2]
    tier = "quick"
    fixed = set()
    a = sys.argv[3:]
    while a:
        if a[0] == "--tier": tier = a[1]; a = a[2:]
        elif a[0] == "--fixed": fixed = set(a[1].split(",")); a = a[2:]
        else: a = a[1:]
    wt = os.environ["VERIF_REPO"]
    assert wt != "/repo" and os.path.isdir(wt)
    subprocess.run(["git", "-C", wt, "checkout", "--", "."], check=True)
    if diff != "-":
        for d in diff.split(","):
            subprocess.run(["git", "-C", wt, "apply", os.path.abspath(d)], check=True)
    spec = importlib.util.spec_from_file_location("chk", os.path.join(VERIF, "checks", pid.lower() + ".py"))
    m = importlib.util.module_from_spec(spec); spec.loader.exec_module(m)
    ctx = core.Ctx(pid + "-selftest", tier, int(os.environ.get("VERIF_SEED", "1")), m.META)
    gen = {"C18": ("Gen_WdtWdl", "c18", "Trace_WdtWdl"), "C17": ("Gen_DbcLayout", "c17", "Trace_DbcLayout"),
           "C16": ("Gen_BlpLayout", "c16", "Trace_BlpLayout")}[pid]
    try:
        cases, n = ctx.gen(gen[0], timeout=900)
        binary = ctx.build(gen[1])
        trace = ctx.harness(binary, cases)
        res = ctx.validate(gen[2], trace, timeout=1500, max_restarts=5000)
        known = [k for k in core.load_known(pid) if k["id"] not in fixed]
        unknown, hits = {}, {}
        for b in res["bad"]:
            s = m.sig(b)
            k = core.match_known(s, known)
            if k: hits[k["id"]] = hits.get(k["id"], 0) + 1
            else:
                key = json.dumps(s, sort_keys=True); unknown[key] = unknown.get(key, 0) + 1
        print(f"RESULT {pid} {os.path.basename(diff)}: events={res['events']} rejected={len(res['bad'])} known={hits} "
              f"unknown_signatures={len(unknown)} unknown_events={sum(unknown.values())} drift={len(ctx.drift)}")
        for k, v in list(unknown.items())[:6]:
            print("   UNKNOWN", v, k)
        drifts = {}
        for d in ctx.drift: drifts[d["what"]] = drifts.get(d["what"], 0) + 1
        if drifts: print("   DRIFT", drifts)
        print("VERDICT", "CAUGHT" if unknown else "SILENT")
    finally:
        ctx.cleanup()
        subprocess.run(["git", "-C", wt, "checkout", "--", "."], check=True)

main()
