CONSTANT Cont <- StdWorld
CONSTANT AllowDups = TRUE
CONSTANT MaxLen = 4
INIT Init
NEXT Next
CONSTRAINT Bound
INVARIANT TypeOK
INVARIANT Sorted
INVARIANT RanksArePermutation
INVARIANT StableAmongEquals
INVARIANT MapIsWinner
INVARIANT ReadIsProp
INVARIANT ListIsUnion
INVARIANT ContainsIsList
INVARIANT CodeIsIdeal
INVARIANT DeviationsExplainCode
INVARIANT CodeSafeModuloD2
CHECK_DEADLOCK FALSE
