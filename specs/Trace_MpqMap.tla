---------------------------- MODULE Trace_MpqMap ----------------------------
(***************************************************************************************************)
(* Stage (D) for C06: the events recorded while replaying a TLC-generated history on a real        *)
(* MutableArchive must be explained by the actions of MpqMap.                                      *)
(*                                                                                                 *)
(* P-conjuncts (verdict):                                                                          *)
(*   - every call returned (res = "hang" / "panic" matches no action)                              *)
(*   - res = ok only where the map operation is defined; a refusal only where a plain map with     *)
(*     capacity refuses (the Fail actions of MpqMap), and then nothing changes                     *)
(*   - after every close, a fresh Archive::open succeeds (Check) and read_file of EVERY name of    *)
(*     the universe equals vdisk (token equality; notfound for absent).  Names the history never   *)
(*     touched are part of the universe, so "untouched files stay bit-identical" is the same check.*)
(* Totalised style: an event no action explains is reported as <<"BAD", line, why, ...>>.  After a *)
(* wrong Read the model is resynchronised with the observation (one lost file does not cascade);   *)
(* after a wrong call result the rest of that trace is skipped up to the next Reset (vskip).       *)
(* D (DRIFT only): the List observation; agreement of each Read with what the model of the code    *)
(* (MpqHashTable implementation machine, run by Gen_MpqHashTable) predicted.                       *)
(***************************************************************************************************)
EXTENDS MpqMapSpecials, Json, IOUtils, TLC, TLCExt

Rec == ndJsonDeserialize(IOEnv.TRACE)
VARIABLES tl,
          vreset,     \* index of the Reset event of the current trace (its `preds` = predictions of the code model)
          voptok,     \* model token key ("i:<name>", "o<k>") -> content token actually used by the driver
          vskip,      \* the current trace has been rejected: consume its remaining events
          vhaslf,     \* the archive carries a (listfile) (starting archive, or produced by compact())
          vdig,       \* content token -> <<CRC32, MD5>> of that content (hex, as logged with the Reset / Add events)
          vopts       \* name -> options of the add_file_data call that stored the file's current bytes ([by |-> "other"]: stored by
                      \* the builder - starting archive or compact())
tvars == <<tl, vdisk, vsess, vopen, vdirty, vcap, vextra, vreset, voptok, vskip, vhaslf, vdig, vopts, qvars>>
Keep2 == UNCHANGED <<vreset, voptok, vskip, vhaslf, vdig>>
Keep == Keep2 /\ UNCHANGED vopts
ByOther == [by |-> "other", comp |-> "", enc |-> "", len |-> 0]
KeepQ == UNCHANGED qvars

Ev == Rec[tl]
Is(k) == Ev.ev = k

\* observations of the special files (LfRaw / Attrs events, lf0 / at0 of Reset) as values of the sub-machine
ObsLines(l) == [i \in 1..Len(l.lines) |-> Line(l.lines[i][1], l.lines[i][2])]
LfOf(l)     == [has |-> l.has, lines |-> ObsLines(l), crlf |-> TRUE]       \* starting archives come from the builder
ObsFlags(a) == {a.flags[i] : i \in 1..Len(a.flags)}
ObsRows(a)  == [i \in 1..Len(a.rows) |-> Row(a.rows[i][1], a.rows[i][2], a.rows[i][3])]
AtOf(a)     == IF a.has /\ a.loaded THEN [has |-> TRUE, flags |-> ObsFlags(a), rows |-> ObsRows(a)] ELSE NoAttrs

T_Reset == /\ Is("Reset")
           /\ vdisk' = Ev.initial /\ vsess' = Ev.initial /\ vopen' = FALSE /\ vdirty' = FALSE
           /\ vcap' = Ev.hsize /\ vextra' = Ev.nspecial
           /\ vreset' = tl /\ voptok' = Ev.toks /\ vskip' = FALSE /\ vhaslf' = Ev.lf
           /\ vdig' = Ev.dig /\ vopts' = [x \in DOMAIN Ev.initial |-> ByOther]
           \* the special files of the starting archive as observed: initial state of the sub-machine
           /\ qlf' = LfOf(Ev.lf0) /\ qat' = AtOf(Ev.at0) /\ qblk' = Ev.at0.blk /\ qnblk' = Ev.at0.nblk
           /\ qmod' = Blank(Ev.at0.nblk) /\ qvnblk' = Ev.at0.nblk /\ qadirty' = FALSE
           /\ qdsk' = Image(LfOf(Ev.lf0), AtOf(Ev.at0), Ev.at0.blk, Ev.at0.nblk) /\ qlfview' = ObsLines(Ev.lf0)

\* no action of MpqMap explains the event: report it, give up on this trace
Reject(why) == /\ PrintT(<<"BAD", tl, why>>)
               /\ vskip' = TRUE /\ UNCHANGED <<mvars, vreset, voptok, vhaslf, vdig, vopts, qvars>>

T_Open  == /\ Is("Open")
           /\ IF Ev.res = "ok" /\ CanOpen THEN Open /\ QOpen /\ Keep ELSE Reject("open")

NoteTok == voptok' = [x \in DOMAIN voptok \cup {Ev.okey} |-> IF x = Ev.okey THEN Ev.tok ELSE voptok[x]]
Refusal(r) == r \notin {"ok", "exists", "hang", "panic", "notfound"}        \* err:<Variant>
T_Add   == /\ Is("Add")
           /\ IF Ev.res = "ok" /\ CanAdd(Ev.n, Ev.rep)
              THEN /\ Add(Ev.n, Ev.tok, Ev.rep) /\ NoteTok /\ UNCHANGED <<vreset, vskip, vhaslf>>
                   /\ vdig' = [x \in DOMAIN vdig \cup {Ev.tok} |-> IF x = Ev.tok THEN <<Ev.crc, Ev.md5>> ELSE vdig[x]]
                   /\ QAdd(Ev.n, Ev.sp, Dg(Ev.crc, Ev.md5))
                   /\ vopts' = [vopts EXCEPT ![Ev.n] = [by |-> "add", comp |-> Ev.comp, enc |-> Ev.enc, len |-> Ev.len]]
              ELSE IF Ev.res = "exists" /\ CanAddFailExists(Ev.n, Ev.rep) THEN AddFailExists(Ev.n, Ev.rep) /\ Keep /\ KeepQ
              ELSE IF Refusal(Ev.res) /\ CanAddFailFull(Ev.n) THEN AddFailFull(Ev.n) /\ Keep /\ KeepQ
              ELSE Reject("add")

T_Remove == /\ Is("Remove")
            /\ IF Ev.res = "ok" /\ CanRemove(Ev.n) THEN Remove(Ev.n) /\ QRemove(Ev.n, Ev.sp) /\ Keep2 /\ vopts' = [vopts EXCEPT ![Ev.n] = ByOther]
               ELSE IF Ev.res = "notfound" /\ CanRemoveFail(Ev.n) THEN RemoveFail(Ev.n) /\ Keep /\ KeepQ
               ELSE Reject("remove")

T_Rename == /\ Is("Rename")
            /\ IF Ev.res = "ok" /\ CanRename(Ev.n, Ev.m) THEN Rename(Ev.n, Ev.m) /\ QRename(Ev.n, Ev.sp, Ev.m, Ev.spm) /\ Keep2
                                                             /\ vopts' = [vopts EXCEPT ![Ev.m] = vopts[Ev.n], ![Ev.n] = ByOther]
               ELSE IF Ev.res \in {"notfound", "exists"} /\ CanRenameFail(Ev.n, Ev.m) THEN RenameFail(Ev.n, Ev.m) /\ Keep /\ KeepQ
               ELSE Reject("rename")

T_Flush   == Is("Flush")   /\ IF Ev.res = "ok" /\ vopen THEN Flush /\ QFlush(vdirty) /\ Keep ELSE Reject("flush")
\* the compacted file is produced by the builder, which generates a (listfile)
T_Compact == Is("Compact") /\ IF Ev.res = "ok" /\ vopen
                              THEN Compact(Ev.hsize, Ev.nspecial) /\ QCompact /\ vhaslf' = TRUE /\ UNCHANGED <<vreset, voptok, vskip, vdig>>
                                   /\ vopts' = [x \in DOMAIN vopts |-> ByOther]          \* re-stored by the builder
                              \* a refusal is legitimate only where the names are not all known; the session's map is
                              \* unchanged (the flush compact() starts with has happened: durability only)
                              ELSE IF Ev.res \notin {"ok", "hang", "panic"} /\ vopen /\ ~vhaslf
                              THEN (IF vdirty THEN Flush ELSE CompactFail) /\ QCompactRefused(vdirty) /\ Keep
                              ELSE Reject("compact")
T_Close   == Is("Close")   /\ IF Ev.res = "ok" /\ vopen THEN Close /\ QFlush(vdirty) /\ Keep ELSE Reject("close")
\* a fresh Archive::open of the file after the session was closed must succeed
T_Check   == Is("Check")   /\ IF Ev.res = "ok" /\ ~vopen THEN UNCHANGED mvars /\ Keep /\ KeepQ ELSE Reject("check")

ReadWhy(e) == IF vdisk[e.n] = None THEN "ghost"                    \* absent name is readable
              ELSE IF e.res = "notfound" THEN "lost"                \* present name not found
              ELSE IF e.res = "ok" THEN "corrupt"                   \* other bytes than were stored
              ELSE "unreadable"                                     \* present name, read fails
\* D: does the observation equal what the model of the code predicted for this name at this checkpoint?
PredFor(e) == LET ps == Rec[vreset].preds IN IF e.ck <= Len(ps) THEN ps[e.ck] ELSE [kind |-> "none"]
\* "corrupt:<cause>" / "corrupt!:<cause>": the code model predicts unreadable or wrong bytes, and why
BadPred == {"corrupt:" \o c : c \in {"overrun", "fixkey", "renkey", "unopenable"}} \cup
           {"corrupt!:" \o c : c \in {"overrun", "fixkey", "renkey", "unopenable"}}
PredVal(e) == LET p == PredFor(e) IN IF p.kind = "map" THEN p.map[e.n] ELSE "nopred"
\* the cause the code model names for a predicted corruption ("" when it predicts a plain value)
PredCause(e) == IF PredVal(e) \in BadPred THEN PredVal(e) ELSE ""
ModelSays(e) == LET p == PredFor(e) IN
    IF p.kind # "map" THEN "nopred"
    ELSE LET v == p.map[e.n] IN
         IF v = "none" THEN (IF e.res = "notfound" THEN "asmodel" ELSE "notmodel")
         ELSE IF v \in BadPred THEN (IF e.res # "notfound" THEN "asmodel" ELSE "notmodel")
         ELSE IF e.res = "ok" /\ v \in DOMAIN voptok /\ voptok[v] = e.tok THEN "asmodel" ELSE "notmodel"
\* marker for "present, but reading it failed" after a reported Read (the same failure at the next
\* checkpoint is the same observation, not a new one)
Unread == "?unreadable"
\* D (growth round 4): the options of add_file_data as a dimension of the abstract op - the stored form of a file that
\* add_file_data(options) wrote, as the block table of the reopened archive shows it, has the facts the reader relies on:
\* file_size = length of the data; ENCRYPTED iff encryption was asked for, FIX_KEY iff fix_key; always SINGLE_UNIT;
\* COMPRESS only if a method was asked for AND the stored form is shorter (otherwise stored raw: compressed_size = file_size)
StoredOK(e) == LET o == vopts[e.n] IN
    (e.res = "ok" /\ o.by = "add") =>
        /\ e.fsz = o.len
        /\ e.fl.e = (o.enc # "none") /\ e.fl.k = (o.enc = "fix") /\ e.fl.s
        /\ (e.fl.c => (o.comp # "none" /\ e.csz < e.fsz))
        /\ ((~e.fl.c) => e.csz = e.fsz)
T_Read == /\ Is("Read") /\ Keep /\ KeepQ
          /\ IF ReadIs(Ev.n, Ev.res, Ev.tok) \/ (~vopen /\ vdisk[Ev.n] = Unread /\ Ev.res \notin {"ok", "notfound"})
             THEN /\ UNCHANGED mvars
                  /\ IF ModelSays(Ev) = "notmodel" THEN PrintT(<<"DRIFT", tl, "pred">>) ELSE TRUE
                  /\ IF StoredOK(Ev) THEN TRUE ELSE PrintT(<<"DRIFT", tl, "stored">>)
             ELSE /\ PrintT(<<"BAD", tl, ReadWhy(Ev), ModelSays(Ev), PredCause(Ev)>>)
                  /\ vdisk' = [vdisk EXCEPT ![Ev.n] = IF Ev.res = "ok" THEN Ev.tok ELSE IF Ev.res = "notfound" THEN None ELSE Unread]
                  /\ vsess' = vdisk'
                  /\ UNCHANGED <<vopen, vdirty, vcap, vextra>>

\* P (archives that carry a listfile): list() of the reopened archive names exactly the present files
\* ("the readable names ... equal the result of applying the same operations to a plain map"; list is
\* one of the property's observation points).  Without a listfile list() can only produce placeholder
\* names: DRIFT at most.  Special files are logged with a leading "?" and ignored.
Listed(e) == {x \in {e.names[j] : j \in 1..Len(e.names)} : x \in DOMAIN vdisk}
ListModel(e) == LET p == PredFor(e) IN
                IF p.kind # "map" THEN "nopred" ELSE IF Listed(e) = {p.list[j] : j \in 1..Len(p.list)} THEN "asmodel" ELSE "notmodel"
T_List == /\ Is("List") /\ UNCHANGED mvars /\ Keep /\ KeepQ
          /\ IF Ev.res = "ok" /\ Present(vdisk) = Listed(Ev) THEN TRUE
             ELSE IF vhaslf THEN PrintT(<<"BAD", tl, "list", ListModel(Ev), "">>)
             ELSE PrintT(<<"DRIFT", tl, "list">>)

\* D (only when the tree carries the optional verif_state() hook): after a call the number of occupied
\* hash slots and the dirty flag of the real object equal the abstract map's
StDrift == IF Ev.ev \in {"Add", "Remove", "Rename", "Flush"} /\ ~vskip' /\ Ev.st.has
              /\ (Ev.st.live # Cardinality(Present(vsess')) + vextra' \/ Ev.st.dirty # vdirty')
           THEN PrintT(<<"DRIFT", tl, "state">>) ELSE TRUE
\* P: MutableArchive::read_file inside the session returns the session's view of the name
\* (one of the property's observation points; "the map" is what the session shows before it is closed)
SessionWhy(e) == IF vsess[e.n] = None THEN "ghost" ELSE IF e.res = "notfound" THEN "lost"
                 ELSE IF e.res = "ok" THEN "stale" ELSE "unreadable"
SessionModel(e) == LET ps == Rec[vreset].psr IN
    IF e.oi > Len(ps) THEN "nopred"
    ELSE LET v == ps[e.oi] IN
         IF v = "-" THEN "nopred"
         ELSE IF v = "none" THEN (IF e.res = "notfound" THEN "asmodel" ELSE "notmodel")
         ELSE IF v \in BadPred THEN (IF e.res # "notfound" THEN "asmodel" ELSE "notmodel")
         ELSE IF e.res = "ok" /\ v \in DOMAIN voptok /\ voptok[v] = e.tok THEN "asmodel" ELSE "notmodel"
\* (since 9c6ca29 read_file writes pending changes out first: modelled as Flush so that the hook's dirty flag
\* agrees; nothing in the verdict depends on it - Close makes the session durable anyway)
T_SRead == /\ Is("SRead") /\ Keep
           /\ IF vopen /\ vdirty THEN Flush ELSE UNCHANGED mvars
           /\ QSessionRead(vopen /\ vdirty)
           /\ IF vopen /\ ((vsess[Ev.n] = None /\ Ev.res = "notfound") \/ (vsess[Ev.n] # None /\ Ev.res = "ok" /\ Ev.tok = vsess[Ev.n]))
              THEN TRUE
              ELSE PrintT(<<"BAD", tl, "sessionread:" \o SessionWhy(Ev), SessionModel(Ev), "">>)
(* ---- the special files after a close: raw (listfile) lines and parsed (attributes) rows (growth round 4) ---- *)
\* P (archives that carry a listfile): the listfile a fresh open reads has one line for every file of the map, no line
\* for a file that is not there (stale) and no file twice.  D: it is the line multiset the as-coded sub-machine predicts.
LfNames(e)  == [i \in 1..Len(e.lines) |-> e.lines[i][1]]
LfDup(e)    == \E i, j \in 1..Len(e.lines) : i # j /\ e.lines[i][1] = e.lines[j][1]
LfStale(e)  == \E i \in 1..Len(e.lines) : LET x == e.lines[i][1] IN
                   IF x \in DOMAIN vdisk THEN vdisk[x] = None ELSE x \notin {LFN, ATN}
LfMissing(e) == \E n \in Present(vdisk) : \A i \in 1..Len(e.lines) : e.lines[i][1] # n
LfWhy(e) == IF ~e.has THEN "nolistfile" ELSE IF e.res # "ok" THEN "unreadable" ELSE IF LfDup(e) THEN "dup"
            ELSE IF LfStale(e) THEN "stale" ELSE IF LfMissing(e) THEN "incomplete" ELSE ""
AsBag(lines) == [x \in {lines[i] : i \in 1..Len(lines)} |-> Cardinality({i \in 1..Len(lines) : lines[i] = x})]
LfModel(e) == IF e.has = qdsk.lf.has /\ AsBag(ObsLines(e)) = AsBag(qdsk.lf.lines) THEN "asmodel" ELSE "notmodel"
T_LfRaw == /\ Is("LfRaw") /\ UNCHANGED mvars /\ Keep /\ KeepQ
           /\ IF vhaslf /\ LfWhy(Ev) # "" THEN PrintT(<<"BAD", tl, "lfraw:" \o LfWhy(Ev), LfModel(Ev), "">>)
              ELSE IF LfModel(Ev) = "notmodel" THEN PrintT(<<"DRIFT", tl, "lfmodel">>) ELSE TRUE

\* P: where a fresh open finds an (attributes) file it loads, has one row per block (the builder writes none for the
\* (attributes) block itself), and the row of the block of every file of the map records the CRC32 / MD5 of that file's
\* CURRENT content where the flags say so - for files the history never touched these are the rows they started with.
\* An (attributes) file must not vanish by flush (compact() rebuilds the archive without one: as coded, see notes).
\* D: flags, row count and every flagged column of every row equal the prediction of the as-coded sub-machine.
HasFlag(e, f) == \E i \in 1..Len(e.flags) : e.flags[i] = f
AtBadCol(e, col, f) == HasFlag(e, f) /\ \E n \in Present(vdisk) :
                           /\ vdisk[n] \in DOMAIN vdig /\ e.blk[n] >= 1 /\ e.blk[n] <= e.nrows
                           /\ e.rows[e.blk[n]][col] # vdig[vdisk[n]][col]
AtWhy(e) == IF ~e.has THEN (IF qdsk.at.has THEN "missing" ELSE "")
            ELSE IF ~e.loaded THEN "unloadable"
            ELSE IF e.nrows \notin {e.nblk, e.nblk - 1} THEN "rowcount"
            ELSE IF AtBadCol(e, 1, "crc") THEN "crc" ELSE IF AtBadCol(e, 2, "md5") THEN "md5" ELSE ""
Agree(mv, ov) == mv \in {"lf", "junk"} \/ mv = ov
AtModel(e) == IF e.has # qdsk.at.has THEN "notmodel"
              ELSE IF ~e.has THEN "asmodel"
              ELSE IF ~e.loaded \/ ObsFlags(e) # qdsk.at.flags \/ e.nrows # Len(qdsk.at.rows) THEN "notmodel"
              ELSE IF \A i \in 1..e.nrows : LET r == qdsk.at.rows[i] IN
                          /\ ("crc" \in qdsk.at.flags => Agree(r.crc, e.rows[i][1]))
                          /\ ("md5" \in qdsk.at.flags => Agree(r.md5, e.rows[i][2]))
                          /\ ("ft"  \in qdsk.at.flags => Agree(r.ft, e.rows[i][3]))
                   THEN "asmodel" ELSE "notmodel"
T_Attrs == /\ Is("Attrs") /\ UNCHANGED mvars /\ Keep /\ KeepQ
           /\ IF AtWhy(Ev) # "" THEN PrintT(<<"BAD", tl, "attrs:" \o AtWhy(Ev), AtModel(Ev), "">>)
              ELSE IF AtModel(Ev) = "notmodel" THEN PrintT(<<"DRIFT", tl, "atmodel">>) ELSE TRUE
T_Skip == ~Is("Reset") /\ UNCHANGED <<mvars, vreset, voptok, vskip, vhaslf, vdig, vopts, qvars>>

TInit == /\ tl = 1 /\ MapInit(<<>>, 0, 0) /\ vreset = 0 /\ voptok = <<>> /\ vskip = FALSE /\ vhaslf = FALSE /\ vdig = <<>> /\ vopts = <<>>
         /\ QInit([has |-> FALSE, lines |-> <<>>, crlf |-> FALSE], NoAttrs, <<>>, 0)
TNext == /\ tl <= Len(Rec)
         /\ tl' = tl + 1
         /\ IF vskip /\ ~Is("Reset") THEN T_Skip
            ELSE \/ T_Reset \/ T_Open \/ T_Add \/ T_Remove \/ T_Rename \/ T_Flush \/ T_Compact \/ T_Close
                 \/ T_Check \/ T_Read \/ T_List \/ T_SRead \/ T_Attrs \/ T_LfRaw
         /\ StDrift

Accepted == LET d == TLCGet("stats").diameter IN
            IF d - 1 = Len(Rec) THEN PrintT(<<"CONSUMED", Len(Rec)>>) ELSE Print(<<"TRACE_STUCK_AT", d>>, FALSE)
=============================================================================
