------------------------- MODULE Trace_AtomicWrite -------------------------
(* Stage (D) for C12.  Each trace is one run of the real worker process                          *)
(*   c12 worker build|compact <ver> <dest>                                                       *)
(* under strace, un-faulted (reference) or with one or two injected faults (SIGKILL at the entry *)
(* of the k-th call of a system call, EIO / ENOSPC returned by it, RLIMIT_FSIZE).  The harness   *)
(* translates the strace log line by line into the system-call events below (paths relabelled    *)
(* D / T1..T8, successful reads and seeks dropped, consecutive writes folded) and appends what   *)
(* it saw at the destination afterwards (Post).  TLC replays the system calls on the FS layer of *)
(* AtomicWrite and decides:                                                                      *)
(*   P1  Post: dest is byte-identical to the previous file (or absent as before), or opens and   *)
(*       every expected file reads back with the expected token                                  *)
(*   P2  a build / rebuild that exited with the Err status left the previous destination         *)
(*   P3  no write / truncate / O_TRUNC open ever targets the object linked at dest               *)
(* Everything else the refined model predicts (class of dest computed from the system calls vs.  *)
(* observed, temp files left after Err, compact returning Err after its commit point) is DRIFT.  *)
EXTENDS AtomicWrite, Json, IOUtils, TLCExt

Rec == ndJsonDeserialize(IOEnv.TRACE)
VARIABLES tl, tcur
tvars == <<tl, tcur>>

E == Rec[tl]
Is(k) == Rec[tl].ev = k
Bad(why)   == PrintT(<<"BAD", tl, why>>)
Drift(why) == PrintT(<<"DRIFT", tl, why>>)
Skip == UNCHANGED fsvars
KnownPath(p) == p \in Paths
KnownFd(f) == f \in Fds

T_Reset ==
    /\ Is("Reset")
    /\ FsReset(E.prevk, E.full)
    /\ tcur' = E

T_Open ==
    /\ Is("Open") /\ UNCHANGED tcur
    /\ IF E.res # "ok" THEN FsFail("open")
       ELSE IF ~(KnownPath(E.path) /\ KnownFd(E.fd)) THEN Drift("open: path/fd outside the model") /\ Skip
       ELSE IF vfd[E.fd] # 0 THEN Drift("open: fd already open in the model") /\ Skip
       ELSE IF vdir[E.path] = 0
            THEN IF E.creat THEN FsCreate(E.path, E.fd)
                 ELSE Drift("open: no such entry in the model") /\ Skip
            ELSE IF E.excl /\ E.creat THEN Drift("open: O_EXCL on an existing entry") /\ Skip
                 ELSE /\ IF E.trunc /\ E.path = Dest
                           THEN Bad("dest opened with O_TRUNC") ELSE TRUE
                      /\ FsOpen(E.path, E.fd, E.trunc)

T_Write ==
    /\ Is("Write") /\ UNCHANGED tcur
    /\ IF E.res # "ok" THEN FsFail("write")
       ELSE IF ~KnownFd(E.fd) \/ vfd[E.fd] = 0 THEN Drift("write: unknown fd") /\ Skip
       ELSE /\ IF E.n > 0 /\ AtDest(vfd[E.fd])
                 THEN Bad("write into the file linked at dest") ELSE TRUE
            /\ FsWrite(E.fd, E.n)

T_Trunc ==
    /\ Is("Trunc") /\ UNCHANGED tcur
    /\ IF E.res # "ok" THEN FsFail("ftruncate")
       ELSE IF ~KnownFd(E.fd) \/ vfd[E.fd] = 0 THEN Drift("ftruncate: unknown fd") /\ Skip
       ELSE /\ IF AtDest(vfd[E.fd]) THEN Bad("truncate of the file linked at dest") ELSE TRUE
            /\ FsTrunc(E.fd)

T_Rename ==
    /\ Is("Rename") /\ UNCHANGED tcur
    /\ IF E.res # "ok" THEN FsFail("rename")
       ELSE IF ~(KnownPath(E.from) /\ KnownPath(E.to)) \/ vdir[E.from] = 0
            THEN Drift("rename: source not in the model") /\ Skip
       ELSE /\ IF E.to = Dest /\ PathClass(E.from) # "New"
                 THEN Drift("rename onto dest of an incomplete file") ELSE TRUE
            /\ FsRename(E.from, E.to)

T_Link ==
    /\ Is("Link") /\ UNCHANGED tcur
    /\ IF E.res # "ok" THEN FsFail("link")
       ELSE IF ~(KnownPath(E.from) /\ KnownPath(E.to)) \/ vdir[E.from] = 0 \/ vdir[E.to] # 0
            THEN Drift("link: not explained by the model") /\ Skip
       ELSE FsLink(E.from, E.to)

T_Unlink ==
    /\ Is("Unlink") /\ UNCHANGED tcur
    /\ IF E.res # "ok" THEN FsFail(IF E.res = "enoent" THEN "enoent" ELSE "unlink")
       ELSE IF ~KnownPath(E.path) \/ vdir[E.path] = 0 THEN Drift("unlink: no such entry in the model") /\ Skip
       ELSE /\ IF E.path = Dest THEN Drift("dest unlinked") ELSE TRUE
            /\ FsUnlink(E.path)

T_Close ==
    /\ Is("Close") /\ UNCHANGED tcur
    /\ IF KnownFd(E.fd) THEN FsClose(E.fd) ELSE Skip

\* a failed system call without effect on the directory (read, lseek, stat, fsync ...)
T_Fail == Is("Fail") /\ UNCHANGED tcur /\ FsFail(E.sys)

T_Exit ==
    /\ Is("Exit") /\ UNCHANGED tcur
    /\ IF E.status \in {"ok", "err"} THEN FsReturn(E.status) ELSE Crash   \* panic / abort = death

T_Killed == Is("Killed") /\ UNCHANGED tcur /\ Crash

\* ---- what the harness saw at dest after the process was gone -------------------------------------
ObsPrev(e)     == e.dest_tok = tcur.prev_tok
ObsComplete(e) == /\ e.open = "ok"
                  /\ Len(e.files) = Len(tcur.expect)
                  /\ \A j \in 1..Len(tcur.expect) :
                        /\ e.files[j][1] = tcur.expect[j][1]
                        /\ e.files[j][2] = "ok"
                        /\ e.files[j][3] = tcur.expect[j][2]
Predicted(e) == IF DestClass = PrevClass THEN ObsPrev(e)
                ELSE IF DestClass = "New" THEN ObsComplete(e)
                ELSE ~(ObsPrev(e) \/ ObsComplete(e))

T_Post ==
    /\ Is("Post") /\ UNCHANGED tcur /\ Skip
    /\ vres # "run"
    \* P1
    /\ IF ObsPrev(E) \/ ObsComplete(E) THEN TRUE
       ELSE Bad("dest is neither previous nor complete")
    \* P2
    /\ IF tcur.op \in {"build", "rebuild"} /\ vres = "err" /\ ~ObsPrev(E)
         THEN Bad("build returned Err but dest changed") ELSE TRUE
    \* D-conjuncts
    /\ IF tcur.op \notin {"build", "rebuild"} /\ vres = "err" /\ ~ObsPrev(E)
         THEN Drift("Err returned after the commit point") ELSE TRUE
    /\ IF vres = "ok" /\ ~ObsComplete(E) /\ ObsPrev(E)
         THEN Drift("Ok returned but dest is still the previous file") ELSE TRUE
    /\ IF tcur.fkind = "none" /\ vres # "ok"
         THEN Drift("reference run did not return Ok") ELSE TRUE
    /\ IF Predicted(E) THEN TRUE ELSE Drift("predicted dest class differs from observed")
    /\ IF vres = "err" /\ ~vhist.unlinkfail /\ E.leftovers > 0
         THEN Drift("temp file left behind after an Err return") ELSE TRUE

TInit ==
    /\ tl = 1 /\ tcur = [ev |-> "none"]
    /\ FsInit("absent", 0)
    /\ vop = "trace" /\ vpc = "trace" /\ vdone = 0 /\ vneed = 0 /\ vnfault = 0 /\ vread = 0

TNext ==
    /\ tl <= Len(Rec)
    /\ tl' = tl + 1
    /\ UNCHANGED procvars
    /\ \/ T_Reset \/ T_Open \/ T_Write \/ T_Trunc \/ T_Rename \/ T_Link \/ T_Unlink \/ T_Close \/ T_Fail
       \/ T_Exit \/ T_Killed \/ T_Post

Accepted == LET d == TLCGet("stats").diameter IN
            IF d - 1 = Len(Rec) THEN PrintT(<<"CONSUMED", Len(Rec)>>) ELSE Print(<<"TRACE_STUCK_AT", d>>, FALSE)
=============================================================================
