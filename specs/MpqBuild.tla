------------------------------- MODULE MpqBuild -------------------------------
(***************************************************************************)
(* ArchiveBuilder (writer) and Archive (reader) of wow-mpq as one state    *)
(* machine (property C01), transcribed from builder.rs:write_file /        *)
(* add_to_hash_table / calculate_file_key and archive.rs:find_file /       *)
(* read_file / read_sectored_file, tables/hash.rs:find_file.               *)
(*                                                                         *)
(* Modelled decision logic:                                                *)
(*   writer: single unit  <=>  len <= S;  per sector (or whole file) the   *)
(*           store-raw rule of the codec layer (CodecDefs!StoresRaw);      *)
(*           flag word; block entry (pos, csize, fsize, flags);            *)
(*           key derivation incl. FIX_KEY (base + pos) XOR fsize;          *)
(*           hash-table insertion by linear probing, duplicate detection.  *)
(*   reader: hash-table lookup by linear probing under any spelling of the *)
(*           name; branch (SINGLE_UNIT or not COMPRESS) vs sectored;       *)
(*           csize = fsize shortcut; per-sector "is compressed" test       *)
(*           stored_i < expected_i; key re-derivation from the spelled     *)
(*           name and the block entry; limit checks of the codec layer;    *)
(*           Err -> zeros for a sector that fails to decompress.           *)
(* Content is abstract: the outcome of a read is a class ("exact", or the  *)
(* way in which it differs).  Compressed sizes are chosen by the writer    *)
(* actions from a small set per compressibility class that includes the    *)
(* boundary values raw-2, raw-1 of the store-raw rule.                     *)
(*                                                                         *)
(* Deviations of today's code from the intended design are NAMED           *)
(* (DevSectoredNoCompressFlag, DevLimitRejectsOwnOutput, DevZeroFill, the  *)
(* dispatch deviations of CodecDefs); the invariants hold outside them,    *)
(* and with FlagFix = TRUE (the proposed one-line fix) the first one       *)
(* disappears.                                                             *)
(***************************************************************************)
EXTENDS CodecDefs, MpqCrypto

CONSTANTS SectorSize,     \* bytes per sector (512 << shift in the implementation; 4 in the small model)
          TableSize,      \* hash table size (power of two)
          FlagFix         \* FALSE: builder as it is; TRUE: COMPRESS is set for every sectored file

\* ---------------------------------------------------------------------------------------------
\* names and their spellings

Spellings == {"asis", "upper", "lower", "flip"}
FlipSlash(c) == IF c = 47 THEN 92 ELSE IF c = 92 THEN 47 ELSE c
Spell(nm, sp) == CASE sp = "asis"  -> nm
                   [] sp = "upper" -> [j \in 1..Len(nm) |-> Upper(nm[j])]
                   [] sp = "lower" -> [j \in 1..Len(nm) |-> Lower(nm[j])]
                   [] sp = "flip"  -> [j \in 1..Len(nm) |-> FlipSlash(nm[j])]

\* what the library hashes: the full name as given (NOT the part after the last separator, which is
\* what the published format prescribes -- MpqCrypto!FileKey; writer and reader agree with each other)
LibFileKeyDef(nm) == HashString(nm, FILE_KEY)
NameHashDef(nm) == [home |-> HashString(nm, TABLE_OFFSET)[2] % TableSize,   \* & (size - 1), size a power of two
                    a    |-> HashString(nm, NAME_A),
                    b    |-> HashString(nm, NAME_B)]
\* (model-checking configurations replace these two by tables pre-computed from the definitions above)
LibFileKey(nm) == LibFileKeyDef(nm)
NameHash(nm)   == NameHashDef(nm)

\* ---------------------------------------------------------------------------------------------
\* writer, functional core

Empty == [a |-> <<0, 0>>, b |-> <<0, 0>>, blk |-> 0]          \* block_index = 0xFFFFFFFF; blocks are 1-based here

SectorCount(len) == (len + SectorSize - 1) \div SectorSize
SectorRaw(len, j) == IF j < SectorCount(len) THEN SectorSize ELSE len - (SectorCount(len) - 1) * SectorSize
IsSingleUnit(len) == len <= SectorSize

\* one stored unit (whole file or sector): raw length r, pipeline output length c, selector m
StoredUnit(r, c, m) ==
  IF m = 0 \/ r = 0 \/ ~CompressPlan(m).ok THEN [r |-> r, st |-> r, shrunk |-> FALSE]     \* "compression != 0 && !empty"
  ELSE IF StoresRaw(r, c) THEN [r |-> r, st |-> r, shrunk |-> FALSE]
  ELSE [r |-> r, st |-> 1 + c, shrunk |-> TRUE]
\* compress() returning Err aborts the build; the builder cannot store such a file
AdpcmAlignedAll(f) == \A j \in 1..SectorCount(f.len) :
                         AdpcmAligned(f.method, IF IsSingleUnit(f.len) THEN f.len ELSE SectorRaw(f.len, j))
BuildRefuses(f) == f.method # 0 /\ f.len > 0 /\ (~CompressPlan(f.method).ok \/ ~AdpcmAlignedAll(f))

AnyShrunk(secs) == \E j \in 1..Len(secs) : secs[j].shrunk
SumStored(secs) == LET F[j \in 0..Len(secs)] == IF j = 0 THEN 0 ELSE F[j-1] + secs[j].st IN F[Len(secs)]

WriterFlags(f, crc, secs) ==
  (IF IsSingleUnit(f.len) THEN {"SINGLE_UNIT"} ELSE {})
  \cup (IF crc THEN {"SECTOR_CRC"} ELSE {})
  \cup (IF AnyShrunk(secs) \/ (FlagFix /\ ~IsSingleUnit(f.len)) THEN {"COMPRESS"} ELSE {})
  \cup (IF f.enc # "plain" THEN {"ENCRYPTED"} ELSE {})
  \cup (IF f.enc = "encfix" THEN {"FIX_KEY"} ELSE {})
  \cup {"EXISTS"}

OffsetTableSize(len) == 4 * (SectorCount(len) + 1)
\* block entry's compressed size (CRC bytes are not counted)
WriterCsize(f, secs) == IF IsSingleUnit(f.len) THEN secs[1].st ELSE OffsetTableSize(f.len) + SumStored(secs)
\* bytes the file occupies in the archive
WriterSpan(f, crc, secs) == IF IsSingleUnit(f.len) THEN secs[1].st + (IF crc THEN 4 ELSE 0)
                            ELSE OffsetTableSize(f.len) + (IF crc THEN 4 * SectorCount(f.len) ELSE 0) + SumStored(secs)

KeyFor(nm, fix, pos, fsize) == IF fix THEN FixKey(LibFileKey(nm), WFromNat(pos), WFromNat(fsize)) ELSE LibFileKey(nm)

MkBlock(f, crc, secs, pos) ==
  [pos |-> pos, csize |-> WriterCsize(f, secs), fsize |-> f.len, flags |-> WriterFlags(f, crc, secs),
   \* ghost fields: what the writer really laid down
   secs |-> secs, method |-> f.method, single |-> IsSingleUnit(f.len),
   key |-> KeyFor(f.name, f.enc = "encfix", pos, f.len)]

\* linear probing insertion; result [ok, slots]
Insert(slots, nm, blk) ==
  LET h == NameHash(nm)
      F[k \in 0..TableSize] ==
        IF k = TableSize THEN [ok |-> FALSE, slots |-> slots]            \* (the code would loop; the builder sizes the table >= 2n)
        ELSE LET ix == (h.home + k) % TableSize IN
             IF slots[ix] = Empty THEN [ok |-> TRUE, slots |-> [slots EXCEPT ![ix] = [a |-> h.a, b |-> h.b, blk |-> blk]]]
             ELSE IF slots[ix].a = h.a /\ slots[ix].b = h.b THEN [ok |-> FALSE, slots |-> slots]   \* duplicate
             ELSE F[k + 1]
  IN F[0]

\* ---------------------------------------------------------------------------------------------
\* reader, functional core

Lookup(slots, nm) ==
  LET h == NameHash(nm)
      F[k \in 0..TableSize] ==
        IF k = TableSize THEN 0                                          \* wrapped around
        ELSE LET e == slots[(h.home + k) % TableSize] IN
             IF e # Empty /\ e.a = h.a /\ e.b = h.b THEN e.blk
             ELSE IF e = Empty THEN 0
             ELSE F[k + 1]
  IN F[0]

\* the reader's branch
ReaderDirect(b) == "SINGLE_UNIT" \in b.flags \/ "COMPRESS" \notin b.flags
\* per-sector "is compressed" test of read_sectored_file
ReaderSectorCompressed(b, j) == "COMPRESS" \in b.flags /\ b.secs[j].st < b.secs[j].r
\* the layout the reader assumes vs the layout the writer produced
ReaderLayout(b) == IF ReaderDirect(b)
                   THEN [mode |-> "direct", comp |-> <<"COMPRESS" \in b.flags /\ "SINGLE_UNIT" \in b.flags /\ b.csize # b.fsize>>]
                   ELSE [mode |-> "sectored", comp |-> [j \in 1..Len(b.secs) |-> ReaderSectorCompressed(b, j)]]
WriterLayout(b) == IF b.single THEN [mode |-> "direct", comp |-> <<b.secs[1].shrunk>>]
                   ELSE [mode |-> "sectored", comp |-> [j \in 1..Len(b.secs) |-> b.secs[j].shrunk]]

\* named deviations
DevSectoredNoCompressFlag(b) == ~b.single /\ "COMPRESS" \notin b.flags       \* F-C01-a
UnitRejected(b, j) == b.secs[j].shrunk /\ PreCheck(b.method, b.secs[j].st - 1, b.secs[j].r) # "ok"
DevLimitRejectsOwnOutput(b) == \E j \in 1..Len(b.secs) : UnitRejected(b, j)  \* F-C01-b
DevCodec(b) == AnyShrunk(b.secs) /\ DecodeClass(b.method) # "ok"              \* dispatch deviations of the codec layer
\* single-unit + SECTOR_CRC: the writer's checksum is over the ORIGINAL bytes, the reader compares it with the
\* DECODED bytes -- which differ whenever a lossy (ADPCM) stage was applied
DevLossyCrc(b) == b.single /\ "SECTOR_CRC" \in b.flags /\ b.secs[1].shrunk /\ LossySel(b.method)

\* Outcome class of reading block b under name nm:
\*   "exact" | "err:limit" | "err:codec" | "err:crc" | "panic" | "zerofill" (F-C01-c) | "table-prepended" | "garbage"
ReadBlock(b, nm) ==
  LET keyOk == "ENCRYPTED" \notin b.flags \/ KeyFor(nm, "FIX_KEY" \in b.flags, b.pos, b.fsize) = b.key IN
  IF ReaderDirect(b) THEN
     IF ~b.single THEN (IF "ENCRYPTED" \in b.flags THEN "garbage" ELSE "table-prepended")   \* reads csize bytes: table + data
     ELSE IF ~keyOk THEN "garbage"
     ELSE IF "COMPRESS" \in b.flags THEN
          IF b.csize = b.fsize THEN (IF b.secs[1].shrunk THEN "garbage" ELSE "exact")        \* the shortcut
          ELSE IF UnitRejected(b, 1) THEN "err:limit"
          ELSE IF DecodeClass(b.method) = "panic" THEN "panic"
          ELSE IF DecodeClass(b.method) = "err" THEN "err:codec"
          ELSE IF DevLossyCrc(b) THEN "err:crc"
          ELSE "exact"
     ELSE "exact"
  ELSE \* sectored
     IF ~keyOk THEN "garbage"
     ELSE IF \E j \in 1..Len(b.secs) : ReaderSectorCompressed(b, j) # b.secs[j].shrunk THEN "garbage"
     ELSE IF AnyShrunk(b.secs) /\ DecodeClass(b.method) = "panic" THEN "panic"
     ELSE IF DevLimitRejectsOwnOutput(b) \/ (AnyShrunk(b.secs) /\ DecodeClass(b.method) = "err") THEN "zerofill"
     ELSE "exact"

\* ---------------------------------------------------------------------------------------------
\* HET / BET table compression (builder.rs:write_het_table / write_bet_table vs tables/het.rs, bet.rs:read), V3/V4 with
\* compress_tables(true).  n = table bytes behind the 12-byte extended header, c = codec output length.
\* The builder calls compress() -- which already returns either the raw bytes or <<m>> \o payload -- and then prepends
\* the method byte AGAIN.  The reader takes the table as compressed iff the declared size exceeds the stored size, and
\* then treats byte 0 as the method and the rest as payload.
TableStoredLen(n, c) == 1 + OutLen(n, c)
TableReaderSaysCompressed(n, c) == n > TableStoredLen(n, c)
\* "ignored": decode error, the table is dropped and lookups fall back to the classic tables (harmless);
\* "misaligned": the stored bytes (method byte + raw table) are parsed as the table, one byte off: header fields are
\*               garbage (e.g. flag_count -> a multi-gigabyte Vec::with_capacity);  "exact" would need one prefix only
TableOutcome(n, c) == IF TableReaderSaysCompressed(n, c)
                      THEN (IF StoresRaw(n, c) THEN "garbage" ELSE "ignored")          \* payload = <<m>> \o real payload
                      ELSE (IF StoresRaw(n, c) THEN "misaligned" ELSE "misaligned")
DevTableCompression(n, c) == TableOutcome(n, c) # "exact"                             \* F-C01-e: always
\* the dangerous half: the codec did not shrink the table, or shrank it by a single byte (then the second prefix
\* brings the stored size back to n and the reader takes <<m, m>> \o payload for the raw table)
TableMisaligned(n, c) == StoresRaw(n, c) \/ c = n - 2

\* ---------------------------------------------------------------------------------------------
\* state machine

VARIABLES vph,      \* "writing" | "hashing" | "built" | "failed"
          vfiles,   \* the files to add (chosen in Init)
          vcrc,     \* generate_crcs
          vcur,     \* index of the file being written
          vsecs,    \* sectors of the current file written so far
          vpos,     \* write cursor
          vblocks,  \* block table
          vslots,   \* hash table
          vlast     \* the last observation of the reader: [kind, file, sp, out]
bvars == <<vph, vfiles, vcrc, vcur, vsecs, vpos, vblocks, vslots, vlast>>

NoObs == [kind |-> "none", file |-> 0, sp |-> "asis", out |-> "-"]
HeaderSize == 32

\* compressed-size choices per compressibility class, incl. the store-raw boundary
CompChoices(cls, r) == CASE cls = "run"    -> {1, 2}
                         [] cls = "edge"   -> IF r <= 1 THEN {1} ELSE {c \in {r - 3, r - 2, r - 1} : c >= 1}
                         [] cls = "random" -> {r + 3}

BInitWith(FileSeqs) ==
  /\ vfiles \in FileSeqs /\ vcrc \in BOOLEAN
  /\ vph = "writing" /\ vcur = 1 /\ vsecs = <<>> /\ vpos = HeaderSize
  /\ vblocks = <<>> /\ vslots = [ix \in 0..(TableSize - 1) |-> Empty] /\ vlast = NoObs

CurFile == vfiles[vcur]

\* compress() returns Err: build() reports an error, no archive
BuildFailCodec ==
  /\ vph = "writing" /\ BuildRefuses(CurFile)
  /\ vph' = "failed" /\ UNCHANGED <<vfiles, vcrc, vcur, vsecs, vpos, vblocks, vslots, vlast>>

FinishWith(secs) ==
  /\ vblocks' = Append(vblocks, MkBlock(CurFile, vcrc, secs, vpos))
  /\ vpos' = vpos + WriterSpan(CurFile, vcrc, secs)
  /\ vph' = "hashing" /\ vsecs' = <<>>
  /\ UNCHANGED <<vfiles, vcrc, vcur, vslots, vlast>>

WriteSingleUnit ==
  /\ vph = "writing" /\ ~BuildRefuses(CurFile) /\ IsSingleUnit(CurFile.len)
  /\ \E c \in CompChoices(CurFile.cls, CurFile.len) : FinishWith(<<StoredUnit(CurFile.len, c, CurFile.method)>>)

WriteSector ==
  /\ vph = "writing" /\ ~BuildRefuses(CurFile) /\ ~IsSingleUnit(CurFile.len)
  /\ Len(vsecs) < SectorCount(CurFile.len)
  /\ LET r == SectorRaw(CurFile.len, Len(vsecs) + 1) IN
     \E c \in CompChoices(CurFile.cls, r) : vsecs' = Append(vsecs, StoredUnit(r, c, CurFile.method))
  /\ UNCHANGED <<vph, vfiles, vcrc, vcur, vpos, vblocks, vslots, vlast>>

FinishFile ==
  /\ vph = "writing" /\ ~IsSingleUnit(CurFile.len) /\ Len(vsecs) = SectorCount(CurFile.len)
  /\ FinishWith(vsecs)

AddHash ==
  /\ vph = "hashing"
  /\ LET ins == Insert(vslots, CurFile.name, vcur) IN
     IF ins.ok THEN /\ vslots' = ins.slots /\ vcur' = vcur + 1
                    /\ vph' = IF vcur = Len(vfiles) THEN "built" ELSE "writing"
               ELSE /\ vph' = "failed" /\ UNCHANGED <<vslots, vcur>>          \* "Duplicate file in archive"
  /\ UNCHANGED <<vfiles, vcrc, vsecs, vpos, vblocks, vlast>>

ReadName(nm) == LET blk == Lookup(vslots, nm) IN IF blk = 0 THEN "notfound" ELSE ReadBlock(vblocks[blk], nm)

ReadFile(i, sp) ==
  /\ vph = "built"
  /\ vlast' = [kind |-> "file", file |-> i, sp |-> sp, out |-> ReadName(Spell(vfiles[i].name, sp))]
  /\ UNCHANGED <<vph, vfiles, vcrc, vcur, vsecs, vpos, vblocks, vslots>>

ReadAbsent(nm, sp) ==
  /\ vph = "built"
  /\ vlast' = [kind |-> "absent", file |-> 0, sp |-> sp, out |-> ReadName(Spell(nm, sp))]
  /\ UNCHANGED <<vph, vfiles, vcrc, vcur, vsecs, vpos, vblocks, vslots>>

\* ---------------------------------------------------------------------------------------------
\* invariants

\* the reader re-derives the writer's layout -- except in the named deviation (none with FlagFix)
LayoutAgreement == \A j \in 1..Len(vblocks) :
                      ReaderLayout(vblocks[j]) = WriterLayout(vblocks[j]) \/ DevSectoredNoCompressFlag(vblocks[j])
FixRemovesDeviation == FlagFix => \A j \in 1..Len(vblocks) : ~DevSectoredNoCompressFlag(vblocks[j])
\* the writer's COMPRESS + size arithmetic makes the reader's shortcut and per-sector test sound
ShortcutUnreachable == \A j \in 1..Len(vblocks) : LET b == vblocks[j] IN
                          (b.single /\ "COMPRESS" \in b.flags) => b.csize < b.fsize
SectorTestSound == \A j \in 1..Len(vblocks) : \A q \in 1..Len(vblocks[j].secs) :
                      (vblocks[j].secs[q].st < vblocks[j].secs[q].r) <=> vblocks[j].secs[q].shrunk
\* stored never exceeds raw plus the table
StoredBound == \A j \in 1..Len(vblocks) : LET b == vblocks[j] IN
                  b.csize <= b.fsize + (IF b.single THEN 0 ELSE OffsetTableSize(b.fsize))
\* files do not overlap
NoOverlap == \A j \in 1..Len(vblocks) : vblocks[j].pos + vblocks[j].csize <= (IF j < Len(vblocks) THEN vblocks[j+1].pos ELSE vpos)
\* every added name sits in exactly one slot, every spelling finds its block
TableWellFormed == (vph = "built" /\ vlast = NoObs) =>
  \A i \in 1..Len(vfiles) : /\ Cardinality({ix \in DOMAIN vslots : vslots[ix].blk = i}) = 1
                            /\ \A sp \in Spellings : Lookup(vslots, Spell(vfiles[i].name, sp)) = i
\* the key the reader derives from the spelled name and the block entry is the writer's key
KeyAgreement == (vph = "built" /\ vlast = NoObs) => \A i \in 1..Len(vfiles) : \A sp \in Spellings :
  LET b == vblocks[i] IN KeyFor(Spell(vfiles[i].name, sp), "FIX_KEY" \in b.flags, b.pos, b.fsize) = b.key

\* THE PROPERTY on the model: every read of an added file under every spelling is exact, unless a named
\* deviation applies to its block; an absent name is not found
Explained(b, out) ==
  \/ DevSectoredNoCompressFlag(b) /\ out \in {"table-prepended", "garbage"}
  \/ DevLimitRejectsOwnOutput(b) /\ out \in {"err:limit", "zerofill"}
  \/ DevCodec(b) /\ out \in {"panic", "err:codec", "zerofill"}
  \/ DevLossyCrc(b) /\ out = "err:crc"
ReadBack == vlast.kind = "file" => (vlast.out = "exact" \/ Explained(vblocks[vlast.file], vlast.out))
ReadBackNeverNotFound == vlast.kind = "file" => vlast.out # "notfound"
AbsentNotFound == vlast.kind = "absent" => vlast.out = "notfound"
=============================================================================
