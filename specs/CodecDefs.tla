------------------------------ MODULE CodecDefs ------------------------------
(***************************************************************************)
(* The MPQ codec layer (property C03; re-used by MpqBuild for C01).        *)
(*                                                                         *)
(* What is modelled (transcribed from compression/compress.rs,             *)
(* compression/decompress.rs, compression/methods.rs, security.rs):        *)
(*   - selector classification (CompressionMethod::from_flags);            *)
(*   - the compressor's pipeline per selector (compress_internal,          *)
(*     compress_multiple) incl. the selectors it refuses;                  *)
(*   - the store-raw rule  1 + |c| >= |x|  =>  out = x,  else <<m>> \o c;   *)
(*   - the decompressor's pipeline per selector (decompress_with_monitor,  *)
(*     decompress_multiple_internal) incl. the expected-size argument it   *)
(*     hands to each stage;                                                *)
(*   - the limit checks in the order the code applies them                 *)
(*     (validate_file_bounds, detect_compression_bomb_patterns with the    *)
(*     adaptive table, monitor size, final +-10% check).                   *)
(* Codecs themselves are uninterpreted: a stage s applied to a term t is   *)
(* the term <<s, t>>; un-applying s from <<s, t>> yields t, from anything  *)
(* else "garbage".  Lengths are abstract naturals chosen by the model.     *)
(*                                                                         *)
(* Where today's code deviates from the ideal (decode pipeline is not the  *)
(* reverse of the encode pipeline; limits reject the compressor's own      *)
(* output) the deviation is a NAMED predicate, so that every other state   *)
(* must satisfy the invariant and TLC shows the deviation on the model.    *)
(***************************************************************************)
EXTENDS Integers, Sequences, FiniteSets, TLC
LOCAL INSTANCE Bitwise

HUFFMAN      == 1
ZLIB         == 2
IMPLODE      == 4
PKWARE       == 8
BZIP2        == 16
SPARSE       == 32
ADPCM_MONO   == 64
ADPCM_STEREO == 128
LZMA         == 18          \* 0x12: a value, not a flag combination

Selectors == 0..255
Has(m, f) == (m & f) # 0

\* CompressionMethod::from_flags
KindOf(m) ==
  IF m = LZMA THEN "lzma"
  ELSE CASE m = 0            -> "none"
         [] m = HUFFMAN      -> "huffman"
         [] m = ZLIB         -> "zlib"
         [] m = IMPLODE      -> "implode"
         [] m = PKWARE       -> "pkware"
         [] m = BZIP2        -> "bzip2"
         [] m = SPARSE       -> "sparse"
         [] m = ADPCM_MONO   -> "adpcm_mono"
         [] m = ADPCM_STEREO -> "adpcm_stereo"
         [] OTHER            -> "multi"

Lossy(stage) == stage \in {"adpcm_mono", "adpcm_stereo"}
\* stages the library has an encoder for (huffman::compress and implode::compress return Err)
HasEncoder(stage) == stage \notin {"huffman", "implode"}

---------------------------------------------------------------------------
(* The compressor.  CompressPlan(m) = [ok, stages]: the stage sequence     *)
(* compress_internal applies, or ok = FALSE when it returns Err for every  *)
(* non-empty input.                                                        *)

Secondary(m) == \* the non-ADPCM methods compress_multiple counts
  <<Has(m, HUFFMAN), Has(m, ZLIB), Has(m, PKWARE), Has(m, BZIP2), Has(m, SPARSE)>>
SecondaryCount(m) == Cardinality({j \in 1..5 : Secondary(m)[j]})
\* "if has_huffman .. else if has_zlib .. else if has_bzip2 .. else if has_sparse .. else if has_pkware"
SecondaryStage(m) == IF Has(m, HUFFMAN) THEN "huffman" ELSE IF Has(m, ZLIB) THEN "zlib"
                     ELSE IF Has(m, BZIP2) THEN "bzip2" ELSE IF Has(m, SPARSE) THEN "sparse" ELSE "pkware"
\* "if has_adpcm_mono .. else if has_adpcm_stereo"
EncAdpcm(m) == IF Has(m, ADPCM_MONO) THEN <<"adpcm_mono">>
               ELSE IF Has(m, ADPCM_STEREO) THEN <<"adpcm_stereo">> ELSE <<>>

CompressPlan(m) ==
  LET kd == KindOf(m) IN
  IF kd = "none" THEN [ok |-> TRUE, stages |-> <<>>]
  ELSE IF kd # "multi" THEN [ok |-> HasEncoder(kd), stages |-> <<kd>>]
  ELSE IF SecondaryCount(m) = 0 THEN [ok |-> TRUE, stages |-> EncAdpcm(m)]        \* "handle it gracefully"
  ELSE IF SecondaryCount(m) > 1 THEN [ok |-> FALSE, stages |-> <<>>]              \* "not yet supported"
  ELSE [ok |-> HasEncoder(SecondaryStage(m)), stages |-> EncAdpcm(m) \o <<SecondaryStage(m)>>]

\* ADPCM needs whole 16-bit samples per channel (compress_internal of adpcm.rs)
AdpcmAligned(m, n) ==
  LET st == CompressPlan(m).stages IN
  IF st = <<>> \/ ~Lossy(st[1]) THEN TRUE
  ELSE IF st[1] = "adpcm_mono" THEN n % 2 = 0 ELSE n % 4 = 0

\* The selectors the property quantifies over with a success obligation:
\* the five lossless single methods ...
LosslessSingles == {ZLIB, PKWARE, BZIP2, LZMA, SPARSE}
\* ... and the combinations the library has encoders and decoders for: one ADPCM flavour, optionally
\* followed by one of zlib / pkware / bzip2 / sparse.  (HUFFMAN and IMPLODE have no encoder.)
AdpcmSelectors == {a + s : a \in {ADPCM_MONO, ADPCM_STEREO}, s \in {0, ZLIB, PKWARE, BZIP2, SPARSE}}
Supported(m) == m \in LosslessSingles \cup AdpcmSelectors
LossySel(m)  == Has(m, ADPCM_MONO) \/ Has(m, ADPCM_STEREO)

\* the store-raw rule of compress(): n = |input|, c = |pipeline output|
StoresRaw(n, c) == 1 + c >= n
OutLen(n, c)    == IF StoresRaw(n, c) THEN n ELSE 1 + c

---------------------------------------------------------------------------
(* The decompressor.  DecompressPlan(m) = sequence of [stage, exp]: the    *)
(* stages decompress_with_monitor / decompress_multiple_internal apply, in *)
(* order, with the expected-size argument each receives:                   *)
(*   "n" the caller's size, "x4" = 4n, "est" = a max(..) estimate,          *)
(*   "bound" = an upper bound the stage does not compare for equality.     *)

DecAdpcm(m) == IF Has(m, ADPCM_STEREO) THEN <<[stage |-> "adpcm_stereo", exp |-> "n"]>>   \* both bits: "assume stereo"
               ELSE IF Has(m, ADPCM_MONO) THEN <<[stage |-> "adpcm_mono", exp |-> "n"]>> ELSE <<>>
DecPrimary(m) ==
  IF Has(m, HUFFMAN) THEN <<[stage |-> "huffman", exp |-> "est"]>>
  ELSE IF Has(m, ZLIB) THEN <<[stage |-> "zlib", exp |-> "x4"]>>
  ELSE IF Has(m, BZIP2) THEN <<[stage |-> "bzip2", exp |-> "bound"]>>   \* decompress_bounded since 58eef5f (was "x4")
  ELSE IF Has(m, SPARSE) THEN <<[stage |-> "sparse", exp |-> "x4"]>>
  ELSE IF Has(m, IMPLODE) THEN <<[stage |-> "implode", exp |-> "x4"]>> ELSE <<>>
DecPkware(m) == IF Has(m, PKWARE) THEN <<[stage |-> "pkware", exp |-> "est"]>> ELSE <<>>

DecompressPlan(m) ==
  LET kd == KindOf(m) IN
  IF kd = "none" THEN <<>>
  ELSE IF kd # "multi" THEN <<[stage |-> kd, exp |-> "n"]>>
  ELSE DecPrimary(m) \o DecPkware(m) \o DecAdpcm(m)
  \* (the tail "single method detected -> decode the original data again with exp = n" re-does the primary
  \*  stage when there is neither ADPCM nor PKWARE; it yields the same term, but only after the "x4" call
  \*  has succeeded)

\* bzip2::decompress demands |output| = expected_size exactly; every other stage tolerates a larger bound
StrictSize(stage) == stage = "bzip2"

\* Codec-internal mode: the wrapper picks one when encoding; the wrapped decoder implements a set.
\* pkware.rs encodes with pklib::implode_bytes(.., CompressionMode::ASCII, ..) and decodes with
\* implode::exploder::Exploder, whose literal mode 1 (ASCII) is `unimplemented!()`.
EncMode(stage)  == IF stage = "pkware" THEN "ascii" ELSE "std"
DecModes(stage) == IF stage = "pkware" THEN {"binary"} ELSE {"std"}

\* symbolic evaluation: stage s applied to term t is <<s, mode, t>>
Encode(stages, t) == LET F[j \in 0..Len(stages)] == IF j = 0 THEN t ELSE <<stages[j], EncMode(stages[j]), F[j-1]>>
                     IN F[Len(stages)]
Garbage  == <<"garbage">>
Panicked == <<"panic">>
Unapply(d, t) == IF t = Panicked THEN Panicked
                 ELSE IF t = Garbage \/ Len(t) # 3 \/ t[1] # d.stage THEN Garbage
                 \* the decoder does not implement the encoder's mode: Err since 8c7dcc0 (pkware::decompress validates
                 \* the stream header first); before that the implode crate's unimplemented!() panicked (Panicked)
                 ELSE IF t[2] \notin DecModes(d.stage) THEN Garbage
                 ELSE IF StrictSize(d.stage) /\ d.exp = "x4" THEN Garbage       \* Err(size mismatch)
                 ELSE t[3]
Decode(plan, t) == LET F[j \in 0..Len(plan)] == IF j = 0 THEN t ELSE Unapply(plan[j], F[j-1]) IN F[Len(plan)]

Src == <<"x">>
\* the decode pipeline undoes the encode pipeline
Inverts(m) == Decode(DecompressPlan(m), Encode(CompressPlan(m).stages, Src)) = Src
StageSet(sq) == {sq[j] : j \in 1..Len(sq)}

(* Named deviations of decompress_multiple_internal from "reverse of compress_multiple":          *)
DevMultiBzip2StrictSize(m) ==      \* a multi selector hands 4n to bzip2::decompress, which wants the exact size
  \* (F-C03-c; true for every multi selector with BZIP2 as primary stage until 58eef5f, never since)
  KindOf(m) = "multi" /\ \E j \in 1..Len(DecompressPlan(m)) :
      DecompressPlan(m)[j].stage = "bzip2" /\ DecompressPlan(m)[j].exp = "x4"
DevBothAdpcmBits(m) ==             \* encoder picks mono, decoder "assumes stereo"
  Has(m, ADPCM_MONO) /\ Has(m, ADPCM_STEREO)
DevIgnoredBit(m) ==                \* encoder ignores IMPLODE / second bits that the decoder acts on
  KindOf(m) = "multi" /\ CompressPlan(m).ok
  /\ {d.stage : d \in {DecompressPlan(m)[j] : j \in 1..Len(DecompressPlan(m))}}
       # {CompressPlan(m).stages[j] : j \in 1..Len(CompressPlan(m).stages)}
DevPkwareAsciiMode(m) ==          \* the encoder's mode is one the decoder does not implement (it panics)
  \E st \in StageSet(CompressPlan(m).stages) : EncMode(st) \notin DecModes(st)
DispatchDeviation(m) == DevMultiBzip2StrictSize(m) \/ DevBothAdpcmBits(m) \/ DevIgnoredBit(m) \/ DevPkwareAsciiMode(m)
\* the outcome class the model predicts for decoding the compressor's own (admitted) output
DecodeClass(m) == LET t == Decode(DecompressPlan(m), Encode(CompressPlan(m).stages, Src)) IN
                  IF t = Src THEN "ok" ELSE IF t = Panicked THEN "panic" ELSE "err"

---------------------------------------------------------------------------
(* Limits (security.rs), SecurityLimits::default().  d = |data| handed to  *)
(* decompress (without the method byte), n = expected size.                *)

MaxRatio        == 1000
MaxDecompressed == 104857600        \* 100 MB
MaxSession      == 1073741824       \* 1 GB

AdaptiveLimit(d, m) ==
  LET sz == IF d <= 512 THEN MaxRatio * 10 ELSE IF d <= 4096 THEN MaxRatio * 5
            ELSE IF d <= 65536 THEN MaxRatio * 2 ELSE IF d <= 1048576 THEN MaxRatio ELSE MaxRatio \div 2
      mb == CASE m = 2  -> sz * 2  [] m = 16 -> sz * 3 [] m = 18 -> sz * 4 [] m = 32 -> sz \div 2
              [] m = 8  -> sz      [] m = 1  -> sz \div 2 [] m \in {64, 128} -> sz * 2 [] OTHER -> sz
  IN  IF mb < 50 THEN 50 ELSE IF mb > 50000 THEN 50000 ELSE mb

\* the verdict of validate_decompression_operation, in the order of the code
\* sess = bytes already decompressed in the SessionTracker the call is given (check_session_limits_with_addition)
PreCheckS(m, d, n, sess) ==
  IF d = 0 THEN "err:Compression"                                      \* "Empty compressed data"
  ELSE IF sess + n > MaxSession THEN "err:ResourceExhaustion"
  ELSE IF n > MaxDecompressed THEN "err:ResourceExhaustion"
  ELSE IF n > 0 /\ n \div d > MaxRatio THEN "err:CompressionBomb"        \* validate_file_bounds: BEFORE the adaptive table
  ELSE IF n > 0 /\ n \div d > AdaptiveLimit(d, m) THEN "err:CompressionBomb"
  ELSE IF d < 100 /\ n > 10485760 THEN "err:MaliciousContent"
  ELSE IF m > 128 /\ n > 0 /\ n \div d > AdaptiveLimit(d, m) \div 2 THEN "err:CompressionBomb"
  ELSE "ok"

\* decompress() (the legacy entry point used for every sector on the archive read path) creates its own SessionTracker:
\* the session volume it sees is 0 whatever the process decompressed before
PreCheck(m, d, n) == PreCheckS(m, d, n, 0)

MonitorMax(n) == IF n < MaxDecompressed THEN n ELSE MaxDecompressed
\* after the pipeline: monitor.check_progress(actual), then validate_decompression_result(n, actual, 10)
PostCheck(n, actual) ==
  IF actual > MonitorMax(n) THEN "err:ResourceExhaustion"
  ELSE IF n = 0 THEN "ok"
  ELSE LET tol == (n * 10) \div 100 IN
       IF actual < n - tol \/ actual > n + tol THEN "err:Compression" ELSE "ok"

\* the region of finding F-C03-a: the fixed 1000:1 test refuses what the compressor emitted
BombHeuristicRejectsOwnOutput(d, n) == d > 0 /\ n \div d > MaxRatio
=============================================================================
