----------------------------- MODULE AdtLayout -----------------------------
(***************************************************************************)
(* C14 -- layout of a monolithic ADT terrain tile as written by            *)
(* wow-adt/src/builder/serializer.rs, read back by an independent chunk    *)
(* walker, parsed by api.rs/root_parser.rs and rebuilt through             *)
(* BuiltAdt::from_root_adt.                                                *)
(*                                                                         *)
(* Part 1 (constant level) is the FORMAT, written from the documentation   *)
(* (docs/src/formats/world-data/adt.md, wowdev ADT/v18): framing, the MHDR *)
(* offset table, the MCIN index, the MCNK container with its fixed header  *)
(* and ofs_* fields, which version may carry which chunk.  These predicates*)
(* are evaluated both on the model's files (stage A) and on the files the  *)
(* real serializer produced (stage D, Trace_AdtLayout).                    *)
(*                                                                         *)
(* Part 2 is the state machine of the CODE: one action per chunk emitted   *)
(* in the order of serialize_to_writer, two-pass back-patching, the walker,*)
(* discovery-based parse with version detection, from_root_adt, rebuild.   *)
(* Where the code knowingly or accidentally differs from the format it is  *)
(* a NAMED DEVIATION, switched by membership in the constant Deviations:   *)
(*   "Pad8"        MCNK header written as 136 bytes: the 8 extra zero bytes*)
(*                 read as an empty chunk with tag 0 by a 128-byte reader  *)
(*   "McinExcl"    MCIN.size = payload size (docs: including the header)   *)
(*   "MtxfToEof"   root_parser reads MTXF/MTXP unbounded: the parsed flags *)
(*                 extend to end of file, every rebuild grows              *)
(*   "RefsTriple"  parse copies MCRF into doodad_refs and wmo_refs too: the*)
(*                 rebuild emits MCRF + MCRD + MCRW                        *)
(*   "InjectMfbo"  from_root_adt invents an all-zero MFBO for TBC+         *)
(*   "MclqIncl"    size_liquid includes the 8-byte header: the parser      *)
(*                 over-reads by 8 and fails when MCLQ ends the file       *)
(*   "MtxfAlways"  MTXF is always written for WotLK+ (version marker)      *)
(*   "BmeshNotMop" version detection ignores MBMH/MBBB/MBNV/MBMI: a MoP    *)
(*                 tile with blend mesh but no MTXP loses the blend mesh   *)
(*   "BuilderDropsMamp" (never in the code; seeded behaviour) the rebuild   *)
(*                 route AdtBuilder::from_parsed loses texture_amplifier   *)
(*   "NoTruncate"  (never in the code; seeded behaviour) write_to_file      *)
(*                 opens the destination without truncating: over a longer *)
(*                 file the old tail survives                              *)
(* Since the fix commits 4e9fa43, e3ee833, 428fad3, b1275d8, 1531bd2 and   *)
(* 7ec19f1 the code has only "Pad8" and "MtxfAlways" (MC_AdtLayout.cfg).   *)
(* McinExcl, MtxfToEof, RefsTriple, InjectMfbo, MclqIncl, BmeshNotMop      *)
(* describe the repaired defects and are kept so that each can be shown to *)
(* violate its strict invariant (MC_AdtLayout_dev<Name>.cfg, hand-run) and *)
(* as the pre-fix model MC_AdtLayout_legacy.cfg.                           *)
(* Mutant switch (sanity of the invariants, never on in a cfg):            *)
(*   MhdrFileRelative  MHDR offsets relative to file start                 *)
(***************************************************************************)
EXTENDS ChunkFraming, TLC

CONSTANTS Deviations,        \* subset of the names above
          MhdrFileRelative,  \* BOOLEAN mutant switch
          NK,                \* number of MCIN entries / auto-generated MCNKs (256 in the format)
          MaxRounds          \* rebuild rounds explored by the model

\* ============================================================================ Part 1: the format
VanillaEarly == 0   VanillaLate == 1   TBC == 2   WotLK == 3   Cataclysm == 4   MoP == 5
Versions == 0..5

McnkHdr == 128                                   \* fixed header at the start of an MCNK payload
MhdrFields == <<"flags", "mcin", "mtex", "mmdx", "mmid", "mwmo", "mwid", "mddf", "modf", "mfbo", "mh2o", "mtxf">>
MhdrOffsetNames == {"mcin", "mtex", "mmdx", "mmid", "mwmo", "mwid", "mddf", "modf", "mfbo", "mh2o", "mtxf"}
MhdrTag(nm) == CASE nm = "mcin" -> "MCIN" [] nm = "mtex" -> "MTEX" [] nm = "mmdx" -> "MMDX" [] nm = "mmid" -> "MMID"
                 [] nm = "mwmo" -> "MWMO" [] nm = "mwid" -> "MWID" [] nm = "mddf" -> "MDDF" [] nm = "modf" -> "MODF"
                 [] nm = "mfbo" -> "MFBO" [] nm = "mh2o" -> "MH2O" [] nm = "mtxf" -> "MTXF"
\* byte positions of the MCNK header fields the walker reads (wowdev SMChunk; 128 bytes)
McnkFields == << <<"indexX", 4>>, <<"indexY", 8>>, <<"nLayers", 12>>, <<"nDoodadRefs", 16>>, <<"nMapObjRefs", 56>>, <<"height", 20>>, <<"normal", 24>>, <<"layer", 28>>, <<"refs", 32>>,
                 <<"alpha", 36>>, <<"sizeAlpha", 40>>, <<"shadow", 44>>, <<"sizeShadow", 48>>, <<"snd", 88>>,
                 <<"nSnd", 92>>, <<"liquid", 96>>, <<"sizeLiquid", 100>>, <<"mccv", 116>>, <<"mclv", 120>> >>
McnkOfsNames == {"height", "normal", "layer", "refs", "alpha", "shadow", "snd", "liquid", "mccv", "mclv"}
McnkOfsTags(nm) == CASE nm = "height" -> {"MCVT"} [] nm = "normal" -> {"MCNR"} [] nm = "layer" -> {"MCLY"}
                     [] nm = "refs" -> {"MCRF", "MCRD", "MCRW"} [] nm = "alpha" -> {"MCAL"} [] nm = "shadow" -> {"MCSH"}
                     [] nm = "snd" -> {"MCSE"} [] nm = "liquid" -> {"MCLQ"} [] nm = "mccv" -> {"MCCV"} [] nm = "mclv" -> {"MCLV"}

\* which version may carry which top-level chunk (builder/validation.rs + serializer.rs agree with the docs)
MinVer(tag) == CASE tag = "MFBO" -> TBC [] tag \in {"MH2O", "MTXF"} -> WotLK [] tag = "MAMP" -> Cataclysm
                 [] tag \in {"MTXP", "MBMH", "MBBB", "MBNV", "MBMI"} -> MoP [] OTHER -> VanillaEarly
MayCarry(ver, tag) == ver >= MinVer(tag)
\* version detection from chunk presence (version.rs detect_from_chunks; top-level tags only)
\* ("BmeshNotMop": blend-mesh chunks are not taken as a MoP marker -- the code before fixes/C14-blend-mesh-marks-mop.patch)
Detect(tags) == IF "MTXP" \in tags \/ ("BmeshNotMop" \notin Deviations /\ tags \cap {"MBMH", "MBBB", "MBNV", "MBMI"} # {}) THEN MoP
                ELSE IF "MAMP" \in tags \/ ("MCNK" \in tags /\ "MCIN" \notin tags) THEN Cataclysm
                ELSE IF "MH2O" \in tags \/ "MTXF" \in tags THEN WotLK
                ELSE IF "MFBO" \in tags THEN TBC
                ELSE IF "MCCV" \in tags THEN VanillaLate ELSE VanillaEarly

\* ---- predicates over a file observation
\*   fo == [len, top : Seq(chunk rec), mhdrData, mhdr : [name -> Nat], mcin : Seq(<<off,size>>),
\*          groups : Seq([idxs, size, subs : Seq(chunk rec, off relative to the MCNK header), f : [name -> Nat]])]
McnksOf(top)      == SelectSeq(top, LAMBDA c : c.tag = "MCNK")
TopTiles(fo)      == TilesRange(fo.top, 0, fo.len)
MhdrPoints(fo, nm)   == fo.mhdr[nm] = 0 \/ TagAt(fo.top, fo.mhdrData + fo.mhdr[nm]) = MhdrTag(nm)
MhdrComplete(fo, nm) == HasTag(fo.top, MhdrTag(nm)) => fo.mhdr[nm] # 0
MhdrFlagsOk(fo)   == /\ (fo.mhdr["flags"] % 2 = 1) <=> HasTag(fo.top, "MFBO")
McinOffOk(fo, j)  == LET ks == McnksOf(fo.top) IN
                     IF j <= Len(ks) THEN fo.mcin[j][1] = ks[j].off ELSE fo.mcin[j][1] = 0
\* docs/adt.md: "Size of MCNK chunk including header"
McinSizeDelta(fo, j) == LET ks == McnksOf(fo.top) IN
                        IF j <= Len(ks) THEN fo.mcin[j][2] - (ks[j].size + HDR) ELSE fo.mcin[j][2]
McinCountOk(fo)   == Len(fo.mcin) = 256 /\ Len(McnksOf(fo.top)) <= 256
SubTiles(g)       == g.size >= McnkHdr /\ TilesRange(g.subs, HDR + McnkHdr, HDR + g.size)
OfsPoints(g, nm)  == g.f[nm] = 0 \/ TagAt(g.subs, g.f[nm]) \in McnkOfsTags(nm)
OfsComplete(g, nm) == (\E t \in McnkOfsTags(nm) : HasTag(g.subs, t)) => g.f[nm] # 0
\* size / count fields of the MCNK header describe the sub-chunk their ofs_* twin points at:
\*   sizeAlpha, sizeShadow = payload size of MCAL / MCSH;  sizeLiquid = MCLQ size including its 8-byte header
\*   (client convention: 8 = "no liquid");  nLayers = |MCLY| / 16;  nSnd = |MCSE| / 28;  no sub-chunk => 0
McnkSizeNames == {"sizeAlpha", "sizeShadow", "sizeLiquid", "nLayers", "nSnd"}
SizeTwin(nm) == CASE nm = "sizeAlpha" -> "alpha" [] nm = "sizeShadow" -> "shadow" [] nm = "sizeLiquid" -> "liquid"
                  [] nm = "nLayers" -> "layer" [] nm = "nSnd" -> "snd"
SizeFieldOk(g, nm) ==
    LET ofs == g.f[SizeTwin(nm)]   sz == SizeAt(g.subs, ofs) IN
    IF ofs = 0 THEN g.f[nm] = 0
    ELSE CASE nm \in {"sizeAlpha", "sizeShadow"} -> g.f[nm] = sz
           [] nm = "sizeLiquid" -> g.f[nm] = sz + HDR
           [] nm = "nLayers"    -> g.f[nm] * 16 = sz
           [] nm = "nSnd"       -> g.f[nm] * 28 = sz
\* diagnostic relations (the builder copies these header words from its input): reference counts vs MCRF size,
\* index_x / index_y vs position in the 16 x 16 grid (MCIN order is row-major: idx - 1 = y * 16 + x)
RefCountsOk(g) == g.f["refs"] = 0 \/ TagAt(g.subs, g.f["refs"]) # "MCRF"
                  \/ (g.f["nDoodadRefs"] + g.f["nMapObjRefs"]) * 4 = SizeAt(g.subs, g.f["refs"])
GridIndexOk(g) == \A q \in 1..Len(g.idxs) : g.idxs[q] - 1 = g.f["indexY"] * 16 + g.f["indexX"]
GroupSizesOk(fo)  == LET ks == McnksOf(fo.top) IN
                     /\ \A gi \in 1..Len(fo.groups) : \A q \in 1..Len(fo.groups[gi].idxs) :
                            LET ix == fo.groups[gi].idxs[q] IN ix \in 1..Len(ks) /\ ks[ix].size = fo.groups[gi].size
                     /\ UNION {{fo.groups[gi].idxs[q] : q \in 1..Len(fo.groups[gi].idxs)} : gi \in 1..Len(fo.groups)} = 1..Len(ks)
\* MMID / MWID: one entry per name, each the offset of the start of that name inside the MMDX / MWMO payload
NameTableOk(starts, tab) == Len(tab) = Len(starts) /\ \A j \in 1..Len(tab) : tab[j] = starts[j]
VersionRule(fo, ver) == \A j \in 1..Len(fo.top) : MayCarry(ver, fo.top[j].tag)

\* ============================================================================ Part 2: the code
OptKinds == {"MFBO", "MH2O", "MTXF", "MAMP", "MTXP", "BMESH"}
KindTags(kd) == IF kd = "BMESH" THEN <<"MBMH", "MBBB", "MBNV", "MBMI">> ELSE <<kd>>
KindMin(kd)  == IF kd = "BMESH" THEN MoP ELSE MinVer(kd)
\* AdtBuilder::build rejects MFBO/MH2O/MAMP/MTXP/blend mesh for too early versions; MTXF is not validated
Validated == OptKinds \ {"MTXF"}
BuildAccepts(ver, opts) == \A kd \in opts \cap Validated : ver >= KindMin(kd)

\* The documented builder contract: build() returns Err exactly for (a) no texture (MTEX is required), (b) a placement
\* whose name_id is not an index of the name list (here: placements without any name), (c) a validated optional kind
\* below its minimum version.  An MTXF below WotLK is not validated (it is dropped); a stricter builder may reject it.
\* Everything else is a valid tile and must build.  Duplicate names are valid: multiplicity is part of the list.
ShapeMayBeRejected(ntex, nmdl, nddf, nwmo, nmodf, ver, opts) ==
    \/ ntex = 0 \/ (nddf > 0 /\ nmdl = 0) \/ (nmodf > 0 /\ nwmo = 0)
    \/ \E kd \in opts : ver < KindMin(kd)

TopOrder == <<"MVER", "MHDR", "MCIN", "MTEX", "MMDX", "MMID", "MWMO", "MWID", "MDDF", "MODF",
              "MFBO", "MH2O", "MTXF", "MAMP", "MTXP", "MBMH", "MBBB", "MBNV", "MBMI">>
SubOrder == <<"MCVT", "MCNR", "MCLY", "MCRF", "MCAL", "MCSH", "MCLQ", "MCCV", "MCSE", "MCLV", "MCRD", "MCRW">>
SubOfsName(t) == CASE t = "MCVT" -> "height" [] t = "MCNR" -> "normal" [] t = "MCLY" -> "layer" [] t = "MCRF" -> "refs"
                   [] t = "MCAL" -> "alpha" [] t = "MCSH" -> "shadow" [] t = "MCLQ" -> "liquid" [] t = "MCCV" -> "mccv"
                   [] t = "MCSE" -> "snd" [] t = "MCLV" -> "mclv" [] t \in {"MCRD", "MCRW"} -> "refs"
\* abstract payload sizes (distinct, some odd: no accidental alignment)
Sz(t) == CASE t = "MVER" -> 4 [] t = "MHDR" -> 64 [] t = "MCIN" -> 16 * NK [] t = "MTEX" -> 13 [] t = "MMDX" -> 0
           [] t = "MMID" -> 0 [] t = "MWMO" -> 7 [] t = "MWID" -> 4 [] t = "MDDF" -> 36 [] t = "MODF" -> 0
           [] t = "MFBO" -> 36 [] t = "MH2O" -> 25 [] t = "MTXF" -> 4 [] t = "MAMP" -> 4 [] t = "MTXP" -> 16
           [] t = "MBMH" -> 28 [] t = "MBBB" -> 28 [] t = "MBNV" -> 44 [] t = "MBMI" -> 6
           [] t = "MCVT" -> 20 [] t = "MCNR" -> 9 [] t = "MCLY" -> 16 [] t = "MCRF" -> 8 [] t = "MCAL" -> 11
           [] t = "MCSH" -> 8 [] t = "MCLQ" -> 12 [] t = "MCCV" -> 20 [] t = "MCSE" -> 28 [] t = "MCLV" -> 20
           [] t \in {"MCRD", "MCRW"} -> 8
Dev(nm) == nm \in Deviations

VARIABLES aver,    \* version of the BuiltAdt being serialised
          aopts,   \* optional top-level kinds it carries
          ank,     \* number of user MCNKs (0 = the serializer generates NK minimal ones)
          asubs,   \* optional sub-chunk tags of every user MCNK
          amtxf,   \* payload size of the MTXF this BuiltAdt carries (grows under "MtxfToEof")
          apc,     \* program counter
          acur,    \* writer cursor = bytes emitted
          ahdrs,   \* the file as far as framing goes: offset -> [tag, size] of the header written there
          atop,    \* writer's own list of finished top-level chunk records
          apos,    \* ChunkPositions: tag -> offset of its header (0 = not written)
          amhdr,   \* MHDR table as stored in the file
          amcin,   \* MCIN table as stored in the file: Seq(<<off, size>>)
          akix,    \* MCNK being emitted (1-based), akstart its header offset, akofs its ofs_* fields
          akstart, akofs, aktab,   \* aktab: idx -> [off, size, f] of every finished MCNK (header as stored)
          afst,    \* walker frame state
          awtop,   \* walker log, top level
          awsub,   \* walker log inside MCNKs: Seq(<<mcnk header offset, chunk rec>>)
          aparse,  \* result of the last parse: [ver, opts, subs, mtxf]
          around,  \* files produced so far - 1
          alens,   \* lengths of the files produced
          adisk    \* destination path of write_to_file: [round |-> round it was last written in, len |-> its length]
acore == <<aver, aopts, ank, asubs, amtxf, apc, acur, ahdrs, atop, apos, amhdr, amcin, akix, akstart, akofs, aktab,
           afst, awtop, awsub, aparse, around, alens>>
avars == <<acore, adisk>>

Put(fn, o, r) == [q \in DOMAIN fn \cup {o} |-> IF q = o THEN r ELSE fn[q]]
ZeroOfs  == [nm \in McnkOfsNames \cup McnkSizeNames |-> 0]
\* the size / count word write_mcnk_chunk stores next to ofs_* when it writes sub-chunk t
SubSizeField(t) == CASE t = "MCLY" -> <<"nLayers", Sz("MCLY") \div 16>> [] t = "MCLQ" -> <<"sizeLiquid", Sz("MCLQ") + HDR>>
                     [] t = "MCAL" -> <<"sizeAlpha", Sz("MCAL")>> [] t = "MCSH" -> <<"sizeShadow", Sz("MCSH")>>
                     [] t = "MCSE" -> <<"nSnd", Sz("MCSE") \div 28>> [] OTHER -> <<"none", 0>>
ZeroMhdr == [nm \in {"flags"} \cup MhdrOffsetNames |-> 0]
NoParse  == [ver |-> -1, opts |-> {}, subs |-> {}, mtxf |-> 0]

WriterStart == /\ apc = "MVER" /\ acur = 0 /\ ahdrs = << >> /\ atop = << >> /\ apos = [t \in {} |-> 0]
               /\ amhdr = ZeroMhdr /\ amcin = [j \in 1..NK |-> <<0, 0>>]
               /\ akix = 0 /\ akstart = 0 /\ akofs = ZeroOfs /\ aktab = << >>
               /\ afst = CfInit(0) /\ awtop = << >> /\ awsub = << >>

Init == /\ aver \in Versions /\ aopts \in SUBSET OptKinds /\ ank \in {0, 2} /\ asubs \in SUBSET {"MCRF", "MCLQ", "MCCV"}
        /\ amtxf = Sz("MTXF") /\ aparse = NoParse /\ around = 0 /\ alens = << >>
        /\ adisk = [round |-> -1, len |-> 0]
        /\ WriterStart

\* AdtBuilder::build -- version / chunk compatibility
BuildReject == /\ apc = "MVER" /\ around = 0 /\ ~BuildAccepts(aver, aopts)
               /\ apc' = "rejected"
               /\ UNCHANGED adisk /\ UNCHANGED <<aver, aopts, ank, asubs, amtxf, acur, ahdrs, atop, apos, amhdr, amcin, akix, akstart, akofs, aktab,
                              afst, awtop, awsub, aparse, around, alens>>

\* does serialize_to_writer emit top-level chunk t for this BuiltAdt?
Emits(t) == CASE t \in {"MVER", "MHDR", "MCIN", "MTEX", "MMDX", "MMID", "MWMO", "MWID", "MDDF", "MODF"} -> TRUE
              [] t = "MTXF" -> IF Dev("MtxfAlways") THEN aver >= WotLK ELSE "MTXF" \in aopts /\ aver >= WotLK
              [] t \in {"MBMH", "MBBB", "MBNV", "MBMI"} -> "BMESH" \in aopts
              [] OTHER -> t \in aopts
NextTop(t) == LET ix == CHOOSE j \in 1..Len(TopOrder) : TopOrder[j] = t
                  later == {j \in (ix + 1)..Len(TopOrder) : Emits(TopOrder[j])}
              IN  IF later = {} THEN "MCNK" ELSE TopOrder[CHOOSE j \in later : \A q \in later : j <= q]
TopSize(t) == IF t = "MTXF" THEN (IF "MTXF" \in aopts THEN amtxf ELSE Sz("MTXF")) ELSE Sz(t)

\* write_chunk: header + payload at the cursor, remember the position
EmitTop(t) == /\ apc = t /\ (around > 0 \/ BuildAccepts(aver, aopts))
              /\ ahdrs' = Put(ahdrs, acur, [tag |-> t, size |-> TopSize(t)])
              /\ atop'  = Append(atop, [tag |-> t, off |-> acur, size |-> TopSize(t)])
              /\ apos'  = Put(apos, t, acur)
              /\ acur'  = acur + HDR + TopSize(t)
              /\ apc'   = NextTop(t)
              /\ UNCHANGED adisk /\ UNCHANGED <<aver, aopts, ank, asubs, amtxf, amhdr, amcin, akix, akstart, akofs, aktab, afst, awtop, awsub,
                             aparse, around, alens>>
EmitMVER == EmitTop("MVER")   EmitMHDR == EmitTop("MHDR")   EmitMCIN == EmitTop("MCIN")   EmitMTEX == EmitTop("MTEX")
EmitMMDX == EmitTop("MMDX")   EmitMMID == EmitTop("MMID")   EmitMWMO == EmitTop("MWMO")   EmitMWID == EmitTop("MWID")
EmitMDDF == EmitTop("MDDF")   EmitMODF == EmitTop("MODF")   EmitMFBO == EmitTop("MFBO")   EmitMH2O == EmitTop("MH2O")
EmitMTXF == EmitTop("MTXF")   EmitMAMP == EmitTop("MAMP")   EmitMTXP == EmitTop("MTXP")   EmitMBMH == EmitTop("MBMH")
EmitMBBB == EmitTop("MBBB")   EmitMBNV == EmitTop("MBNV")   EmitMBMI == EmitTop("MBMI")

\* ---- MCNK containers
NMcnk == IF ank = 0 THEN NK ELSE ank
SubsOf == IF ank = 0 THEN {"MCVT", "MCNR", "MCLY"} \cup (IF aver >= VanillaLate THEN {"MCCV"} ELSE {})
          ELSE {"MCVT", "MCNR", "MCLY"} \cup asubs
NextSub(ix) == LET later == {j \in (ix + 1)..Len(SubOrder) : SubOrder[j] \in SubsOf}
               IN  IF later = {} THEN "close" ELSE SubOrder[CHOOSE j \in later : \A q \in later : j <= q]
OpenMcnk == /\ apc = "MCNK"
            /\ akix' = akix + 1 /\ akstart' = acur /\ akofs' = ZeroOfs
            /\ ahdrs' = IF Dev("Pad8")
                        THEN Put(Put(ahdrs, acur, [tag |-> "MCNK", size |-> 0]), acur + HDR + McnkHdr, [tag |-> "#00000000", size |-> 0])
                        ELSE Put(ahdrs, acur, [tag |-> "MCNK", size |-> 0])                     \* placeholder
            /\ acur' = acur + HDR + McnkHdr + (IF Dev("Pad8") THEN 8 ELSE 0)
            /\ apc' = NextSub(0)
            /\ UNCHANGED adisk /\ UNCHANGED <<aver, aopts, ank, asubs, amtxf, atop, apos, amhdr, amcin, aktab, afst, awtop, awsub, aparse, around, alens>>
EmitSub(t) == /\ apc = t /\ t \in SubsOf
              /\ ahdrs' = Put(ahdrs, acur, [tag |-> t, size |-> Sz(t)])
              /\ akofs' = LET withOfs == IF akofs[SubOfsName(t)] = 0 THEN [akofs EXCEPT ![SubOfsName(t)] = acur - akstart] ELSE akofs
                           IN IF SubSizeField(t)[1] = "none" THEN withOfs ELSE [withOfs EXCEPT ![SubSizeField(t)[1]] = SubSizeField(t)[2]]
              /\ acur' = acur + HDR + Sz(t)
              /\ apc' = NextSub(CHOOSE j \in 1..Len(SubOrder) : SubOrder[j] = t)
              /\ UNCHANGED adisk /\ UNCHANGED <<aver, aopts, ank, asubs, amtxf, atop, apos, amhdr, amcin, akix, akstart, aktab, afst, awtop, awsub,
                             aparse, around, alens>>
EmitMCVT == EmitSub("MCVT")   EmitMCNR == EmitSub("MCNR")   EmitMCLY == EmitSub("MCLY")   EmitMCRF == EmitSub("MCRF")
EmitMCLQ == EmitSub("MCLQ")   EmitMCCV == EmitSub("MCCV")   EmitMCRD == EmitSub("MCRD")   EmitMCRW == EmitSub("MCRW")
\* seek back: size + header with the ofs_* fields; remember (start, size) for MCIN
CloseMcnk == /\ apc = "close"
             /\ LET sz == acur - akstart - HDR IN
                /\ ahdrs' = [ahdrs EXCEPT ![akstart].size = sz]
                /\ atop'  = Append(atop, [tag |-> "MCNK", off |-> akstart, size |-> sz])
                /\ aktab' = Append(aktab, [off |-> akstart, size |-> sz, f |-> akofs])
             /\ apc' = IF akix < NMcnk THEN "MCNK" ELSE "patchMHDR"
             /\ UNCHANGED adisk /\ UNCHANGED <<aver, aopts, ank, asubs, amtxf, acur, apos, amhdr, amcin, akix, akstart, akofs, afst, awtop, awsub,
                            aparse, around, alens>>

\* ---- pass 2
PosOf(t) == IF t \in DOMAIN apos THEN apos[t] ELSE 0
BackPatchMHDR ==
    /\ apc = "patchMHDR"
    /\ LET base == IF MhdrFileRelative THEN 0 ELSE apos["MHDR"] + HDR
           rel(t) == IF PosOf(t) = 0 THEN 0 ELSE PosOf(t) - base
       IN amhdr' = [nm \in {"flags"} \cup MhdrOffsetNames |->
                      IF nm = "flags" THEN (IF PosOf("MFBO") # 0 THEN 1 ELSE 0) + (IF PosOf("MH2O") # 0 THEN 2 ELSE 0)
                      ELSE rel(MhdrTag(nm))]
    /\ apc' = "patchMCIN"
    /\ UNCHANGED adisk /\ UNCHANGED <<aver, aopts, ank, asubs, amtxf, acur, ahdrs, atop, apos, amcin, akix, akstart, akofs, aktab, afst, awtop, awsub,
                   aparse, around, alens>>
BackPatchMCIN ==
    /\ apc = "patchMCIN"
    /\ amcin' = [j \in 1..NK |-> IF j <= Len(aktab)
                                 THEN <<aktab[j].off, aktab[j].size + (IF Dev("McinExcl") THEN 0 ELSE HDR)>> ELSE <<0, 0>>]
    /\ apc' = "walk" /\ afst' = CfInit(acur) /\ alens' = Append(alens, acur)
    /\ UNCHANGED adisk /\ UNCHANGED <<aver, aopts, ank, asubs, amtxf, acur, ahdrs, atop, apos, amhdr, akix, akstart, akofs, aktab, awtop, awsub,
                   aparse, around>>

\* ---- the independent walker: knows the framing rule, that MCNK is a container with a McnkHdr-byte header
WHdr == ahdrs[afst.cur]
WalkLeaf  == /\ apc = "walk" /\ afst.cur < CfTop(afst).end /\ afst.cur \in DOMAIN ahdrs /\ WHdr.tag # "MCNK"
             /\ CfCanLeaf(afst, afst.cur, WHdr.size)
             /\ IF CfDepth(afst) = 1
                THEN awtop' = Append(awtop, [tag |-> WHdr.tag, off |-> afst.cur, size |-> WHdr.size]) /\ awsub' = awsub
                ELSE awsub' = Append(awsub, <<awtop[Len(awtop)].off,
                                              [tag |-> WHdr.tag, off |-> afst.cur - awtop[Len(awtop)].off, size |-> WHdr.size]>>)
                     /\ awtop' = awtop
             /\ afst' = CfLeaf(afst, afst.cur, WHdr.size)
             /\ UNCHANGED adisk /\ UNCHANGED <<aver, aopts, ank, asubs, amtxf, apc, acur, ahdrs, atop, apos, amhdr, amcin, akix, akstart, akofs, aktab,
                            aparse, around, alens>>
WalkEnter == /\ apc = "walk" /\ afst.cur < CfTop(afst).end /\ afst.cur \in DOMAIN ahdrs /\ WHdr.tag = "MCNK" /\ CfDepth(afst) = 1
             /\ CfCanEnter(afst, afst.cur, WHdr.size, McnkHdr)
             /\ awtop' = Append(awtop, [tag |-> "MCNK", off |-> afst.cur, size |-> WHdr.size])
             /\ afst' = CfEnter(afst, "MCNK", afst.cur, WHdr.size, McnkHdr)
             /\ UNCHANGED adisk /\ UNCHANGED <<aver, aopts, ank, asubs, amtxf, apc, acur, ahdrs, atop, apos, amhdr, amcin, akix, akstart, akofs, aktab,
                            awsub, aparse, around, alens>>
WalkLeave == /\ apc = "walk" /\ CfCanLeave(afst)
             /\ afst' = CfLeave(afst)
             /\ UNCHANGED adisk /\ UNCHANGED <<aver, aopts, ank, asubs, amtxf, apc, acur, ahdrs, atop, apos, amhdr, amcin, akix, akstart, akofs, aktab,
                            awtop, awsub, aparse, around, alens>>
WalkDone  == /\ apc = "walk" /\ CfDone(afst)
             /\ apc' = "parse"
             /\ UNCHANGED adisk /\ UNCHANGED <<aver, aopts, ank, asubs, amtxf, acur, ahdrs, atop, apos, amhdr, amcin, akix, akstart, akofs, aktab,
                            afst, awtop, awsub, aparse, around, alens>>

\* ---- parse_adt: discovery of top-level chunks, version from presence, sub-chunks through ofs_*
TopTags == {atop[j].tag : j \in 1..Len(atop)}
LastSubIsMclq == Len(awsub) > 0 /\ awsub[Len(awsub)][2].tag = "MCLQ" /\ awsub[Len(awsub)][1] = aktab[Len(aktab)].off
ParseFails == Dev("MclqIncl") /\ LastSubIsMclq      \* reads size_liquid = size + 8 bytes after the MCLQ header: past EOF
ParseFail == /\ apc = "parse" /\ adisk.round = around /\ ParseFails /\ apc' = "parsefail"
             /\ UNCHANGED adisk /\ UNCHANGED <<aver, aopts, ank, asubs, amtxf, acur, ahdrs, atop, apos, amhdr, amcin, akix, akstart, akofs, aktab,
                            afst, awtop, awsub, aparse, around, alens>>
ParsedKinds(dv) == {kd \in OptKinds : dv >= KindMin(kd) /\ \A j \in 1..Len(KindTags(kd)) : KindTags(kd)[j] \in TopTags}
Parse == /\ apc = "parse" /\ adisk.round = around /\ ~ParseFails
         /\ LET dv == Detect(TopTags) IN
            aparse' = [ver |-> dv, opts |-> ParsedKinds(dv),
                       subs |-> IF Dev("RefsTriple") /\ "MCRF" \in SubsOf THEN (SubsOf \cup {"MCRD", "MCRW"}) ELSE SubsOf,
                       mtxf |-> IF "MTXF" \in TopTags
                                THEN (IF Dev("MtxfToEof") THEN acur - (apos["MTXF"] + HDR) ELSE TopSize("MTXF")) ELSE 0]
         /\ apc' = IF around < MaxRounds THEN "rebuild" ELSE "done"
         /\ UNCHANGED adisk /\ UNCHANGED <<aver, aopts, ank, asubs, amtxf, acur, ahdrs, atop, apos, amhdr, amcin, akix, akstart, akofs, aktab,
                        afst, awtop, awsub, around, alens>>
\* BuiltAdt::from_root_adt(root, None) followed by to_bytes
\* the two public load-modify-save routes: BuiltAdt::from_root_adt(root, None) ("root") and
\* AdtBuilder::from_parsed(root).build() ("builder").  Both carry every parsed optional kind over.
\* ("BuilderDropsMamp": never in the code; seeded behaviour -- from_parsed loses texture_amplifier)
FromParsed(route) ==
              /\ apc = "rebuild"
              /\ aver' = aparse.ver
              /\ aopts' = (IF route = "builder" /\ Dev("BuilderDropsMamp") THEN aparse.opts \ {"MAMP"} ELSE aparse.opts)
                           \cup (IF route = "root" /\ Dev("InjectMfbo") /\ aparse.ver >= TBC THEN {"MFBO"} ELSE {})
              /\ ank' = NMcnk /\ asubs' = aparse.subs \ {"MCVT", "MCNR", "MCLY"}
              /\ amtxf' = aparse.mtxf
              /\ around' = around + 1
              /\ apc' = "MVER" /\ acur' = 0 /\ ahdrs' = << >> /\ atop' = << >> /\ apos' = [t \in {} |-> 0]
              /\ amhdr' = ZeroMhdr /\ amcin' = [j \in 1..NK |-> <<0, 0>>]
              /\ akix' = 0 /\ akstart' = 0 /\ akofs' = ZeroOfs /\ aktab' = << >>
              /\ afst' = CfInit(0) /\ awtop' = << >> /\ awsub' = << >>
              /\ UNCHANGED adisk /\ UNCHANGED <<aparse, alens>>
FromParsedRoot == FromParsed("root")   FromParsedBuilder == FromParsed("builder")

\* BuiltAdt::write_to_file onto a path that is absent / holds a shorter file / holds a longer file.  File::create
\* truncates, so the file is exactly the serialised bytes whatever was there before.
PreLen(pre) == CASE pre = "absent" -> 0 [] pre = "shorter" -> acur \div 3 [] pre = "longer" -> acur + acur \div 2 + 1000
WriteToPath(pre) == /\ apc = "parse" /\ adisk.round # around
                    /\ adisk' = [round |-> around,
                                 len |-> IF Dev("NoTruncate") /\ PreLen(pre) > acur THEN PreLen(pre) ELSE acur]
                    /\ UNCHANGED acore
WriteAbsent == WriteToPath("absent")   WriteShorter == WriteToPath("shorter")   WriteLonger == WriteToPath("longer")

Next == \/ BuildReject
        \/ EmitMVER \/ EmitMHDR \/ EmitMCIN \/ EmitMTEX \/ EmitMMDX \/ EmitMMID \/ EmitMWMO \/ EmitMWID \/ EmitMDDF \/ EmitMODF
        \/ EmitMFBO \/ EmitMH2O \/ EmitMTXF \/ EmitMAMP \/ EmitMTXP \/ EmitMBMH \/ EmitMBBB \/ EmitMBNV \/ EmitMBMI
        \/ OpenMcnk \/ EmitMCVT \/ EmitMCNR \/ EmitMCLY \/ EmitMCRF \/ EmitMCLQ \/ EmitMCCV \/ EmitMCRD \/ EmitMCRW \/ CloseMcnk
        \/ BackPatchMHDR \/ BackPatchMCIN
        \/ WalkLeaf \/ WalkEnter \/ WalkLeave \/ WalkDone
        \/ ParseFail \/ Parse \/ FromParsedRoot \/ FromParsedBuilder
        \/ WriteAbsent \/ WriteShorter \/ WriteLonger

\* ============================================================================ invariants
Writing == apc \notin {"walk", "parse", "parsefail", "rebuild", "done", "rejected"}
\* cursor bookkeeping: while no MCNK is open the finished chunks tile [0, cursor)
CursorBookkeeping == (Writing /\ apc \notin ({"close"} \cup {SubOrder[j] : j \in 1..Len(SubOrder)}))
                        => TilesRange(atop, 0, acur)
FrameWellFormed == CfWellFormed(afst)
\* the walker never gets lost in a file the writer produced
WalkerNeverLost == apc = "walk" =>
    \/ CfDone(afst) \/ CfCanLeave(afst)
    \/ /\ afst.cur < CfTop(afst).end /\ afst.cur \in DOMAIN ahdrs
       /\ IF WHdr.tag = "MCNK" THEN CfDepth(afst) = 1 /\ CfCanEnter(afst, afst.cur, WHdr.size, McnkHdr)
          ELSE CfCanLeaf(afst, afst.cur, WHdr.size)

\* the file as the walker saw it, in the shape Part 1's predicates expect
SubsAt(o) == LET sel == SelectSeq(awsub, LAMBDA e : e[1] = o) IN [j \in 1..Len(sel) |-> sel[j][2]]
Observed == [len |-> acur, top |-> awtop, mhdrData |-> apos["MHDR"] + HDR, mhdr |-> amhdr,
             mcin |-> amcin,
             groups |-> [j \in 1..Len(aktab) |-> [idxs |-> <<j>>, size |-> aktab[j].size, subs |-> SubsAt(aktab[j].off), f |-> aktab[j].f]]]
Walked == apc \in {"parse", "parsefail", "rebuild", "done"}
FramingTiles   == Walked => /\ TopTiles(Observed) /\ awtop = atop
                            /\ \A j \in 1..Len(Observed.groups) : SubTiles(Observed.groups[j])
                            /\ GroupSizesOk(Observed)
MhdrPointsAtNamed == Walked => \A nm \in MhdrOffsetNames : MhdrPoints(Observed, nm) /\ MhdrComplete(Observed, nm)
MhdrFlagsConsistent == Walked => MhdrFlagsOk(Observed)
McinPointsAtMcnk  == Walked => \A j \in 1..NK : /\ McinOffOk(Observed, j)
                                                /\ McinSizeDelta(Observed, j) = (IF Dev("McinExcl") /\ j <= Len(aktab) THEN -HDR ELSE 0)
McnkOfsPointAtNamed == Walked => \A j \in 1..Len(Observed.groups) : \A nm \in McnkOfsNames :
                                     OfsPoints(Observed.groups[j], nm) /\ OfsComplete(Observed.groups[j], nm)
McnkSizeFieldsConsistent == Walked => \A j \in 1..Len(Observed.groups) : \A nm \in McnkSizeNames : SizeFieldOk(Observed.groups[j], nm)
\* every public way of producing the bytes yields the same bytes: the written file is exactly as long as to_bytes()
\* (so the framing that tiles the bytes tiles the file)
FileEqualsBytes == (adisk.round = around /\ Walked) => adisk.len = acur
\* a file of version v carries only chunks v may carry; detection never reports a later version than written
VersionRuleHolds == Walked => VersionRule(Observed, aver) /\ Detect(TopTags) <= aver
\* content kept by parse: the only top-level content a parse loses is a blend mesh without MTXP (detected < MoP),
\* and an MTXF handed to a pre-WotLK builder (never written)
OnlyNamedLoss == apc \in {"rebuild", "done"} =>
    \A kd \in aopts \ aparse.opts : \/ (kd = "BMESH" /\ "MTXP" \notin aopts /\ Dev("BmeshNotMop"))
                                   \/ (kd = "MTXF" /\ aver < WotLK)
\* repeated parse -> rebuild does not grow: exactly, without deviations; with them only for a named reason
Growth(j) == alens[j + 1] - alens[j]
NoGrowth == \A j \in 1..(Len(alens) - 1) :
    \/ Growth(j) <= 0
    \/ (Dev("MtxfToEof") /\ aver >= WotLK)                         \* every round
    \/ (j = 1 /\ Dev("InjectMfbo") /\ aver >= TBC)                 \* first rebuild only
    \/ (j = 1 /\ Dev("RefsTriple") /\ "MCRD" \in asubs)            \* first rebuild only
=============================================================================
