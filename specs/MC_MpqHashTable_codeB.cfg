\* implementation machine: TLC must exhibit the unbounded insertion loop (ProbeBounded violated) - F-C06-b
CONSTANTS
  H = 4
  UNames <- MCNames
  Home <- MCHome
  InitSeq <- MCInit
  InitTok <- MCInitTok
  InitRaw = {}
  SubOf <- MCSub
  HasLF0 = TRUE
  HasAT0 = FALSE
  Slack = 2
  FU = 2
  Ver = 1
  MaxCalls = 4
  MCToks = {"t1"}
SPECIFICATION CodeSpec
INVARIANT ProbeBounded
CHECK_DEADLOCK FALSE
