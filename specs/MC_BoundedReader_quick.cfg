CONSTANTS
  MaxLen = 16
  Faults = {}
SPECIFICATION Spec
INVARIANTS TypeOK ReadInBounds AllocBounded WorkBounded CursorInside OutcomeTotal
PROPERTIES ChunkProgress ArrayProgress StringProgress Termination
CHECK_DEADLOCK TRUE
