---------------------------- MODULE ChunkFraming ----------------------------
(***************************************************************************)
(* Generic IFF-style chunk framing used by the WMO / ADT layout specs      *)
(* (C15, C14).  A file is a sequence of chunks                             *)
(*        tag : 4 bytes | size : u32 little endian | payload : size bytes  *)
(* A *container* chunk (MOGP in WMO group files, MCNK in ADT files) has a  *)
(* fixed-size header of `hdr` bytes at the start of its payload, followed  *)
(* by sub-chunks that tile the rest of the payload.                        *)
(*                                                                         *)
(* The module is constant-level (no variables): the layout specifications  *)
(* keep a *frame state* value in one of their own variables and drive it   *)
(* with the Cf* operators, both in their model (the writer's cursor) and   *)
(* in trace validation (the Chunk events an independent walker read out of *)
(* the bytes the real writer produced).                                    *)
(*                                                                         *)
(*   frame state  st == [cur   |-> offset of the next expected chunk header,*)
(*                       stack |-> <<[tag, end]>>  innermost frame last;    *)
(*                                  frame 1 is the file itself]             *)
(***************************************************************************)
EXTENDS Integers, Sequences, FiniteSets

HDR == 8                                   \* bytes of a chunk header (tag + size)

\* ---------------------------------------------------------------- lists of chunk records
\* A chunk record is [tag |-> STRING, off |-> Nat, size |-> Nat] (off = offset of the header).
ChunkEnd(c) == c.off + HDR + c.size

\* cs tiles the byte range [base, end) exactly: first at base, each next where the previous ends,
\* last one ends at end.  (An empty list tiles only the empty range.)
TilesRange(cs, base, end) ==
    IF Len(cs) = 0 THEN base = end
    ELSE /\ cs[1].off = base
         /\ \A j \in 1..(Len(cs) - 1) : cs[j + 1].off = ChunkEnd(cs[j])
         /\ ChunkEnd(cs[Len(cs)]) = end

\* index of the first chunk that is not where the tiling rule puts it (0 = none); Len+1 = the
\* list ends short of / beyond `end`
FirstBreak(cs, base, end) ==
    LET bad == {j \in 1..Len(cs) : cs[j].off # (IF j = 1 THEN base ELSE ChunkEnd(cs[j - 1]))}
    IN  IF bad # {} THEN CHOOSE j \in bad : \A q \in bad : j <= q
        ELSE IF (IF Len(cs) = 0 THEN base ELSE ChunkEnd(cs[Len(cs)])) # end THEN Len(cs) + 1
        ELSE 0

Tags(cs)          == [j \in 1..Len(cs) |-> cs[j].tag]
IndicesOf(cs, t)  == {j \in 1..Len(cs) : cs[j].tag = t}
CountOf(cs, t)    == Cardinality(IndicesOf(cs, t))
HasTag(cs, t)     == IndicesOf(cs, t) # {}
FirstOf(cs, t)    == IF HasTag(cs, t) THEN CHOOSE j \in IndicesOf(cs, t) : \A q \in IndicesOf(cs, t) : j <= q ELSE 0
\* tag of the chunk whose header starts at offset `o` ("none" if no chunk header starts there)
TagAt(cs, o)      == IF \E j \in 1..Len(cs) : cs[j].off = o
                     THEN cs[CHOOSE j \in 1..Len(cs) : cs[j].off = o].tag ELSE "none"
SizeAt(cs, o)     == IF \E j \in 1..Len(cs) : cs[j].off = o
                     THEN cs[CHOOSE j \in 1..Len(cs) : cs[j].off = o].size ELSE -1
\* t1 occurs, and every occurrence of t1 precedes every occurrence of t2
Before(cs, t1, t2) == \A a \in IndicesOf(cs, t1), b \in IndicesOf(cs, t2) : a < b

\* ---------------------------------------------------------------- the frame (cursor) machine
CfInit(len)  == [cur |-> 0, stack |-> <<[tag |-> "FILE", end |-> len]>>]
CfTop(st)    == st.stack[Len(st.stack)]
CfDepth(st)  == Len(st.stack)

\* a leaf chunk header is exactly at the cursor and its payload stays inside the enclosing frame
CfCanLeaf(st, off, size) == /\ off = st.cur
                            /\ size >= 0
                            /\ off + HDR + size <= CfTop(st).end
CfLeaf(st, off, size)    == [st EXCEPT !.cur = off + HDR + size]

\* a container chunk: header at the cursor, fixed header inside the payload, payload inside frame
CfCanEnter(st, off, size, hdr) == /\ off = st.cur
                                  /\ hdr >= 0 /\ hdr <= size
                                  /\ off + HDR + size <= CfTop(st).end
CfEnter(st, tag, off, size, hdr) ==
    [cur |-> off + HDR + hdr, stack |-> Append(st.stack, [tag |-> tag, end |-> off + HDR + size])]

\* the sub-chunks ended exactly where the container's declared size says
CfCanLeave(st) == CfDepth(st) > 1 /\ st.cur = CfTop(st).end
CfLeave(st)    == [st EXCEPT !.stack = SubSeq(st.stack, 1, Len(st.stack) - 1)]

\* the whole file has been consumed
CfDone(st)     == CfDepth(st) = 1 /\ st.cur = CfTop(st).end

\* structural sanity of a frame state: cursor inside the innermost frame, frames nested
CfWellFormed(st) ==
    /\ CfDepth(st) >= 1
    /\ st.cur >= 0 /\ st.cur <= CfTop(st).end
    /\ \A j \in 1..(Len(st.stack) - 1) : st.stack[j + 1].end <= st.stack[j].end
=============================================================================
