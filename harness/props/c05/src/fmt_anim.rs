//! C05 seeds, field inventory and entry points for .anim files (wow_m2::AnimFile::parse).
//!
//! The parser knows two layouts (anim.rs):
//!   modern: "MAOF" header (version, id_count, unknown, anim_entry_offset), id_count entries
//!           (id, offset, size), and per entry a section "AFID" id start end, then
//!           (size - 16) / 4 bone offsets, then for every non-zero offset a bone record
//!           (bone_id, flags, [count, count x u32, count x vec3]   translation  if flags & 1,
//!                            [count, count x u32, count x quat]   rotation     if flags & 2,
//!                            [count, count x u32, count x vec3]   scaling      if flags & 4).
//!           This is not an IFF chunk stream (the "AFID" marker has no size word), so no chunk
//!           sequence is registered; the marker is registered as a `tag` field.
//!   legacy: anything else; the parser only looks at the first 16 bytes / first KiB and returns a
//!           placeholder section.
//!
//! Seeds are written with the library's `AnimFile::write`. One correction is applied to the modern
//! seeds: `write_modern` stores the byte length of the whole section in `entry.size`, while
//! `AnimSection::parse` derives the bone count from it ((size - 16) / 4), so a library-written file
//! with bone records does not parse back. The seeds patch `entry.size` to 16 + 4 * bones (what the
//! parser expects); "modern-static" needs no patch (no bone records).
//! Since /repo commit aa82f05 `AnimFile::parse` passes the section's file position to `AnimSection::parse_at`, which
//! ends the bone offset table at the first non-zero (absolute) bone offset when `entry.size` is larger than the table:
//! "modern-2sec-asbuilt" is the UNPATCHED writer output of the "modern-2sec" content (entry.size = byte length of the
//! whole section), so that the `table_end = min(size, offset - start).max(position)` arithmetic runs on the baseline
//! (section 0: first bone animated, section 1: first bone static, second animated).
use crate::seed::{Aux, Seed};
use crate::worker::{errname, Runner};
use std::io::Cursor;
use wow_m2::anim::{
    AnimBoneAnimation, AnimEntry, AnimHeader, AnimRotation, AnimScaling, AnimSection, AnimSectionHeader, AnimTranslation, LegacyStructureHints,
    ANIM_MAGIC,
};
use wow_m2::common::{C3Vector, Quaternion};
use wow_m2::{AnimFile, AnimFormat, AnimMetadata};

pub fn seed_names(thorough: bool) -> Vec<String> {
    let mut v = vec!["modern-2sec".to_string(), "legacy-2sec".to_string(), "modern-2sec-asbuilt".to_string()];
    if thorough {
        v.push("modern-static".into());
        v.push("modern-1sec-rot".into());
        v.push("legacy-1sec".into());
    }
    v
}

fn v3(k: u32) -> C3Vector {
    C3Vector { x: k as f32, y: k as f32 * 0.5, z: 1.0 }
}

fn bone(id: u32, t: u32, r: u32, s: u32) -> AnimBoneAnimation {
    AnimBoneAnimation {
        bone_id: id,
        translation: (t > 0).then(|| AnimTranslation { timestamps: (0..t).map(|k| k * 33).collect(), translations: (0..t).map(v3).collect() }),
        rotation: (r > 0).then(|| AnimRotation {
            timestamps: (0..r).map(|k| k * 40).collect(),
            rotations: (0..r).map(|k| Quaternion { x: 0.0, y: 0.0, z: k as f32 * 0.1, w: 1.0 }).collect(),
        }),
        scaling: (s > 0).then(|| AnimScaling { timestamps: (0..s).map(|k| k * 50).collect(), scalings: (0..s).map(v3).collect() }),
    }
}

fn section(id: u32, bones: Vec<AnimBoneAnimation>) -> AnimSection {
    AnimSection { header: AnimSectionHeader { magic: *b"AFID", id, start: 0, end: 1000 + id }, bone_animations: bones }
}

fn sections(name: &str) -> Vec<AnimSection> {
    match name {
        "modern-2sec" | "legacy-2sec" | "modern-2sec-asbuilt" => vec![
            section(4, vec![bone(0, 3, 2, 0), bone(0, 0, 0, 0), bone(2, 0, 2, 2)]),
            section(5, vec![bone(0, 0, 0, 0), bone(1, 2, 0, 0)]),
        ],
        "modern-static" => vec![section(1, vec![bone(0, 0, 0, 0), bone(0, 0, 0, 0), bone(0, 0, 0, 0)])],
        "modern-1sec-rot" | "legacy-1sec" => vec![section(9, vec![bone(7, 0, 4, 0)])],
        _ => wverif_common::tool_error(&format!("anim: unknown seed {name}")),
    }
}

fn u32_at(b: &[u8], o: usize) -> u32 {
    u32::from_le_bytes([b[o], b[o + 1], b[o + 2], b[o + 3]])
}

/// Register the key-frame blocks of one bone record starting at `p` (after bone_id); returns the
/// position behind the record.
fn bone_record(s: &mut Seed, mut p: usize, pre: &str) -> usize {
    s.field(p, 4, "index", format!("{pre}.bone_id"));
    s.field(p + 4, 4, "index", format!("{pre}.flags"));
    let flags = s.u32_at(p + 4);
    p += 8;
    for (bit, nm, vsz) in [(1u32, "translation", 12usize), (2, "rotation", 16), (4, "scaling", 12)] {
        if flags & bit != 0 {
            let n = s.u32_at(p) as usize;
            s.field_ex(p, 4, "count", format!("{pre}.{nm}.count"), p + 4, 4 + vsz, None);
            p += 4 + n * (4 + vsz);
        }
    }
    p
}

fn build_modern(name: &str) -> Seed {
    let secs = sections(name);
    let header = AnimHeader { magic: ANIM_MAGIC, version: 1, id_count: secs.len() as u32, unknown: 0, anim_entry_offset: 20 };
    let entries: Vec<AnimEntry> = secs.iter().map(|x| AnimEntry { id: x.header.id, offset: 0, size: 0 }).collect();
    let file = AnimFile { format: AnimFormat::Modern, sections: secs.clone(), metadata: AnimMetadata::Modern { header, entries } };
    let mut out = Cursor::new(Vec::new());
    file.write(&mut out).expect("anim: AnimFile::write (modern)");
    let mut bytes = out.into_inner();
    // entry.size := 16 + 4 * bones (see the module comment)
    let eo = u32_at(&bytes, 16) as usize;
    for (i, sec) in secs.iter().enumerate() {
        let want = 16 + 4 * sec.bone_animations.len() as u32;
        if name.ends_with("-asbuilt") {
            assert!(u32_at(&bytes, eo + 12 * i + 8) > want, "anim: the writer's entry.size is expected to cover the bone records");
            continue;
        }
        bytes[eo + 12 * i + 8..eo + 12 * i + 12].copy_from_slice(&want.to_le_bytes());
    }
    let mut s = Seed::new("anim", name, bytes);
    s.field(0, 4, "index", "hdr.magic");
    s.field(4, 4, "index", "hdr.version");
    s.field_ex(8, 4, "count", "hdr.id_count", eo, 12, None);
    s.field(12, 4, "index", "hdr.unknown");
    s.field_ex(16, 4, "offset", "hdr.anim_entry_offset", 0, 1, None);
    for (i, sec) in secs.iter().enumerate() {
        let e = eo + 12 * i;
        let so = s.u32_at(e + 4) as usize;
        let nb = sec.bone_animations.len();
        assert_eq!(&s.bytes[so..so + 4], b"AFID");
        s.field(e, 4, "index", format!("entry[{i}].id"));
        s.field_ex(e + 4, 4, "offset", format!("entry[{i}].offset"), 0, 1, None);
        s.field_ex(e + 8, 4, "bsize", format!("entry[{i}].size"), so, 1, None);
        s.field_ex(so, 4, "tag", format!("section[{i}].magic"), so + 16, 1, None);
        s.field(so + 4, 4, "index", format!("section[{i}].id"));
        s.field(so + 8, 4, "index", format!("section[{i}].start"));
        s.field(so + 12, 4, "index", format!("section[{i}].end"));
        let mut p = so + 16 + 4 * nb;
        for j in 0..nb {
            let op = so + 16 + 4 * j;
            let off = s.u32_at(op) as usize;
            if j == 0 || j + 1 == nb || off != 0 {
                s.field_ex(op, 4, "offset", format!("section[{i}].bone_offset[{j}]"), 0, 1, None);
            }
            if off != 0 {
                // the writer records the absolute position of the record; the parser reads the
                // records sequentially
                assert_eq!(off, p, "anim: bone record position");
                p = bone_record(&mut s, p, &format!("section[{i}].bone[{j}]"));
            }
        }
        assert!(p <= s.bytes.len());
    }
    s
}

fn build_legacy(name: &str) -> Seed {
    let secs = sections(name);
    let file = AnimFile {
        format: AnimFormat::Legacy,
        sections: secs.clone(),
        metadata: AnimMetadata::Legacy {
            file_size: 0,
            animation_count: secs.len() as u32,
            structure_hints: LegacyStructureHints { appears_valid: true, estimated_blocks: 1, has_timestamps: true },
        },
    };
    let mut out = Cursor::new(Vec::new());
    file.write(&mut out).expect("anim: AnimFile::write (legacy)");
    let mut s = Seed::new("anim", name, out.into_inner());
    // layout of write_legacy: count, count offsets, per section id start end bone_count and the
    // bone records (bone_id, flags, key-frame blocks)
    let n = s.u32_at(0) as usize;
    assert_eq!(n, secs.len());
    s.field_ex(0, 4, "count", "hdr.count", 4, 4, None);
    for i in 0..n {
        let so = s.u32_at(4 + 4 * i) as usize;
        s.field_ex(4 + 4 * i, 4, "offset", format!("hdr.offset[{i}]"), 0, 1, None);
        s.field(so, 4, "index", format!("section[{i}].id"));
        s.field(so + 4, 4, "index", format!("section[{i}].start"));
        s.field(so + 8, 4, "index", format!("section[{i}].end"));
        let nb = s.u32_at(so + 12) as usize;
        assert_eq!(nb, secs[i].bone_animations.len());
        s.field_ex(so + 12, 4, "count", format!("section[{i}].bone_count"), so + 16, 8, None);
        let mut p = so + 16;
        for j in 0..nb {
            p = bone_record(&mut s, p, &format!("section[{i}].bone[{j}]"));
        }
        assert!(p <= s.bytes.len());
    }
    s
}

pub fn build(name: &str) -> Seed {
    if name.starts_with("modern") {
        build_modern(name)
    } else {
        build_legacy(name)
    }
}

pub fn run(r: &mut Runner, bytes: &[u8], _aux: &Aux) {
    r.call("AnimFile::parse", || AnimFile::parse(&mut Cursor::new(bytes)).map(|_| ()).map_err(errname));
}
