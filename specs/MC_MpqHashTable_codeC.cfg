\* implementation machine: TLC must exhibit a compact() that is not the abstract Compact - F-C06-d
CONSTANTS
  H = 4
  UNames <- MCNames
  Home <- MCHome
  InitSeq <- MCInit
  InitTok <- MCInitTok
  InitRaw = {}
  SubOf <- MCSub
  HasLF0 = TRUE
  HasAT0 = FALSE
  Slack = 2
  FU = 2
  Ver = 1
  MaxCalls = 4
  MCToks = {"t1"}
SPECIFICATION CodeSpec
PROPERTY AtomicRefines
CHECK_DEADLOCK FALSE
