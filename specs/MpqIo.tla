------------------------------- MODULE MpqIo -------------------------------
(* X02 (1): the positional-read contract shared by the three readers of wow-mpq over ONE file:    *)
(*   plain  = io::BufferedMpqReader<File>::read_at          (seek + read_exact)                   *)
(*   mmap   = io::MemoryMappedArchive::{new,from_file,read_at,get_slice,as_slice}, MemoryMapManager*)
(*   async  = io::AsyncArchiveReader::{read_at,read_exact_at,extract_files_concurrent,shutdown}   *)
(* together with the async reader's metrics (AsyncMetrics) and the shared SessionTracker.         *)
(*                                                                                                *)
(* The module has three layers:                                                                   *)
(*   CONTRACT   what every reader owes its caller (ExactOk / ShortOk / OpenOk / counter laws)      *)
(*   CODE       what each reader of the current code answers (PlainOut, MmapOut, AsyncReadOut,    *)
(*              AsyncExactOut, ExtractOut) and how it moves the counters -- code shaped, with the *)
(*              places where the code knowingly or unknowingly differs from the contract as NAMED *)
(*              DEVIATIONS selected by the constants Dev*                                         *)
(*   MACHINE    state + one action per public call (used by MC_MpqIo; Trace_MpqIo re-uses the     *)
(*              same operators with the observed results bound in)                                *)
EXTENDS MpqIoNum, Integers, Sequences, FiniteSets

CONSTANTS DevZeroAtEnd,      \* mmap refuses the EMPTY range at offset = length (plain and async accept it)
          DevShutUnderflow,  \* read_at on a shut-down reader records a cancellation of an operation that never started
          DevDropLeak,       \* a read future dropped by its caller stays "active" for ever
          DevSumPanic        \* extract_files_concurrent adds the requested sizes with a plain `sum()`

\* ------------------------------------------------------------------------------------------------
\* the file: byte i is a function of (i, salt), so that TLC can regenerate any slice
\* ------------------------------------------------------------------------------------------------
Byte(ii, salt) == ((ii % 251) + (ii \div 251) * 7 + salt) % 256
Slice(off, nn, salt) == [jj \in 1..nn |-> Byte(off + jj - 1, salt)]
Min2(a, b) == IF a < b THEN a ELSE b

\* does a (head, tail) observation of nn bytes read at `off` carry exactly the file's bytes?
BytesOk(off, nn, salt, head, tail) ==
    /\ Len(head) = Min2(nn, 8)
    /\ Len(tail) = Min2(nn, 8)
    /\ \A jj \in 1..Len(head) : head[jj] = Byte(off + jj - 1, salt)
    /\ \A jj \in 1..Len(tail) : tail[jj] = Byte(off + nn - Len(tail) + jj - 1, salt)

InRange(L, off, len) == IsLo(off) /\ off[2] + len <= L

\* result classes: "ok" | "err" | "panic" | "hang" | "overlong"
Ok(nn) == [r |-> "ok", n |-> nn]
Err == [r |-> "err", n |-> 0]
Pan == [r |-> "panic", n |-> 0]
Crash(res) == res.r \in {"panic", "hang", "overlong"}

\* ------------------------------------------------------------------------------------------------
\* CONTRACT
\* ------------------------------------------------------------------------------------------------
\* read_at / get_slice / read_exact_at: Ok(exactly [off, off+len)) or Err; never short, shifted, or a panic.
\* `usable`: the reader is open and the length is within the limit it enforces.
ExactOk(L, off, len, usable, res) ==
    /\ ~Crash(res)
    /\ res.r = "ok" => res.n = len /\ (len = 0 \/ InRange(L, off, len))
    /\ (InRange(L, off, len) /\ usable) => res.r = "ok"        \* incl. the empty range anywhere in 0..L
    /\ (~usable /\ len > 0) => res.r # "ok"                    \* limits are enforced at the exact boundary
\* AsyncArchiveReader::read_at has read(2) semantics: a non-empty prefix of the range, 0 only at/after the end
ShortOk(L, off, len, usable, res) ==
    /\ ~Crash(res)
    /\ res.r = "ok" => /\ res.n <= len
                       /\ (res.n > 0 => InRange(L, off, res.n))
                       /\ (res.n = 0 => (len = 0 \/ ~InRange(L, off, 1)))
    /\ (InRange(L, off, 0) /\ usable) => res.r = "ok"
    /\ ~usable => res.r # "ok"
\* Open: refused when mapping is disabled, the file is empty or exceeds either configured maximum
OpenOut(L, cfg) == IF cfg.enable /\ L > 0 /\ NLe(Lo(L), cfg.maxmap) /\ NLe(Lo(L), cfg.maxarch) THEN "ok" ELSE "err"

\* counters: [total, completed, cancelled, timeout, active, bytes, peak]
Ctr0 == [total |-> NZero, completed |-> NZero, cancelled |-> NZero, timeout |-> NZero, active |-> NZero,
         bytes |-> NZero, peak |-> NZero]
\* between two calls of a sequential caller nothing is in flight: started = completed + cancelled + timed out
CountersOk(c) ==
    /\ c.active = NZero
    /\ IsLo(c.total) /\ IsLo(c.completed) /\ IsLo(c.cancelled) /\ IsLo(c.timeout)
    /\ c.total[2] = c.completed[2] + c.cancelled[2] + c.timeout[2]
CountersMono(c, d) ==
    /\ NLe(c.total, d.total) /\ NLe(c.completed, d.completed) /\ NLe(c.cancelled, d.cancelled)
    /\ NLe(c.timeout, d.timeout) /\ NLe(c.bytes, d.bytes) /\ NLe(c.peak, d.peak)

\* ------------------------------------------------------------------------------------------------
\* CODE: what each reader answers
\* ------------------------------------------------------------------------------------------------
PlainOut(L, off, len) ==
    IF IsHi(off) THEN Err                              \* lseek refuses offsets above i64::MAX
    ELSE IF off[2] + len <= L \/ len = 0 THEN Ok(len) ELSE Err
MmapUsable(cfg, len) == NLe(Lo(len), cfg.maxdec)       \* len <= security_limits.max_decompressed_size
MmapOut(L, cfg, off, len) ==
    IF IsHi(off) THEN Err
    ELSE IF (IF DevZeroAtEnd THEN off[2] >= L ELSE off[2] > L) THEN Err   \* validate_read_bounds: start >= file_size
    ELSE IF off[2] + len > L THEN Err
    ELSE IF ~MmapUsable(cfg, len) THEN Err
    ELSE Ok(len)
AsyncUsable(cfg, shut, len) == ~shut /\ len <= cfg.maxasync
AsyncReadOut(L, cfg, shut, off, len) ==
    IF ~AsyncUsable(cfg, shut, len) THEN Err
    ELSE IF IsHi(off) THEN Err
    ELSE LET avail == IF off[2] >= L THEN 0 ELSE L - off[2]
             want  == Min2(len, avail)
         IN  Ok(IF cfg.chunk > 0 THEN Min2(cfg.chunk, want) ELSE want)
AsyncExactOut(L, cfg, shut, off, len) ==
    IF len = 0 THEN Ok(0)                              \* the loop body never runs, even after shutdown
    ELSE IF ~AsyncUsable(cfg, shut, len) THEN Err
    ELSE IF IsHi(off) THEN Err
    ELSE IF off[2] + len <= L THEN Ok(len) ELSE Err

\* counter effects of the critical sections of read_at
CDone(c, nn)  == [c EXCEPT !.total = NInc(@), !.completed = NInc(@), !.bytes = NAddI(@, nn)]
CCancel(c)    == [c EXCEPT !.total = NInc(@), !.cancelled = NInc(@)]
CTimeout(c)   == [c EXCEPT !.total = NInc(@), !.timeout = NInc(@)]
CLeak(c)      == [c EXCEPT !.total = NInc(@), !.active = NInc(@)]         \* started, never finished
CGhost(c)     == [c EXCEPT !.cancelled = NInc(@), !.active = NDec(@)]     \* finished, never started
CPeak(c, cfg, len) == IF len <= cfg.maxasync THEN [c EXCEPT !.peak = NMaxOf(@, Lo(len))] ELSE c

AReadCtr(c, cfg, shut, len, res) ==
    IF shut THEN (IF DevShutUnderflow THEN CGhost(c) ELSE c)
    ELSE IF res.r = "ok" THEN CDone(CPeak(c, cfg, len), res.n) ELSE CCancel(CPeak(c, cfg, len))
\* read_exact_at = a loop of read_at calls; `got` bytes arrive in pieces of at most `chunk`
CeilDiv(a, b) == (a + b - 1) \div b
AExactCtr(c, L, cfg, shut, off, len) ==
    IF len = 0 THEN c
    ELSE IF shut THEN (IF DevShutUnderflow THEN CGhost(c) ELSE c)
    ELSE IF len > cfg.maxasync THEN CCancel(c)
    ELSE IF IsHi(off) THEN CCancel(CPeak(c, cfg, len))
    ELSE LET avail == IF off[2] >= L THEN 0 ELSE L - off[2]
             got   == Min2(len, avail)
             pieces == IF got = 0 THEN 0 ELSE IF cfg.chunk > 0 THEN CeilDiv(got, cfg.chunk) ELSE 1
             calls == pieces + (IF got < len THEN 1 ELSE 0)    \* the read that returns 0 is a completed operation
             c1 == CPeak(c, cfg, len)
         IN  [c1 EXCEPT !.total = NAddI(@, calls), !.completed = NAddI(@, calls), !.bytes = NAddI(@, got)]
ATimeoutCtr(c, cfg) == CTimeout(CPeak(c, cfg, 4))
ADropCtr(c, cfg) == IF DevDropLeak THEN CLeak(CPeak(c, cfg, 4)) ELSE CCancel(CPeak(c, cfg, 4))

\* extract_files_concurrent(reqs), reqs = sequence of <<off, size>> (both N64)
SumSizes(reqs) ==        \* [ovf, v]
    LET F[ii \in 0..Len(reqs)] ==
            IF ii = 0 THEN [ovf |-> FALSE, v |-> NZero]
            ELSE LET pp == F[ii - 1]  aa == NAdd(pp.v, reqs[ii][2])
                 IN [ovf |-> pp.ovf \/ aa.ovf, v |-> aa.v]
    IN F[Len(reqs)]
SumSat(reqs) == IF SumSizes(reqs).ovf THEN NMax ELSE SumSizes(reqs).v
ReqInRange(L, q) == IsLo(q[1]) /\ IsLo(q[2]) /\ q[1][2] + q[2][2] <= L
ReqReadable(L, q) == IsLo(q[2]) /\ (ReqInRange(L, q) \/ (q[2][2] = 0 /\ IsLo(q[1])))
\* the conditions under which the contract promises the batch (and outside of which it must be refused)
ExtractFits(cfg, sess, reqs) ==
    /\ Len(reqs) <= 2 * cfg.maxext
    /\ NLe(NSatAdd(sess.total, SumSat(reqs)), cfg.maxsess)
    /\ \A ii \in 1..Len(reqs) : NLe(reqs[ii][2], cfg.maxdec)
ExtractOut(L, cfg, shut, sess, reqs) ==
    IF Len(reqs) > 2 * cfg.maxext THEN "err"
    ELSE IF SumSizes(reqs).ovf /\ DevSumPanic THEN "panic"
    ELSE IF ~NLe(NSatAdd(sess.total, SumSat(reqs)), cfg.maxsess) THEN "err"
    ELSE IF \E ii \in 1..Len(reqs) : ~NLe(reqs[ii][2], cfg.maxdec) THEN "err"
    ELSE IF Len(reqs) = 0 THEN "ok"
    ELSE IF shut THEN "err"
    ELSE IF \A ii \in 1..Len(reqs) : ReqReadable(L, reqs[ii]) THEN "ok" ELSE "err"
\* every request that was spawned runs to its end, whatever happens to its siblings
ExtractSpawned(cfg, shut, sess, reqs) ==
    IF Len(reqs) > 2 * cfg.maxext \/ shut THEN 0
    ELSE IF SumSizes(reqs).ovf /\ DevSumPanic THEN 0
    ELSE IF ~NLe(NSatAdd(sess.total, SumSat(reqs)), cfg.maxsess) THEN 0
    ELSE LET big == {ii \in 1..Len(reqs) : ~NLe(reqs[ii][2], cfg.maxdec)}
         IN IF big = {} THEN Len(reqs) ELSE (CHOOSE ii \in big : \A jj \in big : ii <= jj) - 1
ExtractCtr(c, L, cfg, shut, sess, reqs) ==
    LET kk == ExtractSpawned(cfg, shut, sess, reqs)
        F[ii \in 0..kk] == IF ii = 0 THEN c
                           ELSE IF ReqReadable(L, reqs[ii]) THEN CDone(F[ii - 1], reqs[ii][2][2])
                           ELSE CCancel(F[ii - 1])
    IN F[kk]
\* the session records ONE decompression of the whole batch (files + 1), as coded
ExtractSess(sess, reqs, out) ==
    IF out = "ok" THEN [total |-> NWrapAdd(sess.total, SumSat(reqs)), files |-> sess.files + 1] ELSE sess

\* ------------------------------------------------------------------------------------------------
\* MACHINE
\* ------------------------------------------------------------------------------------------------
Sess0 == [total |-> NZero, files |-> 0]
Gm0 == [bytes |-> NZero, active |-> 0, failed |-> 0]
S0(L, salt, cfg) == [len |-> L, salt |-> salt, cfg |-> cfg, mm |-> "none", shut |-> FALSE,
                     ctr |-> Ctr0, sess |-> Sess0, gm |-> Gm0]

OpenNext(s, via, out) ==
    [s EXCEPT !.mm = IF out = "ok" THEN "open" ELSE "none",
              !.gm = IF via # "manager" THEN @
                     ELSE IF out = "ok" THEN [@ EXCEPT !.bytes = NAddI(@, s.len), !.active = @ + 1]
                     ELSE [@ EXCEPT !.failed = @ + 1]]
AReadNext(s, len, res) == [s EXCEPT !.ctr = AReadCtr(s.ctr, s.cfg, s.shut, len, res)]
AExactNext(s, off, len) == [s EXCEPT !.ctr = AExactCtr(s.ctr, s.len, s.cfg, s.shut, off, len)]
ATimeoutNext(s) == [s EXCEPT !.ctr = ATimeoutCtr(s.ctr, s.cfg)]
ADropNext(s) == [s EXCEPT !.ctr = ADropCtr(s.ctr, s.cfg)]
ExtractNext(s, reqs) ==
    LET out == ExtractOut(s.len, s.cfg, s.shut, s.sess, reqs)
    IN [s EXCEPT !.ctr = ExtractCtr(s.ctr, s.len, s.cfg, s.shut, s.sess, reqs),
                 !.sess = ExtractSess(s.sess, reqs, out)]
ShutdownNext(s) == [s EXCEPT !.shut = TRUE]

\* the contract, stated over the CODE layer for one state: this is what MC_MpqIo checks for every
\* reachable state and every (off, len) of its scope; Trace_MpqIo checks the same predicates on
\* the results the real readers returned.
ContractAt(s, off, len) ==
    LET L == s.len  cfg == s.cfg IN
    /\ ExactOk(L, off, len, TRUE, PlainOut(L, off, len))
    /\ (s.mm = "open" => ExactOk(L, off, len, MmapUsable(cfg, len), MmapOut(L, cfg, off, len)))
    /\ ExactOk(L, off, len, AsyncUsable(cfg, s.shut, len), AsyncExactOut(L, cfg, s.shut, off, len))
    /\ ShortOk(L, off, len, AsyncUsable(cfg, s.shut, len), AsyncReadOut(L, cfg, s.shut, off, len))
\* all readers agree wherever the contract pins the answer
AgreeAt(s, off, len) ==
    LET L == s.len  cfg == s.cfg
        pp == PlainOut(L, off, len)
        mm == MmapOut(L, cfg, off, len)
        ae == AsyncExactOut(L, cfg, s.shut, off, len)
    IN  InRange(L, off, len) =>
          /\ pp.r = "ok"
          /\ (s.mm = "open" /\ MmapUsable(cfg, len)) => mm = pp
          /\ AsyncUsable(cfg, s.shut, len) => ae = pp
=============================================================================
