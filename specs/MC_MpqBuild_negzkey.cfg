CONSTANTS
  SectorSize = 4
  TableSize = 4
  HetSize = 8
  FlagFix = TRUE
  UseHetBet = TRUE
  BetFix = TRUE
  NameHash <- MCNameHash
  LibFileKey <- ZFileKey
  Het8 <- MCHet8
  BetL3 <- MCBetL3
  BetOaat <- MCBetOaat
  ReaderDecryptsOn <- NegReaderDecryptsOn
INIT MCInitZ
NEXT MCNextOnce
INVARIANT LayoutAgreement
INVARIANT ShortcutUnreachable
INVARIANT SectorTestSound
INVARIANT StoredBound
INVARIANT NoOverlap
INVARIANT TableWellFormed
INVARIANT KeyAgreement
INVARIANT ReadBack
INVARIANT OnlyZeroKeyFails
INVARIANT ReadBackNeverNotFound
INVARIANT AbsentNotFound
INVARIANT HetBetAnswersOwn
INVARIANT BetFixAnswers
INVARIANT AsIsAlwaysFallsBack
INVARIANT FixRemovesDeviation
INVARIANT BetRoundTrip
INVARIANT CrcSectorAccepted
INVARIANT DistinctKeys
CHECK_DEADLOCK FALSE
