CONSTANTS
  Names = {}
  Toks = {}
  LfBig = FALSE
  QDevs = {"delexact", "parseshift"}
INIT TInit
NEXT TNext
POSTCONDITION Accepted
INVARIANT CleanMeansEqual
CHECK_DEADLOCK FALSE
