"""C16 -- BLP encode->parse is exact; lossless encodings preserve pixels."""
import json
from vlib import core

META = {
    "disabled": False,
    "level": "model_checking",
    "level_text": "BlpLayout.tla is the arithmetic oracle of the BLP format (MipCount = floor(log2 max(w,h)) + 1, Dim(i) = max(1, w >> i) x max(1, h >> i) "
                  "ending at 1x1, LevelBytes per encoding and alpha depth, header size and locator position per version, levels laid out back to back, the "
                  "truncating-save law of the file-path API) plus a layout machine (convert, header, palette / JPEG header, one level per step filling the locator, "
                  "reader through the locator; the pre-fix short mip chain kept as a named deviation). TLC checks on 72 dimension pairs x versions x encodings x "
                  "alpha depths x mipmaps that locator ranges are ascending, disjoint, inside the file and behind the palette, that the chain reaches 1x1 and that "
                  "the reader gets back the levels laid out. TLC then tabulates shapes; the harness converts synthetic images with the real crate, encodes, reads "
                  "width/height/locator out of the bytes at the positions TLC emitted, parses, decodes every level, compares the alpha plane of every level of "
                  "palettised textures, and drives save_blp / load_blp over destinations that are absent / hold a shorter / a longer earlier save; TLC validates "
                  "level counts, every level size and dimension, ranges, structure tokens, raw BGRA pixel equality, palette membership, alpha quantisation, and "
                  "that the files on disk equal the encoded bytes.",
    "level_note": "JPEG level sizes are opaque (count, ranges, decoded dimensions, structure). DXT and JPEG pixel quality is not examined (lossy). Alpha quantisation accepts "
                  "any nearest-level rounding at 4 bits and any threshold at 1 bit with the extremes fixed; alpha of scaled-down levels is compared within a "
                  "resampling-tolerant band (exact agreement is a DRIFT check). quick covers 13x13 dimension pairs up to 64 for four targets with mipmaps, every target "
                  "x mipmaps on fixed non-square/odd pairs and a seed-rotated 1/7 of the rest; thorough adds all targets on all pairs and dimensions up to 512.",
    "technique": "TLA+ arithmetic oracle and layout machine (BlpLayout.tla) model-checked by TLC; TLC-tabulated shapes replayed on wow-blp; trace validation by TLC",
    "design_ref": "DESIGN.md section 5, C13-C18 recipe and C16 paragraph",
    "crates": ["c16"],
}


def _lg(x):
    return max(x, 1).bit_length() - 1


def _dxt_pad(w, h, mips):
    """some level has ceil(w/4)*ceil(h/4) != ceil(w*h/16): the two block-count formulas disagree"""
    n = (_lg(max(w, h)) + 1) if mips else 1
    for i in range(n):
        wi, hi = max(1, w >> i), max(1, h >> i)
        if -(-wi // 4) * -(-hi // 4) != -(-(wi * hi) // 16):
            return True
    return False


def sig(b):
    r = b.get("reset") or {}
    w, h, mips = r.get("w", 1), r.get("h", 1), bool(r.get("mips"))
    return {"ev": b["ev"], "why": str(b.get("why", "")).strip('"'), "ver": r.get("ver"), "enc": r.get("enc"), "alpha": r.get("alpha"),
            "mips": mips, "nonsq": _lg(w) != _lg(h), "dxtPad": _dxt_pad(w, h, mips), "pre": (b.get("rec") or {}).get("pre")}


def run(ctx, cases_override=None):
    ctx.mc("MC_BlpLayout", timeout=900)
    if cases_override:
        cases, ncases = cases_override, sum(1 for _ in open(cases_override))
    else:
        cases, ncases = ctx.gen("Gen_BlpLayout", timeout=900)
    binary = ctx.build("c16")
    trace = ctx.harness(binary, cases)
    res = ctx.validate("Trace_BlpLayout", trace, timeout=1500, max_restarts=2000)
    kinds, samples, shapes = {}, [], set()
    with open(trace) as f:
        for line in f:
            r = json.loads(line)
            kinds[r["ev"]] = kinds.get(r["ev"], 0) + 1
            if r["ev"] == "Reset":
                shapes.add((r["ver"], r["enc"], r["alpha"], r["w"], r["h"], r["mips"]))
            if kinds[r["ev"]] <= 1:
                s = dict(r)
                if isinstance(s.get("pairs"), list):
                    s["pairs"] = s["pairs"][:6]
                samples.append(s)
    with open(cases) as f:
        first = [json.loads(x) for x in f.read().splitlines()[:2]]
    cov = {
        "traces_validated_against_impl": res["traces"],
        "samples": first + samples,
        "events_by_kind": kinds,
        "cases_generated_by_tlc": ncases,
        "evaluations": res["events"],
        "distinct_nontrivial": len(shapes),
        "rule": "one shape = (version, encoding, alpha depth, width, height, mipmaps); distinct by construction",
        "exhaustive": False,
    }
    assumptions = ["images are synthetic RGBA8 (gradient, <= 12 colours, noise, fully transparent, binary alpha), dimensions 1..512",
                   "mipmap filter Triangle, DXT algorithm RangeFit; the expected alpha of level i is the source halved i times with resize_exact and that filter",
                   "BLP0 levels live in external files (encode_blp0 / parse_blp_with_externals in memory, save_blp / load_blp on disk)"]
    return core.finish(ctx, "model_checking", cov, assumptions, res["bad"], sig_fn=sig, trace=trace)


def replay(ctx, payload):
    cases, _ = ctx.gen("Gen_BlpLayout", timeout=900)
    idx = int(str(payload.get("case", "0:")).split(":")[0])
    lines = open(cases).read().splitlines()
    sel = ctx.path("replay-cases.ndjson")
    pad = json.dumps({"kind": "blp", "ver": "Blp2", "enc": "raw3", "alpha": 8, "w": 1, "h": 1, "mips": False, "img": "noise", "count": 1,
                      "dims": [[1, 1]], "bytes": [4], "hdr": 148, "loc": 20})
    with open(sel, "w") as f:
        for i, l in enumerate(lines[:idx + 1]):
            f.write((l if i == idx else pad) + "\n")
    return run(ctx, cases_override=sel)
