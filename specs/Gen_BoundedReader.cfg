CONSTANTS
  MaxLen = 0
  Faults = {}
INIT Init
NEXT Next
CHECK_DEADLOCK FALSE
