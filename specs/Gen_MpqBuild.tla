---------------------------- MODULE Gen_MpqBuild ----------------------------
(* Stage (B) for C01: TLC enumerates archive configurations.  Every archive carries the same abstract    *)
(* file set (7 length classes relative to the sector size x 4 compressibility classes, 3 names sharing   *)
(* a home slot, 2 absent names colliding with present ones); bytes and names are concretised by the      *)
(* driver from VERIF_SEED.  quick is a filter of the same set expression as thorough plus seed-rotated   *)
(* draws from the full product.                                                                          *)
EXTENDS Integers, Sequences, FiniteSets, SequencesExt, Json, IOUtils, TLC
\* the option part of the builder (setter calls as actions; the option state is a function of the call ORDER)
O == INSTANCE MpqBuildOpts WITH ListfileAttrSource <- "attrs", oph <- "config", oopt <- 0, ocalls <- <<>>, olisted <- {}

Thorough == IOEnv.VERIF_TIER = "thorough"
SeedN    == atoi(IOEnv.VERIF_SEED)

Versions == 1..4
Shifts   == 0..8
\* none, zlib, pkware, bzip2, sparse, lzma, ADPCM mono / stereo alone and with zlib / bzip2 / pkware
Methods  == {0, 2, 8, 16, 32, 18, 64, 128, 66, 144, 130, 72}
Encs     == {"plain", "enc", "encfix"}
Attrs    == {"none", "crc32", "full"}

Base == [ver |-> 1, shift |-> 3, method |-> 2, enc |-> "plain", crc |-> FALSE, attrs |-> "none",
         listfile |-> TRUE, tablecomp |-> FALSE]

Full == {[ver |-> v, shift |-> sh, method |-> m, enc |-> en, crc |-> cr, attrs |-> at, listfile |-> lf, tablecomp |-> tc] :
           v \in Versions, sh \in Shifts, m \in Methods, en \in Encs, cr \in BOOLEAN, at \in Attrs,
           lf \in BOOLEAN, tc \in BOOLEAN}

Diff(c) == Cardinality({d \in {"method", "enc", "crc", "attrs", "listfile", "tablecomp"} : c[d] # Base[d]})
\* quick: shift in {0,3,8} x (base configuration for every version; one other dimension changed for V1 and V4)
InQuick(c) == c.shift \in {0, 3, 8} /\ Diff(c) <= 1 /\ (c.ver \in {1, 4} \/ Diff(c) = 0)
\* thorough: the full product of six of the eight dimensions (version x shift x method x enc x crc x attrs = 7 776
\* configurations); the pair (listfile, tablecomp) rotates through its four combinations with the coordinate sum +
\* VERIF_SEED, so that four runs with consecutive seeds enumerate the whole product of the property's quantifier
\* (31 104 configurations).  (The half product per run was measured: 15 552 archives = 589 139 events took 29 min in
\* the driver alone on the shared machine at load ~200 -- over the 30 min budget.)
Idx(c) == c.ver + c.shift + c.method + (CASE c.enc = "plain" -> 0 [] c.enc = "enc" -> 1 [] OTHER -> 2)
          + (IF c.crc THEN 1 ELSE 0) + (CASE c.attrs = "none" -> 0 [] c.attrs = "crc32" -> 1 [] OTHER -> 2)
Pair(c) == (IF c.listfile THEN 2 ELSE 0) + (IF c.tablecomp THEN 1 ELSE 0)
ThoroughSet == {c \in Full : Pair(c) = (Idx(c) + SeedN) % 4}
\* seed-rotated draws from the full product
FullSeq == SetToSeq(Full)
Draws(n) == {FullSeq[((((SeedN % 10007) * 7919) + (j * 104729)) % Len(FullSeq)) + 1] : j \in 1..n}

InQuickAllVersions(c) == c.shift \in {0, 3, 8} /\ Diff(c) <= 1
\* "table" cases (both tiers): V3/V4 x table compression x 1..40 small files, so that the lengths of the HET, BET, hash
\* and block tables (and of their compressed forms) run through every residue mod 4 -- the cipher treats the last
\* len mod 4 bytes of a table differently from the full words
TableCases == {[ver |-> v, shift |-> 3, method |-> 2, enc |-> "plain", crc |-> FALSE,
                attrs |-> IF n % 2 = 0 THEN "none" ELSE "crc32", listfile |-> (n % 3 # 0),
                tablecomp |-> tc, nfiles |-> n] : v \in {3, 4}, tc \in BOOLEAN, n \in 1..40}

\* "width" cases (both tiers): the LARGEST entry of a V3/V4 archive has a file size / stored size / position just
\* below, at, or above a power of two, so that each bit-packed BET field crosses a width boundary on its own.  The big
\* file is incompressible and multi-sector at shift 0: its stored size is its length + 4 (n + 1 + crc) + 4 n crc, i.e.
\* can need one more bit than every file size (1 020 bytes are stored as 1 032).  It is added first or last, which
\* moves the largest position through the boundaries as well.
BigLens == {2^k + d : k \in {10, 11, 13}, d \in {-44, -24, -12, -4, -1, 0, 1}}
WidthCases == {[ver |-> v, shift |-> 0, method |-> 2, enc |-> "plain", crc |-> cr, attrs |-> "none", listfile |-> (n % 2 = 0),
                tablecomp |-> FALSE, nfiles |-> 3, big |-> n, bigfirst |-> (n % 3 = 0)] :
                 v \in {3, 4}, cr \in BOOLEAN, n \in BigLens}
\* "sector count" cases (both tiers): files of 1, 2, S/4 - 1, S/4, S/4 + 1 and many sectors with sector checksums on,
\* at shifts 0 and 1 where more than S/4 sectors (the checksum sector then exceeds one sector) cost 64 KiB / 256 KiB
SecCountCases == {[ver |-> v, shift |-> sh, method |-> m, enc |-> en, crc |-> TRUE, attrs |-> "none", listfile |-> TRUE,
                   tablecomp |-> FALSE, nfiles |-> 1,
                   seccounts |-> IF sh = 0 THEN <<1, 2, 127, 128, 129, 300>> ELSE <<255, 256, 257>>] :
                    v \in {1, 4}, sh \in {0, 1}, m \in {0, 2}, en \in {"plain", "encfix"}}

\* "huge member" cases (both tiers): a V3/V4 archive with one incompressible member of >= 2^22 bytes: position, file size
\* and stored size then need ~23 bits each, the packed BET entry is wider than 64 bits
HugeCases == {[ver |-> v, shift |-> 3, method |-> 0, enc |-> "plain", crc |-> FALSE, attrs |-> "none", listfile |-> TRUE,
               tablecomp |-> FALSE, nfiles |-> 2, big |-> n, bigfirst |-> (v = 3)] :
                v \in {3, 4}, n \in {2^22 - 100, 2^22 + 5, 3 * 2^20 + 1}}
\* file SETS as a dimension (both tiers): two names that are one lookup key -- equal up to ASCII case, up to slash
\* direction, or identical -- added together with different contents.  AddHash must refuse (build Err is allowed) or keep
\* them distinct; an archive in which one of them reads back the other's bytes is "build accepted colliding names"
DupCases == {[ver |-> v, shift |-> 3, method |-> 2, enc |-> "plain", crc |-> FALSE, attrs |-> "none", listfile |-> lf,
              tablecomp |-> FALSE, nfiles |-> 4, dup |-> d] :
               v \in {1, 2, 3, 4}, lf \in BOOLEAN, d \in {"case", "slash", "exact", "caseslash"}}

\* ---- builder option calls ------------------------------------------------------------------------------------------------
\* Every case carries `opts`, the sequence of setter calls the driver makes (MpqBuildOpts!OptCalls); the option state that
\* build() sees is MpqBuildOpts!EffOpts(opts) -- computed by TLC again when the trace is validated, never by the driver.
OnOff(b) == IF b THEN "on" ELSE "off"
LfCall(c) == <<"listfile", IF c.listfile THEN "generate" ELSE "none">>
\* the order the product cases always used: generate_crcs(crc) ; attributes_option(attrs) -- it reaches four of the six
\* (sector CRC, attributes) combinations (MC_MpqBuildOpts ASSUMEs which); "ac" is the other order
CallsOf(c, order) == IF order = "ca" THEN <<<<"crcs", OnOff(c.crc)>>, <<"attrs", c.attrs>>, LfCall(c)>>
                     ELSE <<<<"attrs", c.attrs>>, <<"crcs", OnOff(c.crc)>>, LfCall(c)>>
WithCalls(c, order) == c @@ [opts |-> CallsOf(c, order)]
\* quick slice of the two combinations only the order "ac" reaches (CRC off + attributes CRC32 / full), with the whole
\* 39-member file set: base configuration x version {1, 4} x shift {0, 3, 8} (+ one encrypted / one uncompressed)
EffSlice == {[Base EXCEPT !.ver = v, !.shift = sh, !.attrs = a, !.enc = en, !.method = m] :
               v \in {1, 4}, sh \in {0, 3, 8}, a \in {"crc32", "full"}, en \in {"plain"}, m \in {2}}
            \cup {[Base EXCEPT !.ver = v, !.attrs = a, !.enc = "encfix", !.method = 0] : v \in {2, 3}, a \in {"crc32", "full"}}
\* thorough: the order is a ninth dimension of the product, rotating with the coordinate sum + seed like the
\* (listfile, tablecomp) pair (eight consecutive seeds enumerate the 62 208 = 31 104 x 2 configurations)
OrderOf(c) == IF ((Idx(c) + SeedN) \div 4) % 2 = 0 THEN "ca" ELSE "ac"
\* option-call HISTORIES as a dimension (both tiers): every sequence of up to two setter calls (all seven calls of
\* MpqBuildOpts!OptCalls) for every version, and every sequence of three generate_crcs / attributes_option calls with the
\* version rotating -- small archives (2 small + 4 one- and two-sector members at shift 0, checksums visible in the flags)
CaCalls == {c \in O!OptCalls : c[1] \in {"crcs", "attrs"}}
Hist2 == {<<>>} \cup {<<c>> : c \in O!OptCalls} \cup {<<c, d>> : c \in O!OptCalls, d \in O!OptCalls}
Hist3 == {<<c, d, e>> : c \in CaCalls, d \in CaCalls, e \in CaCalls}
Hist3All == {<<c, d, e>> : c \in O!OptCalls, d \in O!OptCalls, e \in O!OptCalls}
HistCase(v, h) == LET o == O!EffOpts(h) IN
                  [ver |-> v, shift |-> 0, method |-> 2, enc |-> "plain", crc |-> o.crc, attrs |-> o.attrs,
                   listfile |-> o.listfile, tablecomp |-> FALSE, nfiles |-> 2, seccounts |-> <<1, 2>>, opts |-> h]
H3Seq == SetToSeq(IF Thorough THEN Hist3All ELSE Hist3)
OrderCases == {HistCase(v, h) : v \in Versions, h \in Hist2}
              \cup {HistCase(((j + SeedN) % 4) + 1, H3Seq[j]) : j \in 1..Len(H3Seq)}
\* the histories reach every (sector CRC, attributes) option state with a listfile, and archives without one
ASSUME {<<c.crc, c.attrs>> : c \in {d \in OrderCases : d.listfile}} = BOOLEAN \X Attrs
ASSUME \E c \in OrderCases : ~c.listfile

CaseSet0 == IF Thorough THEN ThoroughSet \cup {c \in Full : InQuickAllVersions(c)} \cup Draws(100)
           ELSE {c \in Full : InQuick(c)} \cup Draws(24)
ASSUME CaseSet0 \subseteq Full
ProductCases == IF Thorough THEN {WithCalls(c, OrderOf(c)) : c \in CaseSet0}
                ELSE {WithCalls(c, "ca") : c \in CaseSet0} \cup {WithCalls(c, "ac") : c \in EffSlice}
Cases == SetToSeq(ProductCases)
         \o SetToSeq({WithCalls(c, "ca") : c \in TableCases \cup WidthCases \cup SecCountCases \cup HugeCases \cup DupCases})
         \o SetToSeq(OrderCases)
ASSUME ndJsonSerialize(IOEnv.CASES, Cases)
ASSUME PrintT(<<"GENERATED", Len(Cases), "of", Cardinality(Full)>>)
=============================================================================
