-------------------------- MODULE Gen_MpqSecurity --------------------------
(* Stage (B) for X02/MpqSecurity: TLC enumerates                                                   *)
(*  sess : ALL sequences up to length 3 of session operations with amounts at the limit (-1, =, +1) *)
(*         and at the top of u64                                                                  *)
(*  mon  : ALL sequences up to length 3 of monitor operations (sizes max-1, max, max+1, 0; cancel; *)
(*         time passing) for the sync and the async monitor, with and without a zero time budget  *)
(*  val  : validate_decompression_operation on the grid of compressed sizes x derived decompressed *)
(*         sizes (ratio boundary, per-file limit, pattern thresholds) x methods x path classes,    *)
(*         for four limit records, also after the session was filled to its boundary             *)
(*  calc : calculate_limit swept over the documented size cuts for bases at every clamp boundary  *)
EXTENDS MpqIoNum, Integers, Sequences, SequencesExt, FiniteSets, Json, IOUtils, TLC

Thorough == IOEnv.VERIF_TIER = "thorough"
Seed == atoi(IOEnv.VERIF_SEED)

Lim0 == [maxsess |-> Lo(100), maxdec |-> Lo(500), ratio |-> 10, pattern |-> TRUE, adaptive |-> TRUE]
Op(op) == [op |-> op, bytes |-> Lo(0), add |-> Lo(0), csize |-> 0, dsize |-> 0, method |-> 0, path |-> "plain",
           max |-> Lo(0), tmo |-> "none", mkind |-> "sync", size |-> Lo(0), base |-> 0, enabled |-> TRUE, sizes |-> <<>>]
Case(label, lim, ops) == [kind |-> "sec", label |-> label, lim |-> lim, ops |-> ops]
Seqs3(A) == {<<a>> : a \in A} \cup {<<a, b>> : a \in A, b \in A} \cup {<<a, b, c>> : a \in A, b \in A, c \in A}
Seqs2(A) == {<<a>> : a \in A} \cup {<<a, b>> : a \in A, b \in A}

\* ---- sess ----------------------------------------------------------------------------------------
Rec1(b) == [Op("record") EXCEPT !.bytes = b]
Add1(a) == [Op("checkadd") EXCEPT !.add = a]
SessAlpha == {Rec1(Lo(1)), Rec1(Lo(99)), Rec1(Lo(100)), Rec1(Hi(0)), Rec1(Hi(5)), Op("check"), Add1(Lo(0)), Add1(Lo(1)), Add1(Hi(0))}
SessCases == {Case("sess", Lim0, s \o <<Op("check"), Add1(Lo(1))>>) : s \in Seqs3(SessAlpha)}

\* ---- mon -----------------------------------------------------------------------------------------
Chk(sz) == [Op("mon_check") EXCEPT !.size = sz]
MonAlphaLo == {Chk(Lo(0)), Chk(Lo(9)), Chk(Lo(10)), Chk(Lo(11)), Op("mon_cancel"), Op("mon_tick")}
MonAlphaHi == {Chk(Lo(0)), Chk(Hi(1)), Chk(Hi(0)), Op("mon_cancel"), Op("mon_tick")}
New(mx, tmo, kind) == [Op("mon_new") EXCEPT !.max = mx, !.tmo = tmo, !.mkind = kind]
MonCases == {Case("mon", Lim0, <<New(Lo(10), tmo, kind)>> \o s \o <<Chk(Lo(1))>>) :
                 s \in Seqs3(MonAlphaLo), tmo \in {"none", "zero"}, kind \in {"sync", "async"}}
            \cup {Case("mon", Lim0, <<New(Hi(0), tmo, kind)>> \o s \o <<Chk(Lo(1))>>) :
                 s \in Seqs2(MonAlphaHi), tmo \in {"none", "zero"}, kind \in {"sync", "async"}}

\* ---- val -----------------------------------------------------------------------------------------
Lims == { [maxsess |-> Lo(500000000), maxdec |-> Lo(104857600), ratio |-> 1000, pattern |-> pt, adaptive |-> ad] :
             pt \in BOOLEAN, ad \in BOOLEAN }
        \cup { [maxsess |-> Lo(6000), maxdec |-> Lo(5000), ratio |-> 10, pattern |-> TRUE, adaptive |-> TRUE],
               [maxsess |-> Lo(6000), maxdec |-> Lo(5000), ratio |-> 60, pattern |-> TRUE, adaptive |-> FALSE] }
CSizes == {0, 1, 99, 100, 512, 513, 4097, 70000}
Cap(x) == IF x > 1000000000 THEN 1000000000 ELSE x
DSizes(lim, cs) == {0, 1, Cap(cs * lim.ratio), Cap(cs * lim.ratio + cs - 1), Cap(cs * (lim.ratio + 1)), Cap(cs * (lim.ratio \div 2 + 1)),
                    lim.maxdec[2] - 1, lim.maxdec[2], lim.maxdec[2] + 1, 10485760, 10485761, 52428800, 52428801}
Val(cs, ds, m, p) == [Op("validate") EXCEPT !.csize = cs, !.dsize = ds, !.method = m, !.path = p]
ValOps(lim, cs) == {Val(cs, ds, m, p) : ds \in DSizes(lim, cs), m \in {0, 2, 18, 32, 129}, p \in {"plain", "nested", "none"}}
ValCases == UNION { {Case("val", lim, SetToSeq(ValOps(lim, cs))) : cs \in CSizes} : lim \in Lims }
\* the session boundary inside validate / create_decompression_monitor: fill the session first
Amon(ds) == [Op("amon") EXCEPT !.dsize = ds, !.method = 2]
FillCases == { Case("fill", [Lim0 EXCEPT !.maxsess = Lo(1000), !.ratio = 100], <<Rec1(Lo(fill)), Val(10, ds, 2, "plain"), Amon(ds), Op("check")>>) :
                  fill \in {0, 899, 900, 901, 1000, 1001}, ds \in {0, 99, 100, 101, 500, 501} }

\* ---- calc ----------------------------------------------------------------------------------------
Bases == {1, 4, 5, 24, 25, 49, 50, 51, 100, 1000, 1249, 1250, 1251, 4999, 5000, 5001, 10000, 49999, 50000, 199999, 200000, 1000000,
          107374182, 107374183, 500000000, 2147483647}
Cuts == <<0, 1, 512, 513, 4096, 4097, 65536, 65537, 1048576, 1048577, 2000000000>>
Calc(b, en, m) == [Op("calc") EXCEPT !.base = b, !.enabled = en, !.method = m, !.sizes = Cuts]
CalcCases == { Case("calc", Lim0, SetToSeq({Calc(b, en, m) : m \in {0, 1, 2, 3, 8, 16, 18, 32, 64, 128, 129}, en \in BOOLEAN})) : b \in Bases }

Cases == SetToSeq(SessCases) \o SetToSeq(MonCases) \o SetToSeq(ValCases) \o SetToSeq(FillCases) \o SetToSeq(CalcCases)
ASSUME ndJsonSerialize(IOEnv.CASES, Cases)
ASSUME PrintT(<<"GENERATED", Len(Cases)>>)
=============================================================================
