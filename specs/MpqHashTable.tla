---------------------------- MODULE MpqHashTable ----------------------------
(***************************************************************************************************)
(* C06, implementation-shaped specification of MutableArchive (modification.rs): the classic MPQ   *)
(* hash table with Empty / Deleted / Occupied slots and linear probing, the block table, the       *)
(* append cursor (next_file_offset), (listfile) maintenance, and flush = WriteTables +             *)
(* UpdateHeader.  It refines MpqMap (checked by TLC in MC_MpqHashTable).                           *)
(*                                                                                                 *)
(* Names come with a CHOSEN home slot (Home), so that TLC - not chance - decides which names       *)
(* collide.  The probe loops of find_file_entry and add_to_hash_table are explicit micro-steps     *)
(* (one slot examined per step) so that their termination is a checked property.                   *)
(*                                                                                                 *)
(* The module describes the design and three historical states of the implementation over the same *)
(* state; every former behaviour is a named alternative action that TLC refutes (MC_*_code?.cfg):  *)
(*   DesignSteps/DesignSyncs  the intended design                                                  *)
(*   CodeSteps/CodeSyncs      the implementation AS IT IS NOW = the design, plus the legitimate    *)
(*                            refusal of compact() where a live file has no listed name            *)
(*   Code1Steps/Code1Syncs    the implementation at b13f4b7 (before f5f1b52 8390629 6cf538f        *)
(*                            9c6ca29 22716d7 c152f3f):                                            *)
(*        WriteTablesV3Broken      V3/V4: placeholder HET/BET at the cursor, header only updated   *)
(*                                 when the block count changed                          F-C06-c   *)
(*        InsertRenameKeepsOldKey  rename_file leaves encrypted data under the old name's key      *)
(*        InsertAddSubstr / LFAddSubstr  update_listfile tests `content.contains(name)`            *)
(*        SessionReadStale         read_file inside the session answered by the stale Archive      *)
(*        CompactRefuseUnreadable  refusal also for the victims of the deviations above            *)
(*   Code0Steps/Code0Syncs    the implementation before any fix (9124e75):                         *)
(*        InsertSpin (F-C06-b), WriteTablesInPlace (F-C06-a), CompactStale (F-C06-d),              *)
(*        AddAppendFixKeyWrongKey (F-C06-e), AddAppendNoCheck                                      *)
(*   hypothetical (seeded changes, never in the code): CompactKeepsCursor, CompactSkipsEmpty       *)
(* `devs` records which deviation changed the outcome of the behaviour so far.  Gen_MpqHashTable   *)
(* runs the Code machine to generate histories and to predict what the real code will do.          *)
(*                                                                                                 *)
(* Units: positions are counted in block-table entries (16 bytes); an appended file occupies FU    *)
(* units (512 bytes = 32 entries in the real layout); Slack = free entries between the end of the  *)
(* block table and the first append position (alignment padding).                                  *)
(***************************************************************************************************)
EXTENDS Naturals, Integers, Sequences, FiniteSets, TLC

CONSTANTS H,          \* number of hash slots
          UNames,     \* user names of the universe
          Home,       \* [UNames \cup {LF, AT} -> 0..H-1]
          InitSeq,    \* names present in the starting archive, in builder order (sequence, no LF)
          InitTok,    \* [name in InitSeq -> token]
          InitRaw,    \* names of InitSeq stored raw (neither compressed nor encrypted)
          SubOf,      \* [UNames -> SUBSET UNames]: names whose SPELLING contains this name's spelling
          HasLF0,     \* starting archive carries a (listfile)
          HasAT0,     \* starting archive carries an (attributes) file (occupies a slot and a block)
          Slack, FU,
          MaxCalls,   \* bound on the number of calls of a behaviour (exhaustive checking)
          Ver         \* format version 1..4 (only the implementation machine distinguishes them)

LF   == "(listfile)"
AT   == "(attributes)"
None == "none"
EmptyTok == "empty"      \* the content of length 0 (a content VALUE like any other; its stored form occupies no bytes)
\* tokens of a file whose bytes are not the ones that were stored, tagged with the cause:
\* "corrupt:<cause>" reads as garbage, "corrupt!:<cause>" (stored form compressed) fails to read
Causes    == {"overrun", "fixkey", "renkey", "unopenable"}
Bad(c)    == "corrupt:" \o c
BadErr(c) == "corrupt!:" \o c
BadErrToks == {BadErr(c) : c \in Causes}
BadToks    == {Bad(c) : c \in Causes} \cup BadErrToks

VARIABLES hslots,     \* [0..H-1 -> [st: {"E","D","O"}, nm, blk]]   session copy of the hash table
          hblocks,    \* Seq([tok, pos, z, kn])  session copy of the block table (tok of LF = set of names;
                      \* z: stored compressed or encrypted; kn: name whose key encrypts the data,
                      \* "" = not encrypted, "!" = a key no reader derives)
          hcursor,    \* next append position (next_file_offset)
          ddisk,      \* on-disk image: [slots, blocks, tpos, dmg, ok, lf]
          wopen, wdirty,
          vlf,        \* the archive (as opened) has a (listfile)
          stale,      \* names listed by the Archive object opened at open() / after compact()
          staleMap,   \* what that (stale) Archive object reads: the map on disk when it was opened
          pc, opr, pidx, pcnt,   \* current call, its arguments, probe position, slots examined
          hsnap,      \* abstract session view when the current call began
          lastres,    \* result class of the last completed call
          devs,       \* deviations that have altered the outcome so far (Code machine)
          vcalls      \* number of calls begun
hvars == <<hslots, hblocks, hcursor, ddisk, wopen, wdirty, vlf, stale, staleMap, pc, opr, pidx, pcnt, hsnap, lastres, devs, vcalls>>

Slots == 0..(H - 1)
E == [st |-> "E", nm |-> "", blk |-> 0]
D == [st |-> "D", nm |-> "", blk |-> 0]
Occ(n, b) == [st |-> "O", nm |-> n, blk |-> b]
Free(s) == s.st \in {"E", "D"}

Max2(a, b) == IF a >= b THEN a ELSE b
SetMax(S) == IF S = {} THEN 0 ELSE CHOOSE x \in S : \A y \in S : x >= y

(* ---------------------------------- functional views ------------------------------------------ *)
SlotOf(slots, n)   == {i \in Slots : slots[i].st = "O" /\ slots[i].nm = n}
\* what a reader obtains for name n through block b: the file key is derived from the NAME
TokAt(blocks, dmg, b, n) ==
    LET cause == IF b \in dmg THEN "overrun" ELSE IF blocks[b].kn = "!" THEN "fixkey" ELSE "renkey" IN
    IF b \in dmg \/ blocks[b].kn \notin {"", n}
    THEN (IF blocks[b].cmp THEN BadErr(cause) ELSE Bad(cause))
    ELSE blocks[b].tok
\* the abstract map denoted by a table image
View(slots, blocks, dmg) ==
    [n \in UNames |-> IF SlotOf(slots, n) = {} THEN None
                      ELSE TokAt(blocks, dmg, slots[CHOOSE i \in SlotOf(slots, n) : TRUE].blk, n)]
SessView == View(hslots, hblocks, ddisk.dmg)
DiskView == IF ddisk.ok THEN View(ddisk.slots, ddisk.blocks, ddisk.dmg) ELSE [n \in UNames |-> BadErr("unopenable")]

\* what find_file_entry computes, as a function: walk from the home slot until the name, an Empty
\* slot, or a full circle
RECURSIVE Probe(_, _, _, _)
Probe(slots, n, i, k) == IF k = H THEN -1
                         ELSE IF slots[i].st = "O" /\ slots[i].nm = n THEN i
                         ELSE IF slots[i].st = "E" THEN -1
                         ELSE Probe(slots, n, (i + 1) % H, k + 1)
Lookup(slots, n) == Probe(slots, n, Home[n], 0)
\* first Empty-or-Deleted slot in probe order from h (-1: none)
RECURSIVE FirstFreeFrom(_, _, _)
FirstFreeFrom(slots, i, k) == IF k = H THEN -1 ELSE IF Free(slots[i]) THEN i ELSE FirstFreeFrom(slots, (i + 1) % H, k + 1)
NoFree(slots) == \A i \in Slots : ~Free(slots[i])
LiveCount(slots) == Cardinality({i \in Slots : slots[i].st = "O"})

\* the builder's insertion (Empty slots only, table never full)
InsertFresh(slots, n, b) == [slots EXCEPT ![FirstFreeFrom(slots, Home[n], 0)] = Occ(n, b)]

(* ---------------------------------- (listfile) maintenance ------------------------------------ *)
\* update_listfile / remove_from_listfile: the listfile is re-added under its own name, re-using
\* its block index, its data appended at the cursor, its hash entry deleted and re-inserted.
LFSlot(slots) == CHOOSE i \in SlotOf(slots, LF) : TRUE
LFContent(slots, blocks) == blocks[slots[LFSlot(slots)].blk].tok
\* returns [slots, blocks, cursor]
LFRewrite(st, content) ==
    IF ~vlf \/ SlotOf(st.slots, LF) = {} \/ content = LFContent(st.slots, st.blocks) THEN st
    ELSE LET i  == LFSlot(st.slots)
             b  == st.slots[i].blk
             s1 == [st.slots EXCEPT ![i] = D]
             j  == FirstFreeFrom(s1, Home[LF], 0)
         IN [slots  |-> [s1 EXCEPT ![j] = Occ(LF, b)],
             blocks |-> [st.blocks EXCEPT ![b] = [tok |-> content, pos |-> st.cursor, z |-> FALSE, cmp |-> FALSE, big |-> FALSE, g |-> FALSE, sz |-> FU, kn |-> ""]],
             cursor |-> st.cursor + FU]
LFAdd(st, n) == IF ~vlf \/ SlotOf(st.slots, LF) = {} THEN st ELSE LFRewrite(st, LFContent(st.slots, st.blocks) \cup {n})
\* deviation: update_listfile appends the name unless `content.contains(name)` - a substring test,
\* not a line test: a name spelled inside an already listed name is never listed
LFHides(st, n) == vlf /\ SlotOf(st.slots, LF) # {} /\ n \notin LFContent(st.slots, st.blocks)
                      /\ LFContent(st.slots, st.blocks) \cap SubOf[n] # {}
LFAddSubstr(st, n) == IF LFHides(st, n) THEN st ELSE LFAdd(st, n)
LFDel(st, n) == IF ~vlf \/ SlotOf(st.slots, LF) = {} THEN st ELSE LFRewrite(st, LFContent(st.slots, st.blocks) \ {n})

(* ---------------------------------- starting archive ------------------------------------------ *)
RECURSIVE BuildSlots(_, _, _)
BuildSlots(slots, names, k) == IF k > Len(names) THEN slots ELSE BuildSlots(InsertFresh(slots, names[k], k), names, k + 1)
StartNames  == InitSeq \o (IF HasLF0 THEN <<LF>> ELSE <<>>) \o (IF HasAT0 THEN <<AT>> ELSE <<>>)
StartBlocks == [k \in 1..Len(StartNames) |->
                   [tok |-> IF StartNames[k] = LF THEN {InitSeq[j] : j \in 1..Len(InitSeq)}
                            ELSE IF StartNames[k] = AT THEN "attrs" ELSE InitTok[StartNames[k]],
                    pos |-> (k - 1) * FU, z |-> StartNames[k] \notin InitRaw, cmp |-> StartNames[k] \notin InitRaw, big |-> FALSE, g |-> FALSE, sz |-> FU, kn |-> ""]]
StartSlots  == BuildSlots([i \in Slots |-> E], StartNames, 1)
\* slk: alignment slack behind the block table of this file; cn: block count when the file was produced
\* by compact() (-1: it was not)
StartImage  == [slots |-> StartSlots, blocks |-> StartBlocks, tpos |-> Len(StartNames) * FU, dmg |-> {}, ok |-> TRUE, lf |-> HasLF0,
                slk |-> Slack, cn |-> -1]

NoOp == [k |-> "none", n |-> "", m |-> "", c |-> None, rep |-> FALSE, enc |-> "none", comp |-> "none", big |-> FALSE, blk |-> 0, fa |-> -1]

HInit == /\ ddisk = StartImage
         /\ hslots = StartSlots /\ hblocks = StartBlocks /\ hcursor = 0
         /\ wopen = FALSE /\ wdirty = FALSE /\ vlf = HasLF0 /\ stale = {}
         /\ staleMap = View(StartSlots, StartBlocks, {})
         /\ pc = "idle" /\ opr = NoOp /\ pidx = 0 /\ pcnt = 0
         /\ hsnap = View(StartSlots, StartBlocks, {}) /\ lastres = "ok" /\ devs = {} /\ vcalls = 0

(* ---------------------------------- layout ------------------------------------------------------ *)
DataEnd(blocks) == SetMax({blocks[b].pos + blocks[b].sz : b \in 1..Len(blocks)})
\* entries [tpos, tpos+n) of a block table against the bytes of block b
Overlaps(tpos, n, blocks, b) == blocks[b].pos < tpos + n /\ tpos < blocks[b].pos + blocks[b].sz
Overrun(tpos, blocks) == {b \in 1..Len(blocks) : Overlaps(tpos, Len(blocks), blocks, b)}
\* blocks a live hash entry points to
LiveBlocks(slots) == {slots[i].blk : i \in {j \in Slots : slots[j].st = "O"}}

(* ---------------------------------- open / close ------------------------------------------------ *)
Finish(res) == /\ pc' = "idle" /\ lastres' = res /\ opr' = NoOp /\ pidx' = 0 /\ pcnt' = 0
NewCall     == vcalls < MaxCalls /\ vcalls' = vcalls + 1

Open == /\ ~wopen /\ pc = "idle" /\ ddisk.ok /\ NewCall
        /\ wopen' = TRUE /\ wdirty' = FALSE
        /\ hslots' = ddisk.slots /\ hblocks' = ddisk.blocks /\ vlf' = ddisk.lf
        \* get_archive_end_offset: max(end of tables, end of file data), aligned
        /\ hcursor' = Max2(ddisk.tpos + Len(ddisk.blocks) + ddisk.slk, DataEnd(ddisk.blocks))
        /\ stale' = IF ddisk.lf /\ SlotOf(ddisk.slots, LF) # {} THEN LFContent(ddisk.slots, ddisk.blocks) \cap UNames ELSE {}
        /\ hsnap' = View(ddisk.slots, ddisk.blocks, ddisk.dmg)
        /\ staleMap' = View(ddisk.slots, ddisk.blocks, ddisk.dmg)
        /\ Finish("ok")
        /\ UNCHANGED <<ddisk, devs>>

(* flush = WriteTables + UpdateHeader.  Designed: relocate the tables behind the data and always   *)
(* update the header.                                                                              *)
WriteTablesRelocate ==
    /\ ddisk' = [ddisk EXCEPT !.slots = hslots, !.blocks = hblocks, !.tpos = hcursor, !.lf = vlf, !.slk = Slack]
    /\ hcursor' = hcursor + Len(hblocks) + Slack
    /\ UNCHANGED devs
(* deviation F-C06-a: the grown table is written at the position recorded in the header at open *)
WriteTablesInPlace ==
    LET hit == Overrun(ddisk.tpos, hblocks) \ ddisk.dmg IN
    /\ ddisk' = [ddisk EXCEPT !.slots = hslots, !.blocks = hblocks, !.dmg = ddisk.dmg \cup hit, !.lf = vlf]
    \* "growth": the table of a compact()ed file grew in place; its real alignment slack is not known
    \* to the model (0 is assumed: the worst case), so an overrun is possible from the first block on
    /\ devs' = (IF hit \cap LiveBlocks(hslots) # {} THEN devs \cup {"overrun"} ELSE devs)
                   \cup (IF ddisk.cn >= 0 /\ Len(hblocks) > ddisk.cn THEN {"growth"} ELSE {})
    /\ UNCHANGED hcursor
(* deviation F-C06-c (V3/V4): placeholder HET/BET written at the file cursor; the header is only   *)
(* rewritten when the block count changed; without a listfile rewrite the cursor is 0              *)
WriteTablesV3Broken ==
    /\ ddisk' = IF Len(hblocks) # Len(ddisk.blocks) \/ ~vlf THEN [ddisk EXCEPT !.ok = FALSE] ELSE ddisk
    /\ devs' = devs \cup {"v34flush"}
    /\ UNCHANGED hcursor

Sync(closing) == /\ wopen /\ pc = "idle" /\ NewCall
                 /\ wdirty' = FALSE /\ wopen' = ~closing /\ hsnap' = SessView /\ Finish("ok")
                 /\ UNCHANGED <<hslots, hblocks, vlf, stale, staleMap>>
\* flush() / drop() with nothing pending: returns at once
FlushClean    == ~wdirty /\ Sync(FALSE) /\ UNCHANGED <<ddisk, hcursor, devs>>
CloseClean    == ~wdirty /\ Sync(TRUE)  /\ UNCHANGED <<ddisk, hcursor, devs>>
FlushRelocate == wdirty /\ Sync(FALSE) /\ WriteTablesRelocate
CloseRelocate == wdirty /\ Sync(TRUE)  /\ WriteTablesRelocate
FlushInPlace  == wdirty /\ Ver < 3 /\ Sync(FALSE) /\ WriteTablesInPlace
CloseInPlace  == wdirty /\ Ver < 3 /\ Sync(TRUE)  /\ WriteTablesInPlace
FlushV3Broken == wdirty /\ Ver >= 3 /\ Sync(FALSE) /\ WriteTablesV3Broken
CloseV3Broken == wdirty /\ Ver >= 3 /\ Sync(TRUE)  /\ WriteTablesV3Broken

(* ---------------------------------- probe micro-steps ------------------------------------------- *)
FindPcs == {"add_find", "rm_find", "rn_find_a", "rn_find_b"}
InsPcs  == {"add_ins", "rn_ins"}
Target  == IF pc \in {"rn_find_b", "rn_ins"} THEN opr.m ELSE opr.n
\* -2 keep probing, -1 not found, >= 0 found at that slot
FindOutcome == LET s == hslots[pidx] IN
               IF s.st = "O" /\ s.nm = Target THEN pidx
               ELSE IF s.st = "E" \/ pcnt + 1 = H THEN -1 ELSE -2
\* find_file_entry: examine the next slot
FindStep == /\ pc \in FindPcs /\ FindOutcome = -2
            /\ pidx' = (pidx + 1) % H /\ pcnt' = pcnt + 1
            /\ UNCHANGED <<hslots, hblocks, hcursor, ddisk, wopen, wdirty, vlf, stale, staleMap, pc, opr, hsnap, lastres, devs, vcalls>>

Begin(kind, n, m, c, rep, enc, comp, big) ==
    /\ wopen /\ pc = "idle" /\ NewCall
    /\ opr' = [k |-> kind, n |-> n, m |-> m, c |-> c, rep |-> rep, enc |-> enc, comp |-> comp, big |-> big, blk |-> 0, fa |-> -1]
    /\ pc' = CASE kind = "add" -> "add_find" [] kind = "remove" -> "rm_find" [] OTHER -> "rn_find_a"
    /\ pidx' = Home[n] /\ pcnt' = 0 /\ hsnap' = SessView
    /\ UNCHANGED <<hslots, hblocks, hcursor, ddisk, wopen, wdirty, vlf, stale, staleMap, lastres, devs>>

\* big: the content is larger than one sector (the builder used by compact() stores such a file sectored and
\* flags it COMPRESS even when its sectors are raw)
BeginAdd(n, c, rep, enc, comp, big) == Begin("add", n, n, c, rep, enc, comp, big)
BeginRemove(n)                      == Begin("remove", n, n, None, FALSE, "none", "none", FALSE)
BeginRename(a, b)                   == Begin("rename", a, b, None, FALSE, "none", "none", FALSE)

Fail(res) == /\ Finish(res)
             /\ UNCHANGED <<hslots, hblocks, hcursor, ddisk, wopen, wdirty, vlf, stale, staleMap, hsnap, devs, vcalls>>

(* add_file_data after the lookup *)
AddRefuseExists == pc = "add_find" /\ FindOutcome >= 0 /\ ~opr.rep /\ Fail("exists")
\* designed: a new name on a table without Empty/Deleted slot is refused BEFORE anything is modified
AddRefuseFull   == pc = "add_find" /\ FindOutcome = -1 /\ NoFree(hslots) /\ Fail("full")
\* MarkDeleted (replace) + AppendData at the cursor + GrowBlockTable, then the insertion loop
AddAppendWith(keyname, dv) ==
    LET f == FindOutcome IN
    /\ pc = "add_find" /\ f # -2 /\ (f >= 0 => opr.rep)
    /\ hslots' = IF f >= 0 THEN [hslots EXCEPT ![f] = D] ELSE hslots
    /\ hblocks' = Append(hblocks, [tok |-> opr.c, pos |-> hcursor, z |-> (opr.comp # "none" \/ opr.enc # "none"), cmp |-> opr.comp # "none", big |-> opr.big,
                                   \* g: larger than a sector AND stored as one compressed unit: the sectored copy that compact()
                                   \* produces (every sector compressed on its own) can be much LARGER; sz: units occupied
                                   g |-> (opr.big /\ opr.comp # "none"), sz |-> FU, kn |-> keyname])
    /\ devs' = devs \cup dv
    /\ hcursor' = hcursor + FU
    /\ opr' = [opr EXCEPT !.blk = Len(hblocks) + 1]
    /\ pc' = "add_ins" /\ pidx' = Home[opr.n] /\ pcnt' = 0
    /\ UNCHANGED <<ddisk, wopen, wdirty, vlf, stale, staleMap, hsnap, lastres, vcalls>>
KeyName         == IF opr.enc = "none" THEN "" ELSE opr.n
AddAppend       == (FindOutcome = -1 => ~NoFree(hslots)) /\ AddAppendWith(KeyName, {})
\* the implementation has no pre-check ...
AddAppendNoCheck == opr.enc # "fix" /\ AddAppendWith(KeyName, {})
\* ... and (deviation F-C06-e) fix_key sets the flag but encrypts with the unadjusted key: a
\* conforming reader cannot decrypt what was stored
AddAppendFixKeyWrongKey == opr.enc = "fix" /\ AddAppendWith("!", {"fixkey"})

\* the call completes: apply the listfile maintenance `after` to [slots, blocks, cursor]
Complete(slots1, blocks1, after(_)) ==
    LET st == after([slots |-> slots1, blocks |-> blocks1, cursor |-> hcursor]) IN
    /\ hslots' = st.slots /\ hblocks' = st.blocks /\ hcursor' = st.cursor
    /\ wdirty' = TRUE /\ Finish("ok")
    /\ UNCHANGED <<ddisk, wopen, vlf, stale, staleMap, hsnap, vcalls>>

\* add_to_hash_table: a free (Empty or Deleted) slot takes the entry
InsertAdd ==
    /\ pc = "add_ins" /\ Free(hslots[pidx])
    /\ Complete([hslots EXCEPT ![pidx] = Occ(opr.n, opr.blk)], hblocks, LAMBDA st : LFAdd(st, opr.n))
    /\ UNCHANGED devs
CurSt(slots1) == [slots |-> slots1, blocks |-> hblocks, cursor |-> hcursor]
InsertAddSubstr ==
    /\ pc = "add_ins" /\ Free(hslots[pidx])
    /\ Complete([hslots EXCEPT ![pidx] = Occ(opr.n, opr.blk)], hblocks, LAMBDA st : LFAddSubstr(st, opr.n))
    /\ devs' = IF LFHides(CurSt(hslots), opr.n) THEN devs \cup {"substr"} ELSE devs
\* designed: the file key depends on the name, so renaming an encrypted file re-encrypts its data
InsertRenameReencrypt ==
    /\ pc = "rn_ins" /\ Free(hslots[pidx])
    /\ Complete([hslots EXCEPT ![pidx] = Occ(opr.m, opr.blk)],
                [hblocks EXCEPT ![opr.blk].kn = IF @ = "" THEN "" ELSE opr.m],
                LAMBDA st : LFAdd(LFDel(st, opr.n), opr.m))
    /\ UNCHANGED devs
\* deviation (found by this check): rename_file only moves the hash entry; encrypted data stays
\* encrypted under the key of the OLD name and reads back as garbage under the new one
InsertRenameKeepsOldKey ==
    /\ pc = "rn_ins" /\ Free(hslots[pidx])
    /\ Complete([hslots EXCEPT ![pidx] = Occ(opr.m, opr.blk)], hblocks, LAMBDA st : LFAddSubstr(LFDel(st, opr.n), opr.m))
    /\ devs' = devs \cup (IF hblocks[opr.blk].kn \notin {"", "!", opr.m} THEN {"renkey"} ELSE {})
                     \cup (IF LFHides(LFDel(CurSt(hslots), opr.n), opr.m) THEN {"substr"} ELSE {})
InsertAdvance ==
    /\ pc \in InsPcs /\ ~Free(hslots[pidx]) /\ pcnt + 1 < H
    /\ pidx' = (pidx + 1) % H /\ pcnt' = pcnt + 1
    /\ UNCHANGED <<hslots, hblocks, hcursor, ddisk, wopen, wdirty, vlf, stale, staleMap, pc, opr, hsnap, lastres, devs, vcalls>>
\* designed bound of the loop (never reached: AddRefuseFull fires first; rename frees a slot first)
InsertGiveUp == pc \in InsPcs /\ ~Free(hslots[pidx]) /\ pcnt + 1 = H /\ Fail("full")
\* deviation F-C06-b: no bound; on a table without free slot the loop cycles forever
InsertSpin ==
    /\ pc \in InsPcs /\ ~Free(hslots[pidx]) /\ pcnt + 1 >= H
    /\ pidx' = (pidx + 1) % H /\ pcnt' = H /\ devs' = devs \cup {"full"}
    /\ UNCHANGED <<hslots, hblocks, hcursor, ddisk, wopen, wdirty, vlf, stale, staleMap, pc, opr, hsnap, lastres, vcalls>>
Hung == pc \in InsPcs /\ pcnt >= H

RemoveRefuse == pc = "rm_find" /\ FindOutcome = -1 /\ Fail("notfound")
RemoveMark   == /\ pc = "rm_find" /\ FindOutcome >= 0
                /\ Complete([hslots EXCEPT ![FindOutcome] = D], hblocks, LAMBDA st : LFDel(st, opr.n))
                /\ UNCHANGED devs

RenameRefuseSrc == pc = "rn_find_a" /\ FindOutcome = -1 /\ Fail("notfound")
RenameSrcFound  == /\ pc = "rn_find_a" /\ FindOutcome >= 0
                   /\ opr' = [opr EXCEPT !.fa = FindOutcome, !.blk = hslots[FindOutcome].blk]
                   /\ pc' = "rn_find_b" /\ pidx' = Home[opr.m] /\ pcnt' = 0
                   /\ UNCHANGED <<hslots, hblocks, hcursor, ddisk, wopen, wdirty, vlf, stale, staleMap, hsnap, lastres, devs, vcalls>>
RenameRefuseDst == pc = "rn_find_b" /\ FindOutcome >= 0 /\ Fail("exists")
RenameMark      == /\ pc = "rn_find_b" /\ FindOutcome = -1
                   /\ hslots' = [hslots EXCEPT ![opr.fa] = D]
                   /\ pc' = "rn_ins" /\ pidx' = Home[opr.m] /\ pcnt' = 0
                   /\ UNCHANGED <<hblocks, hcursor, ddisk, wopen, wdirty, vlf, stale, staleMap, opr, hsnap, lastres, devs, vcalls>>

(* ---------------------------------- compact ------------------------------------------------------ *)
\* a fresh archive (builder, generated listfile) holding `keep` (name -> token); positions restart
RECURSIVE SeqOf(_)
SeqOf(S) == IF S = {} THEN <<>> ELSE LET x == CHOOSE y \in S : TRUE IN <<x>> \o SeqOf(S \ {x})
GrowFactor == 4
Rebuilt(keep, zof, slk) ==
    LET names  == SeqOf({n \in UNames : keep[n] # None})
        all    == Append(names, LF)
        szOf(k) == IF all[k] # LF /\ zof[all[k]].g THEN GrowFactor * FU ELSE FU
        posOf[k \in 1..(Len(all) + 1)] == IF k = 1 THEN 0 ELSE posOf[k - 1] + szOf(k - 1)
        blocks == [k \in 1..Len(all) |-> [tok |-> IF all[k] = LF THEN {names[j] : j \in 1..Len(names)} ELSE keep[all[k]],
                                          pos |-> posOf[k], sz |-> szOf(k),
                                          z   |-> IF all[k] = LF THEN TRUE ELSE (zof[all[k]].z \/ zof[all[k]].b),
                                          big |-> IF all[k] = LF THEN FALSE ELSE zof[all[k]].b,
                                          g   |-> FALSE,
                                          \* (a sectored file starts with a sector-offset table: garbage does not decode)
                                          cmp |-> IF all[k] = LF THEN TRUE ELSE (zof[all[k]].c \/ zof[all[k]].b),
                                          \* the builder encrypts under the name it is given
                                          kn  |-> IF all[k] # LF /\ zof[all[k]].e THEN all[k] ELSE ""]]
    IN [slots |-> BuildSlots([i \in Slots |-> E], all, 1), blocks |-> blocks, tpos |-> posOf[Len(all) + 1],
        dmg |-> {}, ok |-> TRUE, lf |-> TRUE, slk |-> slk, cn |-> Len(all)]
\* the session's block of a live name
BlkOf(n) == hslots[CHOOSE i \in SlotOf(hslots, n) : TRUE].blk
ZOf == [n \in UNames |-> IF SlotOf(hslots, n) = {} THEN [z |-> FALSE, c |-> FALSE, e |-> FALSE, b |-> FALSE, g |-> FALSE]
                         ELSE [z |-> hblocks[BlkOf(n)].z, c |-> hblocks[BlkOf(n)].cmp, e |-> hblocks[BlkOf(n)].kn # "",
                               b |-> hblocks[BlkOf(n)].big, g |-> hblocks[BlkOf(n)].g]]
CompactTo(keep, slk) ==
    LET img == Rebuilt(keep, ZOf, slk) IN
    /\ wopen /\ pc = "idle" /\ NewCall
    /\ ddisk' = img /\ hslots' = img.slots /\ hblocks' = img.blocks /\ vlf' = TRUE
    /\ hcursor' = img.tpos + Len(img.blocks) + slk
    /\ stale' = {n \in UNames : keep[n] # None} /\ staleMap' = keep
    /\ wdirty' = FALSE /\ hsnap' = SessView /\ Finish("ok")
    /\ UNCHANGED wopen
\* designed: the new file holds exactly the session's map ...
CompactDesigned == CompactTo(SessView, Slack) /\ UNCHANGED devs
\* ... or, where the names are not all known (no listfile), the call is refused and changes nothing
CompactRefuse == /\ wopen /\ pc = "idle" /\ NewCall /\ ~vlf
                 /\ hsnap' = SessView /\ Finish("refused")
                 /\ UNCHANGED <<hslots, hblocks, hcursor, ddisk, wopen, wdirty, vlf, stale, staleMap, devs>>
\* deviation F-C06-d: compact() works through the Archive object opened at open():
\*  - names come from ITS listfile: an entry whose name is not listed there is copied under a
\*    placeholder name, i.e. lost under its own;
\*  - data stored compressed or encrypted is read through IT (read_current_file falls back to
\*    archive.read_file): a file replaced or renamed-onto in this session comes back with the
\*    content the name had when the archive was opened, or is skipped ("read error") if it had
\*    none or an unreadable one.
CompactStale ==
    LET keep == [n \in UNames |-> IF n \notin stale \/ SlotOf(hslots, n) = {} THEN None
                                  ELSE IF hblocks[BlkOf(n)].z THEN (IF staleMap[n] \in BadErrToks THEN None ELSE staleMap[n])
                                  ELSE TokAt(hblocks, ddisk.dmg, BlkOf(n), n)] IN
    /\ CompactTo(keep, 0)
    /\ devs' = IF keep # SessView THEN devs \cup {"compact"} ELSE devs

\* the implementation now (5040b10, 2d95992): flush, re-open, then name every live entry through the
\* (listfile) of the file as it is and read it; a live entry without a listed name (no listfile, or
\* the substring deviation) gets a placeholder name, whose read fails, and a file whose stored form
\* does not decode fails too: compact() then returns the error and leaves the archive as flushed.
ListedNow == IF vlf /\ SlotOf(hslots, LF) # {} THEN LFContent(hslots, hblocks) \cap UNames ELSE {}
LiveNow   == {n \in UNames : SessView[n] # None}
Unnamed   == LiveNow \ ListedNow
Undecodable == {n \in LiveNow \cap ListedNow : SessView[n] \in BadErrToks}
CompactFresh ==
    /\ Ver < 3 /\ Unnamed = {} /\ Undecodable = {}
    /\ CompactTo(SessView, 0) /\ UNCHANGED devs
CompactRefuseUnreadable ==
    /\ (Unnamed # {} \/ Undecodable # {})
    /\ wopen /\ pc = "idle" /\ NewCall
    \* the flush and the re-open at the top of compact() have happened
    /\ IF wdirty /\ Ver < 3
       THEN /\ ddisk' = [ddisk EXCEPT !.slots = hslots, !.blocks = hblocks, !.tpos = hcursor, !.lf = vlf, !.slk = Slack]
            /\ hcursor' = hcursor + Len(hblocks) + Slack
       ELSE IF wdirty      \* V3/V4: the broken flush (F-C06-c)
       THEN /\ ddisk' = IF Len(hblocks) # Len(ddisk.blocks) \/ ~vlf THEN [ddisk EXCEPT !.ok = FALSE] ELSE ddisk
            /\ UNCHANGED hcursor
       ELSE UNCHANGED <<ddisk, hcursor>>
    /\ wdirty' = FALSE
    /\ stale' = ListedNow /\ staleMap' = SessView
    /\ hsnap' = SessView /\ Finish("refused")
    /\ devs' = devs \cup (IF ~vlf THEN {"nolistfile"} ELSE {})
                     \cup (IF vlf /\ Unnamed # {} THEN {"unlisted"} ELSE {})
                     \cup (IF Undecodable # {} THEN {"undecodable"} ELSE {})
                     \cup (IF wdirty /\ Ver >= 3 THEN {"v34flush"} ELSE {})
    /\ UNCHANGED <<hslots, hblocks, wopen, vlf>>
\* V3/V4: compact() starts with the broken flush; what follows is not modelled (blanket F-C06-c)
CompactV3 ==
    /\ Ver >= 3 /\ Unnamed = {} /\ Undecodable = {}
    /\ CompactTo([n \in UNames |-> IF n \in ListedNow THEN SessView[n] ELSE None], 0)
    /\ devs' = devs \cup (IF wdirty THEN {"v34flush"} ELSE {}) \cup (IF ~vlf THEN {"nolistfile"} ELSE {})

(* ---------------------------------- reading inside the session ----------------------------------- *)
\* MutableArchive::read_file(n) while the session is open.  Designed: the session's view.
SessionReadDesigned(n) == SessView[n]
\* deviation (as coded): read_current_file decodes only raw blocks itself; a compressed or encrypted
\* block, and a name the session's tables do not hold, is handed to the Archive object opened at open()
\* / after compact(): a file added here is "not found", a replaced one returns its old content, a
\* removed one is still readable
SessionReadStale(n) == IF SlotOf(hslots, n) = {} THEN staleMap[n]
                       ELSE IF hblocks[BlkOf(n)].z THEN staleMap[n]
                       ELSE TokAt(hblocks, ddisk.dmg, BlkOf(n), n)

(* ---------------------------------- the machines --------------------------------------------- *)
\* steps shared by both
CommonSteps == \/ FindStep \/ AddRefuseExists \/ InsertAdvance
               \/ RemoveRefuse \/ RemoveMark
               \/ RenameRefuseSrc \/ RenameSrcFound \/ RenameRefuseDst \/ RenameMark
DesignSteps == CommonSteps \/ AddRefuseFull \/ AddAppend \/ InsertAdd \/ InsertRenameReencrypt \/ InsertGiveUp
DesignSyncs == Open \/ FlushClean \/ CloseClean \/ FlushRelocate \/ CloseRelocate \/ CompactDesigned \/ CompactRefuse
\* as coded now (f5f1b52 8390629 6cf538f 9c6ca29 22716d7 c152f3f on top of the round-1 fixes): every call follows
\* the design; compact() refuses (and changes nothing but the flush it starts with) where a live file has no
\* listed name
CompactNow == Unnamed = {} /\ Undecodable = {} /\ CompactTo(SessView, 0) /\ UNCHANGED devs
CompactRefuseNow ==
    /\ (Unnamed # {} \/ Undecodable # {})
    /\ wopen /\ pc = "idle" /\ NewCall
    /\ IF wdirty THEN WriteTablesRelocate ELSE UNCHANGED <<ddisk, hcursor, devs>>
    /\ wdirty' = FALSE /\ stale' = ListedNow /\ staleMap' = SessView
    /\ hsnap' = SessView /\ Finish("refused")
    /\ UNCHANGED <<hslots, hblocks, wopen, vlf>>
\* hypothetical deviation (never in the code; a seeded change): compact() forgets to reset next_file_offset - the
\* session keeps appending at the end of the OLD file, which lies inside the new one when compaction made it larger
CompactKeepsCursor ==
    LET img == Rebuilt(SessView, ZOf, 0) IN
    /\ wopen /\ pc = "idle" /\ NewCall /\ Unnamed = {}
    /\ ddisk' = img /\ hslots' = img.slots /\ hblocks' = img.blocks /\ vlf' = TRUE
    /\ stale' = {n \in UNames : SessView[n] # None} /\ staleMap' = SessView
    /\ wdirty' = FALSE /\ hsnap' = SessView /\ Finish("ok")
    /\ UNCHANGED <<hcursor, wopen, devs>>
\* hypothetical deviation (never in the code; a round-4 seeded change): compact() skips every live entry whose stored size is
\* 0 ("nothing to copy") - a file whose content is the EMPTY byte string legitimately occupies no bytes, so it vanishes.
\* The empty content is one particular content value (EmptyTok); a block holding it has stored size 0.
CompactSkipsEmpty ==
    /\ Unnamed = {} /\ Undecodable = {}
    /\ CompactTo([n \in UNames |-> IF SessView[n] = EmptyTok THEN None ELSE SessView[n]], 0) /\ UNCHANGED devs
CodeSteps   == DesignSteps
CodeSyncs   == Open \/ FlushClean \/ CloseClean \/ FlushRelocate \/ CloseRelocate \/ CompactNow \/ CompactRefuseNow
\* as coded at b13f4b7 (after the round-1 fixes, before the six round-2 fix commits)
FlushRelocateV12 == Ver < 3 /\ FlushRelocate
CloseRelocateV12 == Ver < 3 /\ CloseRelocate
Code1Steps  == CommonSteps \/ AddRefuseFull \/ AddAppend \/ InsertAddSubstr \/ InsertRenameKeepsOldKey \/ InsertGiveUp
Code1Syncs  == Open \/ FlushClean \/ CloseClean \/ FlushRelocateV12 \/ CloseRelocateV12 \/ FlushV3Broken \/ CloseV3Broken
               \/ CompactFresh \/ CompactRefuseUnreadable \/ CompactV3
\* as coded before any fix commit
Code0Steps  == CommonSteps \/ AddAppendNoCheck \/ AddAppendFixKeyWrongKey \/ InsertAddSubstr \/ InsertRenameKeepsOldKey \/ InsertSpin
Code0Syncs  == Open \/ FlushClean \/ CloseClean \/ FlushInPlace \/ CloseInPlace \/ FlushV3Broken \/ CloseV3Broken \/ CompactStale

(* ---------------------------------- invariants --------------------------------------------------- *)
SlotType == \A i \in Slots : /\ hslots[i].st \in {"E", "D", "O"}
                             /\ hslots[i].st = "O" => hslots[i].blk \in 1..Len(hblocks)
\* at most one live entry per name
Unique(slots) == \A n \in UNames \cup {LF, AT} : Cardinality(SlotOf(slots, n)) <= 1
\* the probe finds every live entry: no entry hides behind an Empty slot
Reachable(slots) == \A n \in UNames \cup {LF, AT} : \A i \in SlotOf(slots, n) : Lookup(slots, n) = i
TableInv == pc = "idle" => (Unique(hslots) /\ Reachable(hslots) /\ Unique(ddisk.slots) /\ Reachable(ddisk.slots))
\* both probe loops examine at most H slots (fails on the Code machine: InsertSpin)
ProbeBounded == pcnt < H
\* a refusal for lack of space happens before anything was modified (designed machine)
\* the block table on disk never covers bytes of a file some live entry points to
TablesDisjointFromData == ddisk.ok => (Overrun(ddisk.tpos, ddisk.blocks) \cap LiveBlocks(ddisk.slots) = {})
NoDamage == ddisk.dmg \cap LiveBlocks(ddisk.slots) = {}
\* the listfile, where present, names exactly the live user files (D-level fact; holds in the design)
\* the append cursor of an open session never lies inside the on-disk image (after compact() it is the end of
\* the NEW file, whatever its size)
CursorBehindImage == (pc = "idle" /\ wopen /\ ddisk.ok) =>
                        (hcursor >= ddisk.tpos + Len(ddisk.blocks) /\ hcursor >= DataEnd(ddisk.blocks))
\* read_file inside the session shows the session's view (refuted for the stale-Archive reading of Code1)
SessionReadStaleAgrees == (pc = "idle" /\ wopen) => \A n \in UNames : SessionReadStale(n) = SessView[n]
ListfileExact == (pc = "idle" /\ vlf /\ SlotOf(hslots, LF) # {}) =>
                     LFContent(hslots, hblocks) \cap UNames = {n \in UNames : SlotOf(hslots, n) # {}}
=============================================================================
