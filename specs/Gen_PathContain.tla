---------------------------- MODULE Gen_PathContain ----------------------------
(* Stage (B) for C11: TLC enumerates the entry names of the grammar (every name of <= 3 components;  *)
(* every 4-component name in thorough, a seed-rotated residue class (1/8) of them in quick), classifies   *)
(* them with the model, packs them into archives and crosses the archives with the option product   *)
(* preserve-paths x patch chain x {whole archive, explicit names}.                                   *)
(*                                                                                                  *)
(* Packing: an entry the model says stops the run when extracted alone (AbortsAlone, checked against *)
(* the step machine in stage A) gets an archive of its own -- otherwise the names behind it would    *)
(* never be tried; all other names go into archives of <= GroupSize names.  Archives are homogeneous *)
(* in the syntactic class (has a leading separator, has a `..`) the known-finding signature uses.    *)
EXTENDS PathContain, Json, IOUtils

Thorough == IOEnv.VERIF_TIER = "thorough"
SeedN == atoi(IOEnv.VERIF_SEED)
GroupSize == 200
Modulus == 8

Code(k) == CASE k = "P" -> 0 [] k = "D" -> 1 [] k = "E" -> 2 [] k = "a" -> 3 [] k = "C" -> 4 [] k = "L" -> 5 [] k = "U" -> 6
           [] k = "T" -> 7 [] k = "Q" -> 8 [] k = "S" -> 9
           [] k = "f" -> 0 [] k = "b" -> 1
Weight == <<1, 11, 121, 1331, 14641, 161051>>
HashM(n, m) == LET cc == n.c ss == n.s IN
           (FoldLeft(LAMBDA acc, i : acc + Weight[i] * Code(cc[i]), 0, [i \in 1..Len(cc) |-> i])
            + FoldLeft(LAMBDA acc, i : acc + (2 * i + 1) * Code(ss[i]), 0, [i \in 1..Len(ss) |-> i])) % m
Hash(n) == HashM(n, Modulus)
WithSeps(cs) == {[c |-> cs, s |-> ss] : ss \in [1..(Len(cs) - 1) -> Seps]}

\* (1) the base grammar {.., ., empty, plain, C:, long, non-ASCII}
Small == NamesOf(3)
Four  == {n \in NamesOf(4) : Len(n.c) = 4}
BaseChosen == IF Thorough THEN Small \cup Four ELSE Small \cup {n \in Four : Hash(n) = SeedN % Modulus}

\* (2) names with at least one `..` look-alike ( ...  ....  ".. " ): every name of <= 2 components, seed-rotated residue
\* classes of the 3- and 4-component ones.  A trailing ".. " is left out (parse_listfile trims it away).
HasLookAlike(cs) == \E i \in 1..Len(cs) : cs[i] \in LookAlikes
ExtComps(k) == {cs \in [1..k -> ExtKinds] : HasLookAlike(cs) /\ cs[k] # "S"}
ExtNames(k) == UNION {WithSeps(cs) : cs \in ExtComps(k)}
M3 == IF Thorough THEN 1 ELSE 4
M4 == IF Thorough THEN 16 ELSE 64
ExtChosen == ExtNames(1) \cup ExtNames(2)
             \cup {n \in ExtNames(3) : HashM(n, M3) = SeedN % M3}
             \cup UNION {{n \in WithSeps(cs) : HashM(n, M4) = SeedN % M4} : cs \in ExtComps(4)}

\* (3) 5- and 6-component names over the extended alphabet, drawn from the seed
ExtSeq == <<"P", "D", "E", "a", "C", "L", "U", "T", "Q", "P", "E", "Q", "S">>      \* `..`, empty and `....` twice as likely
R(i, j) == ((SeedN % 997) * 7919 + i * 613 + j * 3571 + ((i * j) % 89) * 17) % 10007
LongCount == IF Thorough THEN 1500 ELSE 160
LongName(i) == LET k == 5 + (i % 2)
                   cs == [j \in 1..k |-> LET x == ExtSeq[1 + (R(i, j) % Len(ExtSeq))] IN IF j = k /\ x = "S" THEN "a" ELSE x]
               IN [c |-> cs, s |-> [j \in 1..(k - 1) |-> IF R(i, j + 7) % 2 = 0 THEN "b" ELSE "f"]]
LongChosen == {LongName(i) : i \in 1..LongCount}

Chosen == BaseChosen \cup ExtChosen \cup LongChosen

\* probe options for the classification: the answer must not depend on where `out` is or whether it exists
ProbeOpt(pres) == [preserve |-> pres, explicit |-> TRUE, chain |-> FALSE, form |-> "rel", preout |-> FALSE, skip |-> TRUE, unread |-> {}]
\* alone: entries whose own write fails (the run stops there), and entries whose LAST component is a look-alike -- it cannot
\* carry the entry's index, so another entry of the same archive may need the same path as a directory
SelfErr(n)   == \/ \E pres \in BOOLEAN : AbortsAlone(n.c, ProbeOpt(pres), Guard)
                \/ n.c[Len(n.c)] \in LookAlikes
HasRootN(n)  == HasRoot(n.c)
HasParentN(n) == HasParentDir(n.c)

Class(r, p) == {n \in Chosen : ~SelfErr(n) /\ HasRootN(n) = r /\ HasParentN(n) = p}
Chunks(S) == LET q == SetToSeq(S) k == (Len(q) + GroupSize - 1) \div GroupSize IN
             {SubSeq(q, (j - 1) * GroupSize + 1, IF j * GroupSize < Len(q) THEN j * GroupSize ELSE Len(q)) : j \in 1..k}
Groups == UNION {{[names |-> g, hasroot |-> r, hasparent |-> p, selferr |-> FALSE] : g \in Chunks(Class(r, p))}
                 : r \in BOOLEAN, p \in BOOLEAN}
          \cup {[names |-> <<n>>, hasroot |-> HasRootN(n), hasparent |-> HasParentN(n), selferr |-> TRUE]
                 : n \in {m \in Chosen : SelfErr(m)}}

\* thorough: the full option product for every archive.  quick: full product for the packed archives; a
\* single-entry archive gets both preserve values x two of the four (chain, explicit) pairs, which two
\* rotating with the name and the seed.
Parity(g) == (Hash(g.names[1]) + Len(g.names[1].c) + SeedN) % 2
LookAlikeLast(g) == LET cs == g.names[1].c IN cs[Len(cs)] \in LookAlikes
Wanted(g, ch, ex) == \/ Thorough \/ ~g.selferr
                     \/ /\ ~LookAlikeLast(g) /\ (IF Parity(g) = 0 THEN ch = ex ELSE ch # ex)
                     \* entries that are alone only because their last component is a look-alike: one (chain, explicit) pair
                     \/ /\ LookAlikeLast(g) /\ ch = (Parity(g) = 0) /\ ex = ((HashM(g.names[1], 4) \div 2) = 0)
\* ORDER / ADJACENCY between the entries of one run (deterministic, every tier): a benign entry e1 in some archive directory and a
\* traversal entry e2 that shares its 1..k leading components LITERALLY (same concretisation index `ix`, same separators), with
\* enough `..` behind the shared prefix to land in `out` itself, one and two levels above it; in both orders, adjacent and
\* separated by an entry e3 of another directory.  Extraction order = listfile order / command-line order / (patch chain, whole
\* archive) name order, which is why e1's last component sorts before e2's continuation.
\* SEPARATORS of a pair are three independent zones: st inside the shared prefix, bd at the boundary behind it (written in e1 and
\* e2 alike: the prefix is shared as TEXT up to and including that separator), ct in e2's continuation ("x" = alternating, starting
\* with the kind bd is not).  A shortcut keyed by the text of a name (split at one separator kind) sees the continuation of a
\* mixed name as ONE piece; uniform pairs are blind to it (ASSUMEs below).  The shared prefix may also be empty (top-level entries).
Shared == {<<>>, <<"a">>, <<"C">>, <<"a", "U">>, <<"C", "a">>}
Ups(u) == [i \in 1..u |-> "P"]
OtherSep(x) == IF x = "f" THEN "b" ELSE "f"
Cts == IF Thorough THEN {"f", "b", "x"} ELSE {"f", "b"}
CtAt(ct, bd, j) == IF ct \in Seps THEN ct ELSE IF j % 2 = 1 THEN OtherSep(bd) ELSE bd
SepCombos(k) == {q \in Seps \X Seps \X Cts : (k <= 1 => q[1] = q[2]) /\ (k = 0 => q[2] = "f")}
NmZ(cs, k, q, ix) == [c |-> cs, s |-> [i \in 1..(Len(cs) - 1) |-> IF i < k THEN q[1] ELSE IF i = k THEN q[2] ELSE CtAt(q[3], q[2], i - k)], ix |-> ix]
E2Comps(sh) == LET k == Len(sh) lo == IF k = 0 THEN 1 ELSE k IN
               {sh \o <<"L">> \o Ups(u) \o <<"U">> : u \in (k + 1)..(k + 3)} \cup {sh \o Ups(u) \o <<"U">> : u \in lo..(k + 2)}
PairsOf(sh, q, c2) == LET k == Len(sh) e1 == NmZ(sh \o <<"C">>, k, q, 3) e2 == NmZ(c2, k, q, 3) e3 == NmZ(<<"U", "a">>, 1, <<q[2], q[2], q[2]>>, 7) IN
                      {<<e1, e2>>, <<e2, e1>>, <<e1, e3, e2>>, <<e1, e2, e3>>}
PairSeqs == UNION {UNION {UNION {PairsOf(sh, q, c2) : c2 \in E2Comps(sh)} : q \in SepCombos(Len(sh))} : sh \in Shared}
MixedPair(q) == \E i \in 1..Len(q) : ~UniformSeps(q[i])
PairGroups == {[names |-> q, hasroot |-> FALSE, hasparent |-> TRUE, selferr |-> FALSE] : q \in PairSeqs}
\* quick: pairs with mixed separators and top-level pairs run with --preserve-paths only (thorough: the full product)
TopLevel(q) == \E i \in 1..Len(q) : Len(q[i].c) = 1
PairProduct == {c \in {[names |-> g.names, hasroot |-> g.hasroot, hasparent |-> g.hasparent, selferr |-> g.selferr,
                        preserve |-> pres, chain |-> ch, explicit |-> ex, entries |-> "present", skipmode |-> "rand"]
                       : g \in PairGroups, pres \in BOOLEAN, ch \in BOOLEAN, ex \in BOOLEAN}
                : Thorough \/ c.preserve \/ ~(MixedPair(c.names) \/ TopLevel(c.names))}

\* adequacy of the pair family against the deviation class SepCacheEscapes of PathContain.tla, evaluated by TLC:
\* (1) no pair written with one separator kind throughout can expose a text-keyed shortcut, whatever kind it splits at ...
AdjacentPairs == UNION {{<<q[i], q[i + 1]>> : i \in 1..(Len(q) - 1)} : q \in PairSeqs}
AllSepsAre(n, kind) == \A i \in 1..Len(n.s) : n.s[i] = kind
ASSUME \A pr \in AdjacentPairs : \A kind \in Seps :
          (AllSepsAre(pr[1], kind) /\ AllSepsAre(pr[2], kind)) => ~SepCacheEscapes(pr[1], pr[2], kind, ProbeOpt(TRUE))
\* (2) ... and for every shared prefix and either separator kind the family holds an adjacent pair that does, the directory text
\* being exactly the shared prefix (the remainder carries the `..` components behind separators of the other kind)
ASSUME \A sh \in Shared : \A kind \in Seps : \E pr \in AdjacentPairs :
          /\ Len(pr[1].c) = Len(sh) + 1 /\ SubSeq(pr[1].c, 1, Len(sh)) = sh
          /\ DirKeyOf(pr[2], kind).c = sh /\ HasParentDir(RestOf(pr[2], kind))
          /\ SepCacheEscapes(pr[1], pr[2], kind, ProbeOpt(TRUE))
ASSUME PrintT(<<"PAIRS", Cardinality(PairSeqs), "sequences", Cardinality({q \in PairSeqs : MixedPair(q)}), "with mixed separators", Cardinality(PairProduct), "cases">>)

Product == {[names |-> g.names, hasroot |-> g.hasroot, hasparent |-> g.hasparent, selferr |-> g.selferr,
             preserve |-> pres, chain |-> ch, explicit |-> ex, entries |-> "present", skipmode |-> "rand"]
            : g \in Groups, pres \in BOOLEAN, ch \in BOOLEAN, ex \in BOOLEAN}
Selected == {c \in Product : Wanted(c, c.chain, c.explicit)}

\* error paths: some entries cannot be read -- listed (or requested) but absent from the archive, or stored data corrupted --
\* with --skip-errors on and off, for archives whose names have a `..` or a leading separator (in a packed archive every
\* fourth entry is unreadable, a single entry is itself).  every packed archive; a seed-rotated quarter (thorough: eighth, with the full option product) of the single ones.
ErrMod == IF Thorough THEN 8 ELSE 4
ErrGroups == {g \in Groups : (g.hasroot \/ g.hasparent) /\ (~g.selferr \/ HashM(g.names[1], ErrMod) = SeedN % ErrMod)}
ErrProduct == {[names |-> g.names, hasroot |-> g.hasroot, hasparent |-> g.hasparent, selferr |-> g.selferr,
                preserve |-> pres, chain |-> ch, explicit |-> ex, entries |-> en, skipmode |-> sk]
               : g \in ErrGroups, pres \in BOOLEAN, ch \in BOOLEAN, ex \in BOOLEAN, en \in {"absent", "corrupt"}, sk \in {"on", "off"}}
ErrSelected == {c \in ErrProduct : /\ (c.selferr => c.preserve)
                                   /\ Wanted(c, c.chain, c.explicit)}

\* decoys: a file is planted wherever the unguarded deviation would write one of the case's entries outside the output directory
\* (so that deleting / truncating / overwriting it is observable, not only creating it)
\* every name carries the index its plain / long / non-ASCII components are concretised with (default: its position)
WithIx(names) == [i \in 1..Len(names) |-> IF "ix" \in DOMAIN names[i] THEN names[i] ELSE [c |-> names[i].c, s |-> names[i].s, ix |-> i - 1]]
DecoysOf(names, pres) == IF ~pres THEN <<>>
               ELSE SetToSeq(UNION {{p \in DeviationTarget(ConcName(names[i], names[i].ix), ProbeOpt(TRUE)) : ~Below(OutAbs, p)}
                                    : i \in {j \in 1..Len(names) : BadForGuard(names[j].c)}})
Numbered == LET q == SetToSeq(Selected) \o SetToSeq(ErrSelected) \o SetToSeq(PairProduct) IN
            [i \in 1..Len(q) |-> LET nm == WithIx(q[i].names) IN
                                 [id |-> i, decoys |-> DecoysOf(nm, q[i].preserve), names |-> nm] @@ q[i]]

ASSUME ndJsonSerialize(IOEnv.CASES, Numbered)
ASSUME PrintT(<<"GENERATED", Len(Numbered), "cases", Cardinality(Chosen), "names", Cardinality(Groups), "archives">>)

\* the generator module has no behaviour of its own
GInit == InitWith(<<>>, ProbeOpt(FALSE))
GNext == UNCHANGED vars
=============================================================================
