"""C13 -- M2, skin and anim files survive write->parse, also across version conversion."""
import json
import re

from vlib import core

META = {
    "level": "model_checking",
    "level_text": "TLC decides everything except payload bytes. Stage A (MC_M2Layout): the writers of wow-m2 (M2Model::write, SkinG::write, AnimFile::write) are one "
                  "running-offset state machine (WriteHeader, WriteEmptyRun, WriteSection(s), RelocateTail(s), Finish, Parse, Rewrite, Convert(v)); for every subset of the "
                  "modelled populated sections x 5 versions x 3 file kinds TLC checks: tracked cursor = bytes emitted, announced (count,offset) regions inside the file, pairwise "
                  "disjoint and equal to what was emitted, parse(write(x)) = x, byte-stable rewrite, Convert(v,v) = id, Convert(a,b) keeps Representable(a,b); ASSUMEs relate "
                  "the field-sum record sizes to the writer's constants (animation 32|52, bone 108|112|88, track 28|20, header 324|304), require the multi-step conversion path "
                  "of every version pair to end in the target through adjacent steps, require reader and writer to agree on derived counts (MAOF bone count, embedded-view "
                  "batch count), the relocation map to be a function original offset -> new offset that never advances for an already-mapped (aliased) array, every "
                  "non-empty array of an accepted structure to be preserved (ArraysPreserved) and save(path) to yield exactly the written bytes for every pre-state of the path. Stage B (Gen_M2Layout): TLC enumerates the shape space (20 cardinality dimensions {0,1,3}, key frames on/off, float class, string lengths "
                  "{0,1,260,261,1024} for model and texture names, aliasing pattern of key-frame arrays, per-element presence pattern, independent presence mask of the "
                  "parallel arrays ranges x timestamps x values, embedded-view counts {0,1,2,4}, save(path) pre-states, 5 versions; skin layouts x array cardinalities; anim format x sections x bones x data) as deterministic slices "
                  "+ seeded draws and emits with each shape the header positions and element sizes computed from the spec. Stage D (Trace_M2Layout): on the events recorded from "
                  "the real crate TLC decides per-section token equality Write-input vs Parse-output, byte equality of the rewrite, identity of (v,v) conversions (tokens and "
                  "bytes), preservation of the cross-version token of every Representable(a,b) section in memory and after write+parse for BOTH M2Converter::convert and "
                  "M2Model::convert on all 25 version pairs, resulting version = end of the spec's conversion path, header counts (num_skin_profiles / views.count) = ExpectedProfiles / ExpectedViewsAfterParse, "
                  "file contents after save(path) = written bytes, skin/anim conversions, and - by integer arithmetic on the "
                  "(count, offset, element size) triples an independent walker read from the bytes - that the announced arrays lie inside the file and are pairwise disjoint.",
    "level_note": "Observed only, as opaque tokens: all payloads (floats, key-frame bytes, names, vertices ...): a token is the digest of the Debug rendering of a section with "
                  "derived offsets projected away; TLC compares tokens, it does not interpret payload bytes. Stage A is a statement about the model; stages C+D bind the code. "
                  "Assumptions: objects are built in the canonical in-memory form a parse yields; chunked MD21 (Legion+) is not writable by the crate (M2Model::write emits MD20 "
                  "only) and is outside the check; element sizes of records the repo docs do not lay out come from the crate's doc comments and feed only the diagnostic "
                  "contiguity/order DRIFT lines; legacy .anim parsing is a placeholder in the crate (known finding). Samples, not proofs, over class members.",
    "technique": "TLA+ layout state machine model-checked with TLC; TLC-generated shapes replayed on wow-m2; TLC trace validation of per-section tokens and array layout",
    "design_ref": "DESIGN.md section 5, C13-C18 recipe and the C13 paragraph",
    "crates": ["c13"],
    "disabled": False,
}

# sections that lie in front of the texture table in a written M2 file (writer order)
BEFORE_TEXTURES = ["name", "global_sequences", "animations", "animation_lookup", "bones", "bones+", "key_bone_lookup", "vertices"]


def sig(b):
    """Class-level signature of one rejected (conjunct, section) pair, computed from the case."""
    r = b.get("reset") or {}
    rec = b.get("rec") or {}
    shape = r.get("shape") or {}
    fmt = r.get("fmt", "?")
    conj, sec = b.get("conj", b.get("why", "?")), b.get("section", "-")
    s = {"conj": conj, "section": sec, "fmt": fmt}
    if fmt == "m2":
        # the version whose writer/reader produced the observation
        s["ver"] = rec.get("to") if rec.get("ev") == "Convert" else r.get("ver")
        s["from"] = r.get("ver")
        s["kf"] = bool(r.get("kf"))
        s["named_tex"] = shape.get("textures", 0) > 0
        s["namelen"] = r.get("namelen", -1)
        s["texlen"] = r.get("texlen", -1)
        if rec.get("ev") == "Convert":
            s["api"] = rec.get("api")
        # array presence masks of the elements (bit 1 ranges, 2 timestamps, 4 values); ranges_only = some element's tracks
        # carry ranges but neither timestamps nor values
        am, rot = r.get("amask", -1), bool(r.get("arot"))
        masks = [] if am is None or am < 0 else ([(am + 3 * i) % 8 for i in range(3)] if rot else [am])
        s["amask"] = am
        s["ranges_only"] = 1 in masks
        s["sec_card"] = shape.get(sec.rstrip("+"), -1)
        # events carry a `ranges` array only for source versions < 264 (see assumptions)
        s["ev_ranges"] = bool(r.get("kf")) and shape.get("events", 0) > 0 and int(r.get("vn") or 0) < 264
        if sec == "views":
            s["views"] = shape.get("views", 0)
    elif fmt.startswith("skin"):
        s["submeshes"] = shape.get("submeshes", 0) > 0
        s["batches"] = shape.get("batches", 0) > 0
        s["indices_le4"] = shape.get("indices", 0) <= 4
        if rec.get("ev") == "Convert":
            s["to_old"] = rec.get("to") in ("Vanilla", "TBC", "WotLK")
    else:
        s["nsec"] = shape.get("nsec")
        s["nbones"] = shape.get("nbones")
        s["data"] = shape.get("data")
        if rec.get("ev") == "Convert":
            s["to_legacy"] = rec.get("to") == "MoP"
    if rec.get("note") and (conj.endswith("-res")):
        s["note"] = rec.get("note")
    return s


def split_bad(ctx, res):
    """Every <<"BAD", tl, "conjunct section">> line of TLC is one finding; only the why string is split."""
    out = []
    for b in res["bad"]:
        m = re.match(r'^"(\S+) (\S+)"$', str(b.get("why", "")).strip())
        if m:
            out.append(dict(b, conj=m.group(1), section=m.group(2)))
        else:              # guard-style rejection (event not explained by any action / stuck / invariant)
            out.append(dict(b, conj="unexplained", section="-"))
    return out


def run(ctx, cases_override=None, only=None):
    ctx.mc("MC_M2Layout", timeout=1500 if ctx.thorough else 150,
           expect_actions=["WriteHeader", "WriteEmptyRun", "WriteSection", "RelocateTail", "Finish", "Parse", "Rewrite", "Convert"])
    if cases_override:
        cases, ncases = cases_override, sum(1 for _ in open(cases_override))
    else:
        cases, ncases = ctx.gen("Gen_M2Layout", timeout=600)
    binary = ctx.build("c13")
    trace = ctx.harness(binary, cases, extra=([str(only)] if only is not None else []))
    res = ctx.validate("Trace_M2Layout", trace, shards=8, timeout=1500 if ctx.thorough else 170)
    bad = split_bad(ctx, res)
    kinds, samples, shapes = {}, [], set()
    with open(trace) as f:
        for line in f:
            r = json.loads(line)
            kinds[r["ev"]] = kinds.get(r["ev"], 0) + 1
            if r["ev"] == "Reset":
                shapes.add(json.dumps([r["fmt"], r["ver"], r["kf"], r["floats"], r["shape"], r.get("namelen", -1), r.get("texlen", -1), r.get("alias", 0), r.get("kfmask", -1), r.get("mask", -1), r.get("amask", -1), r.get("arot", False)], sort_keys=True))
            if kinds[r["ev"]] <= 1:
                s = dict(r)
                for k in ("secs", "psecs"):
                    if isinstance(s.get(k), dict):
                        s[k] = dict(list(s[k].items())[:3])
                if "arrs" in s:
                    s["arrs"] = s["arrs"][:4]
                samples.append(s)
    nontrivial = sum(1 for s in shapes if '"shape": {}' not in s and any(v for v in json.loads(s)[4].values() if v))
    cov = {
        "traces_validated_against_impl": res["traces"],
        "samples": samples,
        "events_by_kind": kinds,
        "cases_generated_by_tlc": ncases,
        "evaluations": res["events"] - res["traces"],
        "distinct_nontrivial": nontrivial,
        "rule": "counted from the Reset events of the trace actually validated: distinct (format, version, key-frame switch, float class, cardinality vector / anim shape, "
                "name length, texture-name length, aliasing pattern, per-element presence pattern, array presence mask) tuples with at least one populated section (a non-zero cardinality; for anim a non-zero section/bone count or data); "
                "every case is written, walked, parsed, rewritten and converted (M2: to all 5 versions through both public APIs; skin: 4 targets; anim: 2)",
        "exhaustive": False,
        "rejected_pairs": len(bad),
    }
    assumptions = [
        "content tokens are digests of the Debug rendering of each section with every `*offset: n` field projected away (offsets are derived positions; the "
        "key-frame bytes they point at are tokenised separately as `<section>+`); embedded views are compared on their sub-array bytes and bone_count_max",
        "objects are built in the canonical in-memory form a parse produces (tex_coords2 = Some, pre-WotLK tracks carry Some(ranges), version-appropriate "
        "Option fields of M2Animation / M2Bone / M2Camera / M2RibbonEmitter); bone indices of vertices stay below the bone count",
        "cross-version comparison uses the common fields of version-gated records (animations, bones, cameras, ribbon/particle emitters, header)",
        "a writer Err ends the behaviour (allowed); a writer panic is reported",
        "event ranges are generated only for versions < 264",
    ]
    return core.finish(ctx, "model_checking", cov, assumptions, bad, sig_fn=sig, trace=trace)


def replay(ctx, payload):
    cases, _ = ctx.gen("Gen_M2Layout", timeout=600)
    idx = int(str(payload.get("case", "0:")).split(":")[0])
    return run(ctx, cases_override=cases, only=idx)
