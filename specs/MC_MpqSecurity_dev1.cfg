CONSTANTS
  DevWrapRecord = TRUE
  DevMulOverflow = FALSE
  DevAMonZero = FALSE
INIT Init
NEXT Next
INVARIANTS InvMonBound InvCheckAgree
PROPERTIES PropGrow PropSticky
CHECK_DEADLOCK FALSE
