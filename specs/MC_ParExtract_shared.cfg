CONSTANT PresentAt <- MCPresentAt
CONSTANT StaleReuse = FALSE
CONSTANT SwapShorter = FALSE
CONSTANT DefaultBatch = 2
CONSTANT SwitchAt = 1
CONSTANT AdaptAt = 2
CONSTANT SharedHandle = TRUE
CONSTANT MaxLen = 3
CONSTANT MaxT = 2
CONSTANT MaxB = 2
INIT Init
NEXT Next
INVARIANT ScheduleIndependent
INVARIANT SlotsRight
INVARIANT HandleFresh
INVARIANT PartsCover
INVARIANT ConfigSane
INVARIANT Returns
CHECK_DEADLOCK FALSE
