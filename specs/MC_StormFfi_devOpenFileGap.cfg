CONSTANTS
  Threads = {t1, t2}
  ArchFiles = {"A", "B"}
  Names = {"f0", "f1"}
  Dev = {"OpenFileGap"}
  Budget = 1
  CallFns = {"OpenArchive", "CloseArchive", "OpenFileEx", "CloseFile", "ReadFile", "GetFileInfo", "AddFile", "VerifyArchive", "FindFirst", "FindNext", "FindClose"}
  MaxOpen = 5
  HashCap = 2
  Rich = FALSE
  PreOpen = 2
CONSTANT NextId <- MCNextId
INIT MCInit
NEXT MCNext
SYMMETRY Symm
VIEW LockView
INVARIANTS TypeOK CloseInvalidatesOwn NoOrphans CursorInRange IdsUnique NoSelfDeadlock NoHang NoWaitCycle LocksOwned
CHECK_DEADLOCK TRUE
