-------------------------- MODULE MC_MpqMapSpecials --------------------------
(***************************************************************************************************)
(* Stage (A) for the special-file sub-machine of C06 (growth round 4): the product MpqMap x        *)
(* MpqMapSpecials over two names, two spellings each, two content tokens, every kind of starting   *)
(* archive the builder writes (listfile yes/no x attributes none / CRC32 / CRC32+MD5+FILETIME),    *)
(* all histories within the block bound.                                                           *)
(*   MC_MpqMapSpecials.cfg       QDevs = {}: the design satisfies every invariant                  *)
(*   MC_MpqMapSpecials_devA.cfg  QDevs = {"delexact"}:  TLC must refute ListfileNoStale            *)
(*   MC_MpqMapSpecials_devB.cfg  QDevs = {"parseshift"}: TLC must refute AttrRowsDescribe          *)
(*   MC_MpqMapSpecials_devC.cfg  QDevs = {"parseshift"}: TLC must refute AttrUntouchedRowsKept     *)
(***************************************************************************************************)
EXTENDS MpqMapSpecials

CONSTANTS MaxBlocks,
          StartKinds    \* starting archives: subset of BOOLEAN (listfile) \X {"none", "crc", "full"} (attributes)

KindsQuick == {<<FALSE, "full">>, <<TRUE, "none">>, <<TRUE, "crc">>}
KindsAll   == BOOLEAN \X {"none", "crc", "full"}
AllN == Names \cup {LFN, ATN}
\* the builder's layout: files in the order they were added, then (listfile), then (attributes); one row per
\* block except the (attributes) block itself; a generated listfile names the special files too
StartLf(lfh, atk) == [has |-> lfh, lines |-> IF lfh THEN <<Line("a", 0), Line(LFN, 0)>> \o (IF atk # "none" THEN <<Line(ATN, 0)>> ELSE <<>>) ELSE <<>>,
                      crlf |-> TRUE]
StartBlk(lfh, atk) == [x \in AllN |-> CASE x = "a" -> 1 [] x = LFN -> (IF lfh THEN 2 ELSE 0)
                                          [] x = ATN -> (IF atk = "none" THEN 0 ELSE IF lfh THEN 3 ELSE 2) [] OTHER -> 0]
StartN(lfh, atk) == 1 + (IF lfh THEN 1 ELSE 0) + (IF atk = "none" THEN 0 ELSE 1)
StartAt(lfh, atk) == IF atk = "none" THEN NoAttrs
                     ELSE [has |-> TRUE, flags |-> IF atk = "crc" THEN {"crc"} ELSE {"crc", "md5", "ft"},
                           rows |-> <<Row("t0", IF atk = "crc" THEN "zero" ELSE "t0", IF atk = "crc" THEN "zero" ELSE "set")>>
                                     \o (IF lfh THEN <<Row("lf", IF atk = "crc" THEN "zero" ELSE "lf", IF atk = "crc" THEN "zero" ELSE "set")>> ELSE <<>>)]
MCInit == \E lfh \in BOOLEAN, atk \in {"none", "crc", "full"} :
             /\ <<lfh, atk>> \in StartKinds
             /\ MapInit([n \in Names |-> IF n = "a" THEN "t0" ELSE None], 8, StartN(lfh, atk) - 1)
             /\ QInit(StartLf(lfh, atk), StartAt(lfh, atk), StartBlk(lfh, atk), StartN(lfh, atk))

\* compact() is refused where a live file has no listed name (an archive without listfile)
Nameless == ~qlf.has /\ \E n \in Names : vsess[n] # None
MCCompact == ~Nameless /\ SCompact
MCCompactRefused == Nameless /\ SSessionRead
MCNext == \/ SOpen \/ SFlush \/ SClose \/ SSessionRead \/ MCCompact \/ MCCompactRefused
          \/ \E n \in Names, sp \in Spellings, c \in Toks, rep \in BOOLEAN : SAdd(n, sp, c, rep)
          \/ \E n \in Names, rep \in BOOLEAN : SAddFailExists(n, rep)
          \/ \E n \in Names, sp \in Spellings : SRemove(n, sp) \/ SRemoveFail(n)
          \/ \E a \in Names, b \in Names, spa \in Spellings, spb \in Spellings : SRename(a, spa, b, spb) \/ SRenameFail(a, b)
MCSpec == MCInit /\ [][MCNext]_<<mvars, qvars>>
\* the design never reads the view of the session's Archive object (qvnblk, qlfview: only the deviations do): hidden in the
\* configurations of the design so that states differing only there are explored once
DesignView == <<mvars, qlf, qat, qblk, qnblk, qmod, qadirty, qdsk>>
Bound == qnblk <= MaxBlocks /\ Len(qlf.lines) <= MaxBlocks
=============================================================================
