CONSTANTS
  SectorSize <- TrS
  TableSize = 16
  HetSize = 8
  UseHetBet = TRUE
  FlagFix <- TrFlagFix
  BetFix <- TrBetFix
  LibFileKey <- TrKey
INIT Init
NEXT Next
POSTCONDITION Accepted
CHECK_DEADLOCK FALSE
