--------------------------- MODULE MC_MpqBuildHash ---------------------------
(* Binds the literal name-hash tables of MC_MpqBuild to the MpqCrypto reference: TLC recomputes every   *)
(* entry with HashString and compares.  Run without -coverage (see MpqBuildNames).                      *)
EXTENDS MC_MpqBuild
ASSUME TableSize = 4
ASSUME \A nm \in NameU : LitNameHash(nm) = NameHashDef(nm) /\ LitFileKey(nm) = LibFileKeyDef(nm)
ASSUME PrintT(<<"HASH_TABLES_VERIFIED", Cardinality(NameU)>>)
HInit == BInitWith({<<F2>>})
HNext == UNCHANGED bvars
=============================================================================
