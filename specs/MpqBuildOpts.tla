----------------------------- MODULE MpqBuildOpts -----------------------------
(***************************************************************************)
(* The OPTION part of ArchiveBuilder (property C01): the setters           *)
(* generate_crcs / attributes_option / listfile_option as actions of a     *)
(* state machine -- builder.rs: they are NOT independent: generate_crcs(on) *)
(* switches a missing attributes file to CRC32, attributes_option(CRC32 |  *)
(* full) switches sector checksums on, and nothing switches anything off   *)
(* again -- so the option state build() sees is a function of the ORDER of  *)
(* the calls, not only of their arguments.  From that state build() derives *)
(* which internal special files the archive holds (prepare_listfile /       *)
(* write_attributes_file) and which names the generated (listfile) carries; *)
(* Archive::list() returns every listed name that find_file resolves.       *)
(*                                                                          *)
(* "any builder configuration" of the property = any option state that a    *)
(* sequence of setter calls reaches: all six (sector CRC, attributes)       *)
(* combinations, two of which (CRC off + attributes CRC32 / full) need the  *)
(* order attributes_option(..) ; generate_crcs(off), and one (CRC on +      *)
(* no attributes) the order generate_crcs(on) ; attributes_option(none).    *)
(***************************************************************************)
EXTENDS Integers, Sequences, FiniteSets, SequencesExt

CONSTANTS ListfileAttrSource   \* which option prepare_listfile consults for the "(attributes)" line:
                               \* "attrs" (as coded: attributes_option) | "crcs" (must-refute variant: generate_crcs)

AttrOpts == {"none", "crc32", "full"}
OptDefault == [crc |-> FALSE, attrs |-> "none", listfile |-> TRUE]          \* ArchiveBuilder::new()

\* ---- setters, functional core (one call = <<setter, argument>>, both strings as they appear in traces) ---------------
SetCrcs(o, on)    == [o EXCEPT !.crc = on, !.attrs = IF on /\ o.attrs = "none" THEN "crc32" ELSE o.attrs]
SetAttrs(o, a)    == [o EXCEPT !.attrs = a, !.crc = IF a # "none" THEN TRUE ELSE o.crc]
SetListfile(o, g) == [o EXCEPT !.listfile = g]
OptCalls == {<<"crcs", x>> : x \in {"on", "off"}} \cup {<<"attrs", a>> : a \in AttrOpts}
            \cup {<<"listfile", x>> : x \in {"generate", "none"}}
ApplyCall(o, c) == CASE c[1] = "crcs"     -> SetCrcs(o, c[2] = "on")
                     [] c[1] = "attrs"    -> SetAttrs(o, c[2])
                     [] c[1] = "listfile" -> SetListfile(o, c[2] = "generate")
                     [] OTHER             -> o
EffOpts(calls) == FoldLeft(ApplyCall, OptDefault, calls)

\* ---- what build() makes of the option state ---------------------------------------------------------------------------
LISTFILE == "(listfile)"
ATTRIBUTES == "(attributes)"
\* internal special files the archive holds
Specials(o) == (IF o.listfile THEN {LISTFILE} ELSE {}) \cup (IF o.attrs # "none" THEN {ATTRIBUTES} ELSE {})
ArchiveNames(o, added) == added \cup Specials(o)
\* lines of the generated (listfile)
NamesAttributesLine(o) == IF ListfileAttrSource = "attrs" THEN o.attrs # "none" ELSE o.crc
ListfileLines(o, added) == added \cup {LISTFILE} \cup (IF NamesAttributesLine(o) THEN {ATTRIBUTES} ELSE {})
\* Archive::list() with a listfile: every line that find_file resolves (a line naming a missing file is skipped)
Listing(o, added) == {n \in ListfileLines(o, added) : n \in ArchiveNames(o, added)}
\* every file of the archive occupies one block
BlockCount(o, added) == Cardinality(ArchiveNames(o, added))

\* ---- state machine --------------------------------------------------------------------------------------------------------
VARIABLES oph,      \* "config" | "built" | "listed"
          oopt,     \* the builder's option state
          ocalls,   \* the setter calls made so far (history; what the generator emits and the driver replays)
          olisted   \* what list() returned
ovars == <<oph, oopt, ocalls, olisted>>

OInit == oph = "config" /\ oopt = OptDefault /\ ocalls = <<>> /\ olisted = {}

OCall(c) == /\ oph = "config"
            /\ oopt' = ApplyCall(oopt, c) /\ ocalls' = Append(ocalls, c)
            /\ UNCHANGED <<oph, olisted>>
CallCrcs(on)    == OCall(<<"crcs", IF on THEN "on" ELSE "off">>)
CallAttrs(a)    == OCall(<<"attrs", a>>)
CallListfile(g) == OCall(<<"listfile", IF g THEN "generate" ELSE "none">>)
OBuild == oph = "config" /\ oph' = "built" /\ UNCHANGED <<oopt, ocalls, olisted>>
OList(added) == /\ oph = "built" /\ oopt.listfile
                /\ oph' = "listed" /\ olisted' = Listing(oopt, added)
                /\ UNCHANGED <<oopt, ocalls>>

\* ---- invariants -----------------------------------------------------------------------------------------------------------
\* the fold the trace specification uses is the stepwise machine
HistoryDeterminesOpts == oopt = EffOpts(ocalls)
\* THE listing conjunct of the property on the model: exactly the added names plus the internal special files the archive holds
ListingExact(added) == oph = "listed" => olisted = ArchiveNames(oopt, added)
ListingCountsBlocks(added) == oph = "listed" => Cardinality(olisted) = BlockCount(oopt, added)
\* the couplings never leave an attributes-less archive with checksums unless attributes were switched off afterwards, and
\* never leave checksums off with attributes unless checksums were switched off afterwards
LastCall(kind) == LET ix == {j \in 1..Len(ocalls) : ocalls[j][1] = kind} IN
                  IF ix = {} THEN 0 ELSE CHOOSE j \in ix : \A q \in ix : q <= j
CouplingShape ==
  /\ (oopt.crc /\ oopt.attrs = "none") => (LastCall("attrs") > 0 /\ ocalls[LastCall("attrs")][2] = "none")
  /\ (~oopt.crc /\ oopt.attrs # "none") => (LastCall("crcs") > LastCall("attrs") /\ ocalls[LastCall("crcs")][2] = "off")
=============================================================================
