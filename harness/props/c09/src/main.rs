//! C09 driver. Runs the parallel extraction interfaces of wow-mpq on the configurations TLC
//! generated, next to a sequential `Archive::read_file` reference, and records what came back.
//! It compares nothing: names and content digests are interned into small integers (a pure
//! encoding) and Trace_ParExtract decides slot by slot.
//!
//!   Reset {names: n, seqtok: [..]}   the sequential reference: token id of file id i (0 = Err)
//!   Par   {iface, arch, t, b, skip, run, req:[file ids, 0 = a name in no archive],
//!          call: ok|err|panic|hang, names:[returned name ids, -1 = foreign], toks:[token ids, 0 = Err]}
//!         set: which setters of ParallelConfig the caller invoked (t / b / s; "none" = ParallelConfig::default())
//!
//! The multi-archive helpers of parallel.rs (arch "W": pool of 12 archives, 0..24 of them per call): a slot is one
//! (archive, per-archive function) pair; the sequential reference of `search` / `process` is the same function applied
//! to one archive after the other on one thread (pseudo names "?search:<pattern>", "?proc:<class>" in the id table).
use std::collections::HashMap;
use std::path::{Path, PathBuf};
use std::sync::atomic::{AtomicBool, AtomicU64, Ordering};
use std::time::Duration;
use wow_mpq::single_archive_parallel::{extract_with_config, ParallelArchive, ParallelConfig};
use wow_mpq::{Archive, ArchiveBuilder, FormatVersion};
use wverif_common::*;

struct Arch {
    path: PathBuf,
    /// names in listfile order (without special files)
    files: Vec<String>,
    /// files that are in the archive but in no line of its (listfile): readable by name only
    unlisted: Vec<String>,
    /// global file id of files[0]
    base: usize,
}

struct WorldX {
    arch: HashMap<String, Arch>,
    multi: Vec<(PathBuf, Option<usize>)>, // M archives: path, global id of their common.txt (None: lacks it)
    /// (archive key, name) -> global id (1-based)
    ids: HashMap<(String, String), usize>,
    seqtok: Vec<u32>,
}

struct Interner {
    m: HashMap<String, u32>,
}
impl Interner {
    fn id(&mut self, data: &[u8]) -> u32 {
        let t = tok(data) + &format!(":{}", data.len());
        let n = self.m.len() as u32 + 1;
        *self.m.entry(t).or_insert(n)
    }
}

/// The spellings under which a name is requested: as listed, UPPER, lower, case-flipped, forward slashes.
/// The MPQ name hash folds case and separators, so SeqRead answers all of them alike; the listing does not.
fn spell(name: &str, how: &str) -> String {
    match how {
        "upper" => name.to_uppercase(),
        "lower" => name.to_lowercase(),
        "mixed" => name.chars().map(|c| if c.is_ascii_lowercase() { c.to_ascii_uppercase() } else { c.to_ascii_lowercase() }).collect(),
        "fwd" => name.replace('\\', "/"),
        _ => name.to_string(),
    }
}
const SPELLINGS: [&str; 5] = ["listed", "upper", "lower", "mixed", "fwd"];

fn build_archive(path: &Path, key: &str, seed: u64) -> (Vec<String>, Vec<String>) {
    let mut b = ArchiveBuilder::new();
    let mut names = Vec::new();
    let (count, shift) = match key {
        "S" => (40usize, 5u16),
        "N" => (30, 5), // the archive WITHOUT a (listfile)
        "E" => (60, 4),
        "L" => (1300, 3), // 4 KiB sectors: the long members are multi-sector
        _ => (0, 5),
    };
    b = b.block_size(shift).version(if key == "E" { FormatVersion::V2 } else { FormatVersion::V1 });
    for i in 0..count {
        let mut rng = Rng::derive(seed, &format!("c09-{key}-{i}"));
        let name = format!("Dir{:02}\\{}_{:04}.dat", i % 13, key.to_lowercase(), i);
        let long = key == "L" && i % 97 == 5;
        let len = if long { 9000 + rng.below(12000) as usize } else if i % 31 == 7 { 0 } else { 16 + rng.below(400) as usize };
        // multi-sector members: text stored compressed, and (every second one) random bytes stored RAW in several
        // sectors (readable since the builder sets the COMPRESS flag on every sectored file, fix 9cf2783)
        let raw_long = long && (i / 97) % 2 == 0;
        let data = if long { gen_content(if raw_long { "random" } else { "text" }, len, &mut rng) } else { gen_content(if i % 3 == 0 { "random" } else { "text" }, len, &mut rng) };
        let comp: u8 = match i % 4 {
            0 => 0x02,
            1 => 0x10,
            2 => 0,
            _ => 0x02,
        };
        let comp = if raw_long { 0 } else if long { 0x02 } else { comp };
        let encrypt = key == "E" || (key == "L" && i % 50 == 3);
        b = b.add_file_data_with_options(data, &name, comp, encrypt, 0);
        names.push(name);
    }
    // S and E carry an external (listfile) that does not mention every tenth file
    let mut unlisted = Vec::new();
    if key == "S" || key == "E" {
        let (listed, un): (Vec<(usize, String)>, Vec<(usize, String)>) = names.iter().cloned().enumerate().partition(|(i, _)| i % 10 != 9);
        unlisted = un.into_iter().map(|(_, n)| n).collect();
        names = listed.into_iter().map(|(_, n)| n).collect();
        let lf = path.with_extension("listfile.txt");
        let mut text = names.join("\r\n");
        text.push_str("\r\n(listfile)\r\n");
        std::fs::write(&lf, text).unwrap_or_else(|e| tool_error(&format!("write listfile: {e}")));
        b = b.listfile_option(wow_mpq::ListfileOption::External(lf));
    }
    if key == "N" {
        b = b.listfile_option(wow_mpq::ListfileOption::None);
    }
    b.build(path).unwrap_or_else(|e| tool_error(&format!("building {key}: {e}")));
    (names, unlisted)
}

/// Generation g of the archive that lives at ONE path: other contents for every file, files with i % 5 == g are
/// absent, and each generation has three files of its own.
fn build_generation(path: &Path, g: usize, seed: u64) -> Vec<String> {
    let mut b = ArchiveBuilder::new();
    let mut names = Vec::new();
    for i in 0..45usize {
        if i % 5 == g {
            continue;
        }
        let mut rng = Rng::derive(seed, &format!("c09-G{g}-{i}"));
        let name = format!("Gen\\file_{i:03}.dat");
        let len = 40 + rng.below(300) as usize;
        b = b.add_file_data_with_options(gen_content(if i % 2 == 0 { "random" } else { "text" }, len, &mut rng), &name, if i % 3 == 0 { 0 } else { 0x02 }, i % 7 == 0, 0);
        names.push(name);
    }
    for k in 0..3 {
        let mut rng = Rng::derive(seed, &format!("c09-G{g}-own-{k}"));
        let name = format!("Gen\\only_in_{g}_{k}.dat");
        b = b.add_file_data(rng.bytes(64 + 10 * k), &name);
        names.push(name);
    }
    b.build(path).unwrap_or_else(|e| tool_error(&format!("building generation {g}: {e}")));
    names
}

const GENERATIONS: usize = 3;

/// pool of the multi-archive helpers: M0..M11 (M5 lacks the shared file)
const MULTI_POOL: usize = 12;
const LACKING: usize = 5;
/// pattern classes of search_in_multiple_archives: every file | one file per archive | a file of ONE archive only
const SEARCH_PAT: [&str; 3] = ["txt", "unique_", "unique_3."];
/// the per-archive function given to process_archives_parallel, by class: read the shared file (fails where it is
/// lacking) | the listing | the number of files (equal for most archives)
fn proc_class(class: usize, a: &mut Archive) -> wow_mpq::Result<Vec<u8>> {
    match class {
        1 => a.read_file("common.txt"),
        2 => Ok(a.list()?.into_iter().map(|e| e.name).collect::<Vec<_>>().join("\n").into_bytes()),
        _ => Ok(format!("{} files", a.list()?.len()).into_bytes()),
    }
}
fn search_seq(a: &mut Archive, pat: &str) -> wow_mpq::Result<Vec<String>> {
    Ok(a.list()?.into_iter().filter(|e| e.name.contains(pat)).map(|e| e.name).collect())
}

fn build_world(dir: &Path, seed: u64, intern: &mut Interner) -> WorldX {
    let mut arch = HashMap::new();
    let mut ids = HashMap::new();
    let mut seqtok: Vec<u32> = Vec::new();
    let seq_read = |intern: &mut Interner, path: &Path, key: &str, files: &[String], ids: &mut HashMap<(String, String), usize>, seqtok: &mut Vec<u32>| {
        // THE sequential reference: one plain handle, one read_file after the other -- under the EXACT string that
        // will be requested: every spelling of a name is a request of its own with its own sequential answer
        let mut a = Archive::open(path).unwrap_or_else(|e| tool_error(&format!("open {key}: {e}")));
        let spellings: &[&str] = if key == "L" { &SPELLINGS[..1] } else { &SPELLINGS[..] };
        for f in files {
            for how in spellings {
                let sp = spell(f, how);
                if ids.contains_key(&(key.to_string(), sp.clone())) {
                    continue;
                }
                let t = match guarded(|| a.read_file(&sp)) {
                    Outcome::Done(Ok(d)) => intern.id(&d),
                    _ => 0,
                };
                seqtok.push(t);
                ids.insert((key.to_string(), sp), seqtok.len());
            }
        }
    };
    // provenance of the listing: S, E external listfile omitting files; L generated listfile; N no listfile at all
    for key in ["S", "E", "L", "N"] {
        let path = dir.join(format!("{key}.mpq"));
        let (files, unlisted) = build_archive(&path, key, seed);
        let base = seqtok.len() + 1;
        seq_read(intern, &path, key, &files, &mut ids, &mut seqtok);
        seq_read(intern, &path, key, &unlisted, &mut ids, &mut seqtok);
        seq_read(intern, &path, key, &["(listfile)".to_string()], &mut ids, &mut seqtok); // (in N: a name the archive lacks)
        arch.insert(key.to_string(), Arch { path, files, unlisted, base });
    }
    // the generations of G: each is written to THE path, read sequentially there (the reference), then replaced
    let gpath = dir.join("G.mpq");
    for g in 0..GENERATIONS {
        let files = build_generation(&gpath, g, seed);
        let key = format!("G{g}");
        let base = seqtok.len() + 1;
        seq_read(intern, &gpath, &key, &files, &mut ids, &mut seqtok);
        seq_read(intern, &gpath, &key, &["(listfile)".to_string()], &mut ids, &mut seqtok);
        arch.insert(key, Arch { path: gpath.clone(), files, unlisted: Vec::new(), base });
    }
    let mut multi = Vec::new();
    for i in 0..MULTI_POOL {
        let path = dir.join(format!("M{i}.mpq"));
        let key = format!("M{i}");
        let mut b = ArchiveBuilder::new().add_file_data(format!("only in {i}").into_bytes(), &format!("unique_{i}.txt"));
        let mut files = vec![format!("unique_{i}.txt")];
        if i != LACKING {
            let mut rng = Rng::derive(seed, &format!("c09-M-{i}"));
            b = b.add_file_data(rng.bytes(100 + 50 * i), "common.txt");
            files.push("common.txt".to_string());
        }
        b.build(&path).unwrap_or_else(|e| tool_error(&format!("building {key}: {e}")));
        seq_read(intern, &path, &key, &files, &mut ids, &mut seqtok);
        // the sequential reference of the per-archive functions: one handle, one call after the other
        {
            let mut a = Archive::open(&path).unwrap_or_else(|e| tool_error(&format!("open {key}: {e}")));
            for pat in SEARCH_PAT {
                let t = match guarded(|| search_seq(&mut a, pat)) {
                    Outcome::Done(Ok(v)) => intern.id(v.join("\n").as_bytes()),
                    _ => 0,
                };
                seqtok.push(t);
                ids.insert((key.clone(), format!("?search:{pat}")), seqtok.len());
            }
            for class in 1..=3usize {
                let t = match guarded(|| proc_class(class, &mut a)) {
                    Outcome::Done(Ok(d)) => intern.id(&d),
                    _ => 0,
                };
                seqtok.push(t);
                ids.insert((key.clone(), format!("?proc:{class}")), seqtok.len());
            }
        }
        let cid = ids.get(&(key.clone(), "common.txt".to_string())).copied();
        multi.push((path, cid));
    }
    WorldX { arch, multi, ids, seqtok }
}

// ---- schedule perturbation -----------------------------------------------------------------

static HOOK_SEED: AtomicU64 = AtomicU64::new(1);
#[allow(dead_code)]
fn yield_hook(_tag: &'static str) {
    thread_local!(static R: std::cell::Cell<u64> = const { std::cell::Cell::new(0) });
    R.with(|r| {
        let mut x = r.get();
        if x == 0 {
            x = HOOK_SEED.fetch_add(0x9E37_79B9, Ordering::Relaxed) | 1;
        }
        x ^= x << 13;
        x ^= x >> 7;
        x ^= x << 17;
        r.set(x);
        match x % 8 {
            0..=3 => std::thread::yield_now(),
            4 | 5 => {
                let until = std::time::Instant::now() + Duration::from_micros(1 + (x >> 8) % 60);
                while std::time::Instant::now() < until {
                    std::hint::spin_loop();
                }
            }
            6 => std::thread::sleep(Duration::from_micros(50 + (x >> 8) % 150)),
            _ => {}
        }
    });
}

/// One thread pool per thread count, kept for the whole driver run: worker threads -- and anything they keep in
/// thread-locals -- survive from call to call and across replacements of an archive, as in a real process.
fn in_pool<T: Send>(t: usize, f: impl FnOnce() -> T + Send) -> T {
    static POOLS: std::sync::Mutex<Vec<(usize, std::sync::Arc<rayon::ThreadPool>)>> = std::sync::Mutex::new(Vec::new());
    let pool = {
        let mut g = POOLS.lock().unwrap();
        match g.iter().find(|(n, _)| *n == t) {
            Some((_, p)) => p.clone(),
            None => {
                let p = std::sync::Arc::new(
                    rayon::ThreadPoolBuilder::new().num_threads(t).build().unwrap_or_else(|e| tool_error(&format!("pool: {e}"))),
                );
                g.push((t, p.clone()));
                p
            }
        }
    };
    pool.install(f)
}

// ---- one configuration -----------------------------------------------------------------------

struct Obs {
    call: String,
    names: Vec<i64>,
    toks: Vec<u32>,
}

fn request(w: &WorldX, c: &Value, key: &str, rng: &mut Rng) -> (Vec<String>, Vec<usize>) {
    let a = &w.arch[key];
    let n = gi(c, "n") as usize;
    let off = rng.below(a.files.len() as u64) as usize;
    let stride = if rng.chance(1, 2) { 1 } else { 7 };
    let mut names: Vec<String> = (0..n).map(|i| a.files[(off + i * stride) % a.files.len()].clone()).collect();
    match gs(c, "dup") {
        "adj" if n >= 2 => names[1] = names[0].clone(),
        "far" if n >= 2 => names[n - 1] = names[0].clone(),
        _ => {}
    }
    let miss: Vec<usize> = match gs(c, "miss") {
        "first" if n > 0 => vec![0],
        "middle" if n > 0 => vec![n / 2],
        "last" if n > 0 => vec![n - 1],
        "all" => (0..n).collect(),
        _ => vec![],
    };
    for i in miss {
        names[i] = format!("missing\\file_{i}.bin");
    }
    if gs(c, "miss") == "gone" && n > 0 {
        // a name the previous generation of this path had and the current one has not
        if let Some(g) = key.strip_prefix('G').and_then(|x| x.parse::<usize>().ok()) {
            let prev = &w.arch[&format!("G{}", (g + GENERATIONS - 1) % GENERATIONS)];
            if let Some(nm) = prev.files.iter().find(|f| !a.files.contains(f)) {
                names[n / 2] = nm.clone();
            }
        }
    }
    // spelling class of the request (SeqRead is defined on the name hash, not on the listing)
    match c.get("spell").and_then(|x| x.as_str()).unwrap_or("listed") {
        "special" if n > 0 => names[0] = "(listfile)".to_string(),
        "unlisted" if n > 0 && !a.unlisted.is_empty() => names[0] = a.unlisted[off % a.unlisted.len()].clone(),
        how @ ("upper" | "lower" | "mixed" | "fwd") => names = names.iter().map(|s| spell(s, how)).collect(),
        _ => {}
    }
    let key = key.to_string();
    let ids = names.iter().map(|s| w.ids.get(&(key.clone(), s.clone())).copied().unwrap_or(0)).collect();
    (names, ids)
}

fn name_id(w: &WorldX, key: &str, s: &str) -> i64 {
    // a name that is not in this archive (generation) has id 0, like the "missing" names of the requests
    w.ids.get(&(key.to_string(), s.to_string())).map(|&x| x as i64).unwrap_or(0)
}

/// one slot per chain entry in chain order (named by the archive's own file, read through the chain), then one
/// slot for the winner of the name every archive shares
fn chain_slots(w: &WorldX, chain: &mut wow_mpq::PatchChain, tokid: &dyn Fn(&[u8]) -> u32) -> (Vec<i64>, Vec<u32>) {
    let mut names = Vec::new();
    let mut toks = Vec::new();
    for info in chain.get_chain_info() {
        let k = w.multi.iter().position(|(p, _)| *p == info.path);
        match k {
            Some(k) => {
                let f = format!("unique_{k}.txt");
                names.push(w.ids.get(&(format!("M{k}"), f.clone())).map(|&x| x as i64).unwrap_or(-1));
                toks.push(chain.read_file(&f).map(|d| tokid(&d)).unwrap_or(0));
            }
            None => {
                names.push(-1);
                toks.push(0);
            }
        }
    }
    if let Some(p) = chain.find_file_archive("common.txt").map(|p| p.to_path_buf()) {
        let id = w.multi.iter().find(|(q, _)| *q == p).and_then(|(_, id)| *id).map(|x| x as i64).unwrap_or(-1);
        names.push(id);
        toks.push(chain.read_file("common.txt").map(|d| tokid(&d)).unwrap_or(0));
    }
    (names, toks)
}

fn run_once(w: &WorldX, c: &Value, key: &str, names: &[String], intern: &std::sync::Mutex<Interner>) -> Obs {
    let iface = gs(c, "iface").to_string();
    let key = key.to_string();
    let t = gi(c, "t") as usize;
    let b = gi(c, "b") as usize;
    let skip = gb(c, "skip");
    let refs: Vec<&str> = names.iter().map(|s| s.as_str()).collect();
    let tokid = |d: &[u8]| intern.lock().unwrap().id(d);
    let out = guarded(|| -> Result<(Vec<i64>, Vec<u32>), String> {
        match iface.as_str() {
            "with_config" => {
                // only the setters the case names are invoked: everything else stays at ParallelConfig's defaults
                let set = c.get("set").and_then(|x| x.as_str()).unwrap_or("tbs");
                let mut cfg = if set == "none" { ParallelConfig::default() } else { ParallelConfig::new() };
                if set.contains('t') {
                    cfg = cfg.threads(t);
                }
                if set.contains('b') {
                    cfg = cfg.batch_size(b);
                }
                if set.contains('s') {
                    cfg = cfg.skip_errors(skip);
                }
                let r = extract_with_config(&w.arch[&key].path, &refs, cfg).map_err(|e| variant_name(&e))?;
                Ok((r.iter().map(|(n, _)| name_id(w, &key, n)).collect(),
                    r.iter().map(|(_, d)| d.as_ref().map(|d| tokid(d)).unwrap_or(0)).collect()))
            }
            "files_parallel" | "files_batched" | "process" | "matching" => {
                let pa = ParallelArchive::open(&w.arch[&key].path).map_err(|e| variant_name(&e))?;
                let r: Vec<(String, u32)> = in_pool(t, || match iface.as_str() {
                    "files_parallel" => pa.extract_files_parallel(&refs).map(|v| v.into_iter().map(|(n, d)| (n, tokid(&d))).collect()),
                    "files_batched" => pa.extract_files_batched(&refs, b).map(|v| v.into_iter().map(|(n, d)| (n, tokid(&d))).collect()),
                    "process" => pa.process_files_parallel(&refs, |n, d| Ok((n.to_string(), tokid(&d)))),
                    _ => {
                        let set: std::collections::HashSet<&str> = refs.iter().copied().collect();
                        pa.extract_matching_parallel(|n| set.contains(n)).map(|v| v.into_iter().map(|(n, d)| (n, tokid(&d))).collect())
                    }
                })
                .map_err(|e| variant_name(&e))?;
                Ok((r.iter().map(|(n, _)| name_id(w, &key, n)).collect(), r.iter().map(|(_, t)| *t).collect()))
            }
            "multi_search" | "multi_process" => {
                // names = archive paths, "|", pattern / processor class
                let cut = names.iter().position(|s| s == "|").unwrap_or(names.len());
                let paths: Vec<PathBuf> = names[..cut].iter().map(PathBuf::from).collect();
                let arg = names.get(cut + 1).cloned().unwrap_or_default();
                let id_of = |p: &Path, f: &str| -> i64 {
                    match w.multi.iter().position(|(q, _)| q == p) {
                        Some(k) => w.ids.get(&(format!("M{k}"), f.to_string())).map(|&x| x as i64).unwrap_or(0),
                        None => -1,
                    }
                };
                if iface == "multi_search" {
                    let r = in_pool(t, || wow_mpq::parallel::search_in_multiple_archives(&paths, &arg)).map_err(|e| variant_name(&e))?;
                    let f = format!("?search:{arg}");
                    Ok((r.iter().map(|(p, _)| id_of(p, &f)).collect(), r.iter().map(|(_, v)| tokid(v.join("\n").as_bytes())).collect()))
                } else {
                    let class: usize = arg.parse().unwrap_or(1);
                    // the processor reports the archive it was given (its path) next to its result
                    let r: Vec<(PathBuf, u32)> = in_pool(t, || {
                        wow_mpq::parallel::process_archives_parallel(&paths, |mut a| {
                            let p = a.path().to_path_buf();
                            let d = proc_class(class, &mut a)?;
                            Ok((p, tokid(&d)))
                        })
                    })
                    .map_err(|e| variant_name(&e))?;
                    let f = format!("?proc:{class}");
                    Ok((r.iter().map(|(p, _)| id_of(p, &f)).collect(), r.iter().map(|(_, t)| *t).collect()))
                }
            }
            "multi" | "multi_many" => {
                // names = archive paths, "|", file names
                let cut = names.iter().position(|s| s == "|").unwrap_or(names.len());
                let paths: Vec<PathBuf> = names[..cut].iter().map(PathBuf::from).collect();
                let fnames: Vec<&str> = names[(cut + 1).min(names.len())..].iter().map(|s| s.as_str()).collect();
                let id_of = |p: &Path, f: &str| -> i64 {
                    match w.multi.iter().position(|(q, _)| q == p) {
                        Some(k) => w.ids.get(&(format!("M{k}"), f.to_string())).map(|&x| x as i64).unwrap_or(0),
                        None => -1,
                    }
                };
                if iface == "multi" {
                    let r = in_pool(t, || wow_mpq::parallel::extract_from_multiple_archives(&paths, fnames[0])).map_err(|e| variant_name(&e))?;
                    Ok((r.iter().map(|(p, _)| id_of(p, fnames[0])).collect(), r.iter().map(|(_, d)| tokid(d)).collect()))
                } else {
                    let r = in_pool(t, || wow_mpq::parallel::extract_multiple_from_multiple_archives(&paths, &fnames))
                        .map_err(|e| variant_name(&e))?;
                    // one slot per (archive, requested name), archives in argument order, names in request order
                    let mut nm = Vec::new();
                    let mut tk = Vec::new();
                    for (p, files) in &r {
                        for (f, d) in files {
                            nm.push(id_of(p, f));
                            tk.push(tokid(d));
                        }
                    }
                    Ok((nm, tk))
                }
            }
            "chain_par" | "chain_addpar" => {
                // names = "<path>|<priority>" in argument order
                let list: Vec<(PathBuf, i32)> = names
                    .iter()
                    .map(|s| {
                        let (p, pr) = s.rsplit_once('|').unwrap();
                        (PathBuf::from(p), pr.parse().unwrap())
                    })
                    .collect();
                let mut chain = in_pool(t, || {
                    if iface == "chain_par" {
                        wow_mpq::PatchChain::from_archives_parallel(list.clone())
                    } else {
                        let mut c = wow_mpq::PatchChain::new();
                        c.add_archives_parallel(list.clone()).map(|_| c)
                    }
                })
                .map_err(|e| variant_name(&e))?;
                Ok(chain_slots(w, &mut chain, &tokid))
            }
            other => tool_error(&format!("unknown interface {other}")),
        }
    });
    match out {
        Outcome::Done(Ok((n, t))) => Obs { call: "ok".into(), names: n, toks: t },
        Outcome::Done(Err(_)) => Obs { call: "err".into(), names: vec![], toks: vec![] },
        Outcome::Panic(_) => Obs { call: "panic".into(), names: vec![], toks: vec![] },
        Outcome::Hang => Obs { call: "hang".into(), names: vec![], toks: vec![] },
    }
}

/// TLC's JSON reader is quadratic in the length of an array: long arrays are logged as arrays of
/// chunks of <= 64 elements (Trace_ParExtract flattens them again).
fn chunked<T: serde::Serialize + Clone>(v: &[T]) -> Value {
    Value::Array(v.chunks(64).map(|c| json!(c)).collect())
}

fn main() {
    let a = args();
    install_quiet_panic_hook();
    let cases = read_cases(&a.cases);
    let trace = Trace::create(&a.trace);
    let seed = seed();
    let scratch = Scratch::new("c09");
    let mut interner = Interner { m: HashMap::new() };
    let w = build_world(&scratch.path, seed, &mut interner);
    let intern = std::sync::Mutex::new(interner);
    let runs = if thorough() { 6 } else { 2 };
    #[cfg(have_verif_yield)]
    {
        HOOK_SEED.store(seed.wrapping_mul(0x2545_F491_4F6C_DD1D) | 1, Ordering::Relaxed);
        wow_mpq::verif::set_yield_hook(Some(yield_hook));
    }
    let hooked = cfg!(have_verif_yield);
    let reset = |case: &str| json!({"ev":"Reset","case":case,"hook":hooked,"seqtok":chunked(&w.seqtok)});
    let stop = AtomicBool::new(false);
    std::thread::scope(|s| {
        // CPU contention while the parallel calls run
        for _ in 0..(if thorough() { 16 } else { 6 }) {
            s.spawn(|| {
                let mut x = 1u64;
                while !stop.load(Ordering::Relaxed) {
                    for _ in 0..20_000 {
                        x = x.wrapping_mul(6364136223846793005).wrapping_add(1442695040888963407);
                    }
                    std::hint::black_box(x);
                    if x % 7 == 0 {
                        std::thread::yield_now();
                    }
                }
            });
        }
        let mut since = usize::MAX;
        for (ci, c) in cases.iter().enumerate() {
            if gs(c, "kind") != "cfg" || gs(c, "arch") == "G" {
                continue;
            }
            let big = gi(c, "n") > 500;
            if since >= 60 || big {
                trace.ev(reset(&format!("{ci}:reset")));
                since = 0;
            }
            let iface = gs(c, "iface");
            let case = format!("{ci}:{iface}:{}", gs(c, "arch"));
            let mut rng = Rng::derive(seed, &format!("c09-case-{ci}"));
            let (names, ids): (Vec<String>, Vec<usize>) = match iface {
                "multi" | "multi_many" | "multi_search" | "multi_process" if gs(c, "arch") == "W" => {
                    // the ARCHIVE COUNT as a dimension: n archives of the pool (all but the one lacking the shared file) in seeded
                    // order, cyclic beyond the pool; dup = "adj": the same archive twice; miss: at that position an archive the
                    // per-archive function fails on (lacks the shared file), or, where the function does not need the file, a
                    // path that does not exist.  b = class of the per-archive function.
                    let n = gi(c, "n") as usize;
                    let b = (gi(c, "b") as usize).max(1);
                    let mut order: Vec<usize> = (0..MULTI_POOL).filter(|&i| i != LACKING).collect();
                    for i in (1..order.len()).rev() {
                        order.swap(i, rng.below(i as u64 + 1) as usize);
                    }
                    let mut sel: Vec<usize> = (0..n).map(|i| order[i % order.len()]).collect();
                    if gs(c, "dup") == "adj" && n >= 2 {
                        sel[1] = sel[0];
                    }
                    let pos = match gs(c, "miss") {
                        "first" => Some(0),
                        "middle" => Some(n / 2),
                        "last" => Some(n.saturating_sub(1)),
                        _ => None,
                    };
                    let needs_file = matches!(iface, "multi" | "multi_many") || (iface == "multi_process" && b == 1);
                    if let (Some(p), true) = (pos, n > 0) {
                        sel[p] = if needs_file { LACKING } else { usize::MAX };
                    }
                    let fargs: Vec<String> = match iface {
                        "multi" => vec!["common.txt".to_string()],
                        "multi_many" => (0..b).map(|i| spell("common.txt", SPELLINGS[i % 5])).collect(),
                        "multi_search" => vec![SEARCH_PAT[(b - 1) % 3].to_string()],
                        _ => vec![b.to_string()],
                    };
                    let keys: Vec<String> = match iface {
                        "multi" | "multi_many" => fargs.clone(),
                        "multi_search" => vec![format!("?search:{}", fargs[0])],
                        _ => vec![format!("?proc:{b}")],
                    };
                    let mut names: Vec<String> = sel
                        .iter()
                        .map(|&i| if i == usize::MAX { scratch.path.join("no-such-archive.mpq") } else { w.multi[i].0.clone() }.to_string_lossy().to_string())
                        .collect();
                    names.push("|".to_string());
                    names.extend(fargs.iter().cloned());
                    let mut ids = Vec::new();
                    for &k in &sel {
                        for f in &keys {
                            ids.push(if k == usize::MAX { 0 } else { w.ids.get(&(format!("M{k}"), f.clone())).copied().unwrap_or(0) });
                        }
                    }
                    (names, ids)
                }
                "multi" | "multi_many" => {
                    // n archives of M0..M4 in seeded order (dup = "adj": the same archive twice; miss: M5, which lacks
                    // the shared file, at that position); file names: the shared file under the spelling class
                    // (multi_many: b names -- distinct spellings, or with dup = "adj" the SAME string repeated, or with
                    // miss = "all" one name that no archive has)
                    let n = gi(c, "n") as usize;
                    let mut order: Vec<usize> = (0..5).collect();
                    for i in (1..5).rev() {
                        order.swap(i, rng.below(i as u64 + 1) as usize);
                    }
                    let mut sel: Vec<usize> = order.into_iter().take(n).collect();
                    let dup = gs(c, "dup");
                    if dup == "adj" && iface == "multi" && n >= 2 {
                        sel[1] = sel[0];
                    }
                    let pos = match gs(c, "miss") {
                        "first" => Some(0),
                        "middle" => Some(n / 2),
                        "last" => Some(n.saturating_sub(1)),
                        _ => None,
                    };
                    if let (Some(p), true) = (pos, n > 0) {
                        sel[p] = 5; // the archive without common.txt
                    }
                    let how = c.get("spell").and_then(|x| x.as_str()).unwrap_or("listed");
                    let fnames: Vec<String> = if iface == "multi" {
                        vec![spell("common.txt", how)]
                    } else {
                        let b = (gi(c, "b") as usize).max(1);
                        let mut v: Vec<String> =
                            (0..b).map(|i| if dup == "adj" { spell("common.txt", how) } else { spell("common.txt", SPELLINGS[(i + SPELLINGS.iter().position(|x| *x == how).unwrap_or(0)) % 5]) }).collect();
                        if gs(c, "miss") == "all" {
                            v[b / 2] = "nothere.txt".to_string();
                        }
                        v
                    };
                    let mut names: Vec<String> = sel.iter().map(|&i| w.multi[i].0.to_string_lossy().to_string()).collect();
                    names.push("|".to_string());
                    names.extend(fnames.iter().cloned());
                    let mut ids = Vec::new();
                    for &k in &sel {
                        for f in &fnames {
                            ids.push(w.ids.get(&(format!("M{k}"), f.clone())).copied().unwrap_or(0));
                        }
                    }
                    (names, ids)
                }
                "chain_par" | "chain_addpar" => {
                    // argument list: n of the M archives in seeded order, priorities by pattern b
                    // (0 all equal, 1 ascending, 2 descending, 3 two alternating levels, 4 with a negative and a tie);
                    // miss = "middle": one path does not exist. The expected slots come from the SEQUENTIAL
                    // construction (add_archive one by one), the reference of C09 for this interface.
                    let n = gi(c, "n") as usize;
                    let mut order: Vec<usize> = (0..6).collect();
                    for i in (1..6).rev() {
                        order.swap(i, rng.below(i as u64 + 1) as usize);
                    }
                    let pat = gi(c, "b");
                    let prio = |i: usize| -> i32 {
                        match pat {
                            0 => 7,
                            1 => i as i32,
                            2 => 10 - i as i32,
                            3 => (i % 2) as i32 * 5,
                            _ => [-1, 0, 0, 5, -1, 5][i % 6],
                        }
                    };
                    let mut list: Vec<(PathBuf, i32)> = order.iter().take(n).enumerate().map(|(i, &k)| (w.multi[k].0.clone(), prio(i))).collect();
                    if gs(c, "miss") == "middle" && n > 0 {
                        list[n / 2].0 = scratch.path.join("no-such-archive.mpq");
                    }
                    let mut seq = wow_mpq::PatchChain::new();
                    let ok = list.iter().all(|(p, pr)| seq.add_archive(p, *pr).is_ok());
                    let ids: Vec<usize> = if ok {
                        let tk = |_: &[u8]| 0u32;
                        chain_slots(&w, &mut seq, &tk).0.iter().map(|&x| x.max(0) as usize).collect()
                    } else {
                        vec![0]
                    };
                    (list.iter().map(|(p, pr)| format!("{}|{}", p.to_string_lossy(), pr)).collect(), ids)
                }
                "matching" => {
                    // the request is a predicate: file index (listfile order) mod n == b; the expected
                    // answer is the sequential listing filtered by it
                    let ar = &w.arch[gs(c, "arch")];
                    let (m, r) = (gi(c, "n") as usize, gi(c, "b") as usize);
                    let names: Vec<String> = ar.files.iter().enumerate().filter(|(i, _)| i % m == r % m).map(|(_, s)| s.clone()).collect();
                    let ids = names.iter().map(|s| w.ids[&(gs(c, "arch").to_string(), s.clone())]).collect();
                    (names, ids)
                }
                _ => request(&w, c, gs(c, "arch"), &mut rng),
            };
            let runs = if big { 2 } else { runs };
            for run in 0..runs {
                let w2 = &w;
                let c2 = c.clone();
                let names2 = names.clone();
                let intern2 = &intern;
                // watchdog without 'static: run on a scoped thread and wait with a timeout
                let (tx, rx) = std::sync::mpsc::channel();
                let h = s.spawn(move || {
                    let o = run_once(w2, &c2, gs(&c2, "arch"), &names2, intern2);
                    let _ = tx.send(o);
                });
                let o = match rx.recv_timeout(Duration::from_secs(300)) {
                    Ok(o) => {
                        let _ = h.join();
                        o
                    }
                    Err(_) => Obs { call: "hang".into(), names: vec![], toks: vec![] },
                };
                trace.ev(json!({"ev":"Par","case":case,"iface":iface,"arch":gs(c,"arch"),"t":gi(c,"t"),"b":gi(c,"b"),
                    "n":gi(c,"n"),"skip":gb(c,"skip"),"miss":gs(c,"miss"),"dup":gs(c,"dup"),"spell":c.get("spell").and_then(|x| x.as_str()).unwrap_or("listed"),"set":c.get("set").and_then(|x| x.as_str()).unwrap_or("tbs"),"run":run,"gen":0,
                    "req":chunked(&ids),"call":o.call,"names":chunked(&o.names),"toks":chunked(&o.toks)}));
                since += 1;
                if o.call == "hang" {
                    trace.flush();
                    stop.store(true, Ordering::Relaxed);
                    std::process::exit(0); // a hung call cannot be joined; the trace says so
                }
            }
        }
        // ---- generations: one path, successive archives, the same process and the same pools ------------------
        let gcases: Vec<usize> = (0..cases.len()).filter(|&i| gs(&cases[i], "kind") == "cfg" && gs(&cases[i], "arch") == "G").collect();
        if !gcases.is_empty() {
            let gpath = w.arch["G0"].path.clone();
            for round in 0..(GENERATIONS + 1) {
                let g = round % GENERATIONS; // 0, 1, 2 and back to 0: every generation is entered from another one
                build_generation(&gpath, g, seed);
                let key = format!("G{g}");
                trace.ev(reset(&format!("gen{round}:reset")));
                for &ci in &gcases {
                    let c = &cases[ci];
                    let iface = gs(c, "iface");
                    let case = format!("{ci}:{iface}:G:gen{g}");
                    let mut rng = Rng::derive(seed, &format!("c09-case-{ci}-g{g}"));
                    let (names, ids): (Vec<String>, Vec<usize>) = if iface == "matching" {
                        let ar = &w.arch[&key];
                        let (m, r) = (gi(c, "n") as usize, gi(c, "b") as usize);
                        let names: Vec<String> = ar.files.iter().enumerate().filter(|(i, _)| i % m == r % m).map(|(_, s)| s.clone()).collect();
                        let ids = names.iter().map(|s| w.ids[&(key.clone(), s.clone())]).collect();
                        (names, ids)
                    } else {
                        request(&w, c, &key, &mut rng)
                    };
                    for run in 0..2 {
                        let o = match guarded(|| run_once(&w, c, &key, &names, &intern)) {
                            Outcome::Done(o) => o,
                            _ => Obs { call: "panic".into(), names: vec![], toks: vec![] },
                        };
                        trace.ev(json!({"ev":"Par","case":case,"iface":iface,"arch":"G","t":gi(c,"t"),"b":gi(c,"b"),
                            "n":gi(c,"n"),"skip":gb(c,"skip"),"miss":gs(c,"miss"),"dup":gs(c,"dup"),"spell":"listed","set":"tbs","run":run,"gen":round,
                            "req":chunked(&ids),"call":o.call,"names":chunked(&o.names),"toks":chunked(&o.toks)}));
                    }
                }
            }
        }
        stop.store(true, Ordering::Relaxed);
    });
    let _ = w.arch.values().map(|a| a.base).sum::<usize>();
}
