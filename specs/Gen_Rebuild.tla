----------------------------- MODULE Gen_Rebuild -----------------------------
(* Stage (B) for C07: TLC enumerates source-archive classes x rebuild options.                    *)
(*   source : format version 1..4 x (attributes) present x an empty file present x a weak          *)
(*            (signature) file (72 bytes, listed) present; every source                            *)
(*            carries a plain compressed file, a raw one, an encrypted one, an encrypted+fix-key  *)
(*            one, a file larger than a sector, and a generated (listfile)                        *)
(*   options: target version (0 = preserve) x compression override x sector-size override x      *)
(*            skip_encrypted x skip_signatures x verify x list_only                               *)
(* thorough: the full product; quick: every option set that differs from the defaults in at most  *)
(* one dimension, plus the pairs (target x compression), (target x verify), (skip_enc x verify), *)
(* (compression x sector size), (compression x verify).                                           *)
EXTENDS Integers, Sequences, SequencesExt, FiniteSets, Json, IOUtils, TLC

Thorough == IOEnv.VERIF_TIER = "thorough"
\* sbs: sector-size exponent of the SOURCE (-1 = builder default 16 KiB, 0 = 512 bytes): together with the
\* target override every file class (plain / encrypted / fix-key, 300 .. 40 000 bytes) changes its layout class
\* (single unit <-> multi-sector) in both directions.  edge: 33 raw files "300 random bytes + k zeros" around the
\* point where a compressor saves exactly nothing (store-raw rule of a recompressing rebuild).
\* pow: 0 = none; 1, 2, 3 = the LARGEST file of the source is an incompressible file of 2^11-4 / 2^14-4 / 2^16-4 bytes:
\* stored sectored (512 B / 4 KiB / 16 KiB sectors) its stored size (raw + sector-offset table) crosses the power of two
\* its raw size stays below - bit-width arithmetic of the HET/BET tables of V3/V4 targets
\* prov: provenance of the source: built by the builder | modified in place afterwards (a DELETED hash entry in front of a
\* colliding listed file, an appended file, relocated tables) | embedded behind a 512 / 1024 byte prefix | built with an
\* external SUPERSET listfile (300 names that are not in the archive: enough for 8-bit HET collisions on V3/V4)
\* lfSelf / lfAttr / lfHide (round 4): composition of the source's (listfile).  The builder's generated list names every file,
\* itself and (attributes): <<TRUE, TRUE, FALSE>>.  Archives written by other tools do not: the list does not name itself
\* (lfSelf = FALSE: normal for Blizzard's archives), does not name (attributes) although the archive has one (lfAttr = FALSE,
\* only with at), or leaves out ordinary files that are in the archive (lfHide: two of them, one encrypted).  Any deviation
\* from the generated list is written as an external listfile.  The source's LISTED files are the names of that list.
Src(v, a, e, g, b, x) == [ver |-> v, at |-> a, empty |-> e, sig |-> g, sbs |-> b, edge |-> x, pow |-> 0, prov |-> "built",
                          lfSelf |-> TRUE, lfAttr |-> TRUE, lfHide |-> FALSE]
Provs == {"modified", "emb512", "emb1024", "superset"}
Extras == IF Thorough THEN BOOLEAN \X BOOLEAN \X BOOLEAN
          ELSE {<<FALSE, FALSE, FALSE>>, <<TRUE, FALSE, FALSE>>, <<FALSE, TRUE, FALSE>>, <<FALSE, FALSE, TRUE>>, <<TRUE, TRUE, TRUE>>}
Sources == {Src(v, t[1], t[2], t[3], b, FALSE) : v \in 1..4, t \in Extras, b \in {-1, 0}}
EdgeSources == {Src(v, FALSE, FALSE, FALSE, -1, TRUE) : v \in {1, 4}}
ProvSources == {[Src(v, a, FALSE, FALSE, -1, FALSE) EXCEPT !.prov = p] : v \in 1..4, a \in (IF Thorough THEN BOOLEAN ELSE {FALSE}), p \in Provs}
PowSources  == {[Src(v, FALSE, FALSE, FALSE, b, FALSE) EXCEPT !.pow = p] : v \in 1..4, b \in {-1, 0}, p \in 1..3}
LfKinds == {t \in BOOLEAN \X (BOOLEAN \X BOOLEAN \X BOOLEAN) : t[2] # <<TRUE, TRUE, FALSE>> /\ (~t[1] => t[2][2])}   \* <<at, <<self, attr, hide>>>>
LfSources == {[Src(v, k[1], FALSE, g, -1, FALSE) EXCEPT !.lfSelf = k[2][1], !.lfAttr = k[2][2], !.lfHide = k[2][3], !.prov = p] :
                  v \in 1..4, k \in LfKinds, g \in (IF Thorough THEN BOOLEAN ELSE {FALSE}), p \in {"built", "superset"}}
Opt(t, c, b, se, ss, vf, lo) == [target |-> t, comp |-> c, bs |-> b, skipEnc |-> se, skipSig |-> ss, verify |-> vf, listOnly |-> lo]
Targets == 0..4
\* every lossless method the library can WRITE: zlib, bzip2, sparse, lzma, pkware (Huffman has no compressor, method
\* combinations beyond ADPCM are refused by compress(), ADPCM is lossy: not bit-identical by design)
Comps   == {"keep", "none", "zlib", "bzip2", "sparse", "lzma"} \cup (IF Thorough \/ ("C07_PKWARE" \in DOMAIN IOEnv) THEN {"pkware"} ELSE {})
Sizes   == {-1, 0, 3, 5}
Default == Opt(0, "keep", -1, FALSE, TRUE, FALSE, FALSE)
AllOpts == {Opt(t, c, b, se, ss, vf, lo) : t \in Targets, c \in Comps, b \in Sizes, se \in BOOLEAN, ss \in BOOLEAN, vf \in BOOLEAN, lo \in BOOLEAN}
Dims == {"target", "comp", "bs", "skipEnc", "skipSig", "verify", "listOnly"}
Diff(o) == {d \in Dims : o[d] # Default[d]}
QuickOpts == {o \in AllOpts : \/ Cardinality(Diff(o)) <= 1
                              \/ Diff(o) \in {{"target", "comp"}, {"target", "verify"}, {"skipEnc", "verify"}, {"comp", "bs"}, {"comp", "verify"},
                                              {"skipSig", "verify"}, {"skipSig", "skipEnc"}, {"skipSig", "target"}}}
\* thorough: the full product target x compression x sector size with default flags, and the full product of the flags
\* (skip_encrypted, skip_signatures, verify, list_only) over target in {preserve, V4}, compression in {keep, zlib}, sectors in
\* {keep, 512 B}; quick options are a subset
ThoroughOpts == {o \in AllOpts : \/ Diff(o) \subseteq {"target", "comp", "bs"}
                                 \/ (o.target \in {0, 4} /\ o.comp \in {"keep", "zlib"} /\ o.bs \in {-1, 0}
                                     /\ (o.listOnly => (o.target = 0 /\ o.comp = "keep" /\ o.bs = -1 /\ ~o.verify)))} \cup QuickOpts
Opts == IF Thorough THEN ThoroughOpts ELSE QuickOpts
EdgeOpts == {o \in AllOpts : Diff(o) \subseteq {"comp", "verify"}}
PowOpts  == {o \in AllOpts : Diff(o) \subseteq {"target", "bs"}}
\* the listfile classes meet every flag, every target version, one compression and one sector-size override (quick); the
\* quick option set in thorough
LfOpts == IF Thorough THEN QuickOpts
          ELSE {o \in QuickOpts : \/ Diff(o) \subseteq {"target", "skipEnc", "skipSig", "verify", "listOnly"}
                                  \/ (Diff(o) = {"comp"} /\ o.comp = "zlib") \/ (Diff(o) = {"bs"} /\ o.bs = 0)}
Cases == SetToSeq({[src |-> s, opts |-> o] : s \in LfSources, o \in LfOpts} \cup {[src |-> s, opts |-> o] : s \in Sources \cup ProvSources, o \in Opts} \cup {[src |-> s, opts |-> o] : s \in EdgeSources, o \in EdgeOpts}
                  \cup {[src |-> s, opts |-> o] : s \in PowSources, o \in PowOpts})
ASSUME ndJsonSerialize(IOEnv.CASES, Cases)
ASSUME PrintT(<<"GENERATED", Len(Cases)>>)
VARIABLE gx
Init == gx = 0
Next == UNCHANGED gx
=============================================================================
