CONSTANTS
  Threads = {t1, t2}
  ArchFiles = {"A", "B"}
  Names = {"f0", "f1"}
  Dev = {"GetInfoNested"}
  Budget = 1
  CallFns = {"OpenArchive", "CloseArchive", "OpenFileEx", "GetFileInfo", "ReadFile", "FindFirst"}
  MaxOpen = 5
  HashCap = 2
  Rich = FALSE
  PreOpen = 4
CONSTANT NextId <- MCNextId
INIT MCInit
NEXT MCNext
SYMMETRY Symm
VIEW LockView
INVARIANTS TypeOK CloseInvalidatesOwn NoOrphans CursorInRange IdsUnique NoSelfDeadlock NoHang NoWaitCycle LocksOwned
CHECK_DEADLOCK TRUE
