
