"""X03 -- the WMO editor wow_wmo::editor::WmoEditor (beyond the twenty listed properties)."""
import json
import re

from vlib import core

DEVS = {  # must-refute deviations of WmoEditor.tla -> the invariants one of which TLC has to report
    "CreateMisplaced": ("IGroupsParallel",), "StaleGroupIndex": ("IGroupsParallel", "IPostOK"), "DanglingZero": ("ITexRefs", "IMatRefs", "IIdxRefs", "IDoodadRefs", "IPortalRefs"),
    "ErrUnderflow": ("IPostOK",), "NamesCountDrift": ("IHeaderCounts",), "VertexNoFlag": ("IFlagsCoverData", "IPostOK"),
    "AttrsNotParallel": ("IAttrsParallel",),
    "NoRenumber": ("ITexRefs", "IMatRefs", "IIdxRefs", "IDoodadRefs", "IPortalRefs", "ISetRanges", "IPostOK"),
}
ACTIONS = ["AAddTexture", "ARemoveTexture", "AAddMaterial", "ARemoveMaterial", "ACreateGroup", "AAddGroup", "ARemoveGroup", "AAddVertex",
           "ARemoveVertex", "AAddDoodad", "ARemoveDoodad", "AAddDoodadSet", "ARemoveDoodadSet", "AConvert", "ASaveRoot", "ASaveGroup"]

META = {
    "disabled": False,
    "extra": True,
    "level": "model_checking",
    "level_text": "WmoEditor.tla models wow_wmo::WmoEditor as a state machine over an abstract WMO (textures, materials with texture indices, "
                  "group infos, loaded groups with group_index / vertices / triangle indices / batch material ids, doodad definitions, doodad "
                  "sets as ranges, header counts, root and per-group modified flags, original / current version) with one operator per public "
                  "editing call. TLC checks for ALL histories of 3 (thorough: 4) calls from four start objects, every argument in range / at the "
                  "end / out of range: referential integrity (texture, material, vertex references, doodad-set ranges), header counts = list "
                  "lengths, groups / infos / flags parallel, flags cover every changed group, and per call: a failed call leaves the object "
                  "unchanged and never panics, a removal renumbers so that every surviving reference resolves to the same element and every "
                  "doodad set covers the same surviving definitions, modified flags set exactly by the calls that changed something. Eight "
                  "named deviations (seven of them = /repo today) must each be refuted. TLC generates histories (simulation of the as-coded "
                  "machine + enumerated families around every removal); the driver replays them on the real editor and logs after every call "
                  "the projection of the whole object; TLC validates call by call against the relied-upon machine and names the deviation "
                  "where the code follows one.",
    "level_note": "Bounding boxes, normals / texture coordinates / vertex colours, portals and portal references, group.materials and "
                  "doodad_refs are not in the abstract state; convert_to_version is modelled by its effect on version and flags only.",
    "technique": "TLA+ state machine of the editor, exhaustive histories model-checked with named deviations, TLC-generated histories, "
                 "TLC trace validation of the full projected state after every call",
    "design_ref": "notes/X03.md",
    "crates": ["x03"],
}


def sig(b):
    r = b.get("rec") or {}
    return {"why": (b.get("why") or "").strip('"'), "op": r.get("op", "reset")}


def _mc(ctx, cfg, timeout=900):
    st = ctx.mc("MC_WmoEditor", cfg=cfg, workers=3, timeout=timeout, expect_actions=ACTIONS)
    missing = [a for a in ACTIONS if st["actions"].get(a, 0) == 0]
    if missing:
        raise core.ToolError(f"stage A: actions never taken in {cfg}: {missing}")
    return st


def _sim(ctx, num, depth=14):
    rc, text = ctx.tlc("Gen_WmoEditor", "Gen_WmoEditor", workers=1, timeout=300, simulate=f"num={num}",
                       extra=("-seed", str(ctx.seed), "-depth", str(depth)), tag="sim")
    out = []
    for line in text.splitlines():
        line = line.strip()
        if line.startswith('"CASE '):
            out.append(json.loads(json.loads(line)[5:]))
    if not out:
        raise core.ToolError("stage B: simulation produced no case:\n" + core._tail(text))
    core.log(f"(B) {len(out)} simulated histories")
    return out


def _cases(ctx, name):
    th = ctx.thorough
    enum, _ = ctx.gen("Gen_WmoEditor", cfg="Gen_WmoEditor", env={"GEN_MODE": "enum"}, simulate="num=1", cases_name="enum.ndjson")
    sims = _sim(ctx, 1500 if th else 150)
    cases = ctx.path(name)
    with open(cases, "w") as f:
        f.write(open(enum).read())
        for c in sims:
            f.write(json.dumps(c) + "\n")
    return cases


def run(ctx, cases=None):
    ctx.env["CARGO_BUILD_JOBS"] = "3"
    th = ctx.thorough
    import os
    if os.environ.get("X03_SELFTEST_SKIP_MC") and core.repo_root() != "/repo":
        # self-test runs on a scratch worktree only (mutants / fix patches): stage A does not depend on the tree
        _mc(ctx, "MC_WmoEditor")
        return _rest(ctx, cases)
    # ---- stage A: the relied-upon machine, the machine as coded, the must-refute deviations
    _mc(ctx, "MC_WmoEditor_deep" if th else "MC_WmoEditor", timeout=1500)
    _mc(ctx, "MC_WmoEditor_ascoded")
    ctx.notes.append("MC_WmoEditor_ascoded (Dev = AsCoded = /repo today): only IAsCodedHolds (doodad-set ranges, counts of materials / groups / "
                     "definitions / sets, flags parallel to infos, references into non-empty lists) survives")
    for dev, invs in DEVS.items():
        rc, text = ctx.tlc("MC_WmoEditor", "MC_WmoEditor_dev" + dev, workers=2, timeout=300, tag="dev-" + dev)
        hit = [i for i in invs if f"Invariant {i} is violated" in text]
        if not hit:
            raise core.ToolError(f"stage A: deviation {dev} of WmoEditor is not refuted by the model checker:\n" + core._tail(text, 12))
        ctx.notes.append(f"MC_WmoEditor_dev{dev}: refuted ({hit[0]})")
    return _rest(ctx, cases)


def _rest(ctx, cases):
    # ---- stage B
    if cases is None:
        cases = _cases(ctx, "cases.ndjson")
    recs = [json.loads(l) for l in open(cases)]
    # ---- stage C, D
    binary = ctx.build("x03")
    trace = ctx.harness(binary, cases, timeout=600)
    res = ctx.validate("Trace_WmoEditor", trace, shards=3, timeout=900)
    ops, results, samples = {}, {}, []
    with open(trace) as f:
        for line in f:
            r = json.loads(line)
            if r["ev"] == "Call":
                ops[r["op"]] = ops.get(r["op"], 0) + 1
                results[r["res"]] = results.get(r["res"], 0) + 1
                if len(samples) < 3 and r["op"] in ("remove_texture", "remove_doodad", "save_root") and r["res"] == "ok":
                    samples.append(r)
    distinct = len({json.dumps(c, sort_keys=True) for c in recs if c.get("kind") != "skip"})
    cov = {
        "traces_validated_against_impl": res["traces"],
        "samples": samples,
        "evaluations": res["events"] - res["traces"],
        "histories": len(recs),
        "calls_by_kind": ops,
        "results": results,
        "distinct_nontrivial": distinct,
        "rule": "one case = start object + history of editing calls, distinct as JSON",
        "exhaustive": False,
    }
    assumptions = ["callers pass valid references to the add calls (an add with a dangling reference is the caller's fault)",
                   "ids are carried by file names / shader / name_offset / vertex.x; the editor does not interpret them",
                   "the relied-upon handling of a reference to the removed element is the documented one (reset to element 0) and, when the "
                   "removed element is the last one, a refusal (deviation DanglingZero otherwise)"]
    return core.finish(ctx, "model_checking", cov, assumptions, res["bad"], sig_fn=sig, trace=trace)


def replay(ctx, payload):
    idx = int(str(payload.get("case", "0")).split(":")[0])
    full = _cases(ctx, "cases-full.ndjson")
    lines = open(full).read().splitlines()
    sel = ctx.path("replay-cases.ndjson")
    with open(sel, "w") as f:
        for i, l in enumerate(lines[:idx + 1]):
            f.write((l if i == idx else json.dumps({"kind": "skip", "init": 0, "ops": []})) + "\n")
    return run(ctx, cases=sel)
