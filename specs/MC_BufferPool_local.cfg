CONSTANT Threads = {t1}
CONSTANT CatCap <- MCCatCap
CONSTANT MaxHeld = 2
CONSTANT Dev = {}
CONSTANT Budget = 3
CONSTANT Sizes = {0, 1, 2, 3, 4, 5, 6, 7}
CONSTANT MaxPers = {0, 1}
CONSTANT StatsModes = {TRUE, FALSE}
CONSTANT LocalOps = TRUE
SYMMETRY Sym
INIT Init
NEXT Next
INVARIANT PoolBounded
INVARIANT NoAlias
INVARIANT PooledEmpty
INVARIANT HandedOutEmpty
INVARIANT HandedOutCap
INVARIANT CategoryRight
INVARIANT OneLock
INVARIANT LockOwner
INVARIANT BufferFlow
INVARIANT CountersSane
INVARIANT Conservation
INVARIANT HitsExact
INVARIANT StatsOffZero
INVARIANT EndBalanced
PROPERTY MonotoneMC
CHECK_DEADLOCK TRUE
