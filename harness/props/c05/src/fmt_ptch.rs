//! C05 seeds, field inventory and entry points for "ptch" (PTCH patch files of MPQ patch chains).
//!
//! The crate has a PTCH parser (patch/header.rs) and an applier (patch/apply.rs) but no writer,
//! so the seeds are produced by a small independent encoder written from the parser's layout:
//!
//!   0   'PTCH'  patch_data_size  size_before  size_after                     (16 bytes)
//!   16  'MD5_'  block_size(=40, includes the 8-byte block header)  md5_before[16]  md5_after[16]
//!   56  'XFRM'  block_size(=12 + payload)  patch_type('COPY' | 'BSD0')
//!   68  payload: COPY = the complete new file
//!                BSD0 = u32 unpacked size, then RLE stream (0x80|n-1: n literals; 0x00..0x7F: n+1
//!                zeros) of a bsdiff40 image: 'BSDIFF40', ctrl_size u64, diff_size u64, new_size
//!                u64, ctrl triples (add u32, copy u32, seek u32 with 0x80000000 = negative),
//!                diff block, extra block.
//!
//! The RLE encoder keeps the bsdiff40 header and the control block in literal runs (aligned to 128
//! bytes of unpacked data, so that no 4/8-byte field straddles a run), which makes every field of
//! the unpacked image addressable in the file; the diff/extra blocks use zero runs where they pay.
use crate::seed::{Aux, ChunkSeq, Seed};
use crate::worker::{errname, Runner};
use wow_mpq::patch::{apply_patch, PatchFile};

pub fn seed_names(thorough: bool) -> Vec<String> {
    // "bsd0-pastbase" is tiny and reaches the truncated-combine arithmetic of the BSD0 applier: quick as well
    let mut v = vec!["copy".to_string(), "bsd0".to_string(), "bsd0-pastbase".to_string()];
    if thorough {
        v.push("bsd0-seek".into());
    }
    v
}

/// Deterministic, mildly structured content.
fn content(n: usize, salt: u32) -> Vec<u8> {
    let mut x = 0x9E37_79B9u32 ^ salt.wrapping_mul(0x85EB_CA6B);
    (0..n)
        .map(|i| {
            x = x.wrapping_mul(1_664_525).wrapping_add(1_013_904_223);
            if i % 16 < 10 {
                b"WorldOfWarcraft\\Data\\patch"[(i + salt as usize) % 26]
            } else {
                (x >> 24) as u8
            }
        })
        .collect()
}

fn put32(d: &mut Vec<u8>, v: u32) {
    d.extend_from_slice(&v.to_le_bytes());
}

/// RLE-pack `img`; bytes below `literal_upto` are emitted as literal runs aligned to 128 unpacked
/// bytes. Returns the packed stream (without the size prefix) and, per unpacked byte, its position
/// in the packed stream when it is stored literally.
fn rle_pack(img: &[u8], literal_upto: usize) -> (Vec<u8>, Vec<Option<usize>>) {
    let mut out = Vec::new();
    let mut map = vec![None; img.len()];
    let mut p = 0usize;
    let lit_end = literal_upto.min(img.len());
    while p < lit_end {
        let n = (lit_end - p).min(128);
        out.push(0x80 | (n as u8 - 1));
        for k in 0..n {
            map[p + k] = Some(out.len());
            out.push(img[p + k]);
        }
        p += n;
    }
    while p < img.len() {
        // zero run of at least 3 bytes -> skip opcode
        let mut z = 0;
        while p + z < img.len() && img[p + z] == 0 && z < 128 {
            z += 1;
        }
        if z >= 3 {
            out.push((z - 1) as u8);
            p += z;
            continue;
        }
        // literal run up to the next zero run of >= 3 (or 128 bytes)
        let mut n = 0;
        while p + n < img.len() && n < 128 {
            if img[p + n] == 0 && p + n + 2 < img.len() && img[p + n + 1] == 0 && img[p + n + 2] == 0 {
                break;
            }
            n += 1;
        }
        let n = n.max(1);
        out.push(0x80 | (n as u8 - 1));
        for k in 0..n {
            map[p + k] = Some(out.len());
            out.push(img[p + k]);
        }
        p += n;
    }
    (out, map)
}

/// One bsdiff control step: `add` bytes = diff + old, `extra` new bytes, then seek in old.
struct Step {
    add: usize,
    extra: Vec<u8>,
    /// signed seek applied to the old-file cursor after the step
    seek: i64,
}

/// Build the target file and the bsdiff40 image for `base` under `steps`; `tweak(i)` is the
/// byte difference put on the i-th byte of the new file inside an add region (mostly 0).
fn bsdiff_image(base: &[u8], steps: &[Step]) -> (Vec<u8>, Vec<u8>, usize) {
    let mut new = Vec::new();
    let mut ctrl = Vec::new();
    let mut diff = Vec::new();
    let mut extra = Vec::new();
    let mut old = 0usize;
    for s in steps {
        for j in 0..s.add {
            let d: u8 = if (new.len() % 37) == 5 { 0x11 } else { 0 };
            let o = if old + j < base.len() { base[old + j] } else { 0 };
            diff.push(d);
            new.push(o.wrapping_add(d));
        }
        old += s.add;
        new.extend_from_slice(&s.extra);
        extra.extend_from_slice(&s.extra);
        put32(&mut ctrl, s.add as u32);
        put32(&mut ctrl, s.extra.len() as u32);
        if s.seek < 0 {
            put32(&mut ctrl, 0x8000_0000u32.wrapping_add((-s.seek) as u32));
            old = old.saturating_sub((-s.seek) as usize);
        } else {
            put32(&mut ctrl, s.seek as u32);
            old += s.seek as usize;
        }
    }
    let mut img = Vec::new();
    img.extend_from_slice(b"BSDIFF40");
    img.extend_from_slice(&(ctrl.len() as u64).to_le_bytes());
    img.extend_from_slice(&(diff.len() as u64).to_le_bytes());
    img.extend_from_slice(&(new.len() as u64).to_le_bytes());
    let ctrl_len = ctrl.len();
    img.extend_from_slice(&ctrl);
    img.extend_from_slice(&diff);
    img.extend_from_slice(&extra);
    (new, img, ctrl_len)
}

fn header(patch_size: u32, base: &[u8], new: &[u8], xfrm_payload: usize, ty: &[u8; 4]) -> Vec<u8> {
    let mut d = Vec::new();
    d.extend_from_slice(b"PTCH");
    put32(&mut d, patch_size);
    put32(&mut d, base.len() as u32);
    put32(&mut d, new.len() as u32);
    d.extend_from_slice(b"MD5_");
    put32(&mut d, 40);
    d.extend_from_slice(&wverif_common::md5_raw(base));
    d.extend_from_slice(&wverif_common::md5_raw(new));
    d.extend_from_slice(b"XFRM");
    put32(&mut d, 12 + xfrm_payload as u32);
    d.extend_from_slice(ty);
    d
}

const PAYLOAD: usize = 68;

fn header_fields(s: &mut Seed) {
    let len = s.bytes.len();
    s.field_ex(0, 4, "tag", "PTCH.tag", 16, 1, None);
    s.field_ex(4, 4, "bsize", "PTCH.patch_size", PAYLOAD, 1, None);
    s.field_ex(8, 4, "bsize", "PTCH.size_before", PAYLOAD, 1, None);
    s.field_ex(12, 4, "bsize", "PTCH.size_after", PAYLOAD, 1, None);
    s.field_ex(16, 4, "tag", "MD5_.tag", 16, 1, None);
    s.field_ex(20, 4, "csize", "MD5_.size", 16, 1, None);
    s.field_ex(56, 4, "tag", "XFRM.tag", 56, 1, None);
    s.field_ex(60, 4, "csize", "XFRM.size", 56, 1, None);
    s.field_ex(64, 4, "tag", "XFRM.patch_type", PAYLOAD, 1, None);
    // the MD5_ and XFRM blocks as a sibling sequence (sizes include the block headers)
    s.seqs.push(ChunkSeq { name: "top".into(), items: vec![(16, 40), (56, len - 56)], parent_size_fields: vec![] });
}

fn build_bsd0(name: &str, base: Vec<u8>, steps: Vec<Step>) -> Seed {
    let (new, img, ctrl_len) = bsdiff_image(&base, &steps);
    let (packed, map) = rle_pack(&img, 32 + ctrl_len);
    let mut d = header(img.len() as u32, &base, &new, 4 + packed.len(), b"BSD0");
    put32(&mut d, img.len() as u32);
    let stream = d.len();
    d.extend_from_slice(&packed);
    let mut s = Seed::new("ptch", name, d);
    header_fields(&mut s);
    s.field_ex(PAYLOAD, 4, "bsize", "rle.unpacked_size", stream, 1, None);
    // first RLE opcode (run length selector)
    s.field_ex(stream, 1, "index", "rle.op[0]", stream + 1, 1, None);
    let at = |p: usize, w: usize| -> usize {
        let o = map[p].unwrap_or_else(|| wverif_common::tool_error("ptch: field not literal"));
        for k in 1..w {
            if map[p + k] != Some(o + k) {
                wverif_common::tool_error("ptch: field straddles an RLE run");
            }
        }
        stream + o
    };
    // bsdiff40 header; the extent base of the sizes is the place in the file where the unpacked
    // control block starts (sizes of the unpacked image are not file extents: rem is only a guide)
    let cbase = at(32, 1);
    s.field_ex(at(8, 8), 8, "bsize", "bsdiff.ctrl_size", cbase, 1, None);
    s.field_ex(at(16, 8), 8, "bsize", "bsdiff.diff_size", cbase, 1, None);
    s.field_ex(at(24, 8), 8, "bsize", "bsdiff.new_size", cbase, 1, None);
    let n = ctrl_len / 12;
    for i in 0..n {
        if i >= 2 && i + 1 != n {
            continue;
        }
        let p = 32 + 12 * i;
        s.field_ex(at(p, 4), 4, "bsize", format!("ctrl[{i}].add"), cbase, 1, None);
        s.field_ex(at(p + 4, 4), 4, "bsize", format!("ctrl[{i}].copy"), cbase, 1, None);
        s.field_ex(at(p + 8, 4), 4, "offset", format!("ctrl[{i}].seek"), cbase, 1, None);
    }
    s.aux = Aux::Base(base);
    s
}

pub fn build(name: &str) -> Seed {
    match name {
        "copy" => {
            let base = content(300, 1);
            let new = content(420, 2);
            let mut d = header(new.len() as u32, &base, &new, new.len(), b"COPY");
            d.extend_from_slice(&new);
            let mut s = Seed::new("ptch", name, d);
            header_fields(&mut s);
            s.aux = Aux::Base(base);
            s
        }
        "bsd0" => {
            let base = content(640, 3);
            let steps = vec![
                Step { add: 220, extra: content(48, 4), seek: 30 },
                Step { add: 300, extra: content(20, 5), seek: 0 },
            ];
            build_bsd0(name, base, steps)
        }
        "bsd0-seek" => {
            // four steps: forward seek, a rewind to the start of the old file (the only negative
            // seek on which the reference semantics and this implementation agree), a tail step
            let base = content(900, 6);
            let steps = vec![
                Step { add: 180, extra: content(16, 7), seek: 120 },
                Step { add: 260, extra: Vec::new(), seek: -560 },
                Step { add: 400, extra: content(64, 8), seek: 17 },
                Step { add: 90, extra: content(5, 9), seek: 0 },
            ];
            build_bsd0(name, base, steps)
        }
        "bsd0-pastbase" => {
            // add regions that run past the end of the base file (bytes behind it count as zero): step 1 starts
            // inside the base and ends 90 bytes behind it (the combine loop is cut short), the seek then leaves the
            // old-file cursor behind the end, so step 2 combines nothing at all
            let base = content(560, 10);
            let steps = vec![
                Step { add: 200, extra: content(24, 11), seek: 300 },
                Step { add: 150, extra: content(12, 12), seek: 40 },
                Step { add: 80, extra: content(30, 13), seek: 0 },
            ];
            build_bsd0(name, base, steps)
        }
        _ => wverif_common::tool_error(&format!("ptch: unknown seed {name}")),
    }
}

pub fn run(r: &mut Runner, bytes: &[u8], aux: &Aux) {
    let empty: Vec<u8> = Vec::new();
    let base: &[u8] = match aux {
        Aux::Base(b) => b,
        _ => &empty,
    };
    let p = r.call("PatchFile::parse", || PatchFile::parse(bytes).map_err(errname));
    if let Some(p) = p {
        r.call("apply_patch", || apply_patch(&p, base).map(|_| ()).map_err(errname));
    }
}
