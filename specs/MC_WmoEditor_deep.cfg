CONSTANT Dev = {}
CONSTANT Budget = 4
CONSTANT Inits = {3}
CONSTANT MaxIx = 2
INIT Init
NEXT Next
CHECK_DEADLOCK FALSE
INVARIANT ITexRefs
INVARIANT IMatRefs
INVARIANT IIdxRefs
INVARIANT IDoodadRefs
INVARIANT IAttrsParallel
INVARIANT IPortalRefs
INVARIANT ISetRanges
INVARIANT IHeaderCounts
INVARIANT IGroupsParallel
INVARIANT IFlagsCoverData
INVARIANT IVersionSane
INVARIANT IPostOK
