
