---- MODULE MC_MpqCrypto ----
(* Stage (A) for C04: the reference definitions reproduce the published vectors, and the laws the
   property states hold on the model: inverse law for all small buffers x a key set covering every
   low byte, case / slash invariance of both hashes on all 2-character ASCII names. *)
EXTENDS MpqCrypto, TLC
ASSUME V1 == HashString(<<40,108,105,115,116,102,105,108,101,41>>, TABLE_OFFSET) = <<24381,59481>>
ASSUME V2 == HashString(<<40,104,97,115,104,32,116,97,98,108,101,41>>, FILE_KEY) = <<50095,14192>>
ASSUME V3 == HashString(<<40,98,108,111,99,107,32,116,97,98,108,101,41>>, FILE_KEY) = <<60547,45987>>
ASSUME V4 == HashString(<<112,97,116,104,92,116,111,92,102,105,108,101>>, TABLE_OFFSET) = <<21324,51438>>
ASSUME T0 == CryptTable[0] = <<21958,14050>> /\ Hex32(CryptTable[0]) = "55c636e2"
ASSUME T1 == CryptTable[1279] = <<29443,10348>>

VARIABLES vkey, ws, phase
Keys == {<<hi, lo>> : hi \in {0, 4660, 65535}, lo \in {256 * 7 + x : x \in 0..255}}
Vals == {<<0,0>>, <<65535,65535>>, <<4660,22136>>}
Init == vkey \in Keys /\ ws \in UNION {[1..n -> Vals] : n \in 0..3} /\ phase = 0
Next == phase = 0 /\ phase' = 1 /\ UNCHANGED <<vkey, ws>>
InverseLaw == DecryptBlock(EncryptBlock(ws, vkey), vkey) = ws /\ EncryptBlock(DecryptBlock(ws, vkey), vkey) = ws
ByteVals == {0, 255}
\* tail rule: every length 0..5 (0..1 full dwords + 0..3 tail bytes), one key per low byte
InverseLawBytes == \A lo \in 0..255 : \A n \in 0..5 : \A bs \in [1..n -> ByteVals] :
                   LET kk == <<4660, 256 * 3 + lo>> IN
                   DecryptBytes(EncryptBytes(bs, kk), kk) = bs /\ Len(EncryptBytes(bs, kk)) = n
ASSUME InverseLawBytes
Printable == 32..126
FoldInvariant2 == \A a \in Printable, c \in Printable, t \in HashTypes :
    /\ HashString(<<a, c>>, t) = HashString(<<Upper(a), Upper(c)>>, t)
    /\ HashString(<<a, c>>, t) = HashString(<<Lower(a), Lower(c)>>, t)
    /\ HashString(<<47, c>>, t) = HashString(<<92, c>>, t)
HetInvariant2 == \A a \in Printable, c \in {47, 92, 65, 97, 122} : \A bits \in {8, 48, 64} :
    /\ HetHash(<<a, c>>, bits) = HetHash(<<Upper(a), Upper(c)>>, bits)
    /\ HetHash(<<a, 47>>, bits) = HetHash(<<a, 92>>, bits)
ASSUME FoldInvariant2
ASSUME HetInvariant2
====