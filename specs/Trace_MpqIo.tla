---------------------------- MODULE Trace_MpqIo ----------------------------
(* Stage (D) for X02/MpqIo: the events recorded while the driver replayed TLC's operation sequences *)
(* on the three real readers are validated one by one against MpqIo.  Every event is one action of *)
(* the machine; the observed result is bound in, the CONTRACT predicates of MpqIo are evaluated on *)
(* it (P-conjuncts -> <<"BAD", tl, label>>), the counters the code reported are compared with the  *)
(* effect functions of MpqIo (as intended: all Dev* = FALSE in the cfg).  A mismatch that equals a  *)
(* NAMED deviation of MpqIo is labelled "dev:<name>".  After a BAD the observed counters are       *)
(* adopted, so one defect does not cascade.  Code-shape details only give DRIFT lines.             *)
EXTENDS MpqIo, Json, IOUtils, TLC, TLCExt

Rec == ndJsonDeserialize(IOEnv.TRACE)
VARIABLES tl, vio, vref, vftok
tvars == <<tl, vio, vref, vftok>>

Class(rr) == IF rr \in {"ok", "panic", "hang", "overlong"} THEN rr ELSE "err"
ResOf(e) == [r |-> Class(e.res.r), n |-> e.res.n]
NoRef == [off |-> <<2, 0>>, len |-> -1, r |-> "-", n |-> 0, tok |-> "-"]
NoCore(c) == [c EXCEPT !.peak = NZero]               \* the six counters of the conservation law
SameCore(c, d) == NoCore(c) = NoCore(d)
Out(bad, drift, s, ref) == [bad |-> bad, drift |-> drift, s |-> s, ref |-> ref]

\* bytes of an ok result are the file's bytes of exactly that range; equal ranges have equal tokens
ResBytesOk(s, off, res) == res.r # "ok" \/ res.n = 0 \/ (IsLo(off) /\ BytesOk(off[2], res.n, s.salt, res.head, res.tail))
TokAgree(e) == (vref.off = e.off /\ vref.len = e.len /\ vref.r = "ok" /\ e.res.r = "ok" /\ vref.n = e.res.n)
                  => vref.tok = e.res.tok

\* deltas of the counters over one complete call of a sequential caller
DeltaOk(c, d) ==
    /\ IsLo(c.total) /\ IsLo(d.total) /\ IsLo(c.completed) /\ IsLo(d.completed)
    /\ IsLo(c.cancelled) /\ IsLo(d.cancelled) /\ IsLo(c.timeout) /\ IsLo(d.timeout)
    /\ d.total[2] - c.total[2] = (d.completed[2] - c.completed[2]) + (d.cancelled[2] - c.cancelled[2]) + (d.timeout[2] - c.timeout[2])
    /\ d.active = c.active
    /\ CountersMono(c, d)

T_Reset(e) == Out("", "", S0(e.len, e.salt, e.cfg), NoRef)

T_Open(e) ==
    LET L == vio.len
        want == OpenOut(L, vio.cfg)
        got == Class(e.r)
        nxt == OpenNext(vio, e.via, got)
        gm == [bytes |-> e.g_bytes, active |-> e.g_active, failed |-> e.g_failed]
        bad == IF got # want THEN "open_outcome"
               ELSE IF got = "ok" /\ ~(e.fsize = Lo(L) /\ e.mapped = Lo(L) /\ e.active = 1 /\ e.healthy) THEN "open_stats"
               ELSE IF got = "ok" /\ ~(e.whole.n = L /\ e.whole.tok = vftok /\ BytesOk(0, L, vio.salt, e.whole.head, e.whole.tail))
                    THEN "open_bytes"
               ELSE IF gm # nxt.gm THEN "manager_stats"
               ELSE ""
        drift == IF e.should # (vio.cfg.enable /\ NLe(Lo(L), vio.cfg.maxmap) /\ NLe(Lo(L), vio.cfg.maxarch)) THEN "should_attempt" ELSE ""
    IN Out(bad, drift, [nxt EXCEPT !.gm = gm], vref)

T_PRead(e) ==
    LET res == ResOf(e)
        bad == IF ~ExactOk(vio.len, e.off, e.len, TRUE, res) THEN "plain_contract"
               ELSE IF ~ResBytesOk(vio, e.off, e.res) THEN "plain_bytes" ELSE ""
    IN Out(bad, "", vio, [off |-> e.off, len |-> e.len, r |-> res.r, n |-> res.n, tok |-> e.res.tok])

T_MRead(e) ==
    LET res == ResOf(e)
        L == vio.len
        bad == IF vio.mm # "open" THEN "mmap_state"
               ELSE IF ~ExactOk(L, e.off, e.len, MmapUsable(vio.cfg, e.len), res)
                    THEN (IF e.off = Lo(L) /\ e.len = 0 /\ res.r = "err" THEN "dev:mmap_zero_at_end" ELSE "mmap_contract")
               ELSE IF ~ResBytesOk(vio, e.off, e.res) THEN "mmap_bytes"
               ELSE IF ~TokAgree(e) THEN "mmap_disagrees"
               ELSE ""
    IN Out(bad, "", vio, vref)

StOf(e) == [total |-> e.st.total, completed |-> e.st.completed, cancelled |-> e.st.cancelled, timeout |-> e.st.timeout,
            active |-> e.st.active, bytes |-> e.st.bytes, peak |-> e.st.peak]

T_ARead(e) ==
    LET res == ResOf(e)
        st == StOf(e)
        want == AReadCtr(vio.ctr, vio.cfg, vio.shut, e.len, res)
        bad == IF ~ShortOk(vio.len, e.off, e.len, AsyncUsable(vio.cfg, vio.shut, e.len), res) THEN "async_read_contract"
               ELSE IF ~ResBytesOk(vio, e.off, e.res) THEN "async_read_bytes"
               ELSE IF ~TokAgree(e) THEN "async_read_disagrees"
               ELSE IF SameCore(st, want) \/ (vio.shut /\ SameCore(st, CCancel(vio.ctr))) THEN ""
               ELSE IF vio.shut /\ SameCore(st, CGhost(vio.ctr)) THEN "dev:shut_underflow"
               ELSE "async_read_counters"
        drift == IF bad = "" /\ st.peak # want.peak THEN "peak" ELSE ""
    IN Out(bad, drift, [vio EXCEPT !.ctr = st], vref)

T_AExact(e) ==
    LET res == ResOf(e)
        st == StOf(e)
        want == AExactCtr(vio.ctr, vio.len, vio.cfg, vio.shut, e.off, e.len)
        bad == IF ~ExactOk(vio.len, e.off, e.len, AsyncUsable(vio.cfg, vio.shut, e.len), res) THEN "async_exact_contract"
               ELSE IF ~ResBytesOk(vio, e.off, e.res) THEN "async_exact_bytes"
               ELSE IF ~TokAgree(e) THEN "async_exact_disagrees"
               ELSE IF vio.shut /\ e.len > 0 /\ SameCore(st, CGhost(vio.ctr)) THEN "dev:shut_underflow"
               ELSE IF ~DeltaOk(vio.ctr, st) THEN "async_exact_counters"
               ELSE IF res.r = "ok" /\ st.bytes # NAddI(vio.ctr.bytes, e.len) THEN "async_exact_bytecount"
               ELSE ""
        drift == IF bad = "" /\ ~SameCore(st, want) THEN "exact_calls" ELSE ""
    IN Out(bad, drift, [vio EXCEPT !.ctr = st], vref)

\* a stalled / abandoned read on a reader that is already shut down is just a refused read
ShutCtr(st) == IF SameCore(st, vio.ctr) \/ SameCore(st, CCancel(vio.ctr)) THEN ""
               ELSE IF SameCore(st, CGhost(vio.ctr)) THEN "dev:shut_underflow" ELSE "after_shutdown_counters"

T_ATimeout(e) ==
    LET st == StOf(e)
        bad == IF Class(e.r) # "err" THEN "timeout_outcome"
               ELSE IF vio.shut THEN ShutCtr(st)
               ELSE IF ~SameCore(st, ATimeoutCtr(vio.ctr, vio.cfg)) THEN "timeout_counters" ELSE ""
    IN Out(bad, "", [vio EXCEPT !.ctr = st], vref)

T_ADrop(e) ==
    LET st == StOf(e)
        bad == IF vio.shut THEN (IF e.r # "completed" THEN "drop_outcome" ELSE ShutCtr(st))
               ELSE IF e.r # "dropped" THEN "drop_outcome"
               ELSE IF SameCore(st, CCancel(vio.ctr)) THEN ""
               ELSE IF SameCore(st, CLeak(vio.ctr)) THEN "dev:drop_leak"
               ELSE "drop_counters"
    IN Out(bad, "", [vio EXCEPT !.ctr = st], vref)

T_Extract(e) ==
    LET st == StOf(e)
        reqs == e.reqs
        kk == Len(reqs)
        L == vio.len
        got == Class(e.r)
        sess == [total |-> e.sess.total, files |-> e.sess.files[2]]
        fits == ExtractFits(vio.cfg, vio.sess, reqs)
        usable == ~vio.shut \/ kk = 0
        readable == \A ii \in 1..kk : ReqReadable(L, reqs[ii])
        itemsok == /\ Len(e.items) = kk
                   /\ \A ii \in 1..kk : /\ e.items[ii].n = reqs[ii][2][2]
                                        /\ ResBytesOk(vio, reqs[ii][1], e.items[ii])
        sum == SumSat(reqs)
        wantctr == ExtractCtr(vio.ctr, L, vio.cfg, vio.shut, vio.sess, reqs)
        bad == IF got \in {"panic", "hang"} THEN (IF SumSizes(reqs).ovf THEN "dev:extract_sum_overflow" ELSE "extract_crash")
               ELSE IF got = "ok" /\ ~(fits /\ usable /\ readable) THEN "extract_limit_not_enforced"
               ELSE IF got # "ok" /\ fits /\ usable /\ readable THEN "extract_refused"
               ELSE IF got = "ok" /\ ~itemsok THEN "extract_bytes"
               ELSE IF got # "ok" /\ sess.total # vio.sess.total THEN "extract_session_on_refusal"
               ELSE IF got = "ok" /\ sess.total # NWrapAdd(vio.sess.total, sum) THEN "extract_session"
               ELSE IF ~DeltaOk(vio.ctr, st) THEN "extract_counters"
               ELSE IF got = "ok" /\ ~(st.total = NAddI(vio.ctr.total, kk) /\ st.completed = NAddI(vio.ctr.completed, kk)
                                        /\ st.bytes = NWrapAdd(vio.ctr.bytes, sum)) THEN "extract_counters_ok"
               ELSE ""
        drift == IF bad # "" THEN ""
                 ELSE IF ~SameCore(st, wantctr) THEN "extract_ctr_shape"
                 ELSE IF got = "ok" /\ sess.files # vio.sess.files + kk THEN "files_per_batch"
                 ELSE ""
    IN Out(bad, drift, [vio EXCEPT !.ctr = st, !.sess = sess], vref)

T_Shutdown(e) ==
    LET st == StOf(e)
        bad == IF Class(e.r) # "ok" THEN "shutdown_outcome"
               ELSE IF ~SameCore(st, vio.ctr) THEN "shutdown_counters" ELSE ""
    IN Out(bad, "", [ShutdownNext(vio) EXCEPT !.ctr = st], vref)

Step(e) == CASE e.ev = "Reset"    -> T_Reset(e)
             [] e.ev = "Open"     -> T_Open(e)
             [] e.ev = "PRead"    -> T_PRead(e)
             [] e.ev = "MRead"    -> T_MRead(e)
             [] e.ev = "ARead"    -> T_ARead(e)
             [] e.ev = "AExact"   -> T_AExact(e)
             [] e.ev = "ATimeout" -> T_ATimeout(e)
             [] e.ev = "ADrop"    -> T_ADrop(e)
             [] e.ev = "Extract"  -> T_Extract(e)
             [] e.ev = "Shutdown" -> T_Shutdown(e)
             [] OTHER             -> Assert(FALSE, <<"unknown event", e.ev>>)

Init == tl = 1 /\ vio = S0(0, 0, [enable |-> FALSE]) /\ vref = NoRef /\ vftok = "-"
Next == /\ tl <= Len(Rec)
        /\ LET o == Step(Rec[tl]) IN
             /\ tl' = tl + 1
             /\ vio' = o.s
             /\ vref' = o.ref
             /\ vftok' = (IF Rec[tl].ev = "Reset" THEN Rec[tl].ftok ELSE vftok)
             /\ (IF o.bad = "" THEN TRUE ELSE PrintT(<<"BAD", tl, o.bad>>))
             /\ (IF o.drift = "" THEN TRUE ELSE PrintT(<<"DRIFT", tl, o.drift>>))

Accepted == LET d == TLCGet("stats").diameter IN
            IF d - 1 = Len(Rec) THEN PrintT(<<"CONSUMED", Len(Rec)>>) ELSE Print(<<"TRACE_STUCK_AT", d>>, FALSE)
=============================================================================
