------------------------------- MODULE Rebuild -------------------------------
(***************************************************************************************************)
(* C07: rebuild_archive (rebuild.rs) as a state machine                                            *)
(*     Enumerate -> per listed file: Skip(reason) | Extract  -> [ListOnly] | Build -> [Verify]     *)
(*     -> Finish(summary)                                                                          *)
(* over an abstract source archive: a set of LISTED files, each with a content token and flags     *)
(* (encrypted, signature file, empty).  The property:                                              *)
(*   TargetExact          the target holds exactly the listed files the options do not exclude,    *)
(*                        with the same tokens                                                     *)
(*   CountsTruthful       source = |listed| , extracted = |target| , skipped = |excluded| ,        *)
(*                        extracted + skipped = source                                             *)
(*   SkippedOnlyByOption  a file is left out only for a reason an option names                     *)
(*   VerifyMeansEqual     verify = TRUE and Ok  =>  comparing source and target finds no difference*)
(* The deviations the implementation had before the fix commits 485ce03 / 323d4e2 are kept as     *)
(* named alternative actions (CodeNext) so that TLC keeps refuting that behaviour; the code as it  *)
(* is now follows DesignNext:                                                                      *)
(*   EnumerateAnonymous          a source with HET/BET tables (V3/V4) is enumerated through         *)
(*                               list_all_with_hashes(): placeholder names file_%08d.dat  F-C07-a  *)
(*   ExtractReadFailContinue     a file that cannot be read is dropped with a log line             *)
(*   FinishCountsBlocks          source count = blocks with file_size /= 0 (or the BET count), and *)
(*                               skipped = source - extracted in usize (underflow)        F-C07-b  *)
(* Expected(opts) is also the oracle used by Trace_Rebuild on runs of the real code.               *)
(*                                                                                                 *)
(* Round 4: the class of SOURCE archives is part of the model.  RFiles are the names the source's  *)
(* (listfile) names (and that exist); RUnlisted are names that are physically in the source but    *)
(* that its (listfile) does not name: the (listfile) itself (normal for archives written by        *)
(* Blizzard's tools), (attributes), ordinary files.  The target's LISTING (rtlist: the names its    *)
(* own (listfile) makes it enumerate) is state of its own, next to the contents by name (rtarget): *)
(*   BuildCopyListfile      (listfile) is among the extracted files: copied, the target            *)
(*                          enumerates the names of that list which it holds                       *)
(*   BuildGenerateListfile  it is not: the builder generates one from the extracted names          *)
(*   TargetEnumerable       the target enumerates exactly the expected names (+ its own internal   *)
(*                          files): a target that holds every file but lists placeholder names is  *)
(*                          not a rebuild of the source (compare reports every file as missing)    *)
(* Deviations: BuildNoListfile (listfile strategy decided from anything but the extracted list:    *)
(* no listfile at all), VerifyCountsListing (verify_rebuild compares the LENGTH of the two         *)
(* listings: a generated (listfile) that names itself makes a correct rebuild fail,                *)
(* C07-VERIFY-GENERATED-LISTFILE), FinishCountsPhysical (HET/BET source: source count = number of  *)
(* BET entries, unlisted files are reported as skipped, C07-HETBET-COUNTS-UNLISTED).               *)
(***************************************************************************************************)
EXTENDS Naturals, Integers, FiniteSets

CONSTANTS RFiles,      \* listed names of the source
          RTok,        \* [RFiles -> token]
          REnc,        \* subset of RFiles: encrypted
          RSig,        \* subset of RFiles: signature files
          REmpty,      \* subset of RFiles: zero-length files
          RHetBet,     \* the source has HET/BET tables (V3/V4)
          RUnlisted    \* names physically in the source that its (listfile) does not name (disjoint from RFiles)

RNone == "none"
RLf   == "(listfile)"
RInternal == {"(listfile)", "(attributes)"}    \* files an archive writer may generate by itself
OptSet == [skipEnc : BOOLEAN, skipSig : BOOLEAN, verify : BOOLEAN, listOnly : BOOLEAN]

VARIABLES rpc, ropts, rtodo, rextr, rskip, rlost, rtarget, rsum, rres, rtlist
rvars == <<rpc, ropts, rtodo, rextr, rskip, rlost, rtarget, rsum, rres, rtlist>>

\* the only legal reasons to leave a listed file out (parameterised: Trace_Rebuild applies them to
\* the source recorded in each trace)
ReasonOf(f, o, enc, sig) == IF o.skipSig /\ f \in sig THEN "signature"
                            ELSE IF o.skipEnc /\ f \in enc THEN "encrypted" ELSE ""
ExcludedOf(files, o, enc, sig) == {f \in files : ReasonOf(f, o, enc, sig) # ""}
ExpectedOf(files, tok, o, enc, sig) == [f \in files |-> IF f \in ExcludedOf(files, o, enc, sig) THEN RNone ELSE tok[f]]
Reason(f, o) == ReasonOf(f, o, REnc, RSig)
Excluded(o)  == ExcludedOf(RFiles, o, REnc, RSig)
Expected(o)  == ExpectedOf(RFiles, RTok, o, REnc, RSig)

RInit == /\ rpc = "start" /\ ropts \in OptSet /\ rtodo = {} /\ rextr = {} /\ rskip = {} /\ rlost = {}
         /\ rtarget = [f \in RFiles |-> RNone] /\ rsum = [source |-> 0, extracted |-> 0, skipped |-> 0] /\ rres = "running"
         /\ rtlist = {}

\* extract_files_with_metadata: get the file list
Enumerate == /\ rpc = "start" /\ rpc' = "extract" /\ rtodo' = RFiles
             /\ UNCHANGED <<ropts, rextr, rskip, rlost, rtarget, rsum, rres, rtlist>>
\* deviation F-C07-a: the list holds placeholder names; none of them can be read back by name
EnumerateAnonymous == /\ rpc = "start" /\ RHetBet /\ rpc' = "extract_anon" /\ rtodo' = RFiles
                      /\ UNCHANGED <<ropts, rextr, rskip, rlost, rtarget, rsum, rres, rtlist>>

Skip(f) == /\ rpc = "extract" /\ f \in rtodo /\ Reason(f, ropts) # ""
           /\ rskip' = rskip \cup {f} /\ rtodo' = rtodo \ {f}
           /\ UNCHANGED <<rpc, ropts, rextr, rlost, rtarget, rsum, rres, rtlist>>
Extract(f) == /\ rpc = "extract" /\ f \in rtodo /\ Reason(f, ropts) = ""
              /\ rextr' = rextr \cup {f} /\ rtodo' = rtodo \ {f}
              /\ UNCHANGED <<rpc, ropts, rskip, rlost, rtarget, rsum, rres, rtlist>>
\* deviation: `Err(e) => { log::warn!(..); continue; }`
ExtractReadFailContinue(f) == /\ rpc = "extract_anon" /\ f \in rtodo
                              /\ rlost' = rlost \cup {f} /\ rtodo' = rtodo \ {f}
                              /\ UNCHANGED <<rpc, ropts, rextr, rskip, rtarget, rsum, rres, rtlist>>

Summary(src) == [source |-> src, extracted |-> Cardinality(rextr), skipped |-> src - Cardinality(rextr)]
\* list_only: report and stop, no target
ListOnly == /\ rpc \in {"extract", "extract_anon"} /\ rtodo = {} /\ ropts.listOnly
            /\ rsum' = Summary(Cardinality(RFiles)) /\ rpc' = "done" /\ rres' = "ok"
            /\ UNCHANGED <<ropts, rtodo, rextr, rskip, rlost, rtarget, rtlist>>
\* rebuild_with_files: the target holds what was extracted; its listing comes from the copied or from a generated (listfile)
BuildTo(listing) == /\ rpc \in {"extract", "extract_anon"} /\ rtodo = {} /\ ~ropts.listOnly
                    /\ rtarget' = [f \in RFiles |-> IF f \in rextr THEN RTok[f] ELSE RNone]
                    /\ rtlist' = listing
                    /\ rpc' = IF ropts.verify THEN "verify" ELSE "finish"
                    /\ UNCHANGED <<ropts, rtodo, rextr, rskip, rlost, rsum, rres>>
\* the source's (listfile) names itself: it is one of the extracted files and is copied (ListfileOption::None + add);
\* the names of that list which the target holds are enumerated
BuildCopyListfile     == RLf \in rextr /\ BuildTo(rextr)
\* it does not (or the source has none): the builder generates one from the extracted names, naming itself
BuildGenerateListfile == RLf \notin rextr /\ BuildTo(rextr \cup {RLf})
\* deviation (class of round-4 seed 2): the strategy is decided from something else than the extracted list (e.g. "the
\* source has a (listfile)"): nothing is copied AND nothing is generated - the target enumerates placeholder names only
BuildNoListfile       == RLf \notin rextr /\ RLf \in RUnlisted /\ BuildTo({})
ListingExact == /\ rtlist \cap RFiles = {f \in RFiles : Expected(ropts)[f] # RNone}
                /\ (rtlist \ RFiles) \subseteq RInternal
\* verify_rebuild: expected (after the filters) against the target
VerifyOk   == /\ rpc = "verify" /\ rtarget = Expected(ropts) /\ ListingExact /\ rpc' = "finish"
              /\ UNCHANGED <<ropts, rtodo, rextr, rskip, rlost, rtarget, rsum, rres, rtlist>>
VerifyFail == /\ rpc = "verify" /\ ~(rtarget = Expected(ropts) /\ ListingExact) /\ rpc' = "done" /\ rres' = "err"
              /\ UNCHANGED <<ropts, rtodo, rextr, rskip, rlost, rtarget, rsum, rtlist>>
\* deviation C07-VERIFY-GENERATED-LISTFILE: the code compares the LENGTHS of the two listings first
ListingLengthsEqual == Cardinality(rtlist) = Cardinality(RFiles \ Excluded(ropts))
VerifyCountsListing == /\ rpc = "verify" /\ ~ListingLengthsEqual /\ rpc' = "done" /\ rres' = "err"
                       /\ UNCHANGED <<ropts, rtodo, rextr, rskip, rlost, rtarget, rsum, rtlist>>
\* designed summary: counted over the listed files
Finish == /\ rpc = "finish" /\ rsum' = Summary(Cardinality(RFiles)) /\ rpc' = "done" /\ rres' = "ok"
          /\ UNCHANGED <<ropts, rtodo, rextr, rskip, rlost, rtarget, rtlist>>
\* deviation F-C07-b: the source count is the number of blocks with file_size /= 0 (classic tables)
BlockCount == Cardinality(RFiles \ REmpty)
FinishCountsBlocks ==
    /\ rpc = "finish" /\ rpc' = "done"
    /\ IF BlockCount < Cardinality(rextr)
       THEN rres' = "panic" /\ UNCHANGED rsum                 \* usize underflow
       ELSE rres' = "ok" /\ rsum' = Summary(BlockCount)
    /\ UNCHANGED <<ropts, rtodo, rextr, rskip, rlost, rtarget, rtlist>>

\* deviation C07-HETBET-COUNTS-UNLISTED: a HET/BET source is counted over its BET entries (listed or not)
FinishCountsPhysical ==
    /\ rpc = "finish" /\ rpc' = "done" /\ rres' = "ok" /\ rsum' = Summary(Cardinality(RFiles \cup RUnlisted))
    /\ UNCHANGED <<ropts, rtodo, rextr, rskip, rlost, rtarget, rtlist>>

DesignNext == Enumerate \/ (\E f \in RFiles : Skip(f) \/ Extract(f)) \/ ListOnly \/ BuildCopyListfile \/ BuildGenerateListfile \/ VerifyOk \/ VerifyFail \/ Finish
CodeNext   == (~RHetBet /\ Enumerate) \/ EnumerateAnonymous
              \/ (\E f \in RFiles : Skip(f) \/ Extract(f) \/ ExtractReadFailContinue(f))
              \/ ListOnly \/ BuildCopyListfile \/ BuildGenerateListfile \/ VerifyOk \/ VerifyFail \/ FinishCountsBlocks
\* the code at HEAD 0bee69d on sources whose (listfile) does not name everything (round 4)
HeadNext   == Enumerate \/ (\E f \in RFiles : Skip(f) \/ Extract(f)) \/ ListOnly \/ BuildCopyListfile \/ BuildGenerateListfile
              \/ VerifyCountsListing \/ (ListingLengthsEqual /\ (VerifyOk \/ VerifyFail))
              \/ (~RHetBet /\ Finish) \/ (RHetBet /\ FinishCountsPhysical)
\* the designed machine with the listfile strategy of the seeded class
NoLfNext   == Enumerate \/ (\E f \in RFiles : Skip(f) \/ Extract(f)) \/ ListOnly \/ BuildCopyListfile
              \/ BuildNoListfile \/ (RLf \notin RUnlisted /\ BuildGenerateListfile) \/ VerifyOk \/ VerifyFail \/ Finish

Done == rpc = "done"
TargetExact         == (Done /\ rres = "ok" /\ ~ropts.listOnly) => rtarget = Expected(ropts)
TargetEnumerable    == (Done /\ rres = "ok" /\ ~ropts.listOnly) => ListingExact
ListOnlyNoTarget    == (Done /\ ropts.listOnly) => (rtarget = [f \in RFiles |-> RNone] /\ rtlist = {})
CountsTruthful      == (Done /\ rres = "ok") =>
                          /\ rsum.source = Cardinality(RFiles)
                          /\ rsum.extracted = Cardinality(RFiles \ Excluded(ropts))
                          /\ rsum.skipped = Cardinality(Excluded(ropts))
                          /\ rsum.extracted + rsum.skipped = rsum.source
SkippedOnlyByOption == rskip \subseteq Excluded(ropts) /\ rlost = {}
VerifyMeansEqual    == (Done /\ rres = "ok" /\ ropts.verify /\ ~ropts.listOnly) => rtarget = Expected(ropts)
Terminates          == <>Done
NeverFails          == Done => rres = "ok"
=============================================================================
