//! C18 driver: WDT / WDL write -> parse -> rewrite -> convert on TLC-generated shapes, an independent
//! chunk walker over the produced bytes, and the tile <-> world maps on all 4096 tiles.
//! Records observations only; Trace_WdtWdl.tla decides.
use std::io::Cursor;
use wow_wdl::conversion::convert_wdl_file;
use wow_wdl::parser::WdlParser;
use wow_wdl::types::{
    BoundingBox, HeightMapTile, HolesData, M2Placement, M2VisibilityInfo, ModelPlacement, Vec3d, WdlFile,
};
use wow_wdl::version::WdlVersion;
use wow_wdt::chunks::maid::MaidSection;
use wow_wdt::chunks::mphd::FileDataIds;
use wow_wdt::chunks::{MaidChunk, MphdChunk, MphdFlags, ModfChunk, ModfEntry, MwmoChunk};
use wow_wdt::conversion::convert_wdt;
use wow_wdt::version::WowVersion;
use wow_wdt::{tile_to_world, world_to_tile, WdtFile, WdtReader, WdtWriter};
use wverif_common::*;

// ------------------------------------------------------------------------------------------
// independent chunk walker: knows only <tag:4, size:u32le, payload>
// ------------------------------------------------------------------------------------------
struct Obs {
    tag: String,
    off: usize,
    size: usize,
    tok: String,
}

fn walk(bytes: &[u8]) -> (Vec<Obs>, usize) {
    let mut v = Vec::new();
    let mut cur = 0usize;
    while cur + 8 <= bytes.len() {
        let mut t = [bytes[cur + 3], bytes[cur + 2], bytes[cur + 1], bytes[cur]];
        for b in t.iter_mut() {
            if !b.is_ascii_graphic() {
                *b = b'?';
            }
        }
        let size = u32::from_le_bytes([bytes[cur + 4], bytes[cur + 5], bytes[cur + 6], bytes[cur + 7]]) as usize;
        let end = cur.saturating_add(8).saturating_add(size);
        let pay = if end <= bytes.len() { &bytes[cur + 8..end] } else { &bytes[cur + 8..] };
        v.push(Obs { tag: String::from_utf8_lossy(&t).to_string(), off: cur, size: size.min(0x7fff_0000), tok: tok(pay) });
        if end > bytes.len() {
            break; // the spec rejects this chunk (does not fit); stop here
        }
        cur = end;
    }
    (v, cur)
}

fn chunk_events(case: &str, obs: &[Obs], cur: usize, len: usize, evs: &mut Vec<Value>) {
    for part in obs.chunks(64) {
        let cs: Vec<Value> =
            part.iter().map(|o| json!({"tag":o.tag,"off":o.off,"size":o.size,"tok":o.tok})).collect();
        evs.push(json!({"ev":"Chunks","case":case,"cs":cs}));
    }
    evs.push(json!({"ev":"WalkEnd","case":case,"cur":cur,"len":len}));
}

// ------------------------------------------------------------------------------------------
// helpers
// ------------------------------------------------------------------------------------------
fn name_of_len(n: usize, rng: &mut Rng, i: usize) -> String {
    // exact byte length n; shared prefix; non-ASCII when there is room
    let mut s = String::new();
    let prefix = "World\\wmo\\";
    for c in prefix.chars() {
        if s.len() + 1 <= n.saturating_sub(0) && s.len() < n {
            s.push(c);
        }
    }
    if n >= s.len() + 2 && i % 2 == 0 {
        s.push('\u{e9}'); // 2 bytes
    }
    while s.len() < n {
        s.push((b'a' + rng.below(26) as u8) as char);
    }
    debug_assert_eq!(s.len(), n);
    s
}

fn f(rng: &mut Rng) -> f32 {
    let v = (rng.f32() - 0.5) * 34000.0;
    if rng.chance(1, 16) {
        -0.0
    } else {
        v
    }
}
fn v3(rng: &mut Rng) -> [f32; 3] {
    [f(rng), f(rng), f(rng)]
}
fn vec3d(rng: &mut Rng) -> Vec3d {
    Vec3d::new(f(rng), f(rng), f(rng))
}
fn bbox(rng: &mut Rng) -> BoundingBox {
    BoundingBox::new(vec3d(rng), vec3d(rng))
}

fn tiles_of(c: &Value, k: &str) -> Vec<(u32, u32)> {
    ga(c, k).iter().map(|t| (t[0].as_u64().unwrap() as u32, t[1].as_u64().unwrap() as u32)).collect()
}
fn lens_of(c: &Value, k: &str) -> Vec<usize> {
    ga(c, k).iter().map(|t| t.as_u64().unwrap() as usize).collect()
}

fn wow_version(s: &str) -> WowVersion {
    match s {
        "Classic" => WowVersion::Classic,
        "TBC" => WowVersion::TBC,
        "WotLK" => WowVersion::WotLK,
        "Cataclysm" => WowVersion::Cataclysm,
        "MoP" => WowVersion::MoP,
        "WoD" => WowVersion::WoD,
        "Legion" => WowVersion::Legion,
        "BfA" => WowVersion::BfA,
        "Shadowlands" => WowVersion::Shadowlands,
        "Dragonflight" => WowVersion::Dragonflight,
        _ => tool_error(&format!("unknown WDT version {s}")),
    }
}
fn wdl_version(s: &str) -> WdlVersion {
    match s {
        "Vanilla" => WdlVersion::Vanilla,
        "Wotlk" => WdlVersion::Wotlk,
        "Cataclysm" => WdlVersion::Cataclysm,
        "Mop" => WdlVersion::Mop,
        "Wod" => WdlVersion::Wod,
        "Legion" => WdlVersion::Legion,
        "Bfa" => WdlVersion::Bfa,
        "Shadowlands" => WdlVersion::Shadowlands,
        "Dragonflight" => WdlVersion::Dragonflight,
        "Latest" => WdlVersion::Latest,
        _ => tool_error(&format!("unknown WDL version {s}")),
    }
}

fn outcome<T, E: std::fmt::Debug>(o: Outcome<Result<T, E>>) -> (String, Option<T>) {
    match o {
        Outcome::Done(Ok(v)) => ("ok".into(), Some(v)),
        Outcome::Done(Err(e)) => (format!("err:{}", variant_name(&e)), None),
        Outcome::Panic(_) => ("panic".into(), None),
        Outcome::Hang => ("hang".into(), None),
    }
}

// ------------------------------------------------------------------------------------------
// WDT
// ------------------------------------------------------------------------------------------
/// Semantic projection of the MPHD chunk: flag bits and the seven u32 that follow, as the format
/// defines them (legacy fields without the MAID flag, FileDataIDs with it).
fn mphd_tok(m: &MphdChunk) -> String {
    let vals: Vec<u32> = if m.has_maid() {
        vec![
            m.lgt_file_data_id.unwrap_or(0),
            m.occ_file_data_id.unwrap_or(0),
            m.fogs_file_data_id.unwrap_or(0),
            m.mpv_file_data_id.unwrap_or(0),
            m.tex_file_data_id.unwrap_or(0),
            m.wdl_file_data_id.unwrap_or(0),
            m.pd4_file_data_id.unwrap_or(0),
        ]
    } else {
        let mut v = vec![m.something];
        v.extend_from_slice(&m.unused);
        v
    };
    dtok(&(m.flags.bits(), vals))
}
fn wdt_toks(w: &WdtFile) -> Value {
    json!({"mphd": mphd_tok(&w.mphd), "main": dtok(&w.main), "maid": dtok(&w.maid), "mwmo": dtok(&w.mwmo), "modf": dtok(&w.modf)})
}
fn no_toks_wdt() -> Value {
    json!({"mphd":"-","main":"-","maid":"-","mwmo":"-","modf":"-"})
}
fn wdt_write(w: &WdtFile) -> (String, Option<Vec<u8>>) {
    outcome(guarded(|| {
        let mut buf = Vec::new();
        WdtWriter::new(&mut buf).write(w).map(|_| buf)
    }))
}
fn wdt_read(bytes: &[u8], hint: WowVersion) -> (String, Option<WdtFile>) {
    outcome(guarded(|| WdtReader::new(Cursor::new(bytes.to_vec()), hint).read()))
}

fn build_wdt(c: &Value, rng: &mut Rng) -> WdtFile {
    let ver = wow_version(gs(c, "ver"));
    let mut w = WdtFile::new(ver);
    let mut bits = 0u32;
    for b in ga(c, "flags") {
        bits |= b.as_u64().unwrap() as u32;
    }
    w.mphd.flags = MphdFlags::from_bits(bits).unwrap_or_else(|| tool_error("flag bits outside MphdFlags"));
    if w.mphd.has_maid() {
        w.mphd.set_file_data_ids(FileDataIds {
            lgt: rng.next_u32(),
            occ: rng.next_u32(),
            fogs: rng.next_u32(),
            mpv: rng.next_u32(),
            tex: rng.next_u32(),
            wdl: rng.next_u32(),
            pd4: rng.next_u32(),
        });
    } else {
        w.mphd.something = rng.next_u32();
        for u in w.mphd.unused.iter_mut() {
            *u = rng.next_u32();
        }
    }
    let tiles = tiles_of(c, "tiles");
    let mut present = vec![false; 4096];
    for (x, y) in &tiles {
        present[(*y * 64 + *x) as usize] = true;
    }
    for y in 0..64usize {
        for x in 0..64usize {
            let e = w.main.get_mut(x, y).unwrap();
            e.area_id = rng.next_u32();
            e.flags = (present[y * 64 + x] as u32) | ((rng.below(8) as u32) << 1);
        }
    }
    if gb(c, "hasMaid") {
        let n = gi(c, "nSec") as usize;
        let mut m = MaidChunk::with_section_count(n);
        for s in MaidSection::all().iter().filter(|s| s.index() < n) {
            for y in 0..64usize {
                for x in 0..64usize {
                    let mut id = rng.next_u32() | 1;
                    if s.index() == 0 && !present[y * 64 + x] {
                        id = 0;
                    }
                    m.set(*s, x, y, id).unwrap();
                }
            }
        }
        w.maid = Some(m);
    }
    if gb(c, "hasMwmo") {
        let mut m = MwmoChunk::new();
        for (i, n) in lens_of(c, "names").iter().enumerate() {
            m.add_filename(name_of_len(*n, rng, i));
        }
        w.mwmo = Some(m);
    }
    if gb(c, "hasModf") {
        let mut m = ModfChunk::new();
        for _ in 0..gi(c, "nModf") {
            m.add_entry(ModfEntry {
                id: rng.next_u32(),
                unique_id: rng.next_u32(),
                position: v3(rng),
                rotation: v3(rng),
                lower_bounds: v3(rng),
                upper_bounds: v3(rng),
                flags: rng.next_u32() as u16,
                doodad_set: rng.next_u32() as u16,
                name_set: rng.next_u32() as u16,
                scale: rng.next_u32() as u16,
            });
        }
        w.modf = Some(m);
    }
    w
}

fn wdt_reset(case: &str, c: &Value, chain: &[&str]) -> Value {
    json!({"ev":"Reset","case":case,"fmt":"wdt","ver":gs(c,"ver"),"grid":gs(c,"grid"),"flags":c["flags"],
        "hasMwmo":c["hasMwmo"],"names":c["names"],"hasModf":c["hasModf"],"nModf":c["nModf"],"hasMaid":c["hasMaid"],"nSec":c["nSec"],
        "tiles":c["tiles"],"holes":[],"nIdx":0,"nPlace":0,"nMldd":0,"nMlmd":0,"mode":"same","chain":chain,"api":"-"})
}

/// Source .. Write .. Chunks .. WalkEnd .. Parse .. Rewrite for one in-memory object (freshly built, or the end
/// of a conversion history); `base` = content tokens of the object the history started from
fn wdt_roundtrip(case: &str, obj: &WdtFile, hint: WowVersion, base: &Value, evs: &mut Vec<Value>) -> Option<WdtFile> {
    let warnings = obj.validate();
    evs.push(json!({"ev":"Source","case":case,"toks":wdt_toks(obj),"tiles":[],"warnings":warnings.len(),"base":base}));
    let (res, bytes) = wdt_write(obj);
    let bytes = bytes.unwrap_or_default();
    evs.push(json!({"ev":"Write","case":case,"res":res,"len":bytes.len(),"tok":tok(&bytes)}));
    if res != "ok" {
        return None;
    }
    let (obs, cur) = walk(&bytes);
    chunk_events(case, &obs, cur, bytes.len(), evs);
    let (pres, parsed) = wdt_read(&bytes, hint);
    match &parsed {
        Some(p) => evs.push(json!({"ev":"Parse","case":case,"mode":"same","res":pres,"det":format!("{:?}", p.version()),"toks":wdt_toks(p)})),
        None => evs.push(json!({"ev":"Parse","case":case,"mode":"same","res":pres,"det":"-","toks":no_toks_wdt()})),
    }
    if let Some(p) = &parsed {
        let (r2, b2) = wdt_write(p);
        let b2 = b2.unwrap_or_default();
        evs.push(json!({"ev":"Rewrite","case":case,"mode":"same","res":r2,"len":b2.len(),"tok":tok(&b2)}));
    }
    parsed
}

fn run_wdt(case: &str, c: &Value, rng: &mut Rng) -> Vec<Value> {
    let mut evs = Vec::new();
    let ver_s = gs(c, "ver");
    let ver = wow_version(ver_s);
    evs.push(wdt_reset(case, c, &[]));
    let src = build_wdt(c, rng);
    let base = wdt_toks(&src);
    // conversions (single steps and histories) start from the PARSED file, as a user of the library would have it
    let start = wdt_roundtrip(case, &src, ver, &base, &mut evs).unwrap_or_else(|| src.clone());
    for to_s in ga(c, "conv") {
        let to_s = to_s.as_str().unwrap();
        let to = wow_version(to_s);
        let mut w = start.clone();
        let (cres, _) = outcome(guarded(|| convert_wdt(&mut w, ver, to)));
        if cres != "ok" {
            evs.push(json!({"ev":"Convert","case":case,"to":to_s,"res":cres,"toks":no_toks_wdt(),"wres":"-","ptoks":no_toks_wdt(),"fl":0,"hm":false,"hw":false,"hd":false}));
            continue;
        }
        let toks = wdt_toks(&w);
        let (fl, hm, hw, hd) = (w.mphd.flags.bits(), w.maid.is_some(), w.mwmo.is_some(), w.modf.is_some());
        let (wres, wb) = wdt_write(&w);
        let mut ptoks = no_toks_wdt();
        let mut wres2 = wres.clone();
        if let Some(wb) = wb {
            let (pr, pp) = wdt_read(&wb, to);
            wres2 = if pr == "ok" { wres } else { format!("parse-{pr}") };
            if let Some(pp) = pp {
                ptoks = wdt_toks(&pp);
            }
        }
        evs.push(json!({"ev":"Convert","case":case,"to":to_s,"res":cres,"toks":toks,"wres":wres2,"ptoks":ptoks,"fl":fl,"hm":hm,"hw":hw,"hd":hd}));
    }
    // conversion histories: the object at the end of each chain is a trace of its own
    for (k, ch) in c.get("chains").and_then(|x| x.as_array()).cloned().unwrap_or_default().iter().enumerate() {
        let vs: Vec<&str> = ch.as_array().unwrap().iter().map(|v| v.as_str().unwrap()).collect();
        let sub = format!("{case}/h{k}");
        evs.push(wdt_reset(&sub, c, &vs));
        let mut w = start.clone();
        let mut from = ver;
        let mut res = "ok".to_string();
        let mut at = vs.len();
        for (i, to_s) in vs.iter().enumerate() {
            let to = wow_version(to_s);
            let (r, _) = outcome(guarded(|| convert_wdt(&mut w, from, to)));
            if r != "ok" {
                res = r;
                at = i + 1;
                break;
            }
            from = to;
        }
        evs.push(json!({"ev":"Chain","case":sub,"res":res,"at":at}));
        if res == "ok" {
            wdt_roundtrip(&sub, &w, from, &base, &mut evs);
        }
    }
    evs
}

// ------------------------------------------------------------------------------------------
// WDL
// ------------------------------------------------------------------------------------------
fn heights_bytes(h: &HeightMapTile) -> Vec<u8> {
    let mut v = Vec::with_capacity(1090);
    for x in h.outer_values.iter().chain(h.inner_values.iter()) {
        v.extend_from_slice(&x.to_le_bytes());
    }
    v
}
fn holes_bytes(h: &HolesData) -> Vec<u8> {
    let mut v = Vec::with_capacity(32);
    for x in h.hole_masks.iter() {
        v.extend_from_slice(&x.to_le_bytes());
    }
    v
}
fn sorted_keys<T>(m: &std::collections::HashMap<(u32, u32), T>) -> Vec<(u32, u32)> {
    let mut k: Vec<(u32, u32)> = m.keys().copied().collect();
    k.sort_by_key(|(x, y)| (*y, *x));
    k
}
fn wdl_toks(w: &WdlFile) -> Value {
    let mut ts = String::new();
    for k in sorted_keys(&w.heightmap_tiles) {
        ts.push_str(&format!("{},{}:{};", k.0, k.1, tok(&heights_bytes(&w.heightmap_tiles[&k]))));
    }
    let mut hs = String::new();
    for k in sorted_keys(&w.holes_data) {
        hs.push_str(&format!("{},{}:{};", k.0, k.1, tok(&holes_bytes(&w.holes_data[&k]))));
    }
    json!({"tiles": tok(ts.as_bytes()), "holes": tok(hs.as_bytes()), "mwmo": dtok(&w.wmo_filenames), "mwid": dtok(&w.wmo_indices),
           "modf": dtok(&w.wmo_placements), "mldd": dtok(&w.m2_placements), "mldx": dtok(&w.m2_visibility),
           "mlmd": dtok(&w.wmo_legion_placements), "mlmx": dtok(&w.wmo_legion_visibility)})
}
fn no_toks_wdl() -> Value {
    json!({"tiles":"-","holes":"-","mwmo":"-","mwid":"-","modf":"-","mldd":"-","mldx":"-","mlmd":"-","mlmx":"-"})
}
fn wdl_write(p: &WdlParser, w: &WdlFile) -> (String, Option<Vec<u8>>) {
    outcome(guarded(|| {
        let mut cur = Cursor::new(Vec::new());
        p.write(&mut cur, w).map(|_| cur.into_inner())
    }))
}
fn wdl_parse(p: &WdlParser, bytes: &[u8]) -> (String, Option<WdlFile>) {
    outcome(guarded(|| p.parse(&mut Cursor::new(bytes.to_vec()))))
}
fn m2p(rng: &mut Rng) -> M2Placement {
    M2Placement { id: rng.next_u32(), m2_id: rng.next_u32(), position: vec3d(rng), rotation: vec3d(rng), scale: f(rng), flags: rng.next_u32() }
}
fn m2v(rng: &mut Rng) -> M2VisibilityInfo {
    M2VisibilityInfo { bounds: bbox(rng), radius: f(rng) }
}

fn build_wdl(c: &Value, rng: &mut Rng) -> WdlFile {
    let ver = wdl_version(gs(c, "ver"));
    let mut w = WdlFile::with_version(ver);
    for (x, y) in tiles_of(c, "tiles") {
        let mut h = HeightMapTile::new();
        for v in h.outer_values.iter_mut().chain(h.inner_values.iter_mut()) {
            *v = rng.next_u32() as i16;
        }
        w.heightmap_tiles.insert((x, y), h);
    }
    for (x, y) in tiles_of(c, "holes") {
        let mut h = HolesData::new();
        for m in h.hole_masks.iter_mut() {
            *m = rng.next_u32() as u16;
        }
        w.holes_data.insert((x, y), h);
    }
    for (i, n) in lens_of(c, "names").iter().enumerate() {
        w.wmo_filenames.push(name_of_len(*n, rng, i));
    }
    let nidx = gi(c, "nIdx") as u32;
    for _ in 0..nidx {
        w.wmo_indices.push(rng.next_u32());
    }
    for _ in 0..gi(c, "nPlace") {
        w.wmo_placements.push(ModelPlacement {
            id: rng.next_u32(),
            wmo_id: rng.below(nidx.max(1) as u64) as u32,
            position: vec3d(rng),
            rotation: vec3d(rng),
            bounds: bbox(rng),
            flags: rng.next_u32() as u16,
            doodad_set: rng.next_u32() as u16,
            name_set: rng.next_u32() as u16,
            padding: rng.next_u32() as u16,
        });
    }
    for _ in 0..gi(c, "nMldd") {
        w.m2_placements.push(m2p(rng));
        w.m2_visibility.push(m2v(rng));
    }
    for _ in 0..gi(c, "nMlmd") {
        w.wmo_legion_placements.push(m2p(rng));
        w.wmo_legion_visibility.push(m2v(rng));
    }
    w
}

fn wdl_reset(case: &str, c: &Value, chain: &[&str], api: &str, mode: &str) -> Value {
    json!({"ev":"Reset","case":case,"fmt":"wdl","ver":gs(c,"ver"),"grid":gs(c,"grid"),"flags":[],
        "hasMwmo":false,"names":c["names"],"hasModf":false,"nModf":0,"hasMaid":false,"nSec":0,
        "tiles":c["tiles"],"holes":c["holes"],"nIdx":c["nIdx"],"nPlace":c["nPlace"],"nMldd":c["nMldd"],"nMlmd":c["nMlmd"],"mode":mode,
        "chain":chain,"api":api})
}

fn wdl_roundtrip(case: &str, obj: &WdlFile, ver: WdlVersion, mode: &str, base: &Value, evs: &mut Vec<Value>) -> Option<WdlFile> {
    let tl: Vec<Value> = sorted_keys(&obj.heightmap_tiles)
        .iter()
        .map(|k| {
            let o = obj.holes_data.get(k).map(|h| tok(&holes_bytes(h))).unwrap_or_default();
            json!([k.0, k.1, tok(&heights_bytes(&obj.heightmap_tiles[k])), o])
        })
        .collect();
    evs.push(json!({"ev":"Source","case":case,"toks":wdl_toks(obj),"tiles":tl,"warnings":0,"base":base}));
    let wp = WdlParser::with_version(ver);
    let (res, bytes) = wdl_write(&wp, obj);
    let bytes = bytes.unwrap_or_default();
    evs.push(json!({"ev":"Write","case":case,"res":res,"len":bytes.len(),"tok":tok(&bytes)}));
    if res != "ok" {
        return None;
    }
    let (obs, cur) = walk(&bytes);
    chunk_events(case, &obs, cur, bytes.len(), evs);
    // offset table, read from the bytes: [index, target, 1-based index of the chunk whose header starts there]
    if let Some(m) = obs.iter().find(|o| o.tag == "MAOF") {
        let n = m.size / 4;
        let offs: Vec<usize> = obs.iter().map(|o| o.off).collect();
        let mut ents = Vec::new();
        for i in 0..n {
            let p = m.off + 8 + 4 * i;
            if p + 4 > bytes.len() {
                break;
            }
            let t = u32::from_le_bytes([bytes[p], bytes[p + 1], bytes[p + 2], bytes[p + 3]]) as usize;
            if t != 0 {
                let j = offs.binary_search(&t).map(|k| k + 1).unwrap_or(0);
                ents.push(json!([i, t.min(0x7fff_0000), j]));
            }
        }
        evs.push(json!({"ev":"Maof","case":case,"size":n,"ents":ents}));
    } else {
        evs.push(json!({"ev":"Maof","case":case,"size":0,"ents":[]}));
    }
    let pp = if mode == "latest" { WdlParser::new() } else { WdlParser::with_version(ver) };
    let (pres, parsed) = wdl_parse(&pp, &bytes);
    match &parsed {
        Some(p) => evs.push(json!({"ev":"Parse","case":case,"mode":mode,"res":pres,"det":format!("{:?}", p.version),"toks":wdl_toks(p)})),
        None => evs.push(json!({"ev":"Parse","case":case,"mode":mode,"res":pres,"det":"-","toks":no_toks_wdl()})),
    }
    if let Some(p) = &parsed {
        let (r2, b2) = wdl_write(&pp, p);
        let b2 = b2.unwrap_or_default();
        evs.push(json!({"ev":"Rewrite","case":case,"mode":mode,"res":r2,"len":b2.len(),"tok":tok(&b2)}));
    }
    parsed
}

fn run_wdl(case: &str, c: &Value, rng: &mut Rng) -> Vec<Value> {
    let mut evs = Vec::new();
    let ver_s = gs(c, "ver");
    let ver = wdl_version(ver_s);
    let mode = gs(c, "mode");
    evs.push(wdl_reset(case, c, &[], "-", mode));
    let src = build_wdl(c, rng);
    let base = wdl_toks(&src);
    // conversions start from the PARSED file (offset table populated), parsed for the file's own version
    let parsed = wdl_roundtrip(case, &src, ver, mode, &base, &mut evs);
    let start_owned: Option<WdlFile> = if mode == "same" {
        parsed
    } else {
        let (_, b) = wdl_write(&WdlParser::with_version(ver), &src);
        b.and_then(|b| wdl_parse(&WdlParser::with_version(ver), &b).1)
    };
    let start: &WdlFile = start_owned.as_ref().unwrap_or(&src);
    for to_s in ga(c, "conv") {
        let to_s = to_s.as_str().unwrap();
        let to = wdl_version(to_s);
        let (cres, conv) = outcome(guarded(|| convert_wdl_file(start, to)));
        let Some(w) = conv else {
            evs.push(json!({"ev":"Convert","case":case,"to":to_s,"res":cres,"toks":no_toks_wdl(),"wres":"-","ptoks":no_toks_wdl(),"fl":0,"hm":false,"hw":false,"hd":false}));
            continue;
        };
        let toks = wdl_toks(&w);
        let tp = WdlParser::with_version(to);
        let (wres, wb) = wdl_write(&tp, &w);
        let mut ptoks = no_toks_wdl();
        let mut wres2 = wres.clone();
        if let Some(wb) = wb {
            let (pr, p2) = wdl_parse(&tp, &wb);
            wres2 = if pr == "ok" { wres } else { format!("parse-{pr}") };
            if let Some(p2) = p2 {
                ptoks = wdl_toks(&p2);
            }
        }
        evs.push(json!({"ev":"Convert","case":case,"to":to_s,"res":cres,"toks":toks,"wres":wres2,"ptoks":ptoks,"fl":0,"hm":false,"hw":false,"hd":false}));
    }
    // conversion histories through both public conversion entry points
    for (k, ch) in c.get("chains").and_then(|x| x.as_array()).cloned().unwrap_or_default().iter().enumerate() {
        let api = gs(ch, "api");
        let vs: Vec<&str> = ga(ch, "vs").iter().map(|v| v.as_str().unwrap()).collect();
        let sub = format!("{case}/h{k}");
        evs.push(wdl_reset(&sub, c, &vs, api, "same"));
        let mut cur: Option<WdlFile> = None;
        let mut res = "ok".to_string();
        let mut at = vs.len();
        for (i, to_s) in vs.iter().enumerate() {
            let to = wdl_version(to_s);
            let from_obj: &WdlFile = cur.as_ref().unwrap_or(start);
            let (r, o) = outcome(guarded(|| if api == "to" { from_obj.convert_to(to) } else { convert_wdl_file(from_obj, to) }));
            match o {
                Some(o) => cur = Some(o),
                None => {
                    res = r;
                    at = i + 1;
                    break;
                }
            }
        }
        evs.push(json!({"ev":"Chain","case":sub,"res":res,"at":at}));
        if res == "ok" {
            let last = wdl_version(vs[vs.len() - 1]);
            wdl_roundtrip(&sub, cur.as_ref().unwrap(), last, "same", &base, &mut evs);
        }
    }
    evs
}

// ------------------------------------------------------------------------------------------
// coordinates: all 4096 tiles
// ------------------------------------------------------------------------------------------
fn run_coord(case: &str) -> Vec<Value> {
    let mut evs = Vec::new();
    for ty in 0..64u32 {
        if ty % 4 == 0 {
            evs.push(json!({"ev":"Reset","case":case,"fmt":"coord","ver":"-","grid":"-","flags":[],
                "hasMwmo":false,"names":[],"hasModf":false,"nModf":0,"hasMaid":false,"nSec":0,
                "tiles":[],"holes":[],"nIdx":0,"nPlace":0,"nMldd":0,"nMlmd":0,"mode":"same","chain":[],"api":"-"}));
        }
        for tx in 0..64u32 {
            let r = guarded(|| {
                let (wx, wy) = tile_to_world(tx, ty);
                let (bx, by) = world_to_tile(wx, wy);
                (wx, wy, bx, by)
            });
            match r {
                Outcome::Done((wx, wy, bx, by)) => evs.push(json!({"ev":"Coord","case":case,"res":"ok","tx":tx,"ty":ty,
                    "wxm":(wx as f64 * 1000.0).round() as i64,"wym":(wy as f64 * 1000.0).round() as i64,"bx":bx,"by":by})),
                _ => evs.push(json!({"ev":"Coord","case":case,"res":"panic","tx":tx,"ty":ty,"wxm":0,"wym":0,"bx":0,"by":0})),
            }
        }
    }
    evs
}

fn main() {
    let a = args();
    install_quiet_panic_hook();
    let cases = read_cases(&a.cases);
    let trace = Trace::create(&a.trace);
    let seed = seed();
    let only: Option<usize> = a.extra.first().and_then(|s| s.parse().ok());
    let results: Vec<std::sync::Mutex<Vec<Value>>> = (0..cases.len()).map(|_| std::sync::Mutex::new(Vec::new())).collect();
    par_for(cases.len(), ncpu().min(8), |ci| {
        if let Some(o) = only {
            if o != ci {
                return;
            }
        }
        let c = &cases[ci];
        let kind = gs(c, "kind");
        let case = format!("{ci}:{kind}");
        let mut rng = Rng::derive(seed, &case);
        let evs = match kind {
            "wdt" => run_wdt(&case, c, &mut rng),
            "wdl" => run_wdl(&case, c, &mut rng),
            "coord" => run_coord(&case),
            _ => tool_error(&format!("unknown case kind {kind}")),
        };
        *results[ci].lock().unwrap() = evs;
    });
    // deterministic order: by case index
    for r in results {
        trace.block(r.into_inner().unwrap());
    }
    trace.flush();
}
