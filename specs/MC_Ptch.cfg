CONSTANT SeekMode = "signed"
INIT Init
NEXT Next
INVARIANT PtchSafety
INVARIANT PtchLiveness
INVARIANT FoldAgrees
INVARIANT ClosedFormAgrees
CHECK_DEADLOCK FALSE
