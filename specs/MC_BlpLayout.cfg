INIT Init
NEXT Next
INVARIANT LocatorSound
INVARIANT ChainLaw
INVARIANT ChainComplete
INVARIANT DeviationOnlyNonSquare
INVARIANT ParseStructure
CHECK_DEADLOCK FALSE
