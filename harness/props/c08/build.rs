// Detect whether the tree under test carries the optional `verif_yield` hook (fixes/C09-hook.patch).
// The check works with and without it: with the hook the driver installs a seeded delay function,
// without it the schedule is perturbed only by contention threads and thread-count variation.
fn main() {
    let lib = "/repo/file-formats/archives/wow-mpq/src/lib.rs";
    println!("cargo:rerun-if-changed={lib}");
    println!("cargo:rustc-check-cfg=cfg(have_verif_yield)");
    if std::fs::read_to_string(lib).map(|s| s.contains("pub fn set_yield_hook")).unwrap_or(false) {
        println!("cargo:rustc-cfg=have_verif_yield");
    }
}
