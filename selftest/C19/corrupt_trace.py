#!/usr/bin/env python3
"""Binding demonstration for C19: an accepted trace is rejected once one logged field is altered.
   usage: selftest/C19/corrupt_trace.py <cases.ndjson>   (uses the first 6 cases, unchanged /repo unless VERIF_REPO is set)"""
import importlib.util, json, os, sys
V = os.path.dirname(os.path.dirname(os.path.dirname(os.path.abspath(__file__))))
sys.path.insert(0, V)
from vlib import core
spec = importlib.util.spec_from_file_location("c19", os.path.join(V, "checks", "c19.py")); m = importlib.util.module_from_spec(spec); spec.loader.exec_module(m)
ctx = core.Ctx("C19", "quick", 1, m.META)
sel = ctx.path("sel.ndjson")
open(sel, "w").write("".join(open(sys.argv[1]).readlines()[:6]))
trace = ctx.harness(ctx.build("c19"), sel)
res = ctx.validate("Trace_StormFfi", trace, shards=1)
print("original trace: rejected =", len(res["bad"]))
lines = open(trace).read().splitlines()
def corrupt(pred, change, what):
    out = list(lines)
    for i, l in enumerate(out):
        r = json.loads(l)
        if pred(r):
            change(r)
            out[i] = json.dumps(r)
            p = ctx.path("corrupt.ndjson")
            open(p, "w").write("\n".join(out) + "\n")
            res = ctx.validate("Trace_StormFfi", p, shards=1)
            print(f"{what}: altered line {i+1}; rejected = {[(b['line'], b['rec'].get('fn')) for b in res['bad']]}")
            return
    print(what, ": no such event in the sample")
corrupt(lambda r: r["ev"] == "Ret" and r["fn"] == "ReadFile" and r["out"], lambda r: r["out"].__setitem__(0, r["out"][0] ^ 1), "one copied byte flipped")
corrupt(lambda r: r["ev"] == "Ret" and r["fn"] == "CloseFile" and r["ret"] == 1, lambda r: r.__setitem__("ret", 0), "CloseFile result TRUE -> FALSE")
corrupt(lambda r: r["ev"] == "Ret" and r["fn"] == "FindFirst" and r["ret"] > 0, lambda r: r.__setitem__("ret", 1), "search handle id collides with a live archive id")
corrupt(lambda r: r["ev"] == "Ret" and r["fn"] == "ReadFile", lambda r: r.__setitem__("canary", False), "canary flag cleared")
ctx.cleanup()
