--------------------------- MODULE Gen_MpqFormat ---------------------------
(* Stage (B) for C02: TLC enumerates the abstract archive configurations for both directions.     *)
(*                                                                                                *)
(* The space (DESIGN.md 5, C02): V1/V2 x shift 0..3 x per file {method none|zlib|bzip2} x          *)
(* {plain|enc|fix} x 10 length classes relative to the sector size x 4 content classes x           *)
(* (direction 2 only: unit choice auto|single|sectored, hash table size tight|roomy, deleted       *)
(* markers 0..2, hi-block table, 512/1024 bytes of pre-archive data without/with a user data        *)
(* header, a same-name entry with another locale in front of a neutral one).                       *)
(* Files are numbered consecutively over the whole run; the triple (method, enc, length class) of *)
(* file number q is the mixed-radix expansion of q + seed-offset, so every 90 consecutive files   *)
(* cover the full product; the remaining dimensions are rotated with co-prime strides.  The seed  *)
(* only rotates which representatives are drawn (and, in the drivers, the content bytes).         *)
EXTENDS Integers, Sequences, SequencesExt, FiniteSets, Json, IOUtils, TLC

Thorough == IOEnv.VERIF_TIER = "thorough"
Seed     == atoi(IOEnv.VERIF_SEED)
NArch    == IF "C02_NARCH" \in DOMAIN IOEnv THEN atoi(IOEnv.C02_NARCH) ELSE IF Thorough THEN 800 ELSE 48

Methods  == <<"none", "zlib", "bzip2">>
Encs     == <<"plain", "enc", "fix">>
\* length classes relative to the sector size S
LenCls   == <<"0", "1", "7", "S-1", "S", "S+1", "S+S/2", "2S", "2S+9", "3S+5">>
\* "edge": first unit = text + just enough random bytes that its zlib stream is exactly one byte shorter than the
\* unit (method byte + stream = raw size: must be stored raw); direction 2 treats it like "mixed"
Contents == <<"text", "random", "run", "mixed", "edge">>
Units    == <<"auto", "sectored", "auto", "single", "auto">>
\* names: with and without directories, mixed case, a dot-less one, a long path
\* Non-ASCII names are written with %XX escapes of their UTF-8 bytes (decoded by the drivers): the published hash
\* folds ASCII a-z only and hashes every other byte verbatim, so names with non-ASCII lower-case letters
\* (2-, 3- and 4-byte code points, lower- and upper-case forms) separate it from any Unicode-aware case folding.
\*   caf\xE9.txt   \xFF   \xDF.dat   \u0130stanbul\\\u1E01\U00010428.bin   CAF\xC9.TTF   ma\xF1ana\\\xFCber.wmo
NamePool == << "a.txt", "Interface\\Glue\\caf%C3%A9.txt", "Data\\File01.bin", "README", "%C3%BF",
               "Interface\\Glue\\MainMenu.blp", "World\\Maps\\Azeroth\\Azeroth_32_48.adt", "%C3%9F.dat", "x",
               "Sound\\Music\\ZoneMusic.MP3", "%C4%B0stanbul\\%E1%B8%81%F0%90%90%A8.bin", "DBFilesClient\\Spell.dbc",
               "patch-notes.TXT", "Fonts\\CAF%C3%89.TTF", "Textures\\Minimap\\md5translate.trs",
               "World\\ma%C3%B1ana\\%C3%BCber.wmo", "units\\human\\Footman.mdx" >>
FilesPerArchive == <<6, 4, 3, 2>>            \* by shift 0..3: keeps archives below ~16 KB

Nth(sq, q) == sq[(q % Len(sq)) + 1]

BigLen == {"S+1", "S+S/2", "2S", "2S+9", "3S+5"}
FileOf(dir, q, slot, arch, shift) ==
  LET qq == q + 13 * Seed
      lc0 == Nth(LenCls, (qq \div 9) + (qq \div 90))
      lc   == IF shift = 3 /\ lc0 = "3S+5" THEN "2S+9" ELSE lc0
      meth == Nth(Methods, qq)
      enc  == Nth(Encs, qq \div 3)
      unit == Nth(Units, (qq \div 7) + slot)
      \* Direction 2 only: an encrypted file with a sector offset table under a name with a directory makes the
      \* library (which derives the key from the full path -- known finding) decrypt the table to garbage and
      \* allocate gigabytes before it fails.  7 of 8 such files get a directory-less name to keep the run short;
      \* the directory rule stays covered by single-unit and unencrypted files and by the remaining eighth.
      table == meth # "none" /\ lc # "0" /\ (unit = "sectored" \/ (unit = "auto" /\ lc \in BigLen))
      plainname == dir = 2 /\ enc # "plain" /\ table /\ qq % 8 # 0
  IN  [ name |-> IF plainname THEN "EncFile" \o ToString(slot) \o ".Dat"
                 ELSE Nth(NamePool, arch * 5 + slot + Seed),       \* distinct within an archive (slot < 17)
        meth |-> meth, enc |-> enc, lc |-> lc,
        cc   |-> Nth(Contents, qq + (qq \div 90) + arch),
        unit |-> unit,
        crc  |-> dir = 2 /\ (qq \div 5) % 3 = 0,
        \* direction 2: parameters of the foreign compressor.  zlib: window bits 9..15 (CMF byte 0x18..0x78 of the RFC 1950
        \* header), level 1/3/6/9 (FLEVEL bits: headers 0x7801, 0x785E, 0x789C, 0x78DA at 32 KiB), strategy; bzip2: block size 1..9
        wbits  |-> 9 + ((qq \div 2) % 7),
        zlevel |-> Nth(<<6, 1, 9, 3>>, qq \div 4),
        zstrat |-> Nth(<<"default", "filtered", "default", "rle", "huffman", "default", "fixed">>, qq \div 3),
        bzlevel |-> 1 + ((qq \div 3) % 9),
        \* direction 2: the method byte is a property of the SECTOR, not of the file: "alt" = consecutive compressed sectors of one
        \* file alternate between zlib and bzip2 (starting with the file's method); "same" = one method for all sectors
        secmeth |-> IF dir = 2 /\ meth # "none" /\ (qq \div 2) % 2 = 0 THEN "alt" ELSE "same" ]

ArchiveOf(dir, arch, q0) ==
  LET shift == (arch \div 2) % 4
      nf    == FilesPerArchive[shift + 1]
      \* growth round 4: V3 (ver 2) and V4 (ver 3) archives with HET/BET tables in 1/4 of the archives of BOTH directions
      \* (the library's builder always writes them for V3/V4; the reference writer also writes V3/V4 headers over classic
      \* tables only, and HET/BET-only archives); the seed rotates which archives these are
      a8    == arch % 8
      ver   == IF a8 = 3 THEN 2 ELSE IF a8 = 6 THEN 3
               ELSE IF dir = 2 /\ a8 \in {2, 5} THEN (IF arch % 16 = 13 THEN 3 ELSE 2) ELSE arch % 2
      hetbet == a8 \in {3, 6}
  IN  [ id    |-> arch, dir |-> dir, ver |-> ver, shift |-> shift,
        \* direction 2 only (the reference writer's free choices)
        crc   |-> (arch \div 7) % 3 = 1,                          \* direction 1: ArchiveBuilder::generate_crcs(true)
        roomy |-> (arch \div 8) % 2 = 0,
        \* direction 2: byte size of the hash table relative to the archive's offset in the file: "beyond" = the table is larger than
        \* the pre-archive data in front of the header (>= 64 entries behind 512 bytes, >= 128 behind 1024; 64 at offset 0)
        htclass |-> IF (arch \div 5) % 2 = 1 /\ (arch \div 7) % 2 = 0 THEN "beyond" ELSE "small",
        ndel  |-> (arch \div 3) % 3,
        hibt  |-> ver >= 1 /\ (arch \div 4) % 2 = 0,
        prefix |-> Nth(<<0, 512, 1024, 0>>, arch \div 5),          \* bytes before the MPQ header
        userdata |-> (arch \div 5) % 4 = 2,                      \* ... starting with a user data header 'MPQ\x1B'
        \* a second entry for file 1 with locale 0x409, earlier in the probe chain (HET/BET tables carry no locale: not there)
        twin  |-> (arch \div 3) % 4 = 1 /\ ver < 2,
        listfile |-> Nth(<<"zlib", "none", "none">>, arch),
        hetbet |-> hetbet,
        \* direction 2: HET/BET next to the classic tables / next to an EMPTY classic hash table (every lookup has to go through
        \* HET/BET) / without any classic table
        classic |-> ~hetbet \/ (arch \div 8) % 3 # 2,
        ghost   |-> hetbet /\ (arch \div 8) % 3 = 1,
        hbits |-> Nth(<<64, 48, 64, 17, 32, 56>>, arch \div 8),    \* width of the name hash
        hetroom |-> Nth(<<"x2", "full", "plus1", "x4">>, arch \div 16), \* entries of the HET array relative to the file count
        iextra |-> Nth(<<0, 0, 3, 0, 1>>, arch \div 8),            \* unused extra bits per file index / per BET name hash / per BET field
        hextra |-> Nth(<<0, 5, 0>>, arch \div 8),
        slack |-> Nth(<<0, 2, 0, 1>>, arch \div 8),
        tablecomp |-> Nth(<<"none", "zlib", "none", "bzip2">>, arch \div 8),   \* HET/BET table compression
        files |-> [slot \in 1..nf |-> FileOf(dir, q0 + slot - 1, slot - 1, arch, shift)] ]

Archives(dir) ==
  LET step(acc, arch) == [q |-> acc.q + FilesPerArchive[((arch \div 2) % 4) + 1],
                          out |-> Append(acc.out, ArchiveOf(dir, arch, acc.q))]
  IN  FoldLeft(step, [q |-> 0, out |-> <<>>], [ai \in 1..NArch |-> ai - 1 + 97 * Seed]).out

Cases == Archives(1) \o Archives(2)

\* sanity of the generator itself: names within an archive are distinct; the first 90 files cover the product
ASSUME \A ci \in 1..Len(Cases) : Cardinality({Cases[ci].files[fi].name : fi \in 1..Len(Cases[ci].files)}) = Len(Cases[ci].files)
ASSUME LET fs == UNION {{<<Cases[ci].files[fi].meth, Cases[ci].files[fi].enc, Cases[ci].files[fi].lc>> :
                           fi \in 1..Len(Cases[ci].files)} : ci \in 1..Len(Cases)}
       IN  NArch < 40 \/ Cardinality(fs) >= 81
ASSUME ndJsonSerialize(IOEnv.CASES, Cases)
ASSUME PrintT(<<"GENERATED", Len(Cases)>>)
=============================================================================
