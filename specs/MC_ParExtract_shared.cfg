CONSTANT Present = {"a", "b"}
CONSTANT SharedHandle = TRUE
CONSTANT MaxLen = 3
CONSTANT MaxT = 2
CONSTANT MaxB = 2
INIT Init
NEXT Next
INVARIANT ScheduleIndependent
INVARIANT SlotsRight
INVARIANT Returns
CHECK_DEADLOCK FALSE
