---------------------------- MODULE Gen_WmoLayout ----------------------------
(* Stage (B) for C15: TLC enumerates the shape space of WMO roots and groups (every list empty /  *)
(* one / many, optional sub-structures on/off, versions Classic..MoP, every (from,to) conversion   *)
(* pair, string classes, extreme floats).  quick = reduced product: deterministic low-dimensional  *)
(* slices + seeded pseudo-random draws from the same dimensions; thorough = larger slices and      *)
(* several thousand draws.  The first case carries the layout numbers of the specification that    *)
(* the harness's independent walker uses (record sizes, MOHD field offsets, container headers).    *)
EXTENDS WmoLayout, Json, IOUtils

Thorough == IOEnv.VERIF_TIER = "thorough"
Seed     == atoi(IOEnv.VERIF_SEED)

C3       == <<0, 1, 3>>
\* string classes: prefix = each name extends the previous one; rprefix = each LATER name is a proper prefix of an
\* earlier one; substr = later names are inner substrings / suffixes of earlier ones (down to one character);
\* dup = exact duplicates
\* empty_first / empty_mid / empty_last = plain names with an EMPTY string at that position of the table
NameCls  == <<"plain", "prefix", "rprefix", "substr", "dup", "long", "nonascii", "empty_first", "empty_mid", "empty_last">>
NNameCls == Len(NameCls)
RootDims == <<"ntex", "nmat", "ngrp", "nport", "npref", "nvbl", "nlight", "ndd", "nds">>

LayoutCase == [kind |-> "layout", id |-> 0, elem |-> Elem, mohd_fields |-> MohdFields,
               mohd_offs |-> [j \in 1..Len(MohdFields) |-> MohdFieldOff(j)],
               containers |-> [MOGP |-> MogpHdrSize],
               mobn |-> MobnFieldOffs, mopr |-> MoprFieldOffs,
               momt_tex1 |-> MomtTex1Off, momt_tex2 |-> MomtTex2Off, mogi_name |-> MogiNameOff, modd_name |-> ModdNameOff]

\* pvpat / vblpat: which inner lists (portal vertex lists, visible-block lists) are non-empty: bit j-1 set <=> list j
\* has entries (npv resp. vbl of them); 7 = all non-empty, 0 = every inner list empty
RootP(kind, v, to, cnt, sky, nm, xf, pvpat, vblpat) ==
    [kind |-> kind, id |-> 0, ver |-> v, to |-> to, ntex |-> cnt.ntex, nmat |-> cnt.nmat, ngrp |-> cnt.ngrp,
     nport |-> cnt.nport, npv |-> 4, pvpat |-> pvpat, npref |-> cnt.npref, nvbl |-> cnt.nvbl, vbl |-> 3, vblpat |-> vblpat,
     nlight |-> cnt.nlight, ndd |-> cnt.ndd, nds |-> cnt.nds, sky |-> sky, names |-> nm, xf |-> xf, prefs |-> << >>, bits |-> "rand"]
\* bits: how every flag / bit-field of the object (header, material, group-info, group-header and liquid flags) is filled:
\* "rand" random defined bits, "ones" every defined bit set, "single" exactly one defined bit (rotating with seed and position)
BitCls == <<"rand", "ones", "single">>
WithBits(r, bc) == [r EXCEPT !.bits = bc]
\* prefs: a structurally valid portal graph from WmoLayout (rows [portal, group, side]) instead of arbitrary references
RingRows(np, ng) == [j \in 1..(2 * np) |-> <<PortalRing(np, ng)[j].portal, PortalRing(np, ng)[j].group, PortalRing(np, ng)[j].side>>]
WithRing(r) == [r EXCEPT !.prefs = RingRows(r.nport, r.ngrp), !.npref = 2 * r.nport]
Root(kind, v, to, cnt, sky, nm, xf) == RootP(kind, v, to, cnt, sky, nm, xf, 7, 7)
RootX(pvpat, vblpat, kind, v, to, cnt, sky, nm, xf) == RootP(kind, v, to, cnt, sky, nm, xf, pvpat, vblpat)
AllAt(c)        == [d \in {RootDims[j] : j \in 1..Len(RootDims)} |-> c]
OnlyAt(d, c)    == [AllAt(0) EXCEPT ![d] = c]
AllBut(d, c)    == [AllAt(c) EXCEPT ![d] = 0]
TwoAt(d1, d2, c) == [AllAt(0) EXCEPT ![d1] = c, ![d2] = c]
DimSet          == {RootDims[j] : j \in 1..Len(RootDims)}

RootSlices ==
       {Root("root", v, 0, AllAt(c), IF c > 0 THEN 1 ELSE 0, "plain", 0) : v \in Versions, c \in {0, 1, 3}}
  \cup {Root("root", v, 0, OnlyAt(d, c), 0, "plain", 0) : v \in Versions, d \in DimSet, c \in {1, 3}}
  \cup {Root("root", v, 0, AllBut(d, 3), 1, "plain", 0) : v \in Versions, d \in DimSet}
  \cup {Root("root", v, 0, AllAt(3), 1, NameCls[q], xf) : v \in Versions, q \in 1..NNameCls, xf \in {0, 1}}
  \* only the string tables populated, every string class (offsets must resolve without help from other chunks)
  \cup {Root("root", v, 0, [AllAt(0) EXCEPT !.ntex = c, !.ngrp = c, !.nmat = c], 0, NameCls[q], 0) : v \in {VClassic, VMop}, q \in 1..NNameCls, c \in {1, 3}}
  \* lists of lists: an empty inner list at every position (all 8 patterns over three lists, both patterns over one)
  \cup {RootP("root", v, 0, OnlyAt("nport", 3), 0, "plain", 0, pat, 7) : v \in Versions, pat \in 0..7}
  \cup {RootP("root", v, 0, OnlyAt("nvbl", 3), 0, "plain", 0, 7, pat) : v \in Versions, pat \in 0..7}
  \* structurally valid portal graphs (rings), alone and inside a fully populated root
  \cup {WithRing(Root("root", v, 0, [AllAt(0) EXCEPT !.nport = np, !.ngrp = ng], 0, "plain", 0)) : v \in {VClassic, VMop}, np \in {1, 3}, ng \in {3}}
  \cup {WithRing(Root("root", v, 0, AllAt(3), 1, "prefix", 0)) : v \in Versions}
  \cup {RootP("root", v, 0, AllAt(c), 1, "plain", 0, pat, 7 - pat) : v \in {VClassic, VWotlk, VMop}, pat \in 0..7, c \in {1, 3}}
  \cup {Root("root", v, 0, AllAt(1), s, "prefix", 1) : v \in Versions, s \in {0, 1}}
  \cup {WithBits(Root("root", v, 0, AllAt(3), 1, "plain", 0), BitCls[q]) : v \in Versions, q \in {2, 3}}
  \cup (IF Thorough THEN {Root("root", v, 0, TwoAt(d1, d2, c), 0, "prefix", 0) : v \in Versions, d1 \in DimSet, d2 \in DimSet, c \in {1, 3}}
        ELSE {Root("root", VWotlk, 0, TwoAt(d1, d2, 3), 0, "plain", 0) : d1 \in {"nmat", "ntex", "ngrp"}, d2 \in DimSet})

\* ---- seeded pseudo-random draws: ZX81 LCG, values in 0..65536 (32-bit safe)
Lcg(v)          == (v * 75 + 74) % 65537
Stream(v0, len) == FoldLeft(LAMBDA acc, j : Append(acc, Lcg(acc[Len(acc)])), <<Lcg(v0)>>, [j \in 1..(len - 1) |-> j])
Start(salt, j)  == (Seed * 7919 + salt * 257 + j * 10007) % 65537
RandRoot(j) ==
    LET r == Stream(Start(1, j), 16) IN
    RootX(r[14] % 8, r[15] % 8, "root", 1 + (r[1] % 5), 0,
         [ntex |-> C3[1 + (r[2] % 3)], nmat |-> C3[1 + (r[3] % 3)], ngrp |-> C3[1 + (r[4] % 3)], nport |-> C3[1 + (r[5] % 3)],
          npref |-> C3[1 + (r[6] % 3)], nvbl |-> C3[1 + (r[7] % 3)], nlight |-> C3[1 + (r[8] % 3)], ndd |-> C3[1 + (r[9] % 3)],
          nds |-> C3[1 + (r[10] % 3)]],
         r[11] % 2, NameCls[1 + (r[12] % NNameCls)], r[13] % 2)
NRandRoot == IF Thorough THEN 10000 ELSE 160

\* ---- groups
\* bsp: a well-formed BSP tree from the catalogue of WmoLayout (as [axis, leaf 0/1, neg, pos, nfaces, fstart] rows), or
\* << >> = nbsp nodes with arbitrary field values
BspRows(t) == [j \in 1..Len(BspCatalog[t]) |->
                 <<BspCatalog[t][j].axis, IF BspCatalog[t][j].leaf THEN 1 ELSE 0, BspCatalog[t][j].neg, BspCatalog[t][j].pos,
                   BspCatalog[t][j].nfaces, BspCatalog[t][j].fstart>>]
GroupB(kind, v, to, a, b, c, d, e, f, g, h, i, xf, bsp) ==
    [kind |-> kind, id |-> 0, ver |-> v, to |-> to, nvert |-> a, nidx |-> b, nnorm |-> c, ntc |-> d, ncol |-> e,
     nbatch |-> f, nbsp |-> IF bsp = << >> THEN g ELSE Len(bsp), liq |-> h, lw |-> 3, lh |-> 4, ndref |-> i, xf |-> xf, bsp |-> bsp,
     bits |-> "rand"]
Group(kind, v, to, a, b, c, d, e, f, g, h, i, xf) == GroupB(kind, v, to, a, b, c, d, e, f, g, h, i, xf, << >>)
GroupSlices ==
       {Group("group", v, 0, 0, 0, 0, 0, -1, 0, -1, 0, -1, 0) : v \in Versions}
  \cup {Group("group", v, 0, 3, 9, 3, 3, 3, 3, 4, 2, 3, xf) : v \in Versions, xf \in {0, 1}}
  \cup {Group("group", v, 0, 1, 3, 1, 1, 1, 1, 1, 1, 1, 0) : v \in Versions}
  \cup {WithBits(Group("group", v, 0, 3, 9, 3, 3, 3, 3, 4, 2, 3, 0), BitCls[q]) : v \in Versions, q \in {2, 3}}
  \cup {Group("group", v, 0, a, 0, 0, 0, -1, 0, -1, 0, -1, 0) : v \in {VClassic, VMop}, a \in {1, 3}}
  \cup {Group("group", v, 0, 0, b, 0, 0, -1, 0, -1, 0, -1, 0) : v \in {VClassic, VMop}, b \in {3, 9}}
  \cup {Group("group", v, 0, 3, 0, 0, 0, e, 0, -1, 0, -1, 0) : v \in {VClassic, VMop}, e \in {0, 3}}
  \cup {Group("group", v, 0, 0, 0, 0, 0, -1, f, -1, 0, -1, 0) : v \in {VClassic, VMop}, f \in {1, 3}}
  \cup {Group("group", v, 0, 0, 0, 0, 0, -1, 0, g, 0, -1, 0) : v \in {VClassic, VMop}, g \in {0, 1, 4}}
  \cup {Group("group", v, 0, 0, 0, 0, 0, -1, 0, -1, h, -1, 0) : v \in {VClassic, VMop}, h \in {1, 2}}
  \* every catalogued BSP tree, alone and inside a fully populated group
  \cup {GroupB("group", v, 0, 0, 0, 0, 0, -1, 0, 0, 0, -1, 0, BspRows(t)) : v \in {VClassic}, t \in 1..Len(BspCatalog)}
  \cup {GroupB("group", v, 0, 3, 9, 3, 3, 3, 3, 0, 2, 3, 0, BspRows(t)) : v \in {VMop}, t \in 1..Len(BspCatalog)}
  \cup {Group("group", v, 0, 0, 0, 0, 0, -1, 0, -1, 0, i, 0) : v \in {VClassic, VMop}, i \in {0, 1, 3}}
RandGroup(j) ==
    LET r == Stream(Start(2, j), 12) IN
    Group("group", 1 + (r[1] % 5), 0, C3[1 + (r[2] % 3)], 3 * C3[1 + (r[3] % 3)], C3[1 + (r[4] % 3)], C3[1 + (r[5] % 3)],
          <<-1, 0, 3>>[1 + (r[6] % 3)], C3[1 + (r[7] % 3)], <<-1, 0, 1, 4>>[1 + (r[8] % 4)], r[9] % 3,
          <<-1, 0, 1, 3>>[1 + (r[10] % 4)], r[11] % 2)
NRandGroup == IF Thorough THEN 1200 ELSE 30

\* ---- conversions: every (from, to) pair
\* every (from, to) pair with every optional sub-structure populated (a parsed v17 file is a "Classic" object that may
\* carry a skybox, so the skybox is populated for every source version), and without it
RootConv ==
       {Root("rootconv", a, b, AllAt(c), 1, "plain", 0) : a \in Versions, b \in Versions, c \in {1, 3}}
  \cup {Root("rootconv", a, b, AllAt(3), 0, "prefix", 1) : a \in Versions, b \in Versions}
  \cup {RootP("rootconv", a, b, AllAt(1), 1, "rprefix", 0, 0, 0) : a \in Versions, b \in Versions}
  \* every pair with every flag field all-ones / single-bit
  \cup {WithBits(Root("rootconv", a, b, AllAt(3), 1, "plain", 0), BitCls[q]) : a \in Versions, b \in Versions, q \in {2, 3}}
GroupConv ==
       {Group("groupconv", a, b, 3, 9, 3, 3, 3, 3, 4, 2, 3, 0) : a \in Versions, b \in Versions}
  \cup {Group("groupconv", a, b, 1, 3, 0, 0, -1, 1, -1, 1, -1, 1) : a \in Versions, b \in Versions}
  \* every pair, every optional sub-structure populated (liquid with and without tile flags), flag fields all-ones / single-bit
  \cup {WithBits(Group("groupconv", a, b, 3, 9, 3, 3, 3, 3, 4, h, 3, 0), BitCls[q]) : a \in Versions, b \in Versions, h \in {1, 2}, q \in {2, 3}}
RandConv(j) ==
    LET r == RandRoot(j + 100000) q == Stream(Start(3, j), 3) IN
    [r EXCEPT !.kind = "rootconv", !.to = 1 + (q[1] % 5), !.bits = BitCls[1 + (q[2] % 3)]]
NRandConv == IF Thorough THEN 2000 ELSE 30

Numbered(seq) == [j \in 1..Len(seq) |-> [seq[j] EXCEPT !.id = j]]
Cases == <<LayoutCase>> \o Numbered(
            SetToSeq(RootSlices) \o [j \in 1..NRandRoot |-> RandRoot(j)]
         \o SetToSeq(GroupSlices) \o [j \in 1..NRandGroup |-> RandGroup(j)]
         \o SetToSeq(RootConv) \o SetToSeq(GroupConv) \o [j \in 1..NRandConv |-> RandConv(j)])

\* the module extends a specification with variables: give TLC a one-state behaviour
GInit == /\ lsh = 0 /\ lplan = 0 /\ lpc = 0 /\ lcur = 0 /\ lhdrs = 0 /\ lopen = 0 /\ lmohd = 0 /\ lphase = 0 /\ lfs = 0 /\ llog = 0
GNext == UNCHANGED lvars

ASSUME ndJsonSerialize(IOEnv.CASES, Cases)
ASSUME PrintT(<<"GENERATED", Len(Cases)>>)
=============================================================================
