CONSTANTS
  Deviations = {}
  MhdrFileRelative = FALSE
  NK = 256
  MaxRounds = 4
INIT GenInit
NEXT GenNext
CHECK_DEADLOCK FALSE
