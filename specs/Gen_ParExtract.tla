---------------------------- MODULE Gen_ParExtract ----------------------------
(* Stage (B) for C09: the configurations replayed on the real interfaces.                             *)
(*  small   every interface x T in {1,2,3,8} x B in {1,2,7} x |req| around the batch boundaries        *)
(*          {0,1,B-1,B,B+1,2B,2B+1} x skip x missing-at {none,first,middle,last,all} x duplicates,    *)
(*          on the small and the encrypted archive;                                                   *)
(*  large   |req| in {999,1000,1001} (unbatched / batched switch of extract_with_config), 1500, 5001   *)
(*          (adaptive batch size), T up to 32, B in {1,7,10,|req|,|req|+1}, on the 1300-file archive   *)
(*          with multi-sector and encrypted members;                                                  *)
(*  spell   every single-archive interface x spelling class of the names x duplicates x missing                           *)
(*  multi2  both multi-archive helpers x repeated archive / repeated name x missing x spelling                            *)
(*  gen     one path re-used for 3 generations of an archive; all single-archive interfaces before / after each replacement *)
(*  chain   PatchChain::from_archives_parallel / add_archives_parallel = sequential add_archive (order, ties, winner) *)
(*  multi   parallel::extract_from_multiple_archives over 1..5 archives, one of them lacking the file. *)
(*  wide    ALL FOUR multi-archive helpers of parallel.rs (incl. search_in_multiple_archives and       *)
(*          process_archives_parallel) x archive count 0..9 (thorough: .. 24; a reduce tree over the   *)
(*          archive list is balanced only for powers of two) x T x per-archive function class x        *)
(*          position of an archive that cannot be served x the same archive twice;                     *)
(*  setters extract_with_config x WHICH SETTERS of ParallelConfig the caller invoked (batch size /     *)
(*          threads / skip left at their defaults) x |req| around ParExtract!SwitchAt and AdaptAt.     *)
EXTENDS Integers, Sequences, SequencesExt, FiniteSets, Json, IOUtils, TLC

Thorough == IOEnv.VERIF_TIER = "thorough"
\* set: the setters of ParallelConfig the caller invokes ("tbs" = threads, batch_size, skip_errors: everything explicit)
CfgX(i, a, t, b, n, s, m, d, sp, st) == [kind |-> "cfg", iface |-> i, arch |-> a, t |-> t, b |-> b, n |-> n, skip |-> s, miss |-> m, dup |-> d, spell |-> sp, set |-> st]
CfgS(i, a, t, b, n, s, m, d, sp) == CfgX(i, a, t, b, n, s, m, d, sp, "tbs")
Cfg(i, a, t, b, n, s, m, d) == CfgS(i, a, t, b, n, s, m, d, "listed")
\* spelling class of the requested names: SeqRead is defined on the MPQ name hash (case and separator folded), not on the
\* listing: as listed | UPPER | lower | case-flipped | forward slashes | the (listfile) itself | a file no listfile line names
Spellings == {"upper", "lower", "mixed", "fwd", "special", "unlisted"}
Misses == {"none", "first", "middle", "last", "all"}
SmallN(b) == {0, 1, b - 1, b, b + 1, 2 * b, 2 * b + 1} \ {-1}
Ts == IF Thorough THEN {1, 2, 3, 8, 32} ELSE {1, 2, 3, 8}
\* extract_with_config takes the unbatched path for |req| <= 1000 (B is not looked at): B fixed here
\* archive provenance: S, E carry an external listfile that omits files, N carries NO listfile (slot i = SeqRead(req[i]) does not
\* depend on the archive having one), L a generated listfile
SmallWC == { Cfg("with_config", a, t, 10, n, s, m, d) :
             a \in {"S", "E", "N"}, t \in Ts, n \in {0, 1, 2, 3, 7, 8, 15},
             s \in BOOLEAN, m \in Misses, d \in {"none", "far"} }
SmallSel == {c \in SmallWC : /\ (c.miss = "all" => c.n > 0) /\ (c.dup = "far" => c.n >= 2) /\ (c.miss # "none" => c.n > 0)
                              /\ (Thorough \/ c.arch = "S" \/ (c.t \in {2, 3, 8} /\ c.dup = "none" /\ c.arch = "N" /\ c.n \in {0, 1, 8})
                                  \/ (c.t \in {2, 8} /\ c.dup = "none"))}
\* the interfaces without a config: no skip flag (whole-call failure), T through the installed pool;
\* extract_files_batched gets the batch-boundary request sizes
Others == { Cfg(i, a, t, b, n, FALSE, m, d) :
            i \in {"files_parallel", "files_batched", "process"}, a \in {"S", "E", "N"}, t \in {1, 3, 8},
            b \in {1, 2, 7}, n \in UNION {SmallN(x) : x \in {1, 2, 7}}, m \in {"none", "first", "middle", "last"}, d \in {"none", "adj"} }
OthersSel == {c \in Others : /\ (c.iface # "files_batched" => (c.b = 1 /\ c.n \in {0, 1, 6, 8, 15}))
                             /\ (c.iface = "files_batched" => c.n \in SmallN(c.b) \cup {15})
                             /\ (c.dup = "adj" => c.n >= 2) /\ (c.miss # "none" => c.n > 0)
                             /\ (Thorough \/ c.arch = "S" \/ (c.t = 3 /\ c.dup = "none"))}
\* extract_matching_parallel: n = modulus, b = residue of the predicate over the file index
Matching == { Cfg("matching", a, t, r, k, FALSE, "none", "none") : a \in {"S", "E", "L"}, t \in {1, 3, 8}, k \in {1, 2, 7, 2000}, r \in {0, 1} }
\* the batched path (|req| > 1000): 1001 = 143 x 7, 1002 = 143 x 7 + 1, 1008 = 144 x 7; > 5000: adaptive batch size
BigTB == IF Thorough THEN {<<2, 1>>, <<3, 7>>, <<8, 10>>, <<32, 1000>>, <<8, 5002>>, <<3, 1001>>}
         ELSE {<<3, 7>>, <<8, 10>>, <<32, 1000>>}
BigN  == IF Thorough THEN {999, 1000, 1001, 1002, 1008, 1500, 5001} ELSE {1000, 1001, 1002, 5001}
Big == { Cfg("with_config", "L", tb[1], tb[2], n, s, m, "none") : tb \in BigTB, n \in BigN, s \in BOOLEAN,
         m \in (IF Thorough THEN {"none", "first", "middle", "last"} ELSE {"none", "last"}) }
     \cup { Cfg(i, "L", 8, 64, n, FALSE, m, "none") : i \in {"files_parallel", "files_batched", "process"},
            n \in {1001, 1500}, m \in {"none", "middle"} }
Multi == { Cfg(i, "M", t, 0, n, FALSE, m, "none") : i \in {"multi", "multi_many"}, t \in {1, 3, 8}, n \in 0..5, m \in {"none", "first", "middle", "last"} }
MultiSel == {c \in Multi : c.miss # "none" => c.n > 0}
\* every single-archive interface x spelling class x duplicates x a missing name (T = 1 too: a single-thread shortcut is a path)
Spelled == { CfgS(i, a, t, 2, n, s, m, d, sp) : i \in {"with_config", "files_parallel", "files_batched", "process"}, a \in {"S", "E", "N"},
             t \in {1, 3}, n \in {1, 6}, s \in BOOLEAN, m \in {"none", "last"}, d \in {"none", "far"}, sp \in Spellings }
SpelledSel == {c \in Spelled : /\ (c.iface # "with_config" => ~c.skip) /\ (c.dup = "far" => c.n >= 2) /\ (c.miss = "last" => c.n >= 2)
                               /\ (Thorough \/ c.arch = "S" \/ (c.t = 3 /\ c.dup = "none" /\ c.miss = "none"))}
\* both multi-archive helpers with the full request classes: the same archive twice / the same NAME repeated (dup), an archive
\* without the file / a name no archive has (miss), spelling; |out| = |req| always (multi_many: b names per archive)
MultiReq == { CfgS(i, "M", t, b, n, FALSE, m, d, sp) : i \in {"multi", "multi_many"}, t \in {1, 3}, b \in 1..3, n \in {1, 2, 4},
              m \in {"none", "middle", "all"}, d \in {"none", "adj"}, sp \in {"listed", "upper", "mixed"} }
MultiReqSel == {c \in MultiReq : /\ (c.iface = "multi" => (c.b = 1 /\ c.miss # "all")) /\ (c.dup = "adj" /\ c.iface = "multi" => c.n >= 2)}
\* PatchChain::from_archives_parallel / add_archives_parallel against sequential add_archive: b = priority pattern
\* (0 all equal .. 4 negative + ties), n archives, miss = "middle": one path does not exist
ChainPar == { Cfg(i, "M", t, pat, n, FALSE, m, "none") : i \in {"chain_par", "chain_addpar"}, t \in {1, 3, 8}, pat \in 0..4,
              n \in 0..6, m \in {"none", "middle"} }
ChainSel == {c \in ChainPar : (c.miss = "middle" => c.n > 0) /\ (Thorough \/ c.t # 1)}
\* generations: the path of archive "G" is re-used for 3 successive archives with other contents and file sets; every
\* configuration below is run at every generation by the SAME process and the same thread pools (miss = "gone": a name
\* of the previous generation that the current one no longer has; b = batch size / predicate residue)
GenCfg == { Cfg(i, "G", t, b, n, s, m, "none") : i \in {"with_config", "files_parallel", "files_batched", "process", "matching"},
            t \in {1, 3, 8}, b \in {1, 3}, n \in {1, 8, 15}, s \in BOOLEAN, m \in {"none", "gone"} }
GenSel == {c \in GenCfg : /\ (c.iface # "with_config" => ~c.skip) /\ (c.iface \notin {"files_batched", "matching"} => c.b = 1)
                           /\ (c.iface = "matching" => (c.n = 8 /\ c.miss = "none"))}
\* the multi-archive helpers, all four, with the archive count as a dimension (pool "W": 12 archives with distinct contents).
\* b = class of the per-archive function: multi_many: b names per archive; multi_search: pattern class (1 every file, 2 one
\* file per archive, 3 a file of ONE archive only: empty lists elsewhere); multi_process: processor class (1 read the shared
\* file, 2 digest of the listing, 3 number of files -- equal for most archives -- next to the archive's path).
\* miss: the archive at that position cannot be served (lacks the file / does not exist): the call fails as a whole.
Counts == IF Thorough THEN 0..9 \cup {12, 15, 16, 17, 24} ELSE 0..9
Wide == { CfgS(i, "W", t, b, n, FALSE, m, d, "listed") : i \in {"multi", "multi_many", "multi_search", "multi_process"},
          t \in {1, 2, 3, 8}, b \in 1..3, n \in Counts, m \in {"none", "first", "middle", "last"}, d \in {"none", "adj"} }
WideSel == {c \in Wide : /\ (c.iface = "multi" => c.b = 1) /\ (c.miss # "none" => c.n > 0) /\ (c.dup = "adj" => c.n >= 2)
                         /\ (Thorough \/ (/\ (c.t = 1 => c.n \in {3, 8})
                                           /\ (c.miss # "none" => (c.n \in {1, 3, 6} /\ c.t = 3))
                                           /\ (c.dup = "adj" => (c.n \in {2, 5} /\ c.miss = "none" /\ c.t = 3))))}
\* extract_with_config with a configuration on which not every setter was called (t = 0 / b = 0: not set; skip is FALSE
\* unless "s" is set), request sizes around the unbatched / batched switch (1000) and the adaptive batch size (5000)
SetNs == IF Thorough THEN {0, 1, 8, 999, 1000, 1001, 1002, 1500, 4999, 5000, 5001, 5002, 9000} ELSE {0, 1, 8, 1000, 1001, 5000, 5001}
Setters == { CfgX("with_config", a, t, b, n, s, m, "none", "listed", st) : a \in {"S", "L"}, t \in {0, 1, 3, 8}, b \in {0, 7}, n \in SetNs,
             s \in BOOLEAN, m \in {"none", "last"}, st \in {"ts", "bs", "s", "t", "b", "none"} }
HasSetter(st, x) == x \in (CASE st = "ts" -> {"t", "s"} [] st = "bs" -> {"b", "s"} [] st = "s" -> {"s"} [] st = "t" -> {"t"}
                                  [] st = "b" -> {"b"} [] st = "none" -> {} [] OTHER -> {"t", "b", "s"})
SettersSel == {c \in Setters : /\ (c.t # 0 <=> HasSetter(c.set, "t")) /\ (c.b # 0 <=> HasSetter(c.set, "b")) /\ (c.skip => HasSetter(c.set, "s"))
                               /\ (c.arch = "S" <=> c.n <= 8) /\ (c.miss = "last" => c.n > 0)
                               /\ (Thorough \/ (c.t \in {0, 3} /\ (c.miss = "last" => c.n \in {8, 1001, 5001})))}
Cases == SetToSeq(WideSel) \o SetToSeq(SettersSel) \o SetToSeq(GenSel) \o SetToSeq(SpelledSel) \o SetToSeq(MultiReqSel) \o SetToSeq(ChainSel) \o SetToSeq(SmallSel) \o SetToSeq(OthersSel) \o SetToSeq(Matching) \o SetToSeq(Big) \o SetToSeq(MultiSel)
ASSUME ndJsonSerialize(IOEnv.CASES, Cases)
ASSUME PrintT(<<"GENERATED", Len(Cases), Cardinality(SmallSel), Cardinality(OthersSel), Cardinality(Big), Cardinality(WideSel), Cardinality(SettersSel)>>)
=============================================================================
