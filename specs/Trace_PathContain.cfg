CONSTANTS
  Guard = FALSE
  Plat = "posix"
INIT TInit
NEXT TNext
POSTCONDITION Accepted
CHECK_DEADLOCK FALSE
