CONSTANTS
  Guard = FALSE
  Plat = "posix"
INIT GInit
NEXT GNext
CHECK_DEADLOCK FALSE
