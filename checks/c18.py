"""C18 -- WDT and WDL map files survive write->parse; tile<->world coordinates invert."""
import json
from vlib import core

META = {
    "disabled": False,
    "level": "model_checking",
    "level_text": "WdtWdl.tla (over the shared ChunkFile.tla framing machine) models the WDT and WDL writers and readers chunk by chunk, the version "
                  "rules (should_have_chunk, detect_version / WDL auto-detection with the pre-fix detection kept as a named deviation), the MAOF offset table, "
                  "convert_wdt, convert_wdl_file, WdlFile::convert_to, conversion histories, and the tile<->world maps in exact arithmetic. TLC checks on a 2x2 grid, "
                  "for every version, 15 flag sets and every optional chunk (structurally valid and invalid definitions), that the framing tiles the file, the reader "
                  "returns what the writer was given, MAOF[y*N+x] is the header offset of that tile's MARE chunk, a second write with the RE-DETECTED version is "
                  "identical, conversions and histories keep tile data; and the inverse law for all 4096 tiles. TLC then enumerates shapes (versions x map kind x "
                  "optional chunks x list cardinalities x 21 grid classes; every header flag bit and bit pair x version x kind; conversion histories A->B->A / A->B->C "
                  "through both WDL conversion APIs), the harness builds and round-trips them through the real crates -- conversions start from the PARSED file, the "
                  "object at the end of every history is written, walked, parsed and rewritten like a built one --, an independent chunk walker reads the produced "
                  "bytes, and TLC validates every recorded event (framing, MAOF entries against per-tile payload tokens, per-section content tokens, byte-identical "
                  "rewrite, conversions to every version, histories, all 4096 coordinate pairs) against the specification.",
    "level_note": "Payload bytes (heights, area ids, placements) are compared as tokens, not modelled. Domain: structurally valid definitions (chunk presence "
                  "rules per map kind / version; MAID + flag 0x0200 only from BfA); header flags are free (validate() only warns). Chunk order/sizes, detected version and "
                  "convert_wdt's chunk/flag effects are diagnostics (DRIFT), silenced where convert_wdl_file invents file names. quick samples bases x grids (slices + "
                  "seed-rotated draws) and rotates a third of the flag pairs; thorough takes every base with 3 / 8 rotating grids and all flag pairs.",
    "technique": "TLA+ layout/state-machine specification (WdtWdl.tla + ChunkFile.tla) model-checked by TLC; TLC-enumerated shapes replayed on wow-wdt/wow-wdl; "
                 "trace validation by TLC",
    "design_ref": "DESIGN.md section 5, C13-C18 recipe and C18 paragraph",
    "crates": ["c18"],
}


def sig(b):
    r = b.get("reset") or {}
    e = b.get("rec") or {}
    s = {"ev": b["ev"], "why": str(b.get("why", "")).strip('"'), "fmt": r.get("fmt")}
    if b["ev"] == "Coord":
        # class of the deviation: where the inverse lands relative to the tile (forward map is within tolerance
        # whenever why = coord-inverse)
        s["dx"] = e.get("bx", 0) - e.get("tx", 0)
        s["dy"] = e.get("by", 0) - e.get("ty", 0)
    else:
        s.update({"ver": r.get("ver"), "mode": r.get("mode"), "wmo": bool(r.get("names")), "holes": bool(r.get("holes")),
                  "maid": bool(r.get("hasMaid")), "to": e.get("to"), "grid_empty": not r.get("tiles")})
    return s


def run(ctx, cases_override=None):
    ctx.mc("MC_ChunkFile", timeout=300)
    ctx.mc("MC_WdtWdl", timeout=900)
    if cases_override:
        cases, ncases = cases_override, sum(1 for _ in open(cases_override))
    else:
        cases, ncases = ctx.gen("Gen_WdtWdl", timeout=900)
    binary = ctx.build("c18")
    trace = ctx.harness(binary, cases)
    res = ctx.validate("Trace_WdtWdl", trace, timeout=1500)
    kinds, samples, shapes = {}, [], set()
    with open(trace) as f:
        for line in f:
            r = json.loads(line)
            kinds[r["ev"]] = kinds.get(r["ev"], 0) + 1
            if r["ev"] == "Reset" and r["fmt"] != "coord":
                shapes.add((r["fmt"], r["ver"], r["grid"], tuple(r["flags"]), r["hasMwmo"], tuple(r["names"]), r["nModf"], r["nSec"],
                            len(r["holes"]), r["nIdx"], r["nPlace"], r["nMldd"], r["nMlmd"], r["mode"]))
            if kinds[r["ev"]] <= 1 and r["ev"] not in ("Chunks", "Maof", "Source"):
                s = dict(r)
                for k in ("tiles", "holes"):
                    if isinstance(s.get(k), list):
                        s[k] = s[k][:4]
                samples.append(s)
    with open(cases) as f:
        first = [json.loads(x) for x in f.read().splitlines()[1:3]]
    for c in first:
        c["tiles"] = c["tiles"][:4]
    cov = {
        "traces_validated_against_impl": res["traces"],
        "samples": first + samples,
        "events_by_kind": kinds,
        "cases_generated_by_tlc": ncases,
        "evaluations": res["events"],
        "distinct_nontrivial": len(shapes),
        "rule": "one shape = (format, version, grid class, flags, optional chunks and list cardinalities, parse mode); conversion-history traces are counted under their case; "
                "plus 4096 coordinate pairs (exhaustive)",
        "exhaustive": False,
        "coordinates_exhaustive": kinds.get("Coord", 0) == 4096,
    }
    assumptions = ["definitions are structurally valid for their version (MWMO / MODF / MAID presence rules; WDL sections only where the version has them); header flags are arbitrary",
                   "MPHD content = flag bits + the seven following u32 as the format interprets them (legacy fields or FileDataIDs)",
                   "MWMO names are non-empty NUL-free UTF-8 strings; height maps have 289+256 values",
                   "holes are tile data only along histories whose every version carries MAHO; convert_wdl_file may refuse a step that would lose holes",
                   "forward coordinate map is compared within 0.01 yd; the inverse law is exact"]
    return core.finish(ctx, "model_checking", cov, assumptions, res["bad"], sig_fn=sig, trace=trace)


def replay(ctx, payload):
    """Re-run the single generator case of a replay file (case ids are '<index>:<kind>')."""
    cases, _ = ctx.gen("Gen_WdtWdl", timeout=900)
    idx = int(str(payload.get("case", "0:")).split(":")[0])
    lines = open(cases).read().splitlines()
    sel = ctx.path("replay-cases.ndjson")
    with open(sel, "w") as f:
        for i, l in enumerate(lines[:idx + 1]):
            # keep positions stable (the case label seeds the concretisation): pad with the cheapest case kind
            f.write((l if i == idx else json.dumps({"kind": "wdl", "ver": "Vanilla", "grid": "empty", "tiles": [], "holes": [], "holesCls": "none",
                                                     "names": [], "nIdx": 0, "nPlace": 0, "nMldd": 0, "nMlmd": 0, "mode": "same", "conv": []})) + "\n")
    return run(ctx, cases_override=sel)
