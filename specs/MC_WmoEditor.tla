---------------------------- MODULE MC_WmoEditor ----------------------------
(* Stage (A) for X03: every history of at most Budget editing calls on the initial objects Inits, with every argument in a    *)
(* small range that includes the out-of-range values.  One named action per public call (for -coverage).  vwlast keeps the    *)
(* postcondition verdict of the call just made; the invariants of WmoEditor.tla are evaluated on every reachable object.      *)
EXTENDS WmoEditor, TLC
CONSTANTS Budget, Inits, MaxIx
VARIABLES vwst, vwbud, vwnid, vwlast
mcvars == <<vwst, vwbud, vwnid, vwlast>>
Ix == 0..MaxIx
O(name, i, x, y, z) == [op |-> name, id |-> i, a |-> x, b |-> y, c |-> z, d |-> -1]
Do(o) ==
  /\ vwbud > 0
  /\ LET r == Apply(vwst, o, Dev) IN
     /\ vwst' = r.st
     /\ vwlast' = [post |-> PostOK(vwst, o, r), res |-> r.res]
  /\ vwbud' = vwbud - 1 /\ vwnid' = vwnid + 1
Init == /\ \E k \in Inits : vwst = InitState(k)
        /\ vwbud = Budget /\ vwnid = 30 /\ vwlast = [post |-> TRUE, res |-> "ok"]
\* callers pass references that are valid when they pass them (an add with a dangling reference is the caller's fault);
\* indices of removals / lookups range over Ix: in range, the last one, out of range
Cand(s, nid) ==
     {O("add_texture", nid, 0, 0, 0), O("create_group", nid, 0, 0, 0), O("add_doodad", nid, 0, 0, 0), O("save_root", 0, 0, 0, 0)}
  \cup {O(n, 0, i, 0, 0) : n \in {"remove_texture", "remove_material", "remove_group", "remove_doodad", "remove_doodad_set", "save_group"}, i \in Ix}
  \cup {O("add_material", nid, t, u, 0) : t \in {x \in Ix : x < Len(s.tex)}, u \in {x \in {0, 1} : x < Len(s.tex)}}
  \cup {[O("add_group", nid, g, sh[1], sh[2]) EXCEPT !.d = sh[3]] :
          g \in Ix, sh \in {x \in {<<0, -1, -1>>, <<3, 0, 0>>, <<2, 1, 2>>, <<1, -1, 1>>} : x[2] < Len(s.mat) /\ x[3] < Len(s.dd)}}
  \cup {O("add_vertex", nid, g, 0, 0) : g \in Ix}
  \cup {O("remove_vertex", 0, g, v, 0) : g \in Ix, v \in Ix}
  \cup {O("add_doodad_set", nid, q[1], q[2], 0) : q \in {x \in Ix \X Ix : x[1] + x[2] <= Len(s.dd)}}
  \cup {O("convert", 0, w, 0, 0) : w \in {0, 2}}
Act(name) == \E o \in Cand(vwst, vwnid) : o.op = name /\ Do(o)
AAddTexture      == vwbud > 0 /\ Act("add_texture")
ARemoveTexture   == vwbud > 0 /\ Act("remove_texture")
AAddMaterial     == vwbud > 0 /\ Act("add_material")
ARemoveMaterial  == vwbud > 0 /\ Act("remove_material")
ACreateGroup     == vwbud > 0 /\ Act("create_group")
AAddGroup        == vwbud > 0 /\ Act("add_group")
ARemoveGroup     == vwbud > 0 /\ Act("remove_group")
AAddVertex       == vwbud > 0 /\ Act("add_vertex")
ARemoveVertex    == vwbud > 0 /\ Act("remove_vertex")
AAddDoodad       == vwbud > 0 /\ Act("add_doodad")
ARemoveDoodad    == vwbud > 0 /\ Act("remove_doodad")
AAddDoodadSet    == vwbud > 0 /\ Act("add_doodad_set")
ARemoveDoodadSet == vwbud > 0 /\ Act("remove_doodad_set")
AConvert         == vwbud > 0 /\ Act("convert")
ASaveRoot        == vwbud > 0 /\ Act("save_root")
ASaveGroup       == vwbud > 0 /\ Act("save_group")
Next == \/ AAddTexture \/ ARemoveTexture \/ AAddMaterial \/ ARemoveMaterial \/ ACreateGroup \/ AAddGroup \/ ARemoveGroup
        \/ AAddVertex \/ ARemoveVertex \/ AAddDoodad \/ ARemoveDoodad \/ AAddDoodadSet \/ ARemoveDoodadSet
        \/ AConvert \/ ASaveRoot \/ ASaveGroup

ITexRefs        == TexRefs(vwst)
IMatRefs        == MatRefs(vwst)
IIdxRefs        == IdxRefs(vwst)
IDoodadRefs     == DoodadRefs(vwst)
IAttrsParallel  == AttrsParallel(vwst)
IPortalRefs     == PortalRefs(vwst)
ISetRanges      == SetRanges(vwst)
IHeaderCounts   == HeaderCounts(vwst)
IGroupsParallel == GroupsParallel(vwst)
IFlagsCoverData == FlagsCoverData(vwst)
IVersionSane    == VersionSane(vwst)
IPostOK         == vwlast.post
\* as-coded run: which of the invariants still hold on /repo's machine (the others are the known findings)
IAsCodedHolds   == SetRanges(vwst) /\ VersionSane(vwst) /\ Len(vwst.gmod) = Len(vwst.gi)
                   /\ vwst.hdr.nmat = Len(vwst.mat) /\ vwst.hdr.ngrp = Len(vwst.gi) /\ vwst.hdr.ndd = Len(vwst.dd) /\ vwst.hdr.nds = Len(vwst.ds)
                   /\ (Len(vwst.tex) > 0 => TexRefs(vwst)) /\ (Len(vwst.mat) > 0 => MatRefs(vwst))
                   /\ (Len(vwst.dd) > 0 => DoodadRefs(vwst)) /\ (Len(vwst.gi) > 0 => PortalRefs(vwst))
=============================================================================
