CONSTANTS
  Deviations = {}
  MhdrFileRelative = FALSE
  NK = 256
  MaxRounds = 4
