\* implementation as it is now, archive WITHOUT listfile, unencrypted: compact() refuses (2d95992) instead of dropping; refines MpqMap
CONSTANTS
  H = 4
  UNames <- MCNames
  Home <- MCHome
  InitSeq <- MCInit
  InitTok <- MCInitTok
  InitRaw = {}
  SubOf <- NoSub
  HasLF0 = FALSE
  HasAT0 = FALSE
  Slack = 2
  FU = 2
  Ver = 1
  MaxCalls = 4
  MCToks = {"t1"}
SPECIFICATION CodeOkSpec
INVARIANT SlotType TableInv ProbeBounded TablesDisjointFromData NoDamage AbsClean
PROPERTY AbsSpec OpRefines AtomicRefines
CHECK_DEADLOCK FALSE
