\* implementation machine: TLC must exhibit the table overrun (NoDamage violated) - F-C06-a
CONSTANTS
  H = 4
  UNames <- LNames
  Home <- LHome
  InitSeq <- LInit
  InitTok <- LInitTok
  InitRaw = {}
  SubOf <- LSub
  HasLF0 = FALSE
  HasAT0 = FALSE
  Slack = 2
  FU = 32
  Ver = 1
  MaxCalls = 8
  MCToks = {"t1"}
SPECIFICATION CodeSpec
INVARIANT NoDamage
CHECK_DEADLOCK FALSE
