"""C09 -- parallel extraction is observationally identical to sequential reading."""
import json

from vlib import core

META = {
    "disabled": False,
    "level": "model_checking",
    "level_text": "ParExtract.tla models a parallel extraction call as rayon-style workers that take tasks in any order (one per name, or one "
                  "per chunk of B names), open a private handle, seek + read in two steps, and Put the result into the slot of its request; "
                  "fail-fast vs skip-errors. TLC explores ALL schedules for |req| <= 3 (thorough: 4) names with missing names at every position "
                  "and duplicates, T <= 2 (3) workers, B <= 2 (3): the call always returns Expected(req, skip) = one slot per request in request "
                  "order, slot i = SeqRead(req[i]); the shared-handle and the stale-handle-reuse variants of the model violate it; a second call after the archive at the path was replaced (generation 2) is part of the model. TLC then generates configurations "
                  "(interface x threads x batch x request size around batch multiples and the 1000 / 5000 switches x skip x missing position x "
                  "duplicates; which setters of ParallelConfig were called; all four multi-archive helpers x archive count 0..9 (thorough ..24)); the driver runs the real interfaces (incl. the two parallel PatchChain constructors) repeatedly under CPU contention next to a sequential Archive::read_file "
                  "reference; TLC validates every returned slot against ParExtract!ExpectedFrom.",
    "level_note": "Schedules of the real thread pool are sampled (repeated runs, contention threads, thread counts 1..32, optional verif_yield hook), "
                  "not enumerated; exhaustiveness over schedules is a statement about the model only. Trusted: SHA-1 interning of contents by the driver.",
    "technique": "TLA+ model of the parallel collect, all interleavings model-checked; TLC-generated configurations; TLC trace validation",
    "design_ref": "DESIGN.md section 5, C09",
    "crates": ["c09"],
}


def sig(b):
    r = b.get("rec") or {}
    n = r.get("n", 0)
    return {"why": (b.get("why") or "").strip('"'), "iface": r.get("iface"), "skip": r.get("skip"), "miss": r.get("miss"),
            "spell": r.get("spell"), "dup": r.get("dup"), "set": r.get("set"),
            # multi-archive helpers (arch W): n = archive count; a reduce tree over it is balanced only for powers of two
            "count": ("pow2" if n & (n - 1) == 0 else "uneven") if r.get("arch") == "W" else None,
            "path": "batched" if (r.get("iface") == "with_config" and n > 1000) or r.get("iface") == "files_batched" else "unbatched"}


def run(ctx, cases=None):
    ctx.mc("MC_ParExtract", cfg="MC_ParExtract_deep" if ctx.thorough else "MC_ParExtract", timeout=1500)
    # the model can tell a shared handle from private ones: the mutant design must FAIL the invariant
    rc, text = ctx.tlc("MC_ParExtract", "MC_ParExtract_shared", workers=4, timeout=600, tag="mc-shared")
    if "Invariant SlotsRight is violated" not in text and "Invariant ScheduleIndependent is violated" not in text:
        raise core.ToolError("stage A: the shared-handle variant of ParExtract is not rejected by the model checker")
    ctx.notes.append("MC_ParExtract_shared (one handle for all workers): invariant violated, as it must be")
    # the named deviation StaleHandleReuse (a worker keeps a handle across a replacement of the archive) is refuted
    rc, text = ctx.tlc("MC_ParExtract", "MC_ParExtract_stale", workers=4, timeout=600, tag="mc-stale")
    if "Invariant HandleFresh is violated" not in text and "Invariant SlotsRight is violated" not in text \
            and "Invariant ScheduleIndependent is violated" not in text:
        raise core.ToolError("stage A: the StaleHandleReuse deviation of ParExtract is not refuted by the model checker")
    ctx.notes.append("MC_ParExtract_stale (StaleHandleReuse: per-thread handle kept across a replacement of the archive): refuted")
    # the named deviation UnorderedJoin (the reduce tree appends the shorter run to the longer one) is refuted
    rc, text = ctx.tlc("MC_ParExtract", "MC_ParExtract_swap", workers=4, timeout=600, tag="mc-swap")
    if "Invariant ScheduleIndependent is violated" not in text:
        raise core.ToolError("stage A: the UnorderedJoin deviation of ParExtract is not refuted by the model checker")
    ctx.notes.append("MC_ParExtract_swap (UnorderedJoin: reduce tree joins the shorter run behind the longer one): refuted (3 tasks)")
    # the named deviation ZeroDefaultBatch (a configuration whose batch size was never set carries 0) is refuted
    rc, text = ctx.tlc("MC_ParExtract", "MC_ParExtract_nobatch", workers=4, timeout=600, tag="mc-nobatch")
    if "Invariant ScheduleIndependent is violated" not in text:
        raise core.ToolError("stage A: the ZeroDefaultBatch deviation of ParExtract is not refuted by the model checker")
    ctx.notes.append("MC_ParExtract_nobatch (ZeroDefaultBatch: unset batch size = 0, batched path panics): refuted")
    if cases is None:
        cases, ncases = ctx.gen("Gen_ParExtract")
    else:
        ncases = sum(1 for _ in open(cases))
    binary = ctx.build("c09")
    trace = ctx.harness(binary, cases, timeout=3000)
    res = ctx.validate("Trace_ParExtract", trace, heap="4g")
    ifaces = {}
    samples = []
    hook = None
    with open(trace) as f:
        for line in f:
            r = json.loads(line)
            if r["ev"] == "Reset":
                hook = r.get("hook")
                continue
            k = r["iface"] + ":" + r["call"]
            ifaces[k] = ifaces.get(k, 0) + 1
            if len(samples) < 3 and 0 < r["n"] < 9:
                samples.append({k2: r[k2] for k2 in ("ev", "case", "iface", "t", "b", "n", "skip", "miss", "dup", "run", "req", "call", "names", "toks")})
    ctx.notes.append(f"verif_yield hook present in the tree under test: {hook}")
    if not hook:
        ctx.notes.append("DEGRADED: the tree under test has no verif_yield hook; schedules were perturbed by contention threads only")
    cov = {
        "traces_validated_against_impl": res["traces"],
        "samples": samples,
        "evaluations": res["events"] - res["traces"],
        "configurations": ncases,
        "schedule_perturbation": {"verif_yield_hook_active": bool(hook), "delay_function": "seeded per-thread xorshift: yield / 1-60us spin / 50-200us sleep at the start of every parallel task",
                                  "contention_threads": 16 if ctx.thorough else 6, "runs_per_configuration": "6 (2 for |req| > 500)" if ctx.thorough else 2},
        "calls_by_interface_and_result": ifaces,
        "distinct_nontrivial": ncases,
        "rule": "one case = one configuration (interface, archive, threads, batch, |req| or archive count, skip, missing position, duplicates, spelling, setters called), distinct by set "
                "enumeration in TLC; each is run 2 (quick) / 6 (thorough; 2 for |req| > 500) times",
        "exhaustive": False,
    }
    assumptions = ["the sequential reference is Archive::read_file on one plain handle (C01 is about whether that is right)",
                   "batch sizes >= 1 and thread counts >= 1 where the caller SETS them (the quantifier of C09); batch_size(0) / threads(0) are outside; "
                   "a configuration on which a setter was never called is inside, whatever default the code gives it"]
    return core.finish(ctx, "model_checking", cov, assumptions, res["bad"], sig_fn=sig, trace=trace)


def replay(ctx, payload):
    idx = int(str(payload.get("case", "0")).split(":")[0])
    cases, _ = ctx.gen("Gen_ParExtract")
    lines = open(cases).read().splitlines()
    sel = ctx.path("replay-cases.ndjson")
    with open(sel, "w") as f:
        for i, l in enumerate(lines[:idx + 1]):
            f.write((l if i == idx else json.dumps({"kind": "skip"})) + "\n")
    return run(ctx, cases=sel)
