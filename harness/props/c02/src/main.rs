//! C02 driver: interoperability of the MPQ V1/V2 on-disk format with the TLA+ reference (MpqFormat.tla).
//!
//! Two modes (extra argument):
//!   write  direction 1: build one archive per TLC-generated configuration with the library's
//!          ArchiveBuilder and record the archive *bytes* plus what was put in (names, contents).
//!          TLC (Read_MpqFormat) decodes the bytes with the reference reader.
//!   read   direction 2: open the archives laid out by the reference writer (TLC evaluating RefWrite),
//!          list them, read every file under four spellings, read absent names; record results.
//! The driver never compares anything: Trace_MpqFormat.tla decides.
use std::path::Path;
use wow_mpq::compression::flags as cf;
use wow_mpq::{Archive, ArchiveBuilder, FormatVersion, ListfileOption};
use wverif_common::*;

fn length_of(lc: &str, s: usize) -> usize {
    match lc {
        "0" => 0,
        "1" => 1,
        "7" => 7,
        "S-1" => s - 1,
        "S" => s,
        "S+1" => s + 1,
        "S+S/2" => s + s / 2,
        "2S" => 2 * s,
        "2S+9" => 2 * s + 9,
        "3S+5" => 3 * s + 5,
        _ => tool_error(&format!("unknown length class {lc}")),
    }
}

fn method_of(m: &str) -> u8 {
    match m {
        "none" => 0,
        "zlib" => cf::ZLIB,
        "bzip2" => cf::BZIP2,
        _ => tool_error(&format!("unknown method {m}")),
    }
}

/// `%XX` escapes in generated names stand for the UTF-8 bytes of non-ASCII characters.
fn decode_name(s: &str) -> String {
    let b = s.as_bytes();
    let mut out = Vec::with_capacity(b.len());
    let mut i = 0;
    while i < b.len() {
        if b[i] == b'%' && i + 2 < b.len() && s.is_char_boundary(i + 1) && s.is_char_boundary(i + 3) {
            if let Ok(v) = u8::from_str_radix(&s[i + 1..i + 3], 16) {
                out.push(v);
                i += 3;
                continue;
            }
        }
        out.push(b[i]);
        i += 1;
    }
    String::from_utf8(out).unwrap_or_else(|_| tool_error(&format!("name {s} is not UTF-8 after decoding")))
}

/// Length of the zlib stream flate2 (default level, as wow-mpq uses it) produces for `d`.
fn zlib_len(d: &[u8]) -> usize {
    use std::io::Write;
    let mut e = flate2::write::ZlibEncoder::new(Vec::new(), flate2::Compression::default());
    e.write_all(d).unwrap();
    e.finish().map(|v| v.len()).unwrap_or(usize::MAX)
}

/// Content class "edge": the first unit (sector or whole single-unit file) is text followed by just enough
/// random bytes that its zlib stream is EXACTLY one byte shorter than the unit: with the method byte the
/// compressed form is as long as the raw one, so a conformant writer must store the unit raw (a unit whose
/// stored size equals its size is raw for every reader). Returns (content, found).
fn edge_content(len: usize, ssize: usize, rng: &mut Rng) -> (Vec<u8>, bool) {
    let u = len.min(ssize);
    let text = gen_content("text", len, rng);
    let rnd = rng.bytes(u);
    let build = |r: usize| -> Vec<u8> {
        let mut v = text.clone();
        v[u - r..u].copy_from_slice(&rnd[..r]);
        v
    };
    let (mut lo, mut hi) = (0usize, u);
    while lo < hi {
        let mid = (lo + hi) / 2;
        if zlib_len(&build(mid)[..u]) + 1 >= u {
            hi = mid;
        } else {
            lo = mid + 1;
        }
    }
    for r in lo.saturating_sub(16)..=(lo + 96).min(u) {
        let v = build(r);
        if zlib_len(&v[..u]) + 1 == u {
            return (v, true);
        }
    }
    (build(lo.min(u)), false)
}

fn bytes_json(b: &[u8]) -> Value {
    Value::Array(b.iter().map(|x| Value::from(*x)).collect())
}

fn outcome_str<T, E: std::fmt::Debug>(o: &Outcome<Result<T, E>>) -> String {
    match o {
        Outcome::Done(r) => res_class(r),
        Outcome::Panic(_) => "panic".into(),
        Outcome::Hang => "hang".into(),
    }
}

// ------------------------------------------------------------------------------------------
// direction 1: the library writes
// ------------------------------------------------------------------------------------------
fn mode_write(cases: &[Value], trace: &Trace) {
    let seed = seed();
    let scratch = Scratch::new("c02w");
    for c in cases {
        if gi(c, "dir") != 1 {
            continue;
        }
        let id = gi(c, "id");
        let ver = gi(c, "ver");
        let shift = gi(c, "shift") as u16;
        let ssize = 512usize << shift;
        let lf = gs(c, "listfile");
        let mut files_json = Vec::new();
        let mut b = ArchiveBuilder::new()
            .version(match ver {
                0 => FormatVersion::V1,
                1 => FormatVersion::V2,
                2 => FormatVersion::V3,
                _ => FormatVersion::V4,
            })
            .block_size(shift)
            .default_compression(method_of(lf))
            .listfile_option(ListfileOption::Generate);
        // V3/V4: the builder writes HET/BET tables; optionally compressed (zlib / bzip2)
        let tablecomp = c.get("tablecomp").and_then(|x| x.as_str()).unwrap_or("none");
        if ver >= 2 && tablecomp != "none" {
            b = b.compress_tables(true).table_compression(method_of(tablecomp));
        }
        let crc = c.get("crc").and_then(|x| x.as_bool()).unwrap_or(false);
        if crc {
            // sector checksums on; the (attributes) file that generate_crcs switches on is switched off again
            b = b.generate_crcs(true).attributes_option(wow_mpq::AttributesOption::None);
        }
        for (fi, f) in ga(c, "files").iter().enumerate() {
            let name_s = decode_name(gs(f, "name"));
            let name = name_s.as_str();
            let len = length_of(gs(f, "lc"), ssize);
            let mut rng = Rng::derive(seed, &format!("c02w:{id}:{fi}"));
            let (data, edge) = match gs(f, "cc") {
                "edge" if len >= 32 => edge_content(len, ssize, &mut rng),
                "edge" => (gen_content("mixed", len, &mut rng), false),
                cc => (gen_content(cc, len, &mut rng), false),
            };
            let m = method_of(gs(f, "meth"));
            files_json.push(json!({"name": name, "nb": bytes_json(name.as_bytes()), "len": len, "tok": tok(&data),
                "data": bytes_json(&data), "edge": edge, "meth": gs(f, "meth"), "enc": gs(f, "enc"), "lc": gs(f, "lc"), "cc": gs(f, "cc")}));
            b = match gs(f, "enc") {
                "plain" => b.add_file_data_with_options(data, name, m, false, 0),
                "enc" => b.add_file_data_with_options(data, name, m, true, 0),
                "fix" => b.add_file_data_with_encryption(data, name, m, true, 0),
                e => tool_error(&format!("unknown enc {e}")),
            };
        }
        // files added under NON-neutral locales: the same name as file 1 under 0x0409, another name under 0x0807
        let mut loc_json = Vec::new();
        if c.get("twin").and_then(|x| x.as_bool()).unwrap_or(false) && !files_json.is_empty() {
            let first = files_json[0]["name"].as_str().unwrap_or("").to_string();
            let specs: [(String, u16, u8, bool, usize); 2] = [
                (first, 0x0409, 0, false, 33),
                ("Localized\\Strings.txt".to_string(), 0x0807, cf::ZLIB, true, ssize + 40),
            ];
            for (li, (name, locale, m, enc, len)) in specs.iter().enumerate() {
                let mut rng = Rng::derive(seed, &format!("c02w:{id}:loc{li}"));
                let data = gen_content("text", *len, &mut rng);
                loc_json.push(json!({"name": name, "nb": bytes_json(name.as_bytes()), "locale": locale, "len": len,
                    "tok": tok(&data), "data": bytes_json(&data)}));
                b = b.add_file_data_with_options(data, name, *m, *enc, *locale);
            }
        }
        let path = scratch.file(&format!("w{id}.mpq"));
        let p2 = path.clone();
        let o = guarded(move || b.build(&p2));
        let res = outcome_str(&o);
        let bytes = if res == "ok" { std::fs::read(&path).unwrap_or_default() } else { Vec::new() };
        let _ = std::fs::remove_file(&path);
        // the last one differs from a (possibly present) name only in the case of a non-ASCII letter
        let absent = ["absent.txt", "Data\\File99.bin", "Interface\\Glue\\caf\u{c9}.txt"];
        trace.ev(json!({"ev":"Archive","case":id,"dir":1,"ver":ver,"shift":shift,"listfile":lf,"crc":crc,"res":res,"tablecomp":tablecomp,
            "alen": bytes.len(), "bytes": bytes_json(&bytes), "files": files_json, "locfiles": loc_json,
            "absent": absent.iter().map(|a| json!({"name": a, "nb": bytes_json(a.as_bytes())})).collect::<Vec<_>>() }));
    }
}

// ------------------------------------------------------------------------------------------
// direction 2: the library reads what the reference wrote
// ------------------------------------------------------------------------------------------
fn spellings(name: &str) -> Vec<String> {
    vec![
        name.to_string(),
        name.to_ascii_uppercase(),
        name.to_ascii_lowercase(),
        name.replace('\\', "/"),
    ]
}

struct Opened {
    res: String,
    path: String,
    ar: Option<Archive>,
}

fn open_variant(path: &str) -> Opened {
    if path.is_empty() {
        return Opened { res: "none".into(), path: String::new(), ar: None };
    }
    let p = path.to_string();
    match guarded(move || Archive::open(Path::new(&p))) {
        Outcome::Done(Ok(a)) => Opened { res: "ok".into(), path: path.to_string(), ar: Some(a) },
        Outcome::Done(Err(e)) => Opened { res: format!("err:{}", variant_name(&e)), path: path.to_string(), ar: None },
        Outcome::Panic(_) => Opened { res: "panic".into(), path: path.to_string(), ar: None },
        Outcome::Hang => Opened { res: "hang".into(), path: path.to_string(), ar: None },
    }
}

/// One `read_file` call under a watchdog. A wrong key makes the library read garbage sector offsets and
/// zero-fill up to 4 GB per sector before it fails; a mutated library can take minutes. The archive handle
/// travels into the helper thread and comes back with the result; after a hang/panic the variant is closed.
fn read_one(o: &mut Opened, sp: &str) -> (String, i64, String) {
    if o.ar.is_none() && o.res == "ok" {
        // the handle was lost in a hang/panic of an earlier call: open the archive again
        o.ar = open_variant(&o.path).ar;
    }
    let Some(mut a) = o.ar.take() else {
        return ("closed".into(), -1, String::new());
    };
    let spc = sp.to_string();
    let limit = std::time::Duration::from_secs(60);
    match with_watchdog(limit, move || {
        let r = a.read_file(&spc);
        (a, r)
    }) {
        Outcome::Done((a, r)) => {
            o.ar = Some(a);
            match r {
                Ok(d) => ("ok".into(), d.len() as i64, tok(&d)),
                Err(wow_mpq::Error::FileNotFound(_)) => ("notfound".into(), -1, String::new()),
                Err(e) => (format!("err:{}", variant_name(&e)), -1, String::new()),
            }
        }
        Outcome::Panic(_) => ("panic".into(), -1, String::new()),
        Outcome::Hang => ("hang".into(), -1, String::new()),
    }
}

/// results of reading `name` under its four spellings: ([res], [len], [tok]); after a hard failure
/// (error, panic, hang) the remaining spellings are recorded as "skipped" (not attempted).
fn read_all(o: &mut Opened, name: &str) -> Value {
    let mut res = Vec::new();
    let mut lens = Vec::new();
    let mut toks = Vec::new();
    let mut failed = false;
    for sp in spellings(name) {
        let (r, l, t) = if failed { ("skipped".to_string(), -1, String::new()) } else { read_one(o, &sp) };
        if r != "ok" && r != "notfound" {
            failed = true;
        }
        res.push(r);
        lens.push(l);
        toks.push(t);
    }
    json!({"res": res, "len": lens, "tok": toks})
}

fn list_of(o: &mut Opened) -> Value {
    let Some(mut a) = o.ar.take() else {
        return json!({"res": "closed", "names": [], "sizes": []});
    };
    match with_watchdog(std::time::Duration::from_secs(30), move || {
        let r = a.list();
        (a, r)
    }) {
        Outcome::Done((a, r)) => {
            o.ar = Some(a);
            match r {
                Ok(es) => {
                    let mut v: Vec<(String, u64)> = es.into_iter().map(|e| (e.name, e.size)).collect();
                    v.sort();
                    json!({"res": "ok", "names": v.iter().map(|x| x.0.clone()).collect::<Vec<_>>(),
                           "sizes": v.iter().map(|x| x.1).collect::<Vec<_>>()})
                }
                Err(e) => json!({"res": format!("err:{}", variant_name(&e)), "names": [], "sizes": []}),
            }
        }
        Outcome::Panic(_) => json!({"res": "panic", "names": [], "sizes": []}),
        Outcome::Hang => json!({"res": "hang", "names": [], "sizes": []}),
    }
}

/// What the library itself says about a V4 archive's digests (`get_info().md5_status`, "n/a" for other versions or
/// after a failure) and which of the HET/BET/hash/block tables it loaded. Observations only.
fn info_of(o: &mut Opened) -> (Value, Value) {
    let na = || json!({"res":"n/a","hash":true,"block":true,"hiblock":true,"het":true,"bet":true,"header":true});
    let Some(mut a) = o.ar.take() else {
        return (na(), json!({"het": false, "bet": false, "hash": false, "block": false}));
    };
    let tabs = json!({"het": a.het_table().is_some(), "bet": a.bet_table().is_some(),
        "hash": a.hash_table().is_some(), "block": a.block_table().is_some()});
    match with_watchdog(std::time::Duration::from_secs(30), move || {
        let r = a.get_info();
        (a, r)
    }) {
        Outcome::Done((a, r)) => {
            o.ar = Some(a);
            let md5 = match r {
                Ok(info) => match info.md5_status {
                    Some(m) => json!({"res":"ok","hash":m.hash_table_valid,"block":m.block_table_valid,"hiblock":m.hi_block_table_valid,
                        "het":m.het_table_valid,"bet":m.bet_table_valid,"header":m.header_valid}),
                    None => na(),
                },
                Err(e) => json!({"res":format!("err:{}", variant_name(&e)),"hash":false,"block":false,"hiblock":false,"het":false,"bet":false,"header":false}),
            };
            (md5, tabs)
        }
        Outcome::Panic(_) => (json!({"res":"panic","hash":false,"block":false,"hiblock":false,"het":false,"bet":false,"header":false}), tabs),
        Outcome::Hang => (json!({"res":"hang","hash":false,"block":false,"hiblock":false,"het":false,"bet":false,"header":false}), tabs),
    }
}

fn mode_read(cases: &[Value], trace: &Trace) {
    // a wrong key makes the library read garbage sector offsets and allocate up to 4 GB per attempt:
    // two threads only; events are written in case order afterwards (deterministic trace)
    let slots: Vec<std::sync::Mutex<Vec<Value>>> = cases.iter().map(|_| std::sync::Mutex::new(Vec::new())).collect();
    par_for(cases.len(), 2, |ci| {
        let c = &cases[ci];
        let id = gi(c, "case");
        let mut evs = Vec::new();
        evs.push(json!({"ev":"Reset","case":id,"dir":2,"ver":gi(c,"ver"),"shift":gi(c,"shift"),"crc":false,
            "hetbet": c["cfg"]["hetbet"].as_bool().unwrap_or(false), "classic": c["cfg"]["classic"].as_bool().unwrap_or(true),
            "names": c["names"].clone(), "lens": c["lens"].clone(), "toks": c["toks"].clone(),
            "twin": c["twin"].clone(), "cfg": c["cfg"].clone()}));
        let mut std = open_variant(gs(c, "std"));
        // variant archives: file i is laid out under its j-th combination of named deviations in vars[j]
        let mut vars: Vec<Opened> = ga(c, "vars").iter().map(|p| open_variant(p.as_str().unwrap_or(""))).collect();
        let (md5, tabs) = info_of(&mut std);
        evs.push(json!({"ev":"Open","case":id,"std":std.res,"vars":vars.iter().map(|v| v.res.clone()).collect::<Vec<_>>(),
            "md5": md5, "tables": tabs}));
        let lstd = list_of(&mut std);
        let lvars: Vec<Value> = vars.iter_mut().map(list_of).collect();
        evs.push(json!({"ev":"List","case":id,"std":lstd,"vars":lvars}));
        let labels = ga(c, "labels");
        for (i, n) in ga(c, "names").iter().enumerate() {
            let name = n.as_str().unwrap_or("");
            let stdr = read_all(&mut std, name);
            let mut devs = Vec::new();
            for (j, lb) in labels[i].as_array().map(|a| a.as_slice()).unwrap_or(&[]).iter().enumerate() {
                if j < vars.len() {
                    devs.push(json!({"labels": lb.clone(), "r": read_all(&mut vars[j], name)}));
                }
            }
            evs.push(json!({"ev":"Read","case":id,"name":name,"std":stdr,"devs":devs}));
        }
        for a in ga(c, "absent") {
            let name = a.as_str().unwrap_or("");
            evs.push(json!({"ev":"Absent","case":id,"name":name,"std":read_all(&mut std, name)}));
        }
        evs.push(json!({"ev":"Done","case":id}));
        *slots[ci].lock().unwrap() = evs;
    });
    for s in slots {
        trace.block(s.into_inner().unwrap());
    }
}

fn main() {
    let a = args();
    install_quiet_panic_hook();
    let cases = read_cases(&a.cases);
    let trace = Trace::create(&a.trace);
    match a.extra.first().map(|s| s.as_str()) {
        Some("write") => mode_write(&cases, &trace),
        Some("read") => mode_read(&cases, &trace),
        _ => tool_error("usage: c02 <cases> <trace> write|read"),
    }
    trace.flush();
    drop(trace);
    std::process::exit(0); // leaked watchdog threads must not keep the process alive
}
