CONSTANT SectorBase = 512
