--------------------------- MODULE Gen_MpqHashTable ---------------------------
(***************************************************************************************************)
(* Stage (B) for C06: TLC runs the AS-CODED machine of MpqHashTable (CodeSteps/CodeSyncs,          *)
(* real table size H = 16, real home slots of the special files) and emits operation histories as  *)
(* `CASE {json}` lines:                                                                            *)
(*   mode bfs : every history of MinLen..MaxLen calls over the op names (breadth-first, exhaustive)*)
(*   mode sim : random long histories (-simulate), op kind chosen first so that kinds are balanced *)
(* Each case carries what the model of the code predicts: `devs` = the named deviations that alter *)
(* the outcome of this history (empty: the real code is expected to behave like the design), and   *)
(* `preds` = for every close of the history (each reopen and the final one) the map a fresh open  *)
(* of the file should read according to the model of the code ("unopenable" / "hang" otherwise).   *)
(* Class parameters (version, listfile, attributes, slack, universe) come from the environment so  *)
(* that checks/c06.py can sweep starting-archive classes with one module.                          *)
(***************************************************************************************************)
EXTENDS MpqHashTable, Json, IOUtils

Env(k, dflt) == IF k \in DOMAIN IOEnv THEN IOEnv[k] ELSE dflt
GMode   == Env("C06_MODE", "bfs")
GVer    == atoi(Env("C06_VER", "1"))
GLF     == Env("C06_LF", "1") = "1"
GAT     == Env("C06_AT", "0") = "1"
GSlack  == atoi(Env("C06_SLACK", "31"))
GMinLen == atoi(Env("C06_MINLEN", "1"))
GMaxLen == atoi(Env("C06_MAXLEN", "3"))
GNames  == atoi(Env("C06_NAMES", "3"))          \* number of op names
GInit   == atoi(Env("C06_INIT", "1"))           \* how many of them are in the starting archive
GEnc    == atoi(Env("C06_ENC", "0"))            \* 0: no encryption, 1: + encrypt, 2: + fix_key
GSub    == Env("C06_SUB", "0") = "1"            \* the spelling of name "b" is contained in the spelling of name "a"
GFill   == Env("C06_FILL", "0") = "1"           \* sim: addition-heavy histories (more additions than free slots)
GCls    == Env("C06_CLASS", "c")

GH == 16
\* op names with chosen home slots: clusters that collide, one cluster on the home slot of (listfile)
\* (9) and one next to (attributes) (14); a, b, d (and h, i) live on the LAST slot (15) and c on slot 0, so
\* the probe chains of the exhaustively enumerated names wrap around the end of the table
AllNames == <<"a", "b", "c", "d", "e", "f", "g", "h", "i", "j", "k", "l", "m", "n", "o", "p", "q", "r">>
HomeSeq  == << 15,  15,  0,   15,  9,   9,   14,  15,  15,  0,   0,   1,   8,   8,   12,  3,   4,   10>>
OpNames  == {AllNames[j] : j \in 1..GNames}
PadHome  == 7
GUNames  == OpNames \cup {"pad"}
GHome    == [x \in GUNames \cup {LF, AT} |->
               IF x = LF THEN 59481 % GH            \* low half of HashString("(listfile)", TABLE_OFFSET) (MC_MpqCrypto V1)
               ELSE IF x = AT THEN 44494 % GH       \* low half of HashString("(attributes)", TABLE_OFFSET)
               ELSE IF x = "pad" THEN PadHome
               ELSE HomeSeq[CHOOSE j \in 1..GNames : AllNames[j] = x]]
GSubOf   == [x \in GUNames |-> IF GSub /\ x = "b" /\ "a" \in OpNames THEN {"a"} ELSE {}]
GInitSeq == [j \in 1..GInit |-> AllNames[j]] \o <<"pad">>
GInitTok == [x \in {GInitSeq[j] : j \in 1..Len(GInitSeq)} |-> "i:" \o x]

VARIABLES hist,      \* the calls so far: [op, n, m, rep, comp, enc]
          gkind,     \* sim mode: the kind chosen for the next call ("" = none yet)
          gres,      \* result class the model of the code predicts for each call of hist
          gsr,       \* what read_file(subject of the call) inside the session returns after each call ("-": n/a)
          gpreds,    \* what the model of the code predicts a fresh open reads after each close so far
          gdone
gvars == <<hslots, hblocks, hcursor, ddisk, wopen, wdirty, vlf, stale, staleMap, pc, opr, pidx, pcnt, hsnap, lastres, devs, vcalls, hist, gkind, gres, gsr, gpreds, gdone>>

OpRec(o, n, m, rep, comp, enc) == [op |-> o, n |-> n, m |-> m, rep |-> rep, comp |-> comp, enc |-> enc, big |-> FALSE, tok |-> ""]
\* content VALUES: an add stores a fresh content or one this name held before (at the start, or by an earlier add): the
\* history v1 -> v2 -> v1 must end with v1 whatever the storage class of the copies
PrevToks(n) == {hist[j].tok : j \in {i \in 1..Len(hist) : hist[i].op = "add" /\ hist[i].n = n}}
               \cup (IF n \in DOMAIN GInitTok THEN {GInitTok[n]} ELSE {})
\* sim mode: an add may store a content larger than one sector
BigChoice == IF GMode = "sim" THEN BOOLEAN ELSE {FALSE}
Tok(k) == "o" \o ToString(k)
CompOf(k, n) == IF (k + Len(n)) % 2 = 0 THEN "zlib" ELSE "none"
Encs == CASE GEnc = 0 -> {"none"} [] GEnc = 1 -> {"none", "enc"} [] OTHER -> {"none", "enc", "fix"}
Comps(k, n) == IF GMode = "sim" THEN {"zlib", "none"} ELSE {CompOf(k, n)}
K == Len(hist) + 1

\* fill mode: additions go to names that are not in the archive as long as there are any and the table has a free slot,
\* so that every fill history reaches a table without Empty slot, is refused there, and goes on with removes / re-adds
FillOK(n) == ~GFill \/ SessView[n] = None \/ NoFree(hslots) \/ \A x \in OpNames : SessView[x] # None
GAdd    == \E n \in {x \in OpNames : FillOK(x)}, rep \in BOOLEAN, enc \in Encs, big \in BigChoice : \E comp \in Comps(K, n), c \in {Tok(K)} \cup PrevToks(n) :
              BeginAdd(n, c, rep, enc, comp, big)
              /\ hist' = Append(hist, [OpRec("add", n, "", rep, comp, enc) EXCEPT !.big = big, !.tok = c])
GRemove == \E n \in OpNames : BeginRemove(n) /\ hist' = Append(hist, OpRec("remove", n, "", TRUE, "none", "none"))
GRename == \E a \in OpNames, b \in OpNames : BeginRename(a, b) /\ hist' = Append(hist, OpRec("rename", a, b, TRUE, "none", "none"))
GFlush  == (FlushClean \/ FlushRelocate) /\ hist' = Append(hist, OpRec("flush", "", "", TRUE, "none", "none"))
GCompact == (CompactNow \/ CompactRefuseNow) /\ hist' = Append(hist, OpRec("compact", "", "", TRUE, "none", "none"))
\* reopen = drop the MutableArchive (flush on drop) and open the file again
PredOf(img) == IF ~img.ok THEN [kind |-> "unopenable"]
               ELSE [kind |-> "map", map |-> View(img.slots, img.blocks, img.dmg), lf |-> img.lf,
                     list |-> IF img.lf /\ SlotOf(img.slots, LF) # {} THEN LFContent(img.slots, img.blocks) \cap GUNames ELSE {}]
GClose  == (CloseClean \/ CloseRelocate) /\ UNCHANGED hist /\ gpreds' = Append(gpreds, PredOf(ddisk'))
GReopen == ~wopen /\ Open /\ hist' = (IF vcalls = 0 THEN hist ELSE Append(hist, OpRec("reopen", "", "", TRUE, "none", "none")))

More == Len(hist) < GMaxLen /\ ~gdone /\ pc = "idle"
\* bfs: any call; sim: first a kind (adds weighted), then its parameters
Kinds == IF GFill THEN {"add1", "add2", "add3", "add4", "add5", "add6", "add7", "remove", "flush", "reopen"}
         ELSE {"add1", "add2", "add3", "add4", "remove", "rename", "compact", "flush", "reopen", "reopen2"}
PickKind == /\ GMode = "sim" /\ More /\ wopen /\ gkind = ""
            /\ gkind' \in Kinds /\ UNCHANGED <<hslots, hblocks, hcursor, ddisk, wopen, wdirty, vlf, stale, staleMap, pc, opr, pidx, pcnt, hsnap, lastres, devs, vcalls, hist, gres, gsr, gpreds, gdone>>
Allowed(kd) == GMode = "bfs" \/ gkind \in kd
Call == /\ More /\ (GMode = "bfs" \/ gkind # "") /\ gkind' = "" /\ UNCHANGED gdone
        /\ \/ Allowed({"add1", "add2", "add3", "add4", "add5", "add6", "add7"}) /\ GAdd /\ UNCHANGED <<gres, gsr, gpreds>>
           \/ Allowed({"remove"}) /\ GRemove /\ UNCHANGED <<gres, gsr, gpreds>>
           \/ Allowed({"rename"}) /\ GRename /\ UNCHANGED <<gres, gsr, gpreds>>
           \/ Allowed({"flush"}) /\ GFlush /\ gres' = Append(gres, "ok") /\ gsr' = Append(gsr, "-") /\ UNCHANGED gpreds
           \/ Allowed({"compact"}) /\ GCompact /\ gres' = Append(gres, lastres') /\ gsr' = Append(gsr, "-") /\ UNCHANGED gpreds
           \/ Allowed({"reopen", "reopen2"}) /\ wopen /\ GClose /\ UNCHANGED <<gres, gsr>>
\* after a close the only thing to do is to open again (or to stop); the first open is implicit
Reopen == /\ ~gdone /\ pc = "idle" /\ ~wopen /\ ddisk.ok /\ gkind # "final" /\ (vcalls = 0 \/ Len(hist) < GMaxLen)
          /\ GReopen /\ gres' = (IF vcalls = 0 THEN gres ELSE Append(gres, "ok"))
          /\ gsr' = (IF vcalls = 0 THEN gsr ELSE Append(gsr, "-")) /\ UNCHANGED <<gkind, gpreds, gdone>>
Step == /\ ~gdone /\ ~Hung /\ CodeSteps
        /\ gres' = (IF pc' = "idle" THEN Append(gres, lastres') ELSE gres)
        \* the subject of the call (opr is cleared by the completing step: bind the name first)
        /\ \E nm \in GUNames : /\ nm = (IF opr.k = "rename" THEN opr.m ELSE opr.n)
                               /\ gsr' = (IF pc' = "idle" THEN Append(gsr, SessionReadDesigned(nm)') ELSE gsr)
        /\ UNCHANGED <<hist, gkind, gpreds, gdone>>
\* the history is complete: the harness drops the archive (flush on drop) ...
FinalClose == /\ ~gdone /\ pc = "idle" /\ wopen /\ gkind = "" /\ Len(hist) >= GMinLen /\ (GMode = "bfs" \/ Len(hist) >= GMaxLen)
              /\ GClose /\ gkind' = "final" /\ UNCHANGED <<gres, gsr, gdone>>

\* one prediction per close (every reopen, then the final one); a spinning call ends the history
Preds == IF Hung THEN Append(gpreds, [kind |-> "hang"]) ELSE gpreds
CaseRec == [cls |-> GCls, ver |-> GVer, lf |-> GLF, at |-> GAT, slack |-> IF GVer >= 3 THEN -1 ELSE GSlack,
            names |-> [j \in 1..GNames |-> [n |-> AllNames[j], home |-> HomeSeq[j]]], padhome |-> PadHome,
            init |-> [j \in 1..GInit |-> AllNames[j]], ops |-> hist,
            \* storage class of each starting file as the BUILDER writes it: 0 small compressed; 1..6 longer than a sector
            \* (sectored) x {compressible, incompressible} x {plain, encrypted, fix-key}; rotated by TLC over the histories
            initcls |-> [j \in 1..GInit |-> (Len(hist) * 3 + Cardinality({i \in 1..Len(hist) : hist[i].op = "add"}) * 5
                                             + Cardinality({i \in 1..Len(hist) : hist[i].op = "rename"}) + atoi(Env("VERIF_SEED", "1")) + 2 * j) % 7],
            sub |-> IF GSub /\ GNames >= 2 THEN <<[n |-> "b", inside |-> "a"]>> ELSE <<>>, devs |-> devs, preds |-> Preds,
            pres |-> IF Hung THEN Append(gres, "hang") ELSE gres, psr |-> gsr]
\* ... and the case is printed
Emit == /\ ~gdone
        /\ \/ gkind = "final" /\ ~wopen
           \/ Hung
           \/ pc = "idle" /\ ~wopen /\ ~ddisk.ok /\ Len(hist) >= 1
        /\ PrintT("CASE " \o ToJson(CaseRec))
        /\ gdone' = TRUE
        /\ UNCHANGED <<hslots, hblocks, hcursor, ddisk, wopen, wdirty, vlf, stale, staleMap, pc, opr, pidx, pcnt, hsnap, lastres, devs, vcalls, hist, gkind, gres, gsr, gpreds>>

GInitState == HInit /\ hist = <<>> /\ gkind = "" /\ gres = <<>> /\ gsr = <<>> /\ gpreds = <<>> /\ gdone = FALSE
GNext == PickKind \/ Call \/ Reopen \/ Step \/ FinalClose \/ Emit
=============================================================================
