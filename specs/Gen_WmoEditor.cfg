CONSTANT Dev = {"CreateMisplaced", "StaleGroupIndex", "DanglingZero", "ErrUnderflow", "NamesCountDrift", "VertexNoFlag", "AttrsNotParallel"}
CONSTANT Budget = 10
CONSTANT Inits = {0, 1, 2}
CONSTANT MaxIx = 3
INIT GInit
NEXT GNext
CHECK_DEADLOCK FALSE
