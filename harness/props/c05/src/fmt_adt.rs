//! C05 seeds, field inventory and entry point for ADT terrain files (wow_adt::parse_adt).
//!
//! Root seeds are produced by the crate's own `AdtBuilder` / `BuiltAdt::to_bytes` (serializer.rs)
//! from a full 16x16 grid of MCNK chunks: most are small (MCVT, MCNR, one MCLY layer), the chunks
//! 0, 1, 17, 100 and 255 carry every sub-chunk the serializer can write (four texture layers with
//! alpha maps, MCRF, MCSH, MCLQ or MH2O water, MCCV, MCSE, MCLV, MCMT / MCDD / MCBB for MoP).
//! The library has no writer for the Cataclysm+ split files; they are derived from builder output
//! by re-arranging whole chunks (no payload byte is invented except the 4-byte MCMT):
//!   * split root  = builder output without MCIN / MTEX / MMDX / MMID / MWMO / MWID / MDDF / MODF /
//!                   MTXF / MAMP, the MHDR offsets recomputed;
//!   * _tex0       = MVER, MAMP, MTXP, MTEX + one header-less MCNK per tile holding the MCLY / MCAL /
//!                   MCSH chunks of the monolithic file (+ MCMT);
//!   * _obj0       = MVER, MMDX, MMID, MWMO, MWID, MDDF, MODF + one header-less MCNK per tile holding
//!                   the MCRF reference list split into MCRD / MCRW.
//! Per-tile variants of the root seeds (all written by the serializer):
//!   * tile 2   : no MCCV (flag 0x40 clear, ofs_mccv 0) while every other tile has vertex colours;
//!   * tile 17  : MCRD + MCRW instead of MCRF, so that ofs_refs points at an MCRD inside a root MCNK;
//!   * tile 100 : flag 0x200 (high_res_holes): the parser ignores ofs_height / ofs_normal and scans the sub-chunk
//!                sequence for MCVT / MCNR; MCRW only (ofs_refs points at an MCRW); MCLQ type Ocean (flag 0x08);
//!   * tile 255 : MCLQ type Slime (flag 0x20); tile 17 is Magma (0x10), tile 0 Water (0x04).
//! The "small-*" seeds are builder output with three MCNKs (tiles 0, 1, 2; MCIN padded with empty entries by the
//! serializer) and exist for the chunk-presence variants of version / file-type detection:
//!   * small-cata-mamp-root  : monolithic Cataclysm root, detected by MAMP (no MTXP, no blend mesh, no MH2O);
//!   * small-wotlk-mtxf-root : WotLK detected by MTXF alone (no MH2O);
//!   * small-mop-blend-root  : MoP detected by MBMH/MBBB/MBNV/MBMI (no MTXP);
//!   * small-cata-tex0       : _tex0 derived from the Cataclysm file: no MTXP, version != MoP in parse_tex_adt;
//!   * lod-stub              : the MVER chunk alone: no MCNK / MHDR / MTEX / placement chunk -> file type Lod.
//! NOTE on this crate's MCNK header: it is 136 bytes (128 of the file format + 8 trailing padding
//! bytes), written and read consistently by serializer.rs and header.rs; sub-chunks of a root MCNK
//! therefore start at MCNK+8+136. Header offsets are relative to the start of the MCNK chunk
//! (its tag). Tags are stored reversed on disk ("REVM").
use crate::seed::{walk_chunks, Aux, ChunkSeq, Seed};
use crate::worker::{errname, Runner};
use std::io::Cursor;
use wow_adt::chunks::blend_mesh::{MbbbChunk, MbbbEntry, MbmhChunk, MbmhEntry, MbmiChunk, MbnvChunk, MbnvVertex};
use wow_adt::chunks::mcnk::{
    BlendBatch, LiquidType, LiquidVertex, McalChunk, McbbChunk, MccvChunk, McddChunk, MclqChunk, MclvChunk, MclyChunk,
    MclyFlags, MclyLayer, McmtChunk, McnkChunk, McnkFlags, McnkHeader, McnrChunk, McrdChunk, McrfChunk, McrwChunk, McseChunk,
    McshChunk, McvtChunk, SoundEmitter,
};
use wow_adt::chunks::mh2o::{
    DepthOnlyVertex, HeightDepthVertex, HeightUvDepthVertex, HeightUvVertex, Mh2oAttributes, Mh2oChunk, Mh2oEntry,
    Mh2oHeader, Mh2oInstance, UvMapEntry, VertexDataArray,
};
use wow_adt::chunks::{MampChunk, MfboChunk, MtxfChunk, MtxpChunk, TextureHeightParams};
use wow_adt::{AdtBuilder, AdtVersion, DoodadPlacement, WmoPlacement};

pub fn seed_names(thorough: bool) -> Vec<String> {
    // quick: a pre-Cataclysm root that carries both water encodings (MH2O and legacy MCLQ), and a
    // split texture file
    let mut v = vec!["wotlk-root-mh2o".to_string(), "mop-tex0".to_string()];
    if thorough {
        v.push("tbc-root-mclq".into());
        v.push("vanilla-root".into());
        v.push("mop-root".into());
        v.push("cata-split-root".into());
        v.push("cata-obj0".into());
        // three-MCNK files for the chunk-presence variants of version / file-type detection (see the module comment)
        v.push("small-cata-mamp-root".into());
        v.push("small-wotlk-mtxf-root".into());
        v.push("small-mop-blend-root".into());
        v.push("small-cata-tex0".into());
        v.push("lod-stub".into());
    }
    v
}

// ---------------------------------------------------------------------------------------------
// model
// ---------------------------------------------------------------------------------------------

#[derive(Clone, Copy)]
struct Spec {
    version: AdtVersion,
    mccv: bool,
    mclq: bool,
    mfbo: bool,
    mh2o: bool,
    mtxf: bool,
    mamp: bool,
    mtxp: bool,
    blend: bool,
    mclv: bool,
    /// only the sub-chunks that stay in a Cataclysm+ root file
    split_root: bool,
    /// number of MCNK chunks handed to the builder (tiles 0..tiles)
    tiles: usize,
}

fn spec(name: &str) -> Spec {
    let base = Spec {
        version: AdtVersion::VanillaEarly,
        mccv: false,
        mclq: false,
        mfbo: false,
        mh2o: false,
        mtxf: false,
        mamp: false,
        mtxp: false,
        blend: false,
        mclv: false,
        split_root: false,
        tiles: 256,
    };
    match name {
        "vanilla-root" => Spec { version: AdtVersion::VanillaLate, mccv: true, mclq: true, ..base },
        "tbc-root-mclq" => Spec { version: AdtVersion::TBC, mccv: true, mclq: true, mfbo: true, ..base },
        "wotlk-root-mh2o" => Spec { version: AdtVersion::WotLK, mccv: true, mclq: true, mfbo: true, mh2o: true, mtxf: true, ..base },
        "mop-root" | "mop-tex0" => Spec {
            version: AdtVersion::MoP,
            mccv: true,
            mfbo: true,
            mh2o: true,
            mtxf: true,
            mamp: true,
            mtxp: true,
            blend: true,
            mclv: true,
            ..base
        },
        "cata-obj0" => Spec { version: AdtVersion::Cataclysm, mccv: true, mtxf: true, mamp: true, ..base },
        "cata-split-root" => Spec {
            version: AdtVersion::Cataclysm,
            mccv: true,
            mfbo: true,
            mh2o: true,
            mtxf: true,
            mamp: true,
            mclv: true,
            split_root: true,
            ..base
        },
        "small-cata-mamp-root" | "small-cata-tex0" | "lod-stub" => {
            Spec { version: AdtVersion::Cataclysm, mccv: true, mfbo: true, mtxf: true, mamp: true, mclv: true, tiles: 3, ..base }
        }
        "small-wotlk-mtxf-root" => Spec { version: AdtVersion::WotLK, mccv: true, mclq: true, mfbo: true, mtxf: true, tiles: 3, ..base },
        "small-mop-blend-root" => Spec { version: AdtVersion::MoP, mccv: true, mtxf: true, mamp: true, blend: true, mclv: true, tiles: 3, ..base },
        _ => wverif_common::tool_error(&format!("adt: unknown seed {name}")),
    }
}

const RICH: [usize; 5] = [0, 1, 17, 100, 255];
const TEXTURES: [&str; 4] =
    ["tileset/elwynn/elwynngrassbase.blp", "tileset/elwynn/elwynndirtbase.blp", "tileset/generic/black.blp", "t/r.blp"];
const MODELS: [&str; 3] =
    ["world/azeroth/elwynn/passivedoodads/trees/elwynntreecanopy01.m2", "world/generic/human/passive doodads/crates/crate01.m2", "a.m2"];
const WMOS: [&str; 2] = ["world/wmo/azeroth/buildings/human_farm/farm.wmo", "world/wmo/dungeon/cave.wmo"];

fn mcnk(i: usize, sp: &Spec) -> McnkChunk {
    let rich = RICH.contains(&i);
    let (x, y) = ((i % 16) as u32, (i / 16) as u32);
    let mut flags = 0u32;
    let heights = McvtChunk { heights: (0..145).map(|k| (i as f32) * 0.5 + (k % 17) as f32 * 0.25).collect() };
    let tex_side = !sp.split_root;
    let mut layers = None;
    let mut alpha = None;
    let mut shadow = None;
    let mut refs = None;
    let (mut doodad_refs, mut wmo_refs) = (None, None);
    let (mut n_doodad_refs, mut n_map_obj_refs) = (0u32, 0u32);
    if i == 100 {
        // high_res_holes: MCVT / MCNR are found by scanning, whatever the serializer stores in ofs_height / ofs_normal
        flags |= 0x200;
    }
    if tex_side {
        if rich {
            let nl = if i == 1 { 2 } else { 4 };
            layers = Some(MclyChunk {
                layers: (0..nl)
                    .map(|l| MclyLayer {
                        texture_id: l as u32,
                        flags: MclyFlags { value: if l == 0 { 0 } else { 0x100 } },
                        offset_in_mcal: if l == 0 { 0 } else { 2048 * (l as u32 - 1) },
                        effect_id: if l == 3 { 0xFFFF_FFFF } else { l as u32 },
                    })
                    .collect(),
            });
            let an = 2048 * (nl - 1);
            alpha = Some(McalChunk { data: (0..an).map(|k| ((k * 7 + i) % 256) as u8).collect() });
            shadow = Some(McshChunk { shadow_map: (0..512).map(|k| if k % 3 == 0 { 0xFF } else { 0x0F }).collect() });
            flags |= 0x01;
            match i {
                17 => {
                    // the serializer points ofs_refs at the first of MCRD / MCRW when there is no MCRF
                    doodad_refs = Some(McrdChunk { doodad_refs: vec![0, 2, 1] });
                    wmo_refs = Some(McrwChunk { wmo_refs: vec![0] });
                    n_doodad_refs = 3;
                    n_map_obj_refs = 1;
                }
                100 => {
                    wmo_refs = Some(McrwChunk { wmo_refs: vec![1] });
                    n_map_obj_refs = 1;
                }
                _ => {
                    refs = Some(McrfChunk { references: vec![0, 2, 1, 0] });
                    n_doodad_refs = 3;
                    n_map_obj_refs = 1;
                }
            }
        } else {
            layers = Some(MclyChunk { layers: vec![MclyLayer { texture_id: (i % 4) as u32, flags: MclyFlags { value: 0 }, offset_in_mcal: 0, effect_id: 0 }] });
        }
    }
    let liquid = if sp.mclq && rich && i != 1 {
        // liquid type selector of the MCLQ parser: 0x04 water, 0x08 ocean, 0x10 magma, 0x20 slime
        let (bit, ty) = match i {
            17 => (0x10, LiquidType::Magma),
            100 => (0x08, LiquidType::Ocean),
            255 => (0x20, LiquidType::Slime),
            _ => (0x04, LiquidType::Water),
        };
        flags |= bit;
        Some(MclqChunk {
            min_height: -2.0,
            max_height: 6.5,
            vertices: (0..81).map(|k| LiquidVertex { union_data: [k as u8, 0, 0, 255], height: 1.0 + (k % 9) as f32 * 0.5 }).collect(),
            tile_flags: [0x04; 64],
            liquid_type: ty,
        })
    } else {
        None
    };
    let vertex_colors = if sp.mccv && i != 2 {
        flags |= 0x40;
        Some(MccvChunk::default())
    } else {
        None
    };
    let sound_emitters = if rich {
        Some(McseChunk {
            emitters: (0..2u32)
                .map(|k| SoundEmitter { sound_entry_id: 3000 + k, position: [x as f32 * 33.3, y as f32 * 33.3, 5.0], size_min: [4.0, 4.0, 8.0], _padding: [] })
                .collect(),
        })
    } else {
        None
    };
    let vertex_lighting = if sp.mclv && rich { Some(MclvChunk { colors: vec![0xFF40_6080; 145] }) } else { None };
    let mop_extras = sp.version == AdtVersion::MoP && rich && !sp.split_root;
    let header = McnkHeader {
        flags: McnkFlags { value: flags },
        index_x: x,
        index_y: y,
        n_layers: 0,
        n_doodad_refs,
        multipurpose_field: McnkHeader::multipurpose_from_offsets(0, 0),
        ofs_layer: 0,
        ofs_refs: 0,
        ofs_alpha: 0,
        size_alpha: 0,
        ofs_shadow: 0,
        size_shadow: 0,
        area_id: 12 + (i as u32 % 3),
        n_map_obj_refs,
        holes_low_res: if i == 100 { 0x0660 } else { 0 },
        unknown_but_used: 1,
        pred_tex: [0x1B; 8],
        no_effect_doodad: [0; 8],
        unknown_8bytes: [0; 8],
        ofs_snd_emitters: 0,
        n_snd_emitters: 0,
        ofs_liquid: 0,
        size_liquid: 0,
        position: [17066.0 - y as f32 * 33.33, 17066.0 - x as f32 * 33.33, 0.0],
        ofs_mccv: 0,
        ofs_mclv: 0,
        unused: 0,
        _padding: [0; 8],
    };
    McnkChunk {
        header,
        heights: Some(heights),
        normals: Some(McnrChunk::default()),
        layers,
        materials: if mop_extras { Some(McmtChunk { material_ids: [1, 2, 0, 0] }) } else { None },
        refs,
        doodad_refs,
        wmo_refs,
        alpha,
        shadow,
        vertex_colors,
        vertex_lighting,
        sound_emitters,
        liquid,
        doodad_disable: if mop_extras { Some(McddChunk::default()) } else { None },
        blend_batches: if mop_extras {
            Some(McbbChunk { batches: vec![BlendBatch { mbmh_index: 0, index_count: 3, index_first: 0, vertex_count: 3, vertex_first: 0 }] })
        } else {
            None
        },
    }
}

fn water() -> Mh2oChunk {
    let mut c = Mh2oChunk::new();
    let inst = |lt: u16, lvf: u16, xo: u8, yo: u8, w: u8, h: u8| Mh2oInstance {
        liquid_type: lt,
        liquid_object_or_lvf: lvf,
        min_height_level: 10.0,
        max_height_level: 14.0,
        x_offset: xo,
        y_offset: yo,
        width: w,
        height: h,
        offset_exists_bitmap: 0,
        offset_vertex_data: 0,
    };
    let hdr = Mh2oHeader { offset_instances: 0, layer_count: 1, offset_attributes: 0 };
    // entry 0: LVF 0 (height + depth), 3x3 tiles at (1,2), with a bitmap and attributes
    {
        let i0 = inst(5, 0, 1, 2, 3, 3);
        let mut g: Box<[Option<HeightDepthVertex>; 81]> = Box::new([None; 81]);
        for z in 2..=5usize {
            for x in 1..=4usize {
                g[z * 9 + x] = Some(HeightDepthVertex { height: 10.0 + (x + z) as f32 * 0.1, depth: (x * z) as u8 });
            }
        }
        c.entries[0] = Mh2oEntry {
            header: hdr,
            instances: vec![i0],
            vertex_data: vec![Some(VertexDataArray::HeightDepth(g))],
            exists_bitmaps: vec![Some(0x1EF)],
            attributes: Some(Mh2oAttributes { fishable: 0x0000_0000_0E0E_0E00, deep: 0x0000_0000_0004_0000 }),
        };
    }
    // entry 1: two layers: LVF 1 (height + uv) 2x2 and a flat full-tile layer without vertex data
    {
        let i0 = inst(2, 1, 0, 0, 2, 2);
        let mut g: Box<[Option<HeightUvVertex>; 81]> = Box::new([None; 81]);
        for z in 0..=2usize {
            for x in 0..=2usize {
                g[z * 9 + x] = Some(HeightUvVertex { height: 12.0, uv: UvMapEntry { u: (x * 100) as u16, v: (z * 100) as u16 } });
            }
        }
        let i1 = inst(14, 2, 0, 0, 8, 8);
        c.entries[1] = Mh2oEntry {
            header: Mh2oHeader { layer_count: 2, ..hdr },
            instances: vec![i0, i1],
            vertex_data: vec![Some(VertexDataArray::HeightUv(g)), None],
            exists_bitmaps: vec![Some(0xF), None],
            attributes: None,
        };
    }
    // entry 17: LVF 2 (depth only) 1x1 at (7,7)
    {
        let i0 = inst(2, 2, 7, 7, 1, 1);
        let mut g: Box<[Option<DepthOnlyVertex>; 81]> = Box::new([None; 81]);
        for z in 7..=8usize {
            for x in 7..=8usize {
                g[z * 9 + x] = Some(DepthOnlyVertex { depth: (x + z) as u8 });
            }
        }
        c.entries[17] = Mh2oEntry {
            header: hdr,
            instances: vec![i0],
            vertex_data: vec![Some(VertexDataArray::DepthOnly(g))],
            exists_bitmaps: vec![None],
            attributes: Some(Mh2oAttributes { fishable: u64::MAX, deep: 0 }),
        };
    }
    // entries 2..5: every vertex format with the FULL extent (8x8 tiles at offset 0: all 81 vertices, bitmap all ones)
    // so that a single off-by-one in an extent field already leaves the 9x9 grid
    {
        let full = |lvf: u16| inst(3 + lvf, lvf, 0, 0, 8, 8);
        let mut g0: Box<[Option<HeightDepthVertex>; 81]> = Box::new([None; 81]);
        let mut g1: Box<[Option<HeightUvVertex>; 81]> = Box::new([None; 81]);
        let mut g2: Box<[Option<DepthOnlyVertex>; 81]> = Box::new([None; 81]);
        let mut g3: Box<[Option<HeightUvDepthVertex>; 81]> = Box::new([None; 81]);
        for i in 0..81usize {
            g0[i] = Some(HeightDepthVertex { height: 9.0 + i as f32 * 0.01, depth: i as u8 });
            g1[i] = Some(HeightUvVertex { height: 9.5, uv: UvMapEntry { u: i as u16, v: (2 * i) as u16 } });
            g2[i] = Some(DepthOnlyVertex { depth: (255 - i) as u8 });
            g3[i] = Some(HeightUvDepthVertex { height: 8.0, uv: UvMapEntry { u: 1, v: i as u16 }, depth: i as u8 });
        }
        let mk = |i: Mh2oInstance, v: VertexDataArray| Mh2oEntry {
            header: hdr,
            instances: vec![i],
            vertex_data: vec![Some(v)],
            exists_bitmaps: vec![Some(u64::MAX)],
            attributes: None,
        };
        c.entries[2] = mk(full(3), VertexDataArray::HeightUvDepth(g3));
        c.entries[3] = mk(full(0), VertexDataArray::HeightDepth(g0));
        c.entries[4] = mk(full(1), VertexDataArray::HeightUv(g1));
        c.entries[5] = mk(full(2), VertexDataArray::DepthOnly(g2));
    }
    // entries 6 and 7: a vertex-format selector the parser does not know (5: < 42 but not 0..3; 60: >= 42, a LiquidObject
    // id) together with a non-zero vertex data offset (the serializer writes whatever array it is handed); the parser
    // seeks to the data and reads nothing
    {
        let i6 = inst(5, 5, 2, 2, 2, 2);
        let mut g: Box<[Option<HeightDepthVertex>; 81]> = Box::new([None; 81]);
        for z in 2..=4usize {
            for x in 2..=4usize {
                g[z * 9 + x] = Some(HeightDepthVertex { height: 10.5, depth: (x + z) as u8 });
            }
        }
        c.entries[6] = Mh2oEntry {
            header: hdr,
            instances: vec![i6],
            vertex_data: vec![Some(VertexDataArray::HeightDepth(g))],
            exists_bitmaps: vec![Some(0xF)],
            attributes: None,
        };
        let i7 = inst(100, 60, 0, 0, 1, 1);
        let mut g: Box<[Option<DepthOnlyVertex>; 81]> = Box::new([None; 81]);
        for z in 0..=1usize {
            for x in 0..=1usize {
                g[z * 9 + x] = Some(DepthOnlyVertex { depth: 9 });
            }
        }
        c.entries[7] = Mh2oEntry {
            header: hdr,
            instances: vec![i7],
            vertex_data: vec![Some(VertexDataArray::DepthOnly(g))],
            exists_bitmaps: vec![None],
            attributes: None,
        };
    }
    // entry 8: attributes but no liquid layer
    c.entries[8] = Mh2oEntry {
        header: Mh2oHeader { layer_count: 0, ..hdr },
        instances: vec![],
        vertex_data: vec![],
        exists_bitmaps: vec![],
        attributes: Some(Mh2oAttributes { fishable: 0x0101_0101_0101_0101, deep: 1 }),
    };
    // entry 255: LVF 3 (height + uv + depth) 2x1
    {
        let i0 = inst(19, 3, 3, 4, 2, 1);
        let mut g: Box<[Option<HeightUvDepthVertex>; 81]> = Box::new([None; 81]);
        for z in 4..=5usize {
            for x in 3..=5usize {
                g[z * 9 + x] = Some(HeightUvDepthVertex { height: 11.0, uv: UvMapEntry { u: 7, v: 9 }, depth: 200 });
            }
        }
        c.entries[255] = Mh2oEntry {
            header: hdr,
            instances: vec![i0],
            vertex_data: vec![Some(VertexDataArray::HeightUvDepth(g))],
            exists_bitmaps: vec![Some(0x3)],
            attributes: None,
        };
    }
    c
}

fn monolithic(sp: &Spec) -> Vec<u8> {
    let mut b = AdtBuilder::new().with_version(sp.version).add_textures(TEXTURES.to_vec());
    for m in MODELS {
        b = b.add_model(m);
    }
    for w in WMOS {
        b = b.add_wmo(w);
    }
    for k in 0..3u32 {
        b = b.add_doodad_placement(DoodadPlacement {
            name_id: k,
            unique_id: 5000 + k,
            position: [17000.0 + k as f32, 40.0, 17010.0],
            rotation: [0.0, 45.0 * k as f32, 0.0],
            scale: 1024,
            flags: k as u16,
        });
    }
    for k in 0..2u32 {
        b = b.add_wmo_placement(WmoPlacement {
            name_id: k,
            unique_id: 9000 + k,
            position: [16900.0, 35.0, 16950.0 + k as f32],
            rotation: [0.0, 90.0, 0.0],
            extents_min: [16880.0, 30.0, 16930.0],
            extents_max: [16920.0, 60.0, 16970.0],
            flags: 0,
            doodad_set: k as u16,
            name_set: 0,
            scale: 1024,
        });
    }
    for i in 0..sp.tiles {
        b = b.add_mcnk_chunk(mcnk(i, sp));
    }
    if sp.mfbo {
        b = b.add_flight_bounds(MfboChunk { max_plane: [500, 510, 520, 500, 510, 520, 500, 510, 520], min_plane: [-100; 9] });
    }
    if sp.mh2o {
        b = b.add_water_data(water());
    }
    if sp.mtxf {
        b = b.add_texture_flags(MtxfChunk { flags: vec![0, 1, 0, 2] });
    }
    if sp.mamp {
        b = b.add_texture_amplifier(MampChunk { amplifier: 2 });
    }
    if sp.mtxp {
        b = b.add_texture_params(MtxpChunk {
            entries: (0..4u32).map(|k| TextureHeightParams { flags: k, height_scale: 1.0 + k as f32, height_offset: 0.5, padding: 0 }).collect(),
        });
    }
    if sp.blend {
        b = b
            .add_blend_mesh_headers(MbmhChunk {
                entries: vec![MbmhEntry { map_object_id: 9000, texture_id: 2, unknown: 0, mbmi_count: 3, mbnv_count: 3, mbmi_start: 0, mbnv_start: 0 }],
            })
            .add_blend_mesh_bounds(MbbbChunk { entries: vec![MbbbEntry { map_object_id: 9000, min: [-10.0, -10.0, 0.0], max: [10.0, 10.0, 5.0] }] })
            .add_blend_mesh_vertices(MbnvChunk {
                vertices: (0..3)
                    .map(|k| MbnvVertex { position: [k as f32 * 5.0, (k % 2) as f32 * 10.0, 0.0], normal: [0.0, 0.0, 1.0], uv: [k as f32 * 0.5, 0.0], color: [[255, 255, 255, 255]; 3] })
                    .collect(),
            })
            .add_blend_mesh_indices(MbmiChunk { indices: vec![0, 1, 2] });
    }
    let built = b.build().expect("AdtBuilder::build");
    built.to_bytes().expect("BuiltAdt::to_bytes")
}

// ---------------------------------------------------------------------------------------------
// byte helpers and the derived split files
// ---------------------------------------------------------------------------------------------

fn u32_at(b: &[u8], o: usize) -> u32 {
    u32::from_le_bytes([b[o], b[o + 1], b[o + 2], b[o + 3]])
}

fn put32(b: &mut [u8], o: usize, v: u32) {
    b[o..o + 4].copy_from_slice(&v.to_le_bytes());
}

fn rtag(b: &[u8], o: usize) -> String {
    b[o..o + 4].iter().rev().map(|&c| if c.is_ascii_graphic() { c as char } else { '?' }).collect()
}

fn chunk(tag: &str, payload: &[u8]) -> Vec<u8> {
    let mut v: Vec<u8> = tag.bytes().rev().collect();
    v.extend_from_slice(&(payload.len() as u32).to_le_bytes());
    v.extend_from_slice(payload);
    v
}

const MCNK_HDR: usize = 136;

/// (offset, total, tag) of the top-level chunks; the builder output must tile the file.
fn top_chunks(b: &[u8]) -> Vec<(usize, usize, String)> {
    let v: Vec<(usize, usize, String)> = walk_chunks(b, 0, b.len()).into_iter().map(|(o, t)| (o, t, rtag(b, o))).collect();
    assert_eq!(v.last().map(|c| c.0 + c.1), Some(b.len()), "adt: chunks do not tile the file");
    v
}

fn split_root(mono: &[u8]) -> Vec<u8> {
    let drop = ["MCIN", "MTEX", "MMDX", "MMID", "MWMO", "MWID", "MDDF", "MODF", "MTXF", "MAMP"];
    let mut out = Vec::new();
    let mut mhdr = 0usize;
    let (mut mfbo, mut mh2o) = (0usize, 0usize);
    for (o, t, tag) in top_chunks(mono) {
        if drop.contains(&tag.as_str()) {
            continue;
        }
        match tag.as_str() {
            "MHDR" => mhdr = out.len(),
            "MFBO" => mfbo = out.len(),
            "MH2O" => mh2o = out.len(),
            _ => {}
        }
        out.extend_from_slice(&mono[o..o + t]);
    }
    let p = mhdr + 8;
    let flags = u32_at(&out, p);
    for k in 0..16 {
        put32(&mut out, p + 4 * k, 0);
    }
    put32(&mut out, p, flags);
    if mfbo != 0 {
        put32(&mut out, p + 36, (mfbo - p) as u32);
    }
    if mh2o != 0 {
        put32(&mut out, p + 40, (mh2o - p) as u32);
    }
    out
}

/// Sub-chunks (offset, total, tag) of a root MCNK at `o` (behind the 136-byte header).
fn mcnk_subs(b: &[u8], o: usize, tot: usize) -> Vec<(usize, usize, String)> {
    walk_chunks(b, o + 8 + MCNK_HDR, o + tot).into_iter().map(|(a, t)| (a, t, rtag(b, a))).collect()
}

fn tex0(mono: &[u8]) -> Vec<u8> {
    let top = top_chunks(mono);
    let get = |t: &str| top.iter().find(|c| c.2 == t).map(|c| mono[c.0..c.0 + c.1].to_vec());
    let mut out = get("MVER").expect("MVER");
    for t in ["MAMP", "MTXP", "MTEX"] {
        if let Some(c) = get(t) {
            out.extend_from_slice(&c);
        }
    }
    for (o, tot, tag) in &top {
        if tag != "MCNK" {
            continue;
        }
        let mut pay = Vec::new();
        let subs = mcnk_subs(mono, *o, *tot);
        for t in ["MCLY", "MCSH", "MCAL"] {
            if let Some(s) = subs.iter().find(|s| s.2 == t) {
                pay.extend_from_slice(&mono[s.0..s.0 + s.1]);
            }
        }
        pay.extend_from_slice(&chunk("MCMT", &[1, 2, 0, 0]));
        out.extend_from_slice(&chunk("MCNK", &pay));
    }
    if let Some(c) = get("MTXF") {
        out.extend_from_slice(&c);
    }
    out
}

fn obj0(mono: &[u8]) -> Vec<u8> {
    let top = top_chunks(mono);
    let get = |t: &str| top.iter().find(|c| c.2 == t).map(|c| mono[c.0..c.0 + c.1].to_vec());
    let mut out = get("MVER").expect("MVER");
    for t in ["MMDX", "MMID", "MWMO", "MWID", "MDDF", "MODF"] {
        out.extend_from_slice(&get(t).unwrap_or_else(|| panic!("adt: builder wrote no {t}")));
    }
    for (o, tot, tag) in &top {
        if tag != "MCNK" {
            continue;
        }
        let mut pay = Vec::new();
        let nd = u32_at(mono, o + 8 + 16) as usize;
        let nw = u32_at(mono, o + 8 + 56) as usize;
        let subs = mcnk_subs(mono, *o, *tot);
        if let Some(s) = subs.iter().find(|s| s.2 == "MCRF") {
            let p = &mono[s.0 + 8..s.0 + s.1];
            assert_eq!(p.len(), 4 * (nd + nw));
            pay.extend_from_slice(&chunk("MCRD", &p[..4 * nd]));
            pay.extend_from_slice(&chunk("MCRW", &p[4 * nd..]));
        } else {
            // tiles 17 and 100: the serializer already wrote MCRD / MCRW (tile 100: MCRW only)
            for t in ["MCRD", "MCRW"] {
                if let Some(s) = subs.iter().find(|s| s.2 == t) {
                    pay.extend_from_slice(&mono[s.0..s.0 + s.1]);
                }
            }
        }
        out.extend_from_slice(&chunk("MCNK", &pay));
    }
    out
}

// ---------------------------------------------------------------------------------------------
// inventory
// ---------------------------------------------------------------------------------------------

/// Like seed::add_chunk_seq, but tag/csize fields are only registered for the chunks `keep`
/// selects (an ADT has 256 MCNK siblings); the ChunkSeq still lists every chunk.
fn add_seq_sparse(
    s: &mut Seed,
    seq_name: &str,
    start: usize,
    end: usize,
    parents: Vec<usize>,
    keep: &dyn Fn(&str, usize, usize) -> bool,
) -> Vec<(usize, usize, String, usize)> {
    let items = walk_chunks(&s.bytes, start, end);
    let tags: Vec<String> = items.iter().map(|&(o, _)| rtag(&s.bytes, o)).collect();
    let mut total: std::collections::HashMap<String, usize> = Default::default();
    for t in &tags {
        *total.entry(t.clone()).or_insert(0) += 1;
    }
    let mut seen: std::collections::HashMap<String, usize> = Default::default();
    let mut out = Vec::new();
    for (k, &(off, tot)) in items.iter().enumerate() {
        let t = tags[k].clone();
        let ord = {
            let e = seen.entry(t.clone()).or_insert(0);
            let v = *e;
            *e += 1;
            v
        };
        if keep(&t, ord, total[&t]) {
            let nm = if seq_name == "top" { format!("{t}[{ord}]") } else { format!("{seq_name}/{t}[{ord}]") };
            s.field_ex(off, 4, "tag", format!("{nm}.tag"), off + 8, 1, None);
            s.field_ex(off + 4, 4, "csize", format!("{nm}.size"), off + 8, 1, None);
        }
        out.push((off, tot, t, ord));
    }
    s.seqs.push(ChunkSeq { name: seq_name.to_string(), items, parent_size_fields: parents });
    out
}

fn first_second_last(n: usize) -> Vec<usize> {
    let mut v = Vec::new();
    for i in [0usize, 1, n.wrapping_sub(1)] {
        if i < n && !v.contains(&i) {
            v.push(i);
        }
    }
    v
}

fn term_fields(s: &mut Seed, tag: &str, o: usize, tot: usize) {
    if tot > 8 {
        s.field_ex(o + tot - 1, 1, "term", format!("{tag}.last_nul"), o + tot, 1, None);
        if let Some(p) = s.bytes[o + 8..o + tot].iter().position(|&b| b == 0) {
            if o + 8 + p != o + tot - 1 {
                s.field_ex(o + 8 + p, 1, "term", format!("{tag}.first_nul"), o + 8 + p + 1, 1, None);
            }
        }
    }
}

/// `full` = every header field (tiles 0, 1 and the last one); otherwise only the selectors / offsets / counts of the
/// per-tile variants of tiles 17 and 100 (flags, MCVT / MCNR offsets, the reference list, MCLQ).
fn mcnk_header_fields(s: &mut Seed, i: usize, o: usize, tot: usize, full: bool) {
    let h = o + 8;
    let end = o + tot;
    let rd = |s: &Seed, rel: usize| s.u32_at(h + rel) as usize;
    // payload start of the sub-chunk an offset field points to (or the end of the MCNK)
    let sub = |s: &Seed, rel: usize| {
        let v = rd(s, rel);
        if v != 0 && o + v + 8 <= end {
            o + v + 8
        } else {
            end
        }
    };
    let n = |f: &str| format!("MCNK[{i}].hdr.{f}");
    s.field(h, 4, "index", n("flags"));
    if !full {
        let refs = sub(s, 32);
        s.field_ex(h + 16, 4, "count", n("n_doodad_refs"), refs, 4, None);
        s.field_ex(h + 20, 4, "offset", n("ofs_height"), o, 1, None);
        s.field_ex(h + 24, 4, "offset", n("ofs_normal"), o, 1, None);
        s.field_ex(h + 32, 4, "offset", n("ofs_refs"), o, 1, None);
        let nd = rd(s, 16);
        s.field_ex(h + 56, 4, "count", n("n_map_obj_refs"), (refs + 4 * nd).min(end), 4, None);
        s.field_ex(h + 96, 4, "offset", n("ofs_liquid"), o, 1, None);
        let b = sub(s, 96);
        s.field_ex(h + 100, 4, "bsize", n("size_liquid"), b, 1, None);
        return;
    }
    s.field(h + 4, 4, "index", n("ix"));
    s.field(h + 8, 4, "index", n("iy"));
    let b = sub(s, 28);
    s.field_ex(h + 12, 4, "count", n("n_layers"), b, 16, None);
    let refs = sub(s, 32);
    s.field_ex(h + 16, 4, "count", n("n_doodad_refs"), refs, 4, None);
    s.field_ex(h + 20, 4, "offset", n("ofs_height"), o, 1, None);
    s.field_ex(h + 24, 4, "offset", n("ofs_normal"), o, 1, None);
    s.field_ex(h + 28, 4, "offset", n("ofs_layer"), o, 1, None);
    s.field_ex(h + 32, 4, "offset", n("ofs_refs"), o, 1, None);
    s.field_ex(h + 36, 4, "offset", n("ofs_alpha"), o, 1, None);
    let b = sub(s, 36);
    s.field_ex(h + 40, 4, "bsize", n("size_alpha"), b, 1, None);
    s.field_ex(h + 44, 4, "offset", n("ofs_shadow"), o, 1, None);
    let b = sub(s, 44);
    s.field_ex(h + 48, 4, "bsize", n("size_shadow"), b, 1, None);
    s.field(h + 52, 4, "index", n("area_id"));
    let nd = rd(s, 16);
    s.field_ex(h + 56, 4, "count", n("n_map_obj_refs"), (refs + 4 * nd).min(end), 4, None);
    s.field(h + 60, 2, "index", n("holes_low_res"));
    s.field(h + 62, 2, "index", n("unknown_but_used"));
    s.field_ex(h + 88, 4, "offset", n("ofs_snd_emitters"), o, 1, None);
    let b = sub(s, 88);
    s.field_ex(h + 92, 4, "count", n("n_snd_emitters"), b, 28, None);
    s.field_ex(h + 96, 4, "offset", n("ofs_liquid"), o, 1, None);
    let b = sub(s, 96);
    s.field_ex(h + 100, 4, "bsize", n("size_liquid"), b, 1, None);
    s.field_ex(h + 116, 4, "offset", n("ofs_mccv"), o, 1, None);
    s.field_ex(h + 120, 4, "offset", n("ofs_mclv"), o, 1, None);
    s.field(h + 124, 4, "index", n("unused"));
}

fn mcnk_sub_fields(s: &mut Seed, i: usize, subs: &[(usize, usize, String, usize)], full: bool) {
    let find = |t: &str| subs.iter().find(|c| c.2 == t).map(|c| (c.0, c.1));
    if let (Some((o, tot)), true) = (find("MCLY"), full) {
        let mcal = find("MCAL").map(|c| c.0 + 8).unwrap_or(o + tot);
        let n = (tot - 8) / 16;
        for l in 0..n.min(4) {
            let e = o + 8 + 16 * l;
            s.field(e, 4, "index", format!("MCNK[{i}]/MCLY[{l}].texture_id"));
            s.field(e + 4, 4, "index", format!("MCNK[{i}]/MCLY[{l}].flags"));
            s.field_ex(e + 8, 4, "offset", format!("MCNK[{i}]/MCLY[{l}].ofs_in_mcal"), mcal, 1, None);
            s.field(e + 12, 4, "index", format!("MCNK[{i}]/MCLY[{l}].effect_id"));
        }
    }
    for t in ["MCRF", "MCRD", "MCRW"] {
        if let Some((o, tot)) = find(t) {
            let n = (tot - 8) / 4;
            for k in first_second_last(n) {
                if k == 1 {
                    continue;
                }
                s.field(o + 8 + 4 * k, 4, "index", format!("MCNK[{i}]/{t}[{k}]"));
            }
        }
    }
    if !full {
        return;
    }
    if let Some((o, tot)) = find("MCSE") {
        if tot >= 8 + 28 {
            s.field(o + 8, 4, "index", format!("MCNK[{i}]/MCSE[0].sound_entry_id"));
        }
    }
    if let Some((o, tot)) = find("MCBB") {
        if tot >= 8 + 20 {
            let e = o + 8;
            s.field(e, 4, "index", format!("MCNK[{i}]/MCBB[0].mbmh_index"));
            s.field(e + 4, 4, "count", format!("MCNK[{i}]/MCBB[0].index_count"));
            s.field(e + 8, 4, "index", format!("MCNK[{i}]/MCBB[0].index_first"));
            s.field(e + 12, 4, "count", format!("MCNK[{i}]/MCBB[0].vertex_count"));
            s.field(e + 16, 4, "index", format!("MCNK[{i}]/MCBB[0].vertex_first"));
        }
    }
}

fn inventory(s: &mut Seed, mcnk_has_header: bool) {
    let len = s.bytes.len();
    // MCNK 17 and 100 carry the per-tile variants (module comment)
    let keep = |t: &str, ord: usize, total: usize| t != "MCNK" || ord < 2 || ord + 1 == total || ord == 17 || ord == 100;
    let top = add_seq_sparse(s, "top", 0, len, vec![], &keep);
    let find = |t: &str| top.iter().find(|c| c.2 == t).map(|c| (c.0, c.1));
    let pay = |t: &str| find(t).map(|c| c.0 + 8);

    if let Some((o, _)) = find("MVER") {
        s.field(o + 8, 4, "index", "MVER.version");
    }
    if let Some((o, tot)) = find("MHDR") {
        let p = o + 8;
        s.field(p, 4, "index", "MHDR.flags");
        let names = ["mcin", "mtex", "mmdx", "mmid", "mwmo", "mwid", "mddf", "modf", "mfbo", "mh2o", "mtxf"];
        for (k, nm) in names.iter().enumerate() {
            if p + 4 * (k + 1) + 4 <= o + tot {
                s.field_ex(p + 4 * (k + 1), 4, "offset", format!("MHDR.ofs_{nm}"), p, 1, None);
            }
        }
    }
    let mcnks: Vec<(usize, usize)> = top.iter().filter(|c| c.2 == "MCNK").map(|c| (c.0, c.1)).collect();
    if let Some((o, tot)) = find("MCIN") {
        let n = (tot - 8) / 16;
        for i in first_second_last(n) {
            let e = o + 8 + 16 * i;
            let target = s.u32_at(e) as usize;
            s.field_ex(e, 4, "offset", format!("MCIN[{i}].offset"), 0, 1, None);
            s.field_ex(e + 4, 4, "bsize", format!("MCIN[{i}].mcnk_size"), (target + 8).min(len), 1, None);
            s.field(e + 8, 4, "index", format!("MCIN[{i}].flags"));
            s.field(e + 12, 4, "index", format!("MCIN[{i}].async_id"));
        }
    }
    for t in ["MTEX", "MMDX", "MWMO"] {
        if let Some((o, tot)) = find(t) {
            term_fields(s, t, o, tot);
        }
    }
    for (t, strs) in [("MMID", "MMDX"), ("MWID", "MWMO")] {
        if let Some((o, tot)) = find(t) {
            let base = pay(strs).unwrap_or(o + tot);
            for i in first_second_last((tot - 8) / 4) {
                s.field_ex(o + 8 + 4 * i, 4, "stroff", format!("{t}[{i}]"), base, 1, None);
            }
        }
    }
    if let Some((o, tot)) = find("MDDF") {
        let n = (tot - 8) / 36;
        for i in first_second_last(n) {
            if i == 1 {
                continue;
            }
            let e = o + 8 + 36 * i;
            s.field(e, 4, "index", format!("MDDF[{i}].name_id"));
            s.field(e + 4, 4, "index", format!("MDDF[{i}].unique_id"));
            s.field(e + 32, 2, "index", format!("MDDF[{i}].scale"));
            s.field(e + 34, 2, "index", format!("MDDF[{i}].flags"));
        }
    }
    if let Some((o, tot)) = find("MODF") {
        let n = (tot - 8) / 64;
        for i in first_second_last(n) {
            if i == 1 && n > 2 {
                continue;
            }
            let e = o + 8 + 64 * i;
            s.field(e, 4, "index", format!("MODF[{i}].name_id"));
            s.field(e + 4, 4, "index", format!("MODF[{i}].unique_id"));
            s.field(e + 56, 2, "index", format!("MODF[{i}].flags"));
            s.field(e + 58, 2, "index", format!("MODF[{i}].doodad_set"));
            s.field(e + 60, 2, "index", format!("MODF[{i}].name_set"));
            s.field(e + 62, 2, "index", format!("MODF[{i}].scale"));
        }
    }
    if let Some((o, tot)) = find("MH2O") {
        let p = o + 8;
        let end = o + tot;
        let nh = ((tot - 8) / 12).min(256);
        let liquid: Vec<usize> = (0..nh).filter(|&k| s.u32_at(p + 12 * k + 4) != 0).collect();
        // every entry that has liquid (the seed has 8: each vertex format with a partial and a full-extent rectangle)
        let mut pick: Vec<usize> = liquid.iter().cloned().take(12).collect();
        // entries without liquid: the first one with attributes only and the first empty one
        let has_attr = |s: &Seed, k: usize| s.u32_at(p + 12 * k + 8) != 0;
        for want in [true, false] {
            if let Some(e) = (0..nh).find(|&k| !liquid.contains(&k) && has_attr(s, k) == want) {
                pick.push(e);
            }
        }
        for (rank, &k) in pick.iter().enumerate() {
            let e = p + 12 * k;
            let oi = s.u32_at(e) as usize;
            s.field_ex(e, 4, "offset", format!("MH2O[{k}].ofs_instances"), p, 1, None);
            s.field_ex(e + 4, 4, "count", format!("MH2O[{k}].layer_count"), (p + oi).min(end), 24, None);
            s.field_ex(e + 8, 4, "offset", format!("MH2O[{k}].ofs_attributes"), p, 1, None);
            if oi != 0 && p + oi + 24 <= end && rank < 12 {
                let q = p + oi;
                let nm = |f: &str| format!("MH2O[{k}].inst[0].{f}");
                s.field(q, 2, "index", nm("liquid_type"));
                s.field(q + 2, 2, "index", nm("lvf"));
                // rectangle inside the 8x8 tile grid: extent role (boundary set 0, 1, 7, 8, 9, 255, ...; sibling pairs)
                s.field(q + 12, 1, "extent", nm("x_offset"));
                s.field(q + 13, 1, "extent", nm("y_offset"));
                s.field(q + 14, 1, "extent", nm("width"));
                s.field(q + 15, 1, "extent", nm("height"));
                s.field_ex(q + 16, 4, "offset", nm("ofs_exists_bitmap"), p, 1, None);
                s.field_ex(q + 20, 4, "offset", nm("ofs_vertex_data"), p, 1, None);
            }
        }
    }
    if let Some((o, tot)) = find("MFBO") {
        if tot >= 8 + 36 {
            s.field(o + 8, 2, "index", "MFBO.max_plane[0]");
            s.field(o + 8 + 18, 2, "index", "MFBO.min_plane[0]");
        }
    }
    if let Some((o, tot)) = find("MTXF") {
        for i in first_second_last((tot - 8) / 4) {
            if i != 1 {
                s.field(o + 8 + 4 * i, 4, "index", format!("MTXF[{i}]"));
            }
        }
    }
    if let Some((o, tot)) = find("MTXP") {
        if tot >= 8 + 16 {
            s.field(o + 8, 4, "index", "MTXP[0].flags");
        }
    }
    if let Some((o, tot)) = find("MAMP") {
        if tot >= 8 + 4 {
            s.field(o + 8, 4, "index", "MAMP.amplifier");
        }
    }
    if let Some((o, tot)) = find("MBMH") {
        if tot >= 8 + 28 {
            let e = o + 8;
            let mbmi = pay("MBMI").unwrap_or(o + tot);
            let mbnv = pay("MBNV").unwrap_or(o + tot);
            s.field(e, 4, "index", "MBMH[0].map_object_id");
            s.field(e + 4, 4, "index", "MBMH[0].texture_id");
            s.field_ex(e + 12, 4, "count", "MBMH[0].mbmi_count", mbmi, 2, None);
            s.field_ex(e + 16, 4, "count", "MBMH[0].mbnv_count", mbnv, 44, None);
            s.field_ex(e + 20, 4, "index", "MBMH[0].mbmi_start", mbmi, 2, None);
            s.field_ex(e + 24, 4, "index", "MBMH[0].mbnv_start", mbnv, 44, None);
        }
    }
    if let Some((o, tot)) = find("MBMI") {
        for i in first_second_last((tot - 8) / 2) {
            if i != 1 {
                s.field(o + 8 + 2 * i, 2, "index", format!("MBMI[{i}]"));
            }
        }
    }
    // MCNK 0, 1 and the last one: header fields and the nested sub-chunk sequence
    // MCNK 17 and 100 of a root file (the per-tile variants): the selector / offset / count fields of the header and the
    // sub-chunk sequence (what scan_for_subchunk walks)
    let mut tiles: Vec<(usize, bool)> = first_second_last(mcnks.len()).into_iter().map(|i| (i, true)).collect();
    if mcnk_has_header {
        for i in [17usize, 100] {
            if i < mcnks.len() && !tiles.iter().any(|t| t.0 == i) {
                tiles.push((i, false));
            }
        }
    }
    for (i, full) in tiles {
        let (o, tot) = mcnks[i];
        let all = |_: &str, _: usize, _: usize| true;
        if mcnk_has_header {
            if tot < 8 + MCNK_HDR {
                continue;
            }
            mcnk_header_fields(s, i, o, tot, full);
            let subs = add_seq_sparse(s, &format!("MCNK[{i}]"), o + 8 + MCNK_HDR, o + tot, vec![o + 4], &all);
            mcnk_sub_fields(s, i, &subs, full);
        } else {
            let subs = add_seq_sparse(s, &format!("MCNK[{i}]"), o + 8, o + tot, vec![o + 4], &all);
            mcnk_sub_fields(s, i, &subs, full);
        }
    }
}

pub fn build(name: &str) -> Seed {
    let sp = spec(name);
    let mono = monolithic(&sp);
    let (bytes, hdr) = match name {
        "cata-split-root" => (split_root(&mono), true),
        "mop-tex0" | "small-cata-tex0" => (tex0(&mono), false),
        "cata-obj0" => (obj0(&mono), false),
        // the MVER chunk of the builder output alone
        "lod-stub" => (top_chunks(&mono).iter().find(|c| c.2 == "MVER").map(|c| mono[c.0..c.0 + c.1].to_vec()).expect("MVER"), false),
        _ => (mono, true),
    };
    let mut s = Seed::new("adt", name, bytes);
    inventory(&mut s, hdr);
    s
}

pub fn run(r: &mut Runner, bytes: &[u8], _aux: &Aux) {
    r.call("parse_adt", || wow_adt::parse_adt(&mut Cursor::new(bytes)).map(|_| ()).map_err(errname));
}
