CONSTANT Threads = {1, 2, 3, 4}
CONSTANT CatCap <- TraceCatCap
CONSTANT MaxHeld = 20
CONSTANT Dev = {}
INIT Init
NEXT Next
POSTCONDITION Accepted
CHECK_DEADLOCK FALSE
CONSTANT FreshId <- TraceFreshId
