CONSTANTS
  RFiles <- MListedNoSelf
  RTok <- MTok
  REnc = {"secret"}
  RSig = {"(signature)"}
  REmpty = {"empty"}
  RHetBet = TRUE
  RUnlisted <- MUnlisted
SPECIFICATION HeadSpec
INVARIANT CountsTruthful
CHECK_DEADLOCK FALSE
