
