--------------------------- MODULE Gen_MpqCrypto ---------------------------
(* Stage (B) for C04: TLC enumerates the abstract cases the harness must evaluate on the real   *)
(* code.  Concrete byte values of "cls" buffers are derived by the harness from (cls, len,     *)
(* VERIF_SEED); every logged input is then re-evaluated by TLC in stage (D).                   *)
EXTENDS Integers, Sequences, SequencesExt, FiniteSets, Json, IOUtils, TLC

Thorough == IOEnv.VERIF_TIER = "thorough"

\* keys: every low byte (each crypt-table entry 0x400..0x4FF is used as first seed increment),
\* three high halves, plus the special keys 0, 1, 0xFFFFFFFF.
KeyLows  == IF Thorough THEN 0..255 ELSE {0, 1, 2, 127, 128, 129, 254, 255} \cup {16 * x + 5 : x \in 0..15}
KeyHighs == {0, 4660, 65535}
Keys     == {<<hi, 256 * 9 + lo>> : hi \in KeyHighs, lo \in KeyLows} \cup {<<0,0>>, <<0,1>>, <<65535,65535>>}
Lens     == 0..17
Classes  == IF Thorough THEN {"zeros", "ones", "ramp", "random", "ascii", "high"} ELSE {"zeros", "random", "high"}

EncCases == {[kind |-> "enc", key |-> key, len |-> len, cls |-> cls] : key \in Keys, len \in Lens, cls \in Classes}
            \cup
            \* every initial low byte in every tier (the key schedule never regenerates some low bytes,
            \* so they are reachable only as the first key): one word, two words + tail, 17 bytes
            {[kind |-> "enc", key |-> <<hi, 256 * 171 + lo>>, len |-> len, cls |-> "random"] :
                 hi \in {43981}, lo \in 0..255, len \in {3, 4, 9, 17}}

Fixed == { [kind |-> "table"], [kind |-> "fold"],
           [kind |-> "hash_exh", maxlen |-> 2, stride |-> IF Thorough THEN 1 ELSE 7],
           [kind |-> "hash_rand", count |-> IF Thorough THEN 3000 ELSE 400, maxlen |-> 64],
           [kind |-> "enc_rand", count |-> IF Thorough THEN 200 ELSE 30, maxlen |-> IF Thorough THEN 4096 ELSE 600],
           \* byte-level entry points (simd::scalar::hash_string_scalar, SimdOps::hash_string_simd, jenkins_hash_batch)
           \* take &[u8]: here EVERY byte value 0..255 is reachable, so all strings of <= 2 bytes are enumerated
           [kind |-> "hashb_exh", maxlen |-> 2, stride |-> IF Thorough THEN 1 ELSE 11],
           [kind |-> "hashb_rand", count |-> IF Thorough THEN 2000 ELSE 300, maxlen |-> 200],
           [kind |-> "het", count |-> IF Thorough THEN 300 ELSE 60, widths |-> <<8, 16, 32, 48, 56, 64>>] }

\* buffers beyond 1 MiB (e.g. big single-unit files, hash tables with > 65536 entries): constant plaintext,
\* probe words checked against the reference keystream
BigCases == IF Thorough
            THEN {[kind |-> "enc_big", key |-> <<4660, 22136>>, byte |-> 0, len |-> 1048580],
                  [kind |-> "enc_big", key |-> <<51966, 47806>>, byte |-> 65, len |-> 2097157],
                  [kind |-> "enc_big", key |-> <<1, 2>>, byte |-> 255, len |-> 4194310]}
            ELSE {[kind |-> "enc_big", key |-> <<4660, 22136>>, byte |-> 65, len |-> 1048586]}

(* ---- round 4 dimensions ---------------------------------------------------------------------- *)
\* (1) the Jenkins pair at EVERY table width 1..64 (the six widths above are all multiples of 8)
HetAll == {[kind |-> "het_all", count |-> IF Thorough THEN 40 ELSE 8, widths |-> [w \in 1..64 |-> w]]}

\* (2) bodies of the extended tables, read through HetTable::read / BetTable::read.  The geometry decides the
\* body length; `r` = body length mod 4 is the class attribute (all four residues must occur, asserted below).
\* Compressed bodies: the driver varies the content until the stored length has residue `cr`.
TblKeyClasses == {"table", "zero", "one", "ffff", "rand"}
HetGeo  == {[n |-> n, ib |-> ib] : n \in 1..(IF Thorough THEN 12 ELSE 6), ib \in {1, 3, 8, 11}}
HetBody(g) == 32 + g.n + (g.n * g.ib + 7) \div 8
BetGeo  == {[fc |-> fc, es |-> es, nf |-> nf] : fc \in 1..(IF Thorough THEN 7 ELSE 4), es \in {7, 33}, nf \in {1, 2}}
BetBody(g) == 76 + 4 * g.nf + (g.fc * g.es + 7) \div 8 + 8 * g.fc
TblPlain == {[kind |-> "tbl", which |-> "het", n |-> g.n, ib |-> g.ib, fc |-> 0, es |-> 0, nf |-> 0, r |-> HetBody(g) % 4,
              keycls |-> kc, comp |-> FALSE, cr |-> 0] : g \in HetGeo, kc \in TblKeyClasses}
            \cup
            {[kind |-> "tbl", which |-> "bet", n |-> 0, ib |-> 0, fc |-> g.fc, es |-> g.es, nf |-> g.nf, r |-> BetBody(g) % 4,
              keycls |-> kc, comp |-> FALSE, cr |-> 0] : g \in BetGeo, kc \in (IF Thorough THEN TblKeyClasses ELSE {"table", "one", "rand"})}
TblComp  == {[kind |-> "tbl", which |-> wh, n |-> n, ib |-> 8, fc |-> n, es |-> 33, nf |-> 2, r |-> 0,
              keycls |-> kc, comp |-> TRUE, cr |-> cr] : wh \in {"het", "bet"}, n \in {48, 200}, kc \in {"table", "rand"}, cr \in 0..3}
ASSUME \A wh \in {"het", "bet"} : \A r \in 0..3 : \E c \in TblPlain : c.which = wh /\ c.r = r

\* (3) encrypted files written by ArchiveBuilder and read through Archive::read_file.  `zero` names the cipher
\* unit of the file whose key is to be exactly 0 (offset table = final key - 1, sector i = final key + i); the
\* driver searches a name whose FIX_KEY equation gives that final key.  shape: one unit / several sectors;
\* rem = file size mod 4; comp = 0 raw sectors | 2 zlib; ver = archive format version.
Shapes   == {"single", "multi"}
ZeroAt(sh) == IF sh = "single" THEN {"none", "s0"} ELSE {"none", "ot", "s0", "s1", "last"}
FileCases == {[kind |-> "encfile", fix |-> TRUE, zero |-> z, shape |-> sh, rem |-> r, comp |-> c, ver |-> 1] :
                 sh \in Shapes, z \in {"none", "ot", "s0", "s1", "last"}, r \in 0..3, c \in {0, 2}}
FileCasesOk == {c \in FileCases : c.zero \in ZeroAt(c.shape)}
FileNoFix == {[kind |-> "encfile", fix |-> FALSE, zero |-> "none", shape |-> sh, rem |-> r, comp |-> c, ver |-> v] :
                 sh \in Shapes, r \in {1, 2}, c \in {0, 2}, v \in (IF Thorough THEN {1, 2, 3, 4} ELSE {1})}
FileVers  == {[kind |-> "encfile", fix |-> TRUE, zero |-> z, shape |-> "multi", rem |-> r, comp |-> 0, ver |-> v] :
                 z \in {"ot", "s0", "none"}, r \in (IF Thorough THEN 0..3 ELSE {3}), v \in (IF Thorough THEN {2, 3, 4} ELSE {3})}
Round4 == HetAll \cup TblPlain \cup TblComp \cup FileCasesOk \cup FileNoFix \cup FileVers

Cases == SetToSeq(Fixed) \o SetToSeq(EncCases) \o SetToSeq(BigCases) \o SetToSeq(Round4)
ASSUME ndJsonSerialize(IOEnv.CASES, Cases)
ASSUME PrintT(<<"GENERATED", Len(Cases)>>)
=============================================================================
