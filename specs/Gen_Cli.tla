-------------------------------- MODULE Gen_Cli --------------------------------
(* Stage (B) for C20: TLC enumerates the runs of the real binary.                                   *)
(*   fmt   every sub-command of the seven format families x file kind x input class x option flag  *)
(*         (x every variant of the valid file in thorough; quick rotates the variant with the seed) *)
(*   mpq1  every mpq sub-command x input class x option flag on a prepared archive                  *)
(*   pipe  mpq create ; list ; info ; extract over file sets x version x compression x listfile x   *)
(*         threads x preserve-paths x explicit names (all / some / incl. a missing one) x skip-errors *)
(*         x patch chain x pre-state of the extraction directory (thorough: a seed-rotated 1/4 of the product; quick: 1/128)                           *)
EXTENDS Cli, Json, IOUtils, SequencesExt

Thorough == IOEnv.VERIF_TIER = "thorough"
SeedN == atoi(IOEnv.VERIF_SEED)

KindsOf(f, c) == CASE f = "dbc" -> {"dbc"}
                   [] f = "blp" -> {"blp"}
                   [] f = "m2" -> (IF c \in {"skin-info", "skin-convert"} THEN {"skin"}
                                   ELSE IF c \in {"anim-info", "anim-convert"} THEN {"anim"}
                                   ELSE IF c = "blp-info" THEN {"blp"} ELSE {"m2"})
                   [] f = "wmo" -> {"wmo_root", "wmo_group"}
                   [] f = "adt" -> {"adt"}
                   [] f = "wdt" -> {"wdt"}
                   [] f = "wdl" -> {"wdl"}
VariantCount(k) == CASE k = "dbc" -> 5 [] k = "blp" -> 8 [] k = "m2" -> 5 [] k = "skin" -> 3 [] k = "anim" -> 3
                     [] k = "wmo_root" -> 3 [] k = "wmo_group" -> 3 [] k = "adt" -> 5 [] k = "wdt" -> 6 [] k = "wdl" -> 4
\* kinds for which the harness can make a file that parses but fails validation
HasFlagged(k) == k \in {"blp", "m2", "wmo_root", "skin", "dbc"}      \* dbc: a schema with one field too many
Variants(k) == IF Thorough THEN 0..(VariantCount(k) - 1) ELSE {SeedN % VariantCount(k)}

\* option flags per sub-command: listings get every output-format option
Opts(f, c) == IF <<f, c>> = <<"mpq", "list">> THEN 0..23         \* {plain, --long} x {no filter, 11 filter patterns: 7 shapes + 4 of three and more literals}
              ELSE IF <<f, c>> = <<"mpq", "tree">> THEN 0..11     \* no filter, 11 filter patterns
              ELSE IF <<f, c>> = <<"mpq", "rebuild">> THEN 0..3   \* default, --verify, --skip-encrypted, both (source holds every file class)
              ELSE IF <<f, c>> = <<"wdt", "tiles">> THEN 0..2     \* text, csv, json
              ELSE IF <<f, c>> = <<"blp", "convert">> THEN 0..5   \* png, blp2/dxt5, --mipmap-level {0, last, last + 1, huge}
              ELSE IF c \in {"convert", "skin-convert", "anim-convert"} THEN 0..3   \* two other versions, from == to, an alias of the source version
              ELSE 0..1
\* kinds with a file that violates only the rule a validate flag switches on (blp --strict, wdl --version)
HasFlagViol(k) == k \in {"blp", "wdl"}
\* pre-states of the output location: every producer on valid input meets all of them
Pres(f, c, inp) == IF Producer(f, c) /\ inp = "valid" THEN PreStates ELSE {"empty"}

\* GLOBAL options (warcraft-rs --help: -q/--quiet, -v repeated) are a dimension of every obligation: every sub-command meets each
\* of them on one succeeding (valid) and one failing (nonexistent) run
Globs == {"", "-q", "-v", "-vv"}
GlobsFor(inp, o, pr) == IF inp \in {"valid", "nonexistent"} /\ o = 0 /\ pr = "empty" THEN Globs ELSE {""}
VariantsFor(k, inp) == IF inp = "flagviol" THEN 0..2 ELSE Variants(k)     \* all flag-violating shapes (one dimension, the other, both) in every tier
\* (damage by table region applies to the container family only: mpq1 cases)
InputsFor(c, k) == {inp \in Inputs \ RegionDamage : /\ (inp = "flagviol" => (HasFlagViol(k) /\ c = "validate"))
                                     /\ (inp = "flagged" => HasFlagged(k))}
FmtCases == UNION {UNION {UNION {
               UNION {UNION {
               {[mode |-> "fmt", fam |-> fc[1], cmd |-> fc[2], kind |-> k, input |-> inp, variant |-> v, opt |-> o, pre |-> pr, glob |-> gl]
                  : v \in VariantsFor(k, inp), gl \in GlobsFor(inp, o, pr)}
                  : pr \in Pres(fc[1], fc[2], inp)} : o \in Opts(fc[1], fc[2])}
               : inp \in InputsFor(fc[2], k)} : k \in KindsOf(fc[1], fc[2])} : fc \in {x \in AllCmds : x[1] # "mpq"}}

Mpq1All == {[mode |-> "mpq1", fam |-> "mpq", cmd |-> c, kind |-> "mpq", input |-> inp, variant |-> v, opt |-> o, pre |-> pr, glob |-> gl]
            : c \in Cmds("mpq"), inp \in Inputs \ {"flagviol"}, v \in (IF Thorough THEN 0..3 ELSE {SeedN % 4}), o \in 0..23, pr \in PreStates, gl \in Globs}
Mpq1Cases == {x \in Mpq1All : /\ x.opt \in Opts("mpq", x.cmd) /\ x.pre \in Pres("mpq", x.cmd, x.input)
                              /\ x.glob \in GlobsFor(x.input, x.opt, x.pre)
                              /\ (x.cmd = "create" => x.input \in {"valid", "nonexistent"})}

FileSets == {"one", "few", "many"}
Versions == {"v1", "v2", "v3", "v4"}
Compressions == {"none", "zlib", "bzip2", "lzma"}
Pipe == {[mode |-> "pipe", fam |-> "mpq", cmd |-> "pipeline", files |-> fs, version |-> ver, compression |-> co, listfile |-> lf,
          threads |-> th, preserve |-> pr, explicit |-> ex, skip |-> sk, chain |-> ch, pre |-> pe, glob |-> gl]
         : gl \in {"", "-q"}, pe \in PreStates, fs \in FileSets, ver \in Versions, co \in Compressions, lf \in BOOLEAN, th \in {0, 1, 4}, pr \in BOOLEAN,
           ex \in {"all", "some", "missing"}, sk \in BOOLEAN, ch \in BOOLEAN}
\* quick: a residue class of a weighted sum of the option codes (every value of every dimension occurs, rotating with the seed)
B(b) == IF b THEN 1 ELSE 0
FC(x) == CASE x = "empty" -> 0 [] x = "shorter" -> 1 [] x = "longer" -> 2 [] x = "dir" -> 3 [] x = "readonly" -> 4
           [] x = "one" -> 0 [] x = "few" -> 1 [] x = "many" -> 2
           [] x = "v1" -> 0 [] x = "v2" -> 1 [] x = "v3" -> 2 [] x = "v4" -> 3
           [] x = "none" -> 0 [] x = "zlib" -> 1 [] x = "bzip2" -> 2 [] x = "lzma" -> 3
           [] x = "all" -> 0 [] x = "some" -> 1 [] x = "missing" -> 2
PipeMod == IF Thorough THEN 8 ELSE 256
\* sample by a multiplicative hash of the position in the enumerated product (uniform over every dimension)
PipeSeq == SetToSeq(Pipe)
PipeCases == {PipeSeq[i] : i \in {j \in 1..Len(PipeSeq) : ((j * 7919) % 10007) % PipeMod = SeedN % PipeMod}}

\* scale classes of the bulk commands: file counts around the window / batch constants found in the CLI and the library
\* (10, 25 per batch; 1000 and 5000 switch the batching strategy): archives of 1-3 byte files
Counts == IF Thorough THEN {9, 11, 26, 999, 1000, 1001, 2001, 4999, 5000, 5001, 10001} ELSE {11, 26, 999, 1000, 1001, 2001}
ScaleCases == {[mode |-> "scale", fam |-> "mpq", cmd |-> c, kind |-> "mpq", input |-> "valid", count |-> n, opt |-> o, glob |-> ""]
               : c \in {"extract", "list", "validate", "rebuild"}, n \in Counts, o \in 0..1}
              \ {x \in [mode : {"scale"}, fam : {"mpq"}, cmd : {"list", "validate", "rebuild"}, kind : {"mpq"}, input : {"valid"}, count : Counts, opt : {1}, glob : {""}] : TRUE}

All == SetToSeq(FmtCases) \o SetToSeq(Mpq1Cases) \o SetToSeq(PipeCases) \o SetToSeq(ScaleCases)
Numbered == [i \in 1..Len(All) |-> [id |-> i] @@ All[i]]
ASSUME ndJsonSerialize(IOEnv.CASES, Numbered)
ASSUME PrintT(<<"GENERATED", Len(Numbered), "cases:", Cardinality(FmtCases), "fmt", Cardinality(Mpq1Cases), "mpq1", Cardinality(PipeCases), "pipe", Cardinality(ScaleCases), "scale">>)
\* every generated run has exactly one obligation
ASSUME \A x \in FmtCases \cup Mpq1Cases : \A lib \in {"ok", "err"} :
          Obligation([Run0(x.fam, x.cmd, x.input) EXCEPT !.lib = lib]) \in Obligations

GInit == Init
GNext == UNCHANGED cvars
=============================================================================
