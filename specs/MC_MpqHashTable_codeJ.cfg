\* hypothetical deviation (round-4 seed 2): compact() skips live entries of stored size 0: TLC must exhibit a compact() that is not the identity on the map (a file with the empty content is lost)
CONSTANTS
  H = 4
  UNames <- MCNames
  Home <- MCHome
  InitSeq <- MCInit
  InitTok <- MCInitTok
  InitRaw = {}
  SubOf <- MCSub
  HasLF0 = TRUE
  HasAT0 = FALSE
  Slack = 2
  FU = 2
  Ver = 1
  MaxCalls = 4
  MCToks = {"t1"}
SPECIFICATION SkipEmptySpec
PROPERTY AtomicRefines
CHECK_DEADLOCK FALSE
