INIT TInit
NEXT TNext
POSTCONDITION Accepted
CHECK_DEADLOCK FALSE
