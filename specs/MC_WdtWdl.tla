----------------------------- MODULE MC_WdtWdl -----------------------------
(* Stage (A) for C18: exhaustive small-scope check of the WDT / WDL writer-reader machines on a    *)
(* 2 x 2 grid (every tile subset, every version, flag combinations, every optional chunk on/off,   *)
(* valid AND invalid definitions), plus the coordinate laws on the full 64 x 64 grid.              *)
EXTENDS WdtWdl

ASSUME CoordInverse  == InverseLaw          \* all 4096 tiles, exact arithmetic
ASSUME CoordInterior == InteriorLaw
ASSUME CoordCorners  == /\ TileToWorld3(32, 32) = <<0, 0>>
                        /\ TileToWorld3(0, 0) = <<51200, 51200>>
                        /\ TileToWorld3(0, 4) = <<44800, 51200>>       \* axis swap: tile y moves world x
                        /\ WorldToTile3(44800, 51200) = <<0, 4>>

Tiles2 == (0..(GridN - 1)) \X (0..(GridN - 1))
TileSets == {{}, {<<0,0>>}, {<<1,0>>}, {<<0,1>>}, {<<1,0>>, <<0,1>>}, {<<0,0>>, <<1,1>>}, {<<1,0>>, <<1,1>>, <<0,1>>}, Tiles2}
FlagSets == {{}, {1}, {2}, {1, 4}, {64}, {128}, {1, 64}, {512}, {1, 512}, {2, 64, 128}, {16, 512}, {1, 2, 16}, {64, 128}, {1, 32768}, {8, 64}}
NameLists == {<<>>, <<5>>, <<3, 9>>}
WdtDefs == {[ver |-> v, flags |-> f, hasMwmo |-> hm, names |-> IF hm THEN nm ELSE <<>>,
             hasModf |-> hd, nModf |-> IF hd THEN nd ELSE 0, hasMaid |-> ha, nSec |-> IF ha THEN ns ELSE 0, tiles |-> ts] :
            v \in {WdtVersions[i] : i \in 1..8}, f \in FlagSets, hm \in BOOLEAN, nm \in NameLists,
            hd \in BOOLEAN, nd \in {0, 2}, ha \in BOOLEAN, ns \in {5, 8}, ts \in {{}, {<<1,0>>}, {<<0,1>>, <<1,1>>}}}
WdlDefs == {[ver |-> v, tiles |-> ts, holes |-> hs, names |-> nm, nIdx |-> ni, nPlace |-> np, nMldd |-> n1, nMlmd |-> n2] :
            v \in {WdlVersions[i] : i \in 1..Len(WdlVersions)}, ts \in TileSets, hs \in {{}, {<<1,0>>}, {<<0,1>>, <<1,1>>}, Tiles2},
            nm \in NameLists, ni \in {0, 2}, np \in {0, 1}, n1 \in {0, 2}, n2 \in {0, 1}}

Init == \/ \E d \in WdtDefs : WStart("wdt", d)
        \/ \E d \in {dd \in WdlDefs : dd.holes \subseteq dd.tiles} : WStart("wdl", d)
Next == MachineNext
=============================================================================
