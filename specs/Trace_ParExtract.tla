--------------------------- MODULE Trace_ParExtract ---------------------------
(* Stage (D) for C09.  Reset carries the sequential reference (token id of every file id, 0 = the     *)
(* sequential read fails); every Par event is one call of a parallel interface: the request (file ids, *)
(* 0 = a name that is in no archive), whether the call returned Ok, and the slots that came back.      *)
(* The expected return value is ParExtract!ExpectedFrom -- the value MC_ParExtract shows to be the result  *)
(* of every schedule -- with Present bound to the files the sequential reference could read.           *)
(* For the chain_par / chain_addpar interfaces the request is the chain the SEQUENTIAL construction produced (one   *)
(* slot per entry + the winner of the shared name) and the observation is the chain the parallel constructor built. *)
(* P-conjuncts: call-level result per skip flag; one slot per request; slot i names request i; slot i  *)
(* carries the sequential answer of request i; no panic / hang.  (Which error is reported is free.)    *)
EXTENDS ParExtract, Json, IOUtils, TLCExt

Rec == ndJsonDeserialize(IOEnv.TRACE)
\* long arrays arrive as arrays of chunks of <= 64 elements (TLC's JSON reader is quadratic in array length)
CLen(a)  == IF Len(a) = 0 THEN 0 ELSE 64 * (Len(a) - 1) + Len(a[Len(a)])
Flat(a)  == [i \in 1..CLen(a) |-> a[((i - 1) \div 64) + 1][((i - 1) % 64) + 1]]
SeqTok == Flat(Rec[1].seqtok)            \* the same table in every Reset of one run
TracePresent == LET st == SeqTok IN {i \in 1..Len(st) : st[i] # 0}
\* (file ids are global over archives AND generations of a re-used path: one 'generation' of ids suffices here)
TracePresentAt == <<TracePresent>>
VARIABLE tl

\* the observed return value in the vocabulary of the specification
ObsSlot(st, nm, tk) == [name |-> nm,
                    res  |-> IF tk = 0 THEN ErrR
                             ELSE IF nm \in 1..Len(st) /\ st[nm] = tk THEN Ok(nm)
                             ELSE [kind |-> "ok", of |-> -1]]          \* bytes of something else
ObsRet(e) == IF e.call = "ok"
             THEN LET nm == Flat(e.names) tk == Flat(e.toks) st == SeqTok
                  IN  [kind |-> "ok", slots |-> [i \in 1..Len(tk) |-> ObsSlot(st, nm[i], tk[i])]]
             ELSE [kind |-> e.call, slots |-> <<>>]
\* only extract_with_config has per-slot errors; every other interface fails as a whole
SkipOf(e) == e.iface = "with_config" /\ e.skip
Why(e) ==
  LET st  == SeqTok
      \* ParExtract!SeqRead with Present = the files the sequential reference could read (evaluated once per event)
      exp == ExpectedFrom(LAMBDA n : IF n \in 1..Len(st) /\ st[n] # 0 THEN Ok(n) ELSE ErrR, Flat(e.req), SkipOf(e))
      obs == ObsRet(e)
  IN  IF obs = exp THEN ""
      ELSE IF obs.kind \in {"panic", "hang"} THEN obs.kind
      ELSE IF obs.kind # exp.kind THEN "call:" \o obs.kind \o "-expected-" \o exp.kind
      ELSE IF Len(obs.slots) # Len(exp.slots) THEN "slot-count"
      ELSE IF \E i \in 1..Len(exp.slots) : obs.slots[i].name # exp.slots[i].name THEN "slot-order"
      ELSE "slot-content"

Init == tl = 1 /\ vreq = <<>> /\ vthreads = 0 /\ vbatch = 0 /\ vskip = FALSE /\ vtask = <<>> /\ vwk = <<>>
        /\ vgen = 1 /\ vhandle = <<>> /\ vout = <<>> /\ vparts = <<>> /\ vret = NoRes
Next == /\ tl <= Len(Rec) /\ tl' = tl + 1 /\ UNCHANGED pxvars
        /\ IF Rec[tl].ev = "Par"
           THEN LET w == Why(Rec[tl]) IN IF w # "" THEN PrintT(<<"BAD", tl, w>>) ELSE TRUE
           ELSE Rec[tl].ev = "Reset"
Accepted == LET d == TLCGet("stats").diameter IN
            IF d - 1 = Len(Rec) THEN PrintT(<<"CONSUMED", Len(Rec)>>) ELSE Print(<<"TRACE_STUCK_AT", d>>, FALSE)
=============================================================================
