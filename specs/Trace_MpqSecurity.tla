------------------------- MODULE Trace_MpqSecurity -------------------------
(* Stage (D) for X02/MpqSecurity: every recorded call on the real SessionTracker / monitors /      *)
(* validators is one action of MpqSecurity; the observed outcome class and the counters read back  *)
(* after the call are compared with the machine (contract C1..C4 = P-conjuncts -> BAD).  A mismatch *)
(* that equals a named deviation of MpqSecurity is labelled "dev:<name>".                          *)
EXTENDS MpqSecurity, Json, IOUtils, TLC, TLCExt

Rec == ndJsonDeserialize(IOEnv.TRACE)
VARIABLES tl, vlim, vsess, vmon
Class(rr) == IF rr \in {"ok", "panic", "hang"} THEN rr ELSE "err"
SessOf(e) == [total |-> e.sess.total, files |-> e.sess.files[2]]
Out(bad, sess, mon) == [bad |-> bad, sess |-> sess, mon |-> mon]

T_Record(e) ==
    LET ss == SessOf(e)
        want == RecordNext(vsess, e.bytes)                     \* as intended: saturating
        bad == IF e.r # "ok" THEN "record_crash"
               ELSE IF ss = want THEN ""
               ELSE IF NAdd(vsess.total, e.bytes).ovf /\ ss.total = NWrapAdd(vsess.total, e.bytes) /\ ss.files = vsess.files + 1
                    THEN "dev:session_wrap"
               ELSE "record_counters"
    IN Out(bad, ss, vmon)
T_Check(e) ==
    LET ss == SessOf(e)
        bad == IF Class(e.r) # CheckOut(vsess, vlim) THEN "check_boundary" ELSE IF ss # vsess THEN "check_changed_state" ELSE ""
    IN Out(bad, ss, vmon)
T_CheckAdd(e) ==
    LET ss == SessOf(e)
        bad == IF Class(e.r) # CheckAddOut(vsess, vlim, e.add) THEN "checkadd_boundary" ELSE IF ss # vsess THEN "checkadd_changed_state" ELSE ""
    IN Out(bad, ss, vmon)
T_Validate(e) ==
    LET ss == SessOf(e)
        want == ValidateOut(vsess, vlim, e.csize, e.dsize, e.method, e.path)
        got == Class(e.r)
        hard == e.csize > 0 /\ HardLimitsOk(vsess, vlim, e.csize, e.dsize)
        bad == IF got \in {"panic", "hang"} THEN "validate_crash"
               ELSE IF got = "ok" /\ ~hard THEN "validate_limit_not_enforced"
               ELSE IF got # want THEN "validate_decision"
               ELSE IF ss # vsess THEN "validate_changed_state"
               ELSE IF got = "ok" /\ e.mmax # NMin(Lo(e.dsize), vlim.maxdec) THEN "validate_monitor_max"
               ELSE ""
    IN Out(bad, ss, IF got = "ok" THEN MonNew(e.mmax, "none") ELSE vmon)
T_AMon(e) ==
    LET ss == SessOf(e)
        got == Class(e.r)
        want == AMonOut(vsess, vlim, e.dsize)                  \* as intended (DevAMonZero = FALSE)
        bad == IF got \in {"panic", "hang"} THEN "amon_crash"
               ELSE IF got = want THEN (IF ss # vsess THEN "amon_changed_state" ELSE "")
               ELSE IF got = "err" THEN "dev:async_monitor_zero_csize"
               ELSE "amon_limit_not_enforced"
    IN Out(bad, ss, vmon)
T_MonNew(e) == Out(IF e.bytes # NZero THEN "mon_new_bytes" ELSE "", vsess, MonNew(e.max, e.tmo))
T_MonTick(e) == Out(IF e.bytes # vmon.bytes THEN "mon_tick_bytes" ELSE "", vsess, MonTickNext(vmon))
T_MonCheck(e) ==
    LET want == MonCheckOut(vmon, e.size)
        nxt == MonCheckNext(vmon, e.size)
        bad == IF Class(e.r) # want THEN "mon_check_boundary" ELSE IF e.bytes # nxt.bytes THEN "mon_progress" ELSE ""
    IN Out(bad, vsess, [nxt EXCEPT !.bytes = e.bytes])
T_MonCancel(e) == Out(IF e.bytes # vmon.bytes THEN "mon_cancel_bytes" ELSE "", vsess, MonCancelNext(vmon))
T_Calc(e) ==
    LET nn == Len(e.sizes)
        vals == e.vals
        exact == \A ii \in 1..nn : vals[ii] = Limit(e.base, e.enabled, e.sizes[ii], e.method)
        mono == \A ii \in 1..(nn - 1) : vals[ii + 1] <= vals[ii]
        range == \A ii \in 1..nn : IF e.enabled THEN vals[ii] \in 50..50000 ELSE vals[ii] = e.base
        bad == IF e.r # "ok" THEN (IF e.base > U32Safe /\ e.enabled THEN "dev:adaptive_mul_overflow" ELSE "calc_crash")
               ELSE IF ~mono THEN "calc_not_monotone"
               ELSE IF ~range THEN "calc_range"
               ELSE IF ~exact THEN (IF e.base > U32Safe THEN "dev:adaptive_mul_overflow" ELSE "calc_value")
               ELSE ""
    IN Out(bad, vsess, vmon)

Step(e) == CASE e.ev = "Reset"     -> Out("", Sess0, NoMon)
             [] e.ev = "Record"    -> T_Record(e)
             [] e.ev = "Check"     -> T_Check(e)
             [] e.ev = "CheckAdd"  -> T_CheckAdd(e)
             [] e.ev = "Validate"  -> T_Validate(e)
             [] e.ev = "AMon"      -> T_AMon(e)
             [] e.ev = "MonNew"    -> T_MonNew(e)
             [] e.ev = "MonTick"   -> T_MonTick(e)
             [] e.ev = "MonCheck"  -> T_MonCheck(e)
             [] e.ev = "MonCancel" -> T_MonCancel(e)
             [] e.ev = "Calc"      -> T_Calc(e)
             [] OTHER              -> Assert(FALSE, <<"unknown event", e.ev>>)

Init == tl = 1 /\ vlim = [maxsess |-> NZero] /\ vsess = Sess0 /\ vmon = NoMon
Next == /\ tl <= Len(Rec)
        /\ LET o == Step(Rec[tl]) IN
             /\ tl' = tl + 1
             /\ vlim' = (IF Rec[tl].ev = "Reset" THEN Rec[tl].lim ELSE vlim)
             /\ vsess' = o.sess
             /\ vmon' = o.mon
             /\ (IF o.bad = "" THEN TRUE ELSE PrintT(<<"BAD", tl, o.bad>>))
Accepted == LET d == TLCGet("stats").diameter IN
            IF d - 1 = Len(Rec) THEN PrintT(<<"CONSUMED", Len(Rec)>>) ELSE Print(<<"TRACE_STUCK_AT", d>>, FALSE)
=============================================================================
