INIT Init
NEXT Next
INVARIANT SizeArithmetic
INVARIANT InternOnce
INVARIANT InternInjective
INVARIANT RefsResolve
INVARIANT LossOnlyInArrays
INVARIANT ReparseAccepted
INVARIANT PathsAgree
INVARIANT KeysSound
CHECK_DEADLOCK FALSE
