---------------------------- MODULE AtomicWrite ----------------------------
(* C12 -- writing an archive (ArchiveBuilder::build, MutableArchive::compact) is all-or-nothing   *)
(* at the destination path under process death and I/O errors at every point.                      *)
(*                                                                                                 *)
(* Two layers.                                                                                     *)
(*  FS layer   : a directory (path -> file object), file objects with the amount of data written,  *)
(*               a file-descriptor table; one action per system call (create / open / write /      *)
(*               truncate / rename / unlink / close), each with a "fails without effect" variant;  *)
(*               Crash (process death, enabled in every running state).  This layer is what the    *)
(*               strace log of the real process is replayed on (Trace_AtomicWrite).                *)
(*  Process    : the programs of builder.rs:582-647 (build) and modification.rs:558-687 (compact)  *)
(*  layer        as pc-guarded sequences of FS-layer actions, structured like the code, with the   *)
(*               code's deviations as named switches (SkipUnreadable, ErrAfterCommit) and two      *)
(*               mutant strategies (direct, copy) that TLC must refute (MC_AtomicWrite_*.cfg).     *)
(*                                                                                                 *)
(* The property: in EVERY reachable state (hence whatever the moment of death) the object linked   *)
(* at the destination is the previous one, untouched, or a completely written new one; a build     *)
(* that returns Err leaves the previous one.                                                       *)
EXTENDS Naturals, Sequences, FiniteSets, TLC

CONSTANTS
    Paths,          \* directory entries of the destination directory; "D" is the destination
    Fds,            \* file descriptor numbers
    NW,             \* number of write system calls that make a new archive complete (process layer)
    NF,             \* number of source files compact() reads (process layer)
    MaxFaults,      \* how many system calls may fail in one run (environment)
    Ops,            \* subset of {"build_stream", "build_buf", "compact", "rebuild", "create"}
    Strategy,       \* "temp" (as coded) | mutants: "direct" (File::create(dest)), "copy" (persist by copy+remove),
                    \* "placeholder" (empty dest filled in place), "rm_on_err" (rebuild removes the target when the build
                    \* fails), "probe" (create() first does File::create(dest) to see whether it is writable),
                    \* "keep_inode" (compact of a hard-linked archive copies the temp over dest instead of renaming)
    SkipUnreadable, \* TRUE = compact() skips a source file whose read fails (the code before 131a1c3 for I/O errors;
                    \*        still the code for non-I/O read errors: Err(_) => continue) -- refuted
    StrictErr,      \* TRUE = demand Err => dest = Prev for compact too (refuted by the code: ErrAfterCommit)
    DirtySession    \* TRUE = compact() is called with unflushed modifications: it first flushes them IN PLACE
                    \*        into the destination (modification.rs, self.flush()? since 5040b10) -- refuted

Dest == "D"
\* pre-states of the destination explored by the model (build accepts any; compact needs an archive)
\* "hardlink" = the archive has a second hard link elsewhere (nlink = 2); "symlink" = dest is a symbolic link to a file
PrevKinds == {"absent", "present", "empty", "garbage", "readonly", "dir", "hardlink", "symlink"}

VARIABLES
    vobj,      \* Seq of file objects [w: Nat, old: BOOLEAN, hurt: BOOLEAN]
    vdir,      \* [Paths -> 0..Len(vobj)]   0 = no such entry
    vfd,       \* [Fds   -> 0..Len(vobj)]   0 = closed
    vres,      \* "run" | "ok" | "err" | "dead"
    vfull,     \* amount of data that makes a new object complete
    vprev,     \* what Dest held when the operation started: "absent" or the kind of the previous object
               \* ("present" = an archive, "empty" = 0-byte placeholder, "garbage", "readonly", "dir", edited archives ...);
               \* Prev is whatever was there -- the property protects it regardless of what it is
    vhist,     \* observation: [wdest: BOOLEAN (a write/truncate hit the object linked at Dest),
               \*               commit: BOOLEAN (a rename onto Dest succeeded), unlinkfail: BOOLEAN]
    \* ---- process layer ----
    vop, vpc, vdone, vneed, vnfault, vread

fsvars   == <<vobj, vdir, vfd, vres, vfull, vprev, vhist>>
procvars == <<vop, vpc, vdone, vneed, vnfault, vread>>
vars     == <<vobj, vdir, vfd, vres, vfull, vprev, vhist, vop, vpc, vdone, vneed, vnfault, vread>>

\* ------------------------------------------------------------------------------------------------
\* classification of what a path holds
\* ------------------------------------------------------------------------------------------------
ObjClass(o) == IF o.old THEN (IF o.hurt THEN "Other" ELSE "Old")
               ELSE IF o.w = vfull /\ ~o.hurt THEN "New" ELSE "Partial"
PathClass(p) == IF vdir[p] = 0 THEN "Absent" ELSE ObjClass(vobj[vdir[p]])
DestClass == PathClass(Dest)
PrevExists == vprev # "absent"
PrevClass == IF PrevExists THEN "Old" ELSE "Absent"
Temps     == {p \in Paths : p # Dest /\ vdir[p] # 0}

\* ------------------------------------------------------------------------------------------------
\* FS layer: one action per system call.  Every one requires a running process.
\* ------------------------------------------------------------------------------------------------
Running == vres = "run"
AtDest(oid) == oid # 0 /\ vdir[Dest] = oid

\* openat(p, O_CREAT|O_EXCL|O_RDWR) -- NamedTempFile::new_in
FsCreate(p, fd) ==
    /\ Running /\ vdir[p] = 0 /\ vfd[fd] = 0
    /\ vobj' = Append(vobj, [w |-> 0, old |-> FALSE, hurt |-> FALSE])
    /\ vdir' = [vdir EXCEPT ![p] = Len(vobj) + 1]
    /\ vfd'  = [vfd EXCEPT ![fd] = Len(vobj) + 1]
    /\ UNCHANGED <<vres, vfull, vprev, vhist>>

\* openat(p, flags) on an existing entry; trunc = O_TRUNC
FsOpen(p, fd, trunc) ==
    /\ Running /\ vdir[p] # 0 /\ vfd[fd] = 0
    /\ vfd' = [vfd EXCEPT ![fd] = vdir[p]]
    /\ IF trunc
         THEN /\ vobj' = [vobj EXCEPT ![vdir[p]] = [@ EXCEPT !.w = 0, !.hurt = @ \/ vobj[vdir[p]].old \/ vobj[vdir[p]].w > 0]]
              /\ vhist' = [vhist EXCEPT !.wdest = @ \/ p = Dest]
         ELSE UNCHANGED <<vobj, vhist>>
    /\ UNCHANGED <<vdir, vres, vfull, vprev>>

\* File::create(p): O_CREAT|O_TRUNC without O_EXCL
FsCreateOrTrunc(p, fd) == IF vdir[p] = 0 THEN FsCreate(p, fd) ELSE FsOpen(p, fd, TRUE)

\* write / pwrite / writev / copy_file_range of n units through fd
FsWrite(fd, n) ==
    /\ Running /\ vfd[fd] # 0
    /\ vobj' = [vobj EXCEPT ![vfd[fd]] = [@ EXCEPT !.w = @ + n, !.hurt = @ \/ vobj[vfd[fd]].old]]
    /\ vhist' = [vhist EXCEPT !.wdest = @ \/ (n > 0 /\ AtDest(vfd[fd]))]
    /\ UNCHANGED <<vdir, vfd, vres, vfull, vprev>>

\* ftruncate(fd)
FsTrunc(fd) ==
    /\ Running /\ vfd[fd] # 0
    /\ vobj' = [vobj EXCEPT ![vfd[fd]] = [@ EXCEPT !.w = 0, !.hurt = TRUE]]
    /\ vhist' = [vhist EXCEPT !.wdest = @ \/ AtDest(vfd[fd])]
    /\ UNCHANGED <<vdir, vfd, vres, vfull, vprev>>

\* rename(a, b): atomic replacement of the entry b
FsRename(a, b) ==
    /\ Running /\ vdir[a] # 0
    /\ vdir' = IF a = b THEN vdir ELSE [vdir EXCEPT ![b] = vdir[a], ![a] = 0]
    /\ vhist' = [vhist EXCEPT !.commit = @ \/ b = Dest]
    /\ UNCHANGED <<vobj, vfd, vres, vfull, vprev>>

\* link(a, b): a second name for the same object; fails (EEXIST) when b exists -- persist_noclobber
FsLink(a, b) ==
    /\ Running /\ vdir[a] # 0 /\ vdir[b] = 0
    /\ vdir' = [vdir EXCEPT ![b] = vdir[a]]
    /\ vhist' = [vhist EXCEPT !.commit = @ \/ b = Dest]
    /\ UNCHANGED <<vobj, vfd, vres, vfull, vprev>>

FsUnlink(p) ==
    /\ Running /\ vdir[p] # 0
    /\ vdir' = [vdir EXCEPT ![p] = 0]
    /\ UNCHANGED <<vobj, vfd, vres, vfull, vprev, vhist>>

FsClose(fd) ==
    /\ Running
    /\ vfd' = [vfd EXCEPT ![fd] = 0]
    /\ UNCHANGED <<vobj, vdir, vres, vfull, vprev, vhist>>

\* a system call that failed (injected EIO / ENOSPC / EFBIG, or a genuine ENOENT): no effect on the
\* file system.  which = "unlink" is remembered because it excuses a left-over temp file.
FsFail(which) ==
    /\ Running
    /\ vhist' = [vhist EXCEPT !.unlinkfail = @ \/ which = "unlink"]
    /\ UNCHANGED <<vobj, vdir, vfd, vres, vfull, vprev>>

\* process death at any moment: descriptors vanish, the directory and the objects stay as they are
Crash ==
    /\ Running
    /\ vres' = "dead"
    /\ vfd' = [f \in DOMAIN vfd |-> 0]
    /\ UNCHANGED <<vobj, vdir, vfull, vprev, vhist>>

\* the operation returns r \in {"ok", "err"} (the process exits; descriptors are closed)
FsReturn(r) ==
    /\ Running
    /\ vres' = r
    /\ vfd' = [f \in DOMAIN vfd |-> 0]
    /\ UNCHANGED <<vobj, vdir, vfull, vprev, vhist>>

FsInit(prev, full) ==
    /\ vprev = prev /\ vfull = full
    /\ vobj = IF prev # "absent" THEN <<[w |-> 0, old |-> TRUE, hurt |-> FALSE]>> ELSE <<>>
    /\ vdir = [p \in Paths |-> IF p = Dest /\ prev # "absent" THEN 1 ELSE 0]
    /\ vfd  = [f \in Fds |-> 0]
    /\ vres = "run"
    /\ vhist = [wdest |-> FALSE, commit |-> FALSE, unlinkfail |-> FALSE]

\* the same as an action (used by the trace specification at every Reset event)
FsReset(prev, full) ==
    /\ vprev' = prev /\ vfull' = full
    /\ vobj' = IF prev # "absent" THEN <<[w |-> 0, old |-> TRUE, hurt |-> FALSE]>> ELSE <<>>
    /\ vdir' = [p \in Paths |-> IF p = Dest /\ prev # "absent" THEN 1 ELSE 0]
    /\ vfd'  = [f \in Fds |-> 0]
    /\ vres' = "run"
    /\ vhist' = [wdest |-> FALSE, commit |-> FALSE, unlinkfail |-> FALSE]

\* ------------------------------------------------------------------------------------------------
\* The property (state invariants: they hold at every moment, so also when the process dies there)
\* ------------------------------------------------------------------------------------------------
\* P1  the destination holds the previous content (or nothing, if there was none) or the complete new archive
DestPrevOrNew == DestClass \in {PrevClass, "New"}
\* P2  a build that returns an error leaves the previous destination untouched
\*     (for compact the code can return Err after the rename: Archive::open / OpenOptions::open of
\*      the compacted file fail -- modification.rs:671-675 --; the property text demands P2 of build)
ErrLeavesPrev == vres = "err" =>
                    \/ DestClass = PrevClass
                    \/ (vop \in {"compact", "create"} /\ ~StrictErr /\ vhist.commit /\ DestClass = "New")
\* P3  no partial archive under the destination name: nothing ever writes into / truncates the object
\*     that the destination entry refers to (it changes by rename only)
NoWriteToDest == ~vhist.wdest
\* D   an error return cleans its temporary files up (unless the unlink itself failed)
NoTempAfterErr == (vres = "err" /\ ~vhist.unlinkfail) => Temps = {}
\* D   a successful return means the new archive is in place and no temp is left
OkMeansNew == vres = "ok" => (DestClass = "New" /\ Temps = {})

TypeOK ==
    /\ vres \in {"run", "ok", "err", "dead"}
    /\ \A p \in Paths : vdir[p] \in 0..Len(vobj)
    /\ \A f \in Fds : vfd[f] \in 0..Len(vobj)
    /\ vres # "run" => \A f \in Fds : vfd[f] = 0

\* ------------------------------------------------------------------------------------------------
\* Process layer: the programs, structured like the code
\* ------------------------------------------------------------------------------------------------
\* Environment: the next system call fails (IoError(k) for every k: nondeterministic, bounded)
CanFail == vnfault < MaxFaults
Faulted == vnfault' = vnfault + 1
NoFault == vnfault' = vnfault

\* operations that run the build program with the destination as its target: ArchiveBuilder::build itself,
\* rebuild_archive (reads the source first) and OpenOptions::create / SFileCreateArchive (empty archive, re-opened after)
IsBuild == vop \in {"build_stream", "build_buf", "rebuild", "create"}
\* mutant strategy "placeholder": a destination that exists as an empty regular file is written in place
InPlace == Strategy = "placeholder" /\ IsBuild /\ vprev = "empty"
NoTemp  == Strategy = "direct" \/ InPlace
KeepInode == Strategy = "keep_inode" /\ vprev = "hardlink"
\* where build() writes: its own temp; inside compact the builder's destination is compact's temp T1
BTmp == IF vop = "compact" THEN "T2" ELSE "T1"
BTgt == IF vop = "compact" THEN "T1" ELSE Dest
BFd  == 6
Goto(l) == vpc' = l

\* --- ArchiveBuilder::build (builder.rs:582) -----------------------------------------------------
\* NamedTempFile::new_in(parent)?            (direct mutant: File::create(path)?)
B_OpenTmp ==
    /\ vpc = "b_open"
    /\ \/ /\ IF Strategy = "direct" THEN FsCreateOrTrunc(BTgt, BFd)
             ELSE IF InPlace THEN FsOpen(BTgt, BFd, FALSE)          \* "placeholder": fill the empty file itself
             ELSE FsCreate(BTmp, BFd)
          /\ Goto("b_write") /\ NoFault /\ UNCHANGED <<vop, vdone, vneed, vread>>
       \/ /\ CanFail /\ FsFail("open") /\ Faulted
          /\ Goto("b_ret_err") /\ UNCHANGED <<vop, vdone, vneed, vread>>

\* write_archive(file): V1/V2 stream seek+write per file/table, header last (builder.rs:638);
\* V3/V4 write_all of the in-memory image (builder.rs:634) -- one or more write calls.
B_Seek ==      \* lseek before a write (build_stream only); no effect, may fail
    /\ vpc = "b_write" /\ vop \notin {"build_buf", "create"} /\ vdone < vneed /\ CanFail
    /\ FsFail("lseek") /\ Faulted /\ Goto("b_cleanup") /\ UNCHANGED <<vop, vdone, vneed, vread>>
B_Write ==
    /\ vpc = "b_write" /\ vdone < vneed
    /\ \/ /\ FsWrite(BFd, 1) /\ NoFault /\ vdone' = vdone + 1 /\ Goto("b_write")
          /\ UNCHANGED <<vop, vneed, vread>>
       \/ /\ CanFail /\ FsFail("write") /\ Faulted /\ Goto("b_cleanup")
          /\ UNCHANGED <<vop, vdone, vneed, vread>>
\* the build fails for a reason that is not an I/O fault of the output (a source file is missing, fs::read fails):
\* write_archive returns Err between two writes; no system call of the output fails
B_Abort ==
    /\ vpc = "b_write" /\ vdone < vneed /\ vnfault = 0
    /\ Goto("b_cleanup") /\ UNCHANGED <<fsvars, vop, vdone, vneed, vnfault, vread>>
\* file.flush(): a no-op on std::fs::File -- no fsync is issued (durability against power loss is
\* not part of the property; process death only)
B_Flush ==
    /\ vpc = "b_write" /\ vdone = vneed
    /\ Goto(IF NoTemp THEN "b_close" ELSE IF Strategy = "copy" THEN "b_copy_open" ELSE "b_rename")
    /\ UNCHANGED <<fsvars, vop, vdone, vneed, vnfault, vread>>
\* temp_file.persist(path): rename(tmp, path)
B_Rename ==
    /\ vpc = "b_rename"
    /\ \/ /\ ~(BTgt = Dest /\ vprev = "dir") /\ FsRename(BTmp, BTgt) /\ NoFault /\ Goto("b_close")
       \/ /\ BTgt = Dest /\ vprev = "dir" /\ FsFail("rename") /\ NoFault /\ Goto("b_cleanup")   \* EISDIR
       \/ /\ CanFail /\ FsFail("rename") /\ Faulted /\ Goto("b_cleanup")
    /\ UNCHANGED <<vop, vdone, vneed, vread>>
\* copy mutant: fs::copy(tmp, path) + remove_file(tmp)
B_CopyOpen ==
    /\ vpc = "b_copy_open"
    /\ \/ /\ FsCreateOrTrunc(BTgt, 7) /\ NoFault /\ Goto("b_copy") /\ vdone' = 0
       \/ /\ CanFail /\ FsFail("open") /\ Faulted /\ Goto("b_cleanup") /\ UNCHANGED vdone
    /\ UNCHANGED <<vop, vneed, vread>>
B_Copy ==
    /\ vpc = "b_copy"
    /\ IF vdone < vneed
         THEN \/ /\ FsWrite(7, 1) /\ NoFault /\ vdone' = vdone + 1 /\ Goto("b_copy")
              \/ /\ CanFail /\ FsFail("write") /\ Faulted /\ Goto("b_cleanup") /\ UNCHANGED vdone
         ELSE /\ FsClose(7) /\ NoFault /\ Goto("b_copy_rm") /\ UNCHANGED vdone
    /\ UNCHANGED <<vop, vneed, vread>>
B_CopyRm ==
    /\ vpc = "b_copy_rm"
    /\ FsUnlink(BTmp) /\ NoFault /\ Goto("b_close") /\ UNCHANGED <<vop, vdone, vneed, vread>>
\* error path: NamedTempFile's Drop unlinks the temp, then the descriptor is closed
B_Cleanup ==
    /\ vpc = "b_cleanup"
    /\ \/ /\ ~NoTemp /\ vdir[BTmp] # 0 /\ FsUnlink(BTmp) /\ NoFault
       \/ /\ ~NoTemp /\ vdir[BTmp] # 0 /\ CanFail /\ FsFail("unlink") /\ Faulted
       \/ /\ (NoTemp \/ vdir[BTmp] = 0) /\ NoFault /\ UNCHANGED fsvars
    /\ Goto("b_close_err") /\ UNCHANGED <<vop, vdone, vneed, vread>>
B_Close ==
    /\ vpc \in {"b_close", "b_close_err"}
    /\ FsClose(BFd) /\ NoFault
    /\ Goto(IF vpc = "b_close" THEN "b_ret_ok" ELSE "b_ret_err")
    /\ UNCHANGED <<vop, vdone, vneed, vread>>
\* build returns; for compact this continues at builder.build(&temp_path)? (modification.rs:662)
B_Return ==
    /\ vpc \in {"b_ret_ok", "b_ret_err"}
    /\ IF vop = "create" /\ vpc = "b_ret_ok"
         THEN UNCHANGED fsvars /\ Goto("x_reopen")
         ELSE IF vop = "rebuild" /\ vpc = "b_ret_err" /\ Strategy = "rm_on_err" /\ vdir[Dest] # 0
         THEN FsUnlink(Dest) /\ Goto("x_ret_err")            \* mutant: "don't leave a partial target behind"
         ELSE IF IsBuild
         THEN FsReturn(IF vpc = "b_ret_ok" THEN "ok" ELSE "err") /\ Goto("done")
         ELSE UNCHANGED fsvars /\ Goto(IF vpc = "b_ret_ok" THEN "c_reopen" ELSE "c_cleanup")
    /\ UNCHANGED <<vop, vdone, vneed, vnfault, vread>>

\* --- rebuild_archive (rebuild.rs): read every source file, then build to the target ---------------------------
\* extract_files_with_metadata: a file that cannot be read aborts the rebuild (since 9d57560); SkipUnreadable = TRUE is
\* the code before it (Err(e) => { warn; continue }) and is kept as a deviation TLC must refute (MC_AtomicWrite_rebuildskip)
R_Read ==
    /\ vpc = "r_read" /\ vread < NF
    /\ \/ /\ NoFault /\ UNCHANGED <<fsvars, vneed>> /\ Goto("r_read")
       \/ /\ CanFail /\ FsFail("read") /\ Faulted
          /\ IF SkipUnreadable
               THEN vneed' = vneed - 1 /\ Goto("r_read")
               ELSE UNCHANGED vneed /\ Goto("x_ret_err")
    /\ vread' = vread + 1 /\ UNCHANGED <<vop, vdone>>
R_StartBuild ==
    /\ vpc = "r_read" /\ vread = NF
    /\ Goto("b_open") /\ UNCHANGED <<fsvars, vop, vdone, vneed, vnfault, vread>>
\* --- OpenOptions::create / SFileCreateArchive: build an empty archive, then open it -----------------------------
\* mutant "probe": File::create(path)? before anything else, to fail early when the path is not writable
X_Probe ==
    /\ vpc = "x_probe"
    /\ \/ /\ FsCreateOrTrunc(Dest, 7) /\ NoFault /\ Goto("x_probe_close")
       \/ /\ CanFail /\ FsFail("open") /\ Faulted /\ Goto("x_ret_err")
    /\ UNCHANGED <<vop, vdone, vneed, vread>>
X_ProbeClose ==
    /\ vpc = "x_probe_close" /\ FsClose(7) /\ NoFault /\ Goto("b_open")
    /\ UNCHANGED <<vop, vdone, vneed, vread>>
\* Self::new().open(path) after the build: a failure here returns Err with the new archive in place
X_Reopen ==
    /\ vpc = "x_reopen"
    /\ \/ /\ FsOpen(Dest, 4, FALSE) /\ NoFault /\ Goto("x_ret_ok")
       \/ /\ CanFail /\ FsFail("open") /\ Faulted /\ Goto("x_ret_err")
    /\ UNCHANGED <<vop, vdone, vneed, vread>>
X_Return ==
    /\ vpc \in {"x_ret_ok", "x_ret_err"}
    /\ FsReturn(IF vpc = "x_ret_ok" THEN "ok" ELSE "err") /\ Goto("done")
    /\ UNCHANGED <<vop, vdone, vneed, vnfault, vread>>

\* --- MutableArchive::compact (modification.rs:558) ----------------------------------------------
\* MutableArchive::open (before the operation): the read/write handle on the destination, fd 4
C_Begin ==
    /\ vpc = "c_begin"
    /\ FsOpen(Dest, 4, FALSE) /\ NoFault
    /\ Goto(IF DirtySession THEN "c_flush" ELSE "c_open") /\ UNCHANGED <<vop, vdone, vneed, vread>>
\* self.flush()? at the start of compact(): pending table changes are written into the destination itself
C_Flush ==
    /\ vpc = "c_flush"
    /\ \/ /\ FsWrite(4, 1) /\ NoFault /\ Goto("c_open")
       \/ /\ CanFail /\ FsFail("write") /\ Faulted /\ Goto("c_ret_err")
    /\ UNCHANGED <<vop, vdone, vneed, vread>>
\* NamedTempFile::new_in(archive_dir)?  -- keeps fd 5 and the name T1 until the function returns
C_OpenTmp ==
    /\ vpc = "c_open"
    /\ \/ /\ FsCreate("T1", 5) /\ NoFault /\ Goto("c_read")
       \/ /\ CanFail /\ FsFail("open") /\ Faulted /\ Goto("c_ret_err")
    /\ UNCHANGED <<vop, vdone, vneed, vread>>
\* for each active file: self.read_file(name) -- Err(_) => { warn; continue }   (as coded)
C_Read ==
    /\ vpc = "c_read" /\ vread < NF
    /\ \/ /\ NoFault /\ UNCHANGED <<fsvars, vneed>> /\ Goto("c_read")
       \/ /\ CanFail /\ FsFail("read") /\ Faulted
          /\ IF SkipUnreadable
               THEN vneed' = vneed - 1 /\ Goto("c_read")       \* deviation: the file is dropped, compaction goes on
               ELSE UNCHANGED vneed /\ Goto("c_cleanup")       \* intended: propagate the error
    /\ vread' = vread + 1 /\ UNCHANGED <<vop, vdone>>
C_StartBuild ==
    /\ vpc = "c_read" /\ vread = NF
    /\ Goto("b_open") /\ UNCHANGED <<fsvars, vop, vdone, vneed, vnfault, vread>>
\* File::open(&temp_path)?  (replaces self.file; the old handle on the previous archive is dropped)
C_Reopen ==
    /\ vpc = "c_reopen"
    /\ \/ /\ FsOpen("T1", 6, FALSE) /\ NoFault /\ Goto("c_dropold")
       \/ /\ CanFail /\ FsFail("open") /\ Faulted /\ Goto("c_cleanup")
    /\ UNCHANGED <<vop, vdone, vneed, vread>>
\* ... the handle on the previous archive is dropped by the mem::replace
C_DropOld ==
    /\ vpc = "c_dropold" /\ FsClose(4) /\ NoFault /\ Goto("c_rename")
    /\ UNCHANGED <<vop, vdone, vneed, vread>>
\* fs::rename(&temp_path, &self._path)?
C_Rename ==
    /\ vpc = "c_rename"
    /\ ~KeepInode
    /\ \/ /\ FsRename("T1", Dest) /\ NoFault /\ Goto("c_verify")
       \/ /\ CanFail /\ FsFail("rename") /\ Faulted /\ Goto("c_cleanup")
    /\ UNCHANGED <<vop, vdone, vneed, vread>>
\* mutant "keep_inode": nlink > 1 => open dest write+truncate and copy the compacted temp over it
C_KeepOpen ==
    /\ vpc = "c_rename" /\ KeepInode
    /\ \/ /\ FsOpen(Dest, 7, TRUE) /\ NoFault /\ Goto("c_keepcopy") /\ vdone' = 0
       \/ /\ CanFail /\ FsFail("open") /\ Faulted /\ Goto("c_cleanup") /\ UNCHANGED vdone
    /\ UNCHANGED <<vop, vneed, vread>>
C_KeepCopy ==
    /\ vpc = "c_keepcopy"
    /\ IF vdone < vneed
         THEN \/ /\ FsWrite(7, 1) /\ NoFault /\ vdone' = vdone + 1 /\ Goto("c_keepcopy")
              \/ /\ CanFail /\ FsFail("write") /\ Faulted /\ Goto("c_cleanup") /\ UNCHANGED vdone
         ELSE /\ FsClose(7) /\ NoFault /\ Goto("c_verify") /\ UNCHANGED vdone
    /\ UNCHANGED <<vop, vneed, vread>>
\* Archive::open(&self._path)? ; OpenOptions::new().read(true).write(true).open(&self._path)?
\* -- both after the commit point: a failure here returns Err with the new archive in place
C_Verify ==
    /\ vpc = "c_verify"
    /\ \/ /\ FsOpen(Dest, 4, FALSE) /\ NoFault /\ Goto("c_rw")
       \/ /\ CanFail /\ FsFail("open") /\ Faulted /\ Goto("c_drop_err")
    /\ UNCHANGED <<vop, vdone, vneed, vread>>
C_OpenRw ==
    /\ vpc = "c_rw"
    /\ \/ /\ FsOpen(Dest, 3, FALSE) /\ NoFault /\ Goto("c_drop_ok")
       \/ /\ CanFail /\ FsFail("open") /\ Faulted /\ Goto("c_drop_err")
    /\ UNCHANGED <<vop, vdone, vneed, vread>>
\* temp_file (NamedTempFile) is dropped: unlink(T1) -- ENOENT after the rename, effective before it
C_Cleanup ==
    /\ vpc \in {"c_cleanup", "c_drop_ok", "c_drop_err"}
    /\ \/ /\ vdir["T1"] # 0 /\ FsUnlink("T1") /\ NoFault
       \/ /\ vdir["T1"] # 0 /\ CanFail /\ FsFail("unlink") /\ Faulted
       \/ /\ vdir["T1"] = 0 /\ FsFail("enoent") /\ NoFault
    /\ Goto(IF vpc = "c_drop_ok" THEN "c_ret_ok" ELSE "c_ret_err")
    /\ UNCHANGED <<vop, vdone, vneed, vread>>
C_Return ==
    /\ vpc \in {"c_ret_ok", "c_ret_err"}
    /\ FsReturn(IF vpc = "c_ret_ok" THEN "ok" ELSE "err") /\ Goto("done")
    /\ UNCHANGED <<vop, vdone, vneed, vnfault, vread>>

\* --- environment: process death between any two system calls --------------------------------------
Die == Crash /\ Goto("dead") /\ UNCHANGED <<vop, vdone, vneed, vnfault, vread>>

Init ==
    /\ vop \in Ops
    /\ \E prev \in PrevKinds : (vop = "compact" => prev \in {"present", "readonly", "hardlink", "symlink"}) /\ FsInit(prev, NW)
    /\ vpc = CASE vop = "compact" -> "c_begin"
               [] vop = "rebuild" -> "r_read"
               [] vop = "create" /\ Strategy = "probe" -> "x_probe"
               [] OTHER -> "b_open"
    /\ vdone = 0 /\ vneed = NW /\ vnfault = 0 /\ vread = 0

Next ==
    \/ B_OpenTmp \/ B_Seek \/ B_Write \/ B_Abort \/ B_Flush \/ B_Rename \/ B_CopyOpen \/ B_Copy \/ B_CopyRm
    \/ B_Cleanup \/ B_Close \/ B_Return
    \/ R_Read \/ R_StartBuild \/ X_Probe \/ X_ProbeClose \/ X_Reopen \/ X_Return
    \/ C_Begin \/ C_Flush \/ C_OpenTmp \/ C_Read \/ C_StartBuild \/ C_Reopen \/ C_DropOld \/ C_Rename \/ C_KeepOpen \/ C_KeepCopy \/ C_Verify \/ C_OpenRw
    \/ C_Cleanup \/ C_Return
    \/ Die

Spec == Init /\ [][Next]_vars

\* every run ends: returned or dead (no stuck process states)
Terminal == vpc \in {"done", "dead"}
NoStuck  == (~Terminal) => ENABLED Next
=============================================================================
