\* implementation as it is now (encryption, fix_key and substring names included), archive with listfile: satisfies everything the design does
CONSTANTS
  H = 4
  UNames <- MCNames
  Home <- MCHome
  InitSeq <- MCInit
  InitTok <- MCInitTok
  InitRaw = {}
  SubOf <- MCSub
  HasLF0 = TRUE
  HasAT0 = FALSE
  Slack = 2
  FU = 2
  Ver = 1
  MaxCalls = 4
  MCToks = {"t1"}
SPECIFICATION CodeNowSpec
INVARIANT CursorBehindImage SlotType TableInv ProbeBounded TablesDisjointFromData NoDamage ListfileExact AbsClean
PROPERTY AbsSpec OpRefines AtomicRefines
CHECK_DEADLOCK FALSE
