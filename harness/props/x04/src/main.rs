//! X04 driver: replays TLC-generated call histories on the real `wow_m2::animation::AnimationManager` and records,
//! after every call, the projection of the object on the abstract state of AnimMgr.tla.  It records; TLC decides.
//!
//! case: {label, mode: "new"|"empty", tab: [{id, dur, flags, freq, rmin, rmax, blend, vnext, alias}], gd: [u32], ops: [{op, a, b}]}
//!   op: update(a = dt ms) | setid(a) | setidx(a) | split(a, b): update(a); update(b) on the manager, update(a + b) on a clone
//! trace: Reset {mode, tab, gd, obs}  then one Call {op, a, b, res, obs, obs2} per call; res = ok | hang | panic
//!   obs: public accessors (idx, time, bl = blend_factor * 1e6 rounded, gt, tx / gx / sx = translation x * 1000 rounded of bone 0 (linear track), bone 1 (linear
//!        track driven by global sequence 0), bone 2 (step track))
//!        + the fields of the derived Debug rendering (hid = true when it could be read: repeat counters, next state)
//! Every case runs in a forked child; the parent declares "hang" when the child burns > 1.5 s of CPU inside one call.
use serde_json::{json, Value};
use std::io::{BufRead, BufReader, Write};
use std::os::unix::io::FromRawFd;
use wow_m2::animation::{AnimSequence, AnimationManager, ResolvedBone, ResolvedTrack, Vec3};
use wverif_common::*;

const NAN: i64 = -7;
const NONINT: i64 = -8;
pub const KEY_T: [u32; 4] = [0, 100, 400, 1000];
pub const KEY_V: [f32; 4] = [0.0, 10.0, 40.0, 20.0];

fn ti(t: f64) -> i64 {
    if t.is_nan() {
        NAN
    } else if t.fract() != 0.0 || t.abs() > 2.0e9 {
        NONINT
    } else {
        t as i64
    }
}

fn field<'a>(s: &'a str, name: &str) -> Option<&'a str> {
    let p = s.find(name)? + name.len();
    let rest = &s[p..];
    let e = rest.find(|c| c == ',' || c == '}').unwrap_or(rest.len());
    Some(rest[..e].trim())
}

/// (idx, rep, time, main) of `<name>: AnimationState { .. }` in the Debug rendering
fn state_of(dbg: &str, name: &str) -> Option<(i64, i64, i64, i64)> {
    let p = dbg.find(&format!("{name}: AnimationState {{"))?;
    let s = &dbg[p..];
    let s = &s[..s.find('}')? + 1];
    let idx = match field(s, "animation_index: ")? {
        "None" => -1,
        v => v.strip_prefix("Some(")?.trim_end_matches(')').parse::<i64>().ok()?,
    };
    let rep = field(s, "repeat_times: ")?.parse::<i64>().ok()?;
    let time = ti(field(s, "animation_time: ")?.parse::<f64>().ok()?);
    let main = field(s, "main_variation_index: ")?.parse::<i64>().ok()?;
    Some((idx, rep.max(-1), time, main))
}

fn obs(m: &AnimationManager) -> Value {
    let bl = m.blend_factor();
    let tx = m.get_bone_translation(0).x;
    let gx = m.get_bone_translation(1).x;
    let sx = m.get_bone_translation(2).x;
    let dbg = format!("{:?}", m);
    let tail = dbg.rfind("current_animation: AnimationState").map(|p| &dbg[p..]).unwrap_or("");
    let (hid, c, n) = match (state_of(tail, "current_animation"), state_of(tail, "next_animation")) {
        (Some(c), Some(n)) => (true, c, n),
        _ => (false, (0, 0, 0, 0), (0, 0, 0, 0)),
    };
    json!({
        "idx": m.current_animation_index().map(|i| i as i64).unwrap_or(-1),
        "time": ti(m.current_time()),
        "bl": if bl.is_nan() { NAN } else { (bl as f64 * 1.0e6).round() as i64 },
        "gt": m.global_times().iter().map(|t| ti(*t)).collect::<Vec<_>>(),
        "tx": if tx.is_nan() { NAN } else { (tx as f64 * 1000.0).round() as i64 },
        "gx": if gx.is_nan() { NAN } else { (gx as f64 * 1000.0).round() as i64 },
        "sx": if sx.is_nan() { NAN } else { (sx as f64 * 1000.0).round() as i64 },
        "nseq": m.sequence_count(),
        "hid": hid, "crep": c.1, "cmain": c.3, "nidx": n.0, "nrep": n.1, "ntime": n.2, "nmain": n.3,
    })
}

fn no_obs() -> Value {
    json!({"idx": -9, "time": -9, "bl": -9, "gt": [], "tx": -9, "gx": -9, "sx": -9, "nseq": 0, "hid": false, "crep": 0, "cmain": 0, "nidx": -9, "nrep": 0, "ntime": 0, "nmain": 0})
}

fn build(case: &Value) -> AnimationManager {
    if gs(case, "mode") == "empty" {
        return AnimationManager::empty();
    }
    let seqs: Vec<AnimSequence> = ga(case, "tab")
        .iter()
        .map(|q| AnimSequence {
            id: gi(q, "id") as u16,
            sub_id: 0,
            duration: gi(q, "dur") as u32,
            movement_speed: 0.0,
            flags: gi(q, "flags") as u32,
            frequency: gi(q, "freq") as u16,
            replay_min: gi(q, "rmin") as u32,
            replay_max: gi(q, "rmax") as u32,
            blend_time: gi(q, "blend") as u32,
            variation_next: gi(q, "vnext") as i16,
            alias_next: gi(q, "alias") as u16,
        })
        .collect();
    let n = seqs.len();
    // bone 0: linear track on the animation time; bone 1: linear track on global sequence 0; bone 2: step track
    let bone = |id: i32, interpolation_type: u16, global_sequence: i16| ResolvedBone {
        bone_id: id,
        flags: 0,
        parent_bone: -1,
        translation: ResolvedTrack {
            interpolation_type,
            global_sequence,
            timestamps: vec![KEY_T.to_vec(); n],
            values: vec![KEY_V.iter().map(|v| Vec3::new(*v, 0.0, 0.0)).collect(); n],
        },
        rotation: ResolvedTrack::empty(),
        scale: ResolvedTrack::empty(),
        pivot: Vec3::ZERO,
    };
    let gd: Vec<u32> = ga(case, "gd").iter().map(|v| v.as_u64().unwrap() as u32).collect();
    AnimationManager::new(gd, seqs, vec![bone(0, 1, -1), bone(1, 1, 0), bone(2, 0, -1)])
}

/// child side: run the case, one line per event on `out`; "B" before every call
fn run_case(ci: usize, case: &Value, out: &mut impl Write) {
    let cid = format!("{ci}:{}", gs(case, "label"));
    let mut m = match guarded(|| build(case)) {
        Outcome::Done(m) => m,
        _ => {
            writeln!(out, "{}", json!({"ev": "Reset", "case": cid, "mode": gs(case, "mode"), "tab": case["tab"], "gd": case["gd"], "res": "panic", "obs": no_obs()})).unwrap();
            return;
        }
    };
    writeln!(out, "{}", json!({"ev": "Reset", "case": cid, "mode": gs(case, "mode"), "tab": case["tab"], "gd": case["gd"], "res": "ok", "obs": obs(&m)})).unwrap();
    for o in ga(case, "ops") {
        let (op, a, b) = (gs(o, "op").to_string(), gi(o, "a"), gi(o, "b"));
        writeln!(out, "B {}", json!({"ev": "Call", "case": cid, "op": op, "a": a, "b": b, "res": "hang", "obs": no_obs(), "obs2": no_obs()})).unwrap();
        out.flush().unwrap();
        let r = guarded(|| {
            let mut o2 = no_obs();
            match op.as_str() {
                "update" => m.update(a as f64),
                "setid" => m.set_animation_id(a as u16),
                "setidx" => m.set_animation_index(a as usize),
                "split" => {
                    let mut c = m.clone();
                    m.update(a as f64);
                    m.update(b as f64);
                    c.update((a + b) as f64);
                    o2 = obs(&c);
                }
                other => tool_error(&format!("unknown op {other}")),
            }
            (obs(&m), o2)
        });
        match r {
            Outcome::Done((o1, o2)) => {
                writeln!(out, "{}", json!({"ev": "Call", "case": cid, "op": op, "a": a, "b": b, "res": "ok", "obs": o1, "obs2": o2})).unwrap()
            }
            _ => {
                writeln!(out, "{}", json!({"ev": "Call", "case": cid, "op": op, "a": a, "b": b, "res": "panic", "obs": no_obs(), "obs2": no_obs()})).unwrap();
                break;
            }
        }
    }
    out.flush().unwrap();
}

fn cpu_ticks(pid: i32) -> u64 {
    let s = std::fs::read_to_string(format!("/proc/{pid}/stat")).unwrap_or_default();
    let rest = s.rsplit(')').next().unwrap_or("");
    let f: Vec<&str> = rest.split_whitespace().collect();
    // after ") ": state is f[0]; utime = field 14, stime = field 15 of the whole line -> f[11], f[12]
    f.get(11).and_then(|v| v.parse::<u64>().ok()).unwrap_or(0) + f.get(12).and_then(|v| v.parse::<u64>().ok()).unwrap_or(0)
}

fn main() {
    install_quiet_panic_hook();
    let a = args();
    let cases = read_cases(&a.cases);
    let trace = Trace::create(&a.trace);
    for (ci, case) in cases.iter().enumerate() {
        if case.get("kind").and_then(|k| k.as_str()) == Some("skip") {
            continue;
        }
        trace.flush();
        let mut fds = [0i32; 2];
        if unsafe { libc::pipe(fds.as_mut_ptr()) } != 0 {
            tool_error("pipe");
        }
        let pid = unsafe { libc::fork() };
        if pid < 0 {
            tool_error("fork");
        }
        if pid == 0 {
            unsafe { libc::close(fds[0]) };
            let mut out = std::io::BufWriter::new(unsafe { std::fs::File::from_raw_fd(fds[1]) });
            run_case(ci, case, &mut out);
            drop(out);
            unsafe { libc::_exit(0) };
        }
        unsafe { libc::close(fds[1]) };
        let rd = unsafe { std::fs::File::from_raw_fd(fds[0]) };
        let raw = fds[0];
        let mut rd = BufReader::new(rd);
        let mut pending: Option<Value> = None;
        let mut base = cpu_ticks(pid);
        let mut waited = 0u32;
        loop {
            let mut pfd = libc::pollfd { fd: raw, events: libc::POLLIN, revents: 0 };
            let pr = if rd.buffer().is_empty() { unsafe { libc::poll(&mut pfd, 1, 100) } } else { 1 };
            if pr == 0 {
                waited += 1;
                // a call of the manager takes microseconds: 1.5 s of CPU (or 60 s of wall) inside one call = hang
                if cpu_ticks(pid) > base + 150 || waited > 600 {
                    unsafe { libc::kill(pid, libc::SIGKILL) };
                    if let Some(p) = pending.take() {
                        trace.ev(p);
                    }
                    break;
                }
                continue;
            }
            let mut line = String::new();
            let n = rd.read_line(&mut line).unwrap_or(0);
            if n == 0 {
                // child ended: an event still pending means it died inside the call (abort / stack overflow)
                if let Some(mut p) = pending.take() {
                    p["res"] = json!("abort");
                    trace.ev(p);
                }
                break;
            }
            base = cpu_ticks(pid);
            waited = 0;
            if let Some(b) = line.strip_prefix("B ") {
                pending = Some(serde_json::from_str(b).unwrap_or_else(|e| tool_error(&format!("child line: {e}"))));
            } else {
                pending = None;
                trace.ev(serde_json::from_str(&line).unwrap_or_else(|e| tool_error(&format!("child line: {e}"))));
            }
        }
        let mut st = 0;
        unsafe { libc::waitpid(pid, &mut st, 0) };
    }
    trace.flush();
}
