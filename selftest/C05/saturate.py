#!/usr/bin/env python3
"""Saturation of the C05 known-finding set (DESIGN 3.3 'closure under seeds').

  saturate.py <cases.ndjson> <tier> <seed_lo> <seed_hi> [arch-filter]   run the driver directly
      (no TLC stages) for every seed and print / accumulate the distinct (entry, outcome, key, role)
      classes of non-ok outcomes into selftest/C05/classes.json
  saturate.py --emit   merge classes.json into known_findings.d/C05.json (existing entries keep
      their id / what / status; new classes get the next free id)

The quick plan is seed-independent; only the havoc items of thorough depend on VERIF_SEED, so the
seed sweep uses the arch filter `havoc`.
"""
import json, os, re, subprocess, sys

VERIF = os.path.dirname(os.path.dirname(os.path.dirname(os.path.abspath(__file__))))
OUT = "/var/tmp/c05sat"
BIN = os.path.join(VERIF, "harness/target/debug/c05")
KF = os.path.join(VERIF, "known_findings.d/C05.json")


def classes_of(summary):
    """class = (entry, outcome, key, role); role only discriminates huge allocations ('*' for the rest)"""
    g = {}
    for x in summary["nonok"]:
        role = x["role"] if x["outcome"] == "hugealloc" else "*"
        c = g.setdefault((x["entry"], x["outcome"], x["key"], role), {"n": 0, "fields": set()})
        c["n"] += x["n"]
        c["fields"].add(f'{x["format"]}/{x["field"]}')
    return g


ACC = os.path.join(os.path.dirname(os.path.abspath(__file__)), "classes.json")   # kept with the self-test


def load_acc():
    p = ACC
    if os.path.exists(p):
        return {tuple(json.loads(k)): v for k, v in json.load(open(p)).items()}
    return {}


def save_acc(acc):
    json.dump({json.dumps(list(k)): v for k, v in acc.items()}, open(ACC, "w"), indent=1, sort_keys=True)


def sweep(cases, tier, lo, hi, arch):
    os.makedirs(OUT, exist_ok=True)
    acc = load_acc()
    for seed in range(lo, hi + 1):
        env = dict(os.environ, VERIF_TIER=tier, VERIF_SEED=str(seed), VERIF_SCRATCH=OUT)
        if arch:
            env["C05_ARCH"] = arch
        tr = os.path.join(OUT, f"sat-{tier}-{seed}.trace")
        p = subprocess.run([BIN, cases, tr], env=env, stdout=subprocess.PIPE, stderr=subprocess.STDOUT, text=True)
        if p.returncode != 0:
            print(f"seed {seed}: driver exit {p.returncode}\n{p.stdout[-2000:]}")
            sys.exit(2)
        g = classes_of(json.load(open(tr + ".summary.json")))
        new = [k for k in g if k not in acc]
        for k, v in g.items():
            a = acc.setdefault(k, {"n": 0, "fields": [], "first": f"{tier}:{seed}"})
            a["n"] += v["n"]
            a["fields"] = sorted(set(a["fields"]) | v["fields"])[:12]
        print(f"seed {seed}: {len(g)} classes, {len(new)} new {new}", flush=True)
        os.remove(tr)
        os.remove(tr + ".summary.json")
        save_acc(acc)


def slug(s):
    return re.sub(r"[^A-Za-z0-9]+", "-", s).strip("-")[:48]


OVERFLOW = re.compile(r"^(.*): attempt to (add|subtract|multiply|shift left|shift right|negate) with overflow$")
MPQ_READ_PATH = ["Archive::open", "Archive::list", "Archive::read_file"]   # open/list read special files through read_file
NOTES = {
    "wow-mpq/src/archive.rs: index out of bounds": "read_file: `data[0]` (compression-method byte) on a single-unit file whose compressed_size is 0",
    "wow-mpq/src/crypto/jenkins.rs": "het_hash: `1u64 << (hash_bits - 1)` / `>> (hash_bits - 8)` with HET/BET hash widths 0..7",
    "wow-mpq/src/archive.rs: attempt": "open: file_size - table_offset / hi_block_offset + size*8 computed without checked arithmetic on header offsets",
    "wow_cdbc::parser::DbcParser::parse_records": "Vec::with_capacity(header.record_count) before the count is compared with the data length",
    "wow_cdbc::parser::DbcParser::parse_record_raw": "Vec::with_capacity(header.field_count) per record, field_count unchecked",
    "wow_cdbc::stringblock::StringBlock::parse": "vec![0; string_block_size] unchecked against the remaining bytes",
    "wow-cdbc/src/versions.rs": "WDB2 extended header: (max_index - min_index + 1) * 6 in i32/u64 without checks",
    "wow_mpq::compression::algorithms::rle::decompress": "vec![0u8; decompressed_size] taken from PTCH.patch_size (up to 4 GiB)",
    "wow-mpq/src/patch/apply.rs": "ctrl_start + ctrl_block_size (u64 from the bsdiff40 header as usize) overflows",
    "implode-": "PKWARE implode (external crate `implode` 0.1.1) panics on hostile dictionary bits / back references / ASCII mode; reached via any compression-method byte with bit 0x08",
    "wow_wdl::types::Chunk::read": "Chunk::read allocates vec![0u8; size] for every chunk with no bound",
    "wow_m#::common::read_array": "M2Array: Vec::with_capacity(count) without comparing count * elem_size with the file length",
    "wow_m#::common::read_raw_bytes": "vec![0; count * elem_size] from an unchecked M2Array",
    "wow-adt/src/root_parser.rs: index out of bounds": "MH2O exists-bitmap: (w*h+7)/8 bytes copied into an 8-byte buffer when width*height > 64",
    "wow-adt/src/root_parser.rs: attempt": "MH2O instance: x_offset + width / y_offset + height in u8",
    "wow-wmo/src/group_parser.rs": "`chunk_info.size - 68` when the MOGP chunk is shorter than its 68-byte header",
    "wow-blp/src": "mipmap offset + size (and width * height) in u32 without checked arithmetic (wraps in release, then slices out of range)",
    "wow-m2/src/anim.rs": "`size - header_size` when an anim entry size is below 16",
    "alloc/src/raw_vec/mod.rs: capacity overflow": "vec![0u8; size_64 as usize] with a 64-bit table size >= 2^63 from the V3/V4 header",
}


def generalise(acc):
    """class-level signatures: (entry set, outcome, key pattern, role). Arithmetic-overflow panics of one file are
    one class per entry; keys reached through Archive::read_file are shared by open/list/read_file."""
    groups = {}
    for (e, o, key, role), v in acc.items():
        m = OVERFLOW.match(key) if o == "panic" else None
        gkey = ("re", m.group(1)) if m else ("eq", key)
        ent = "MPQ-READ" if e in MPQ_READ_PATH else e
        g = groups.setdefault((ent, o, gkey, role), {"n": 0, "fields": set(), "entries": set()})
        g["n"] += v["n"]
        g["fields"] |= set(v["fields"])
        g["entries"].add(e)
    # closure under seeds: random (havoc) mutations carry no field role, so a requesting function known through
    # any role is known under `havoc` as well (the plan items, which do carry roles, stay discriminating)
    for (ent, o, gkey, role), g in list(groups.items()):
        if o == "hugealloc" and role != "havoc":
            h = groups.setdefault((ent, o, gkey, "havoc"), {"n": 0, "fields": set(), "entries": set()})
            h["entries"] |= g["entries"]
    return groups


def emit():
    acc = load_acc()
    old = json.load(open(KF))["findings"] if os.path.exists(KF) else []
    fixed = [f for f in old if f.get("status") == "fixed"]          # kept verbatim; fixed entries suppress nothing
    nxt = 1 + max([int(f["id"].split("-")[1]) for f in old] or [0])
    nxt = max(nxt, 101)
    keep_id = {json.dumps(f["match"], sort_keys=True): f["id"] for f in old if f.get("status") != "fixed"}
    out = list(fixed)
    for (ent, o, (kind, key), role), g in sorted(generalise(acc).items(), key=lambda kv: (kv[0][0], kv[0][1], kv[0][2][1], kv[0][3])):
        entry = {"in": MPQ_READ_PATH} if ent == "MPQ-READ" else ent
        kpat = {"re": "^" + re.escape(key) + ": attempt to (add|subtract|multiply|shift left|shift right|negate) with overflow$"} if kind == "re" else key
        match = {"entry": entry, "outcome": o, "key": kpat}
        if o == "hugealloc":
            match["role"] = role
        note = next((t for k, t in NOTES.items() if key.startswith(k) or (k in key and k.startswith("implode"))), "")
        shown = key + (": arithmetic overflow (debug-build panic; wraps in release)" if kind == "re" else "")
        what = (f"{'/'.join(sorted(g['entries']))}: {o} " + ("at " if o == "panic" else f"via {role} fields, requested by ") + shown +
                (f" -- {note}" if note else "") + f" (e.g. {', '.join(sorted(g['fields']))[:160]})")
        ename = "Archive-read-path" if ent == "MPQ-READ" else ent
        mk = json.dumps(match, sort_keys=True)
        fid = keep_id.get(mk)
        if not fid:
            fid = f"C05-{nxt:03d}-{slug(ename + '-' + o)}"
            nxt += 1
        out.append({"property": "C05", "id": fid, "status": "known", "match": match, "what": what})
    json.dump({"findings": out}, open(KF, "w"), indent=1)
    print(f"{KF}: {len(out)} findings ({len(fixed)} fixed kept) from {len(acc)} observed classes")


if __name__ == "__main__":
    if sys.argv[1] == "--emit":
        emit()
    else:
        sweep(sys.argv[1], sys.argv[2], int(sys.argv[3]), int(sys.argv[4]), sys.argv[5] if len(sys.argv) > 5 else None)
