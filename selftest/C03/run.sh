#!/bin/sh
# Self-test of the C03 check: applies each mutant / refactor diff to a scratch worktree of /repo and runs the
# quick tier on it.  Usage: selftest/C03/run.sh   (needs: git -C /repo worktree add -f /var/tmp/wt-c03 HEAD)
WT=/var/tmp/wt-c03
cd /verif || exit 2
OUT=selftest/C03/results.txt
: > $OUT
for d in selftest/C03/mutant-*.diff selftest/C03/refactor-*.diff; do
  git -C $WT checkout -- . && git -C $WT apply /verif/$d || { echo "$d: does not apply" >> $OUT; continue; }
  VERIF_REPO=$WT bin/vcheck C03 --tier quick > /var/tmp/c03-selftest.log 2>&1
  rc=$?
  sigs=$(for r in $(grep -o 'replay=[^ ]*' /var/tmp/c03-selftest.log | cut -d= -f2); do python3 -c "import json,sys;p=json.load(open('$r'));print(p['sig']['why'],p['event']['m'],p['event']['len'],p['event']['cls'])"; done | tr '\n' ';')
  echo "$(basename $d): exit=$rc $(grep -c '^VIOLATION' /var/tmp/c03-selftest.log) violation signature(s): $sigs" >> $OUT
  git -C $WT checkout -- .
done
rm -f /var/tmp/c03-selftest.log
cat $OUT
