"""C11 -- extraction through the CLI never writes outside the output directory."""
import json
import re
from vlib import core

META = {
    "disabled": False,
    "level": "model_checking",
    "level_text": "PathContain.tla models `warcraft-rs mpq extract` from entry name to written path (mpq_path_to_system, Rust's Path::file_name/parent/join, "
                  "create_dir_all and fs::write as a kernel component-stack machine). TLC (A) checks exhaustively on every name of <= 4 components over "
                  "{.., ., empty, plain, C:, long, non-ASCII} x options that the code as written escapes for EXACTLY the characterised names (684 of 2800 with "
                  "--preserve-paths, none without), that the intended guard keeps every touched path below the output directory, and that a closed-form "
                  "prediction of the touched paths equals the step machine; (B) enumerates every such name x separators x preserve x chain x explicit; (C) the real "
                  "CLI binary is run as a process on archives carrying those names verbatim (entry names and listfile) inside a sandbox whose whole tree is "
                  "snapshotted before/after (created, removed, and changed identity / permissions / size / content / mtime; decoy files are planted where the "
                  "unguarded model would write); entries are present, listed-but-absent or corrupted, with --skip-errors on and off; (D) TLC decides from the logged "
                  "path components that every created/modified/removed path is beneath the output directory, and (diagnostic) that the touched set equals the model's prediction.",
    "level_note": "Only Linux/posix path semantics are bound to the implementation (the windows Prefix variant is model-checked only). Names with a leading "
                  "separator are redirected into the sandbox (\\\\x -> \\\\<sandbox>\\\\r1\\\\r2\\\\root\\\\x) so that a successful escape cannot damage the host; components "
                  "a/ü/long carry the entry's index in the archive. quick: all names of <= 3 components + a seed-rotated 1/8 of the 4-component names, "
                  "single-entry archives with half of the (chain, explicit) pairs; thorough: every name x the full option product.",
    "technique": "TLA+ state machine of path construction/resolution model-checked with TLC; TLC-enumerated adversarial names replayed through the real CLI "
                 "process; trace validation of sandbox snapshots against the spec",
    "design_ref": "DESIGN.md section 5, C11",
    "crates": ["c11"],
    "needs_cli": True,
}


def sig(b):
    r = b.get("reset") or {}
    return {"ev": b.get("ev"), "preserve": r.get("preserve"), "hasroot": r.get("hasroot"), "hasparent": r.get("hasparent"), "entries": r.get("entries", "present"),
            "modelled": "escape-as-unguarded-deviation" in str(b.get("why"))}


def _refuted(ctx, cfg, invariant):
    """A deviation model must be REFUTED by TLC: the named invariant has to be reported violated."""
    rc, text = ctx.tlc("MC_PathContain", cfg, workers=2, timeout=600, heap="2g", tag="refute-" + cfg)
    if f"Invariant {invariant} is violated" not in text:
        raise core.ToolError(f"stage A: TLC did not refute {invariant} for the deviation model {cfg} (rc={rc}):\n" + core._tail(text, 15))
    core.log(f"(A) MC_PathContain/{cfg}: deviation refuted as expected ({invariant} violated)")
    ctx.notes.append(f"deviation BeginUnguarded refuted by TLC: {invariant} violated in {cfg}")


def _mc(ctx):
    dev = ("BeginUnguarded",)
    if ctx.thorough:
        plan = [("MC_PathContain_guarded", ("MkdirFail",) + dev), ("MC_PathContain_multi_guarded", dev),
                ("MC_PathContain", ("SkipGuarded", "MkdirFail")), ("MC_PathContain_multi", ("SkipGuarded",)),
                ("MC_PathContain_win", ("SkipGuarded", "MkdirFail")), ("MC_PathContain_win_guarded", ("MkdirFail",) + dev)]
    else:
        plan = [("MC_PathContain_guarded_q", ("MkdirFail",) + dev), ("MC_PathContain_multi_guarded_q", dev),
                ("MC_PathContain_q", ("SkipGuarded", "MkdirFail"))]
    # three model runs at a time, 2 workers each (<= 8 TLC workers in total)
    def one(p):
        return ctx.mc("MC_PathContain", cfg=p[0], workers=2, timeout=1500, allow_uncovered=p[1], heap="3g")
    import concurrent.futures as cf
    with cf.ThreadPoolExecutor(max_workers=3) as ex:
        stats = list(ex.map(one, plan))
    covered = set()
    for st in stats:
        covered |= {a for a, n in st["actions"].items() if n > 0}
    need = {"ListfileDrop", "SkipGuarded", "Begin", "BeginUnguarded", "MkdirStep", "MkdirFail", "MkdirDone", "WriteFile", "WriteFail", "Finish"}
    if need - covered:
        raise core.ToolError(f"stage A: actions never taken in any PathContain model run: {sorted(need - covered)}")
    _refuted(ctx, "MC_PathContain_refuted", "Contained")


def run(ctx, cases_override=None):
    _mc(ctx)
    if cases_override:
        cases, ncases = cases_override, sum(1 for _ in open(cases_override))
    else:
        cases, ncases = ctx.gen("Gen_PathContain", timeout=900)
    binary = ctx.build("c11")
    cli = ctx.build_cli()
    env = {"TOKIO_WORKER_THREADS": "2", "RAYON_NUM_THREADS": "2"}   # fewer idle runtime threads per process; path logic unaffected
    trace = ctx.harness(binary, cases, extra=(cli,), timeout=2400, env=env)
    res = ctx.validate("Trace_PathContain", trace, timeout=1500)

    runs = ok_runs = files = names_tried = escapes = err_runs = decoys = 0
    distinct = set()
    samples = []
    with open(trace) as f:
        for line in f:
            r = json.loads(line)
            if r["ev"] != "Extract":
                continue
            runs += 1
            ok_runs += r["exit"] == 0
            files += r["nfiles"]
            names_tried += len(r["names"])
            err_runs += any(n.get("r", "present") != "present" for n in r["names"])
            decoys += r.get("decoys", 0)
            out = r["out"]
            esc = any(p[:len(out)] != out for p in r["created"] + r["modified"] + r["removed"])
            escapes += esc
            for n in r["names"]:
                if any(c != "a" for c in n["c"]):
                    distinct.add(("".join(n["c"]), "".join(n["s"]), r["preserve"], r["chain"], r["explicit"]))
            if len(samples) < 3 and (esc or len(samples) < 1) and len(r["names"]) <= 3:
                samples.append({k: r[k] for k in ("case", "preserve", "chain", "explicit", "names", "exit", "created", "modified", "out")})
    if not cases_override and (runs == 0 or ok_runs == 0 or files == 0):
        raise core.ToolError(f"stage C: vacuous replay (runs={runs}, exit-0 runs={ok_runs}, files created={files})")
    if not cases_override and ncases > runs:
        raise core.ToolError(f"stage C: {ncases} cases but only {runs} process runs recorded")
    drift = len(ctx.drift)
    cov = {
        "traces_validated_against_impl": res["traces"],
        "samples": samples,
        "cases_generated_by_tlc": ncases,
        "process_runs": runs,
        "process_runs_exit0": ok_runs,
        "files_created_by_cli": files,
        "runs_with_path_outside_out": escapes,
        "runs_with_unreadable_entries": err_runs,
        "decoy_files_planted_outside_out": decoys,
        "runs_where_model_prediction_of_touched_paths_differs": drift,
        "evaluations": names_tried,
        "distinct_nontrivial": len(distinct),
        "rule": "evaluation = one entry name offered to one CLI run; non-trivial = (name, separators, preserve, chain, explicit) with at least one component other than a plain one",
        "exhaustive": False,
        "exhaustive_note": "thorough enumerates the base grammar (<= 4 components over 7 kinds) completely; names with `..` look-alikes and 5-6 component names are sampled",
    }
    assumptions = ["posix path semantics (Linux); no symlinks inside the sandbox",
                   "leading-separator names are redirected to a stand-in root inside the sandbox",
                   "entries of one archive are concretised so that no path is needed both as file and as directory (the CLI stops at the first I/O error)"]
    return core.finish(ctx, "model_checking", cov, assumptions, res["bad"], sig_fn=sig, trace=trace)


def replay(ctx, payload):
    cases, _ = ctx.gen("Gen_PathContain", timeout=900)
    want = int(str(payload.get("case", "0")).split(".")[0])
    sel = ctx.path("replay-cases.ndjson")
    with open(sel, "w") as f:
        for line in open(cases):
            if json.loads(line)["id"] == want:
                f.write(line)
    return run(ctx, cases_override=sel)
