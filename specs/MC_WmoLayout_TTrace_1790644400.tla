---- MODULE MC_WmoLayout_TTrace_1790644400 ----
EXTENDS Sequences, TLCExt, MC_WmoLayout, Toolbox, Naturals, TLC

_expression ==
    LET MC_WmoLayout_TEExpression == INSTANCE MC_WmoLayout_TEExpression
    IN MC_WmoLayout_TEExpression!expression
----

_trace ==
    LET MC_WmoLayout_TETrace == INSTANCE MC_WmoLayout_TETrace
    IN MC_WmoLayout_TETrace!trace
----

_inv ==
    ~(
        TLCGet("level") = Len(_TETrace)
        /\
        lsh = ([kind |-> "group", ver |-> 1, nvert |-> 0, nidx |-> 0, nnorm |-> 0, ntc |-> 0, ncol |-> -1, nbatch |-> 0, nbsp |-> 0, liq |-> 1, lw |-> 3, lh |-> 2, ndref |-> 0])
        /\
        lopen = (<<>>)
        /\
        lplan = (<<[tag |-> "MVER", size |-> 4, op |-> "leaf", emit |-> 4], [tag |-> "MOGP", size |-> 68, op |-> "open", emit |-> 68], [tag |-> "MLIQ", size |-> 54, op |-> "leaf", emit |-> 54], [tag |-> "", size |-> 0, op |-> "close", emit |-> 0]>>)
        /\
        lcur = (150)
        /\
        lfs = ([cur |-> 150, stack |-> <<[tag |-> "FILE", end |-> 150]>>])
        /\
        lphase = ("done")
        /\
        llog = (<<[tag |-> "MVER", size |-> 4, off |-> 0, depth |-> 1], [tag |-> "MOGP", size |-> 68, off |-> 12, depth |-> 1], [tag |-> "MLIQ", size |-> 54, off |-> 88, depth |-> 1]>>)
        /\
        lhdrs = ((0 :> [tag |-> "MVER", size |-> 4] @@ 12 :> [tag |-> "MOGP", size |-> 68] @@ 88 :> [tag |-> "MLIQ", size |-> 54]))
        /\
        lpc = (5)
        /\
        lmohd = (<<>>)
    )
----

_init ==
    /\ lplan = _TETrace[1].lplan
    /\ lsh = _TETrace[1].lsh
    /\ lopen = _TETrace[1].lopen
    /\ lmohd = _TETrace[1].lmohd
    /\ lphase = _TETrace[1].lphase
    /\ lfs = _TETrace[1].lfs
    /\ lcur = _TETrace[1].lcur
    /\ llog = _TETrace[1].llog
    /\ lhdrs = _TETrace[1].lhdrs
    /\ lpc = _TETrace[1].lpc
----

_next ==
    /\ \E i,j \in DOMAIN _TETrace:
        /\ \/ /\ j = i + 1
              /\ i = TLCGet("level")
        /\ lplan  = _TETrace[i].lplan
        /\ lplan' = _TETrace[j].lplan
        /\ lsh  = _TETrace[i].lsh
        /\ lsh' = _TETrace[j].lsh
        /\ lopen  = _TETrace[i].lopen
        /\ lopen' = _TETrace[j].lopen
        /\ lmohd  = _TETrace[i].lmohd
        /\ lmohd' = _TETrace[j].lmohd
        /\ lphase  = _TETrace[i].lphase
        /\ lphase' = _TETrace[j].lphase
        /\ lfs  = _TETrace[i].lfs
        /\ lfs' = _TETrace[j].lfs
        /\ lcur  = _TETrace[i].lcur
        /\ lcur' = _TETrace[j].lcur
        /\ llog  = _TETrace[i].llog
        /\ llog' = _TETrace[j].llog
        /\ lhdrs  = _TETrace[i].lhdrs
        /\ lhdrs' = _TETrace[j].lhdrs
        /\ lpc  = _TETrace[i].lpc
        /\ lpc' = _TETrace[j].lpc

\* Uncomment the ASSUME below to write the states of the error trace
\* to the given file in Json format. Note that you can pass any tuple
\* to `JsonSerialize`. For example, a sub-sequence of _TETrace.
    \* ASSUME
    \*     LET J == INSTANCE Json
    \*         IN J!JsonSerialize("MC_WmoLayout_TTrace_1790644400.json", _TETrace)

=============================================================================

 Note that you can extract this module `MC_WmoLayout_TEExpression`
  to a dedicated file to reuse `expression` (the module in the 
  dedicated `MC_WmoLayout_TEExpression.tla` file takes precedence 
  over the module `MC_WmoLayout_TEExpression` below).

---- MODULE MC_WmoLayout_TEExpression ----
EXTENDS Sequences, TLCExt, MC_WmoLayout, Toolbox, Naturals, TLC

expression == 
    [
        \* To hide variables of the `MC_WmoLayout` spec from the error trace,
        \* remove the variables below.  The trace will be written in the order
        \* of the fields of this record.
        lplan |-> lplan
        ,lsh |-> lsh
        ,lopen |-> lopen
        ,lmohd |-> lmohd
        ,lphase |-> lphase
        ,lfs |-> lfs
        ,lcur |-> lcur
        ,llog |-> llog
        ,lhdrs |-> lhdrs
        ,lpc |-> lpc
        
        \* Put additional constant-, state-, and action-level expressions here:
        \* ,_stateNumber |-> _TEPosition
        \* ,_lplanUnchanged |-> lplan = lplan'
        
        \* Format the `lplan` variable as Json value.
        \* ,_lplanJson |->
        \*     LET J == INSTANCE Json
        \*     IN J!ToJson(lplan)
        
        \* Lastly, you may build expressions over arbitrary sets of states by
        \* leveraging the _TETrace operator.  For example, this is how to
        \* count the number of times a spec variable changed up to the current
        \* state in the trace.
        \* ,_lplanModCount |->
        \*     LET F[s \in DOMAIN _TETrace] ==
        \*         IF s = 1 THEN 0
        \*         ELSE IF _TETrace[s].lplan # _TETrace[s-1].lplan
        \*             THEN 1 + F[s-1] ELSE F[s-1]
        \*     IN F[_TEPosition - 1]
    ]

=============================================================================



Parsing and semantic processing can take forever if the trace below is long.
 In this case, it is advised to uncomment the module below to deserialize the
 trace from a generated binary file.

\*
\*---- MODULE MC_WmoLayout_TETrace ----
\*EXTENDS IOUtils, MC_WmoLayout, TLC
\*
\*trace == IODeserialize("MC_WmoLayout_TTrace_1790644400.bin", TRUE)
\*
\*=============================================================================
\*

---- MODULE MC_WmoLayout_TETrace ----
EXTENDS MC_WmoLayout, TLC

trace == 
    <<
    ([lsh |-> [kind |-> "group", ver |-> 1, nvert |-> 0, nidx |-> 0, nnorm |-> 0, ntc |-> 0, ncol |-> -1, nbatch |-> 0, nbsp |-> 0, liq |-> 1, lw |-> 3, lh |-> 2, ndref |-> 0],lopen |-> <<>>,lplan |-> <<[tag |-> "MVER", size |-> 4, op |-> "leaf", emit |-> 4], [tag |-> "MOGP", size |-> 68, op |-> "open", emit |-> 68], [tag |-> "MLIQ", size |-> 54, op |-> "leaf", emit |-> 54], [tag |-> "", size |-> 0, op |-> "close", emit |-> 0]>>,lcur |-> 0,lfs |-> [cur |-> 0, stack |-> <<[tag |-> "FILE", end |-> 0]>>],lphase |-> "write",llog |-> <<>>,lhdrs |-> <<>>,lpc |-> 1,lmohd |-> <<>>]),
    ([lsh |-> [kind |-> "group", ver |-> 1, nvert |-> 0, nidx |-> 0, nnorm |-> 0, ntc |-> 0, ncol |-> -1, nbatch |-> 0, nbsp |-> 0, liq |-> 1, lw |-> 3, lh |-> 2, ndref |-> 0],lopen |-> <<>>,lplan |-> <<[tag |-> "MVER", size |-> 4, op |-> "leaf", emit |-> 4], [tag |-> "MOGP", size |-> 68, op |-> "open", emit |-> 68], [tag |-> "MLIQ", size |-> 54, op |-> "leaf", emit |-> 54], [tag |-> "", size |-> 0, op |-> "close", emit |-> 0]>>,lcur |-> 12,lfs |-> [cur |-> 0, stack |-> <<[tag |-> "FILE", end |-> 0]>>],lphase |-> "write",llog |-> <<>>,lhdrs |-> (0 :> [tag |-> "MVER", size |-> 4]),lpc |-> 2,lmohd |-> <<>>]),
    ([lsh |-> [kind |-> "group", ver |-> 1, nvert |-> 0, nidx |-> 0, nnorm |-> 0, ntc |-> 0, ncol |-> -1, nbatch |-> 0, nbsp |-> 0, liq |-> 1, lw |-> 3, lh |-> 2, ndref |-> 0],lopen |-> <<12>>,lplan |-> <<[tag |-> "MVER", size |-> 4, op |-> "leaf", emit |-> 4], [tag |-> "MOGP", size |-> 68, op |-> "open", emit |-> 68], [tag |-> "MLIQ", size |-> 54, op |-> "leaf", emit |-> 54], [tag |-> "", size |-> 0, op |-> "close", emit |-> 0]>>,lcur |-> 88,lfs |-> [cur |-> 0, stack |-> <<[tag |-> "FILE", end |-> 0]>>],lphase |-> "write",llog |-> <<>>,lhdrs |-> (0 :> [tag |-> "MVER", size |-> 4] @@ 12 :> [tag |-> "MOGP", size |-> 0]),lpc |-> 3,lmohd |-> <<>>]),
    ([lsh |-> [kind |-> "group", ver |-> 1, nvert |-> 0, nidx |-> 0, nnorm |-> 0, ntc |-> 0, ncol |-> -1, nbatch |-> 0, nbsp |-> 0, liq |-> 1, lw |-> 3, lh |-> 2, ndref |-> 0],lopen |-> <<12>>,lplan |-> <<[tag |-> "MVER", size |-> 4, op |-> "leaf", emit |-> 4], [tag |-> "MOGP", size |-> 68, op |-> "open", emit |-> 68], [tag |-> "MLIQ", size |-> 54, op |-> "leaf", emit |-> 54], [tag |-> "", size |-> 0, op |-> "close", emit |-> 0]>>,lcur |-> 150,lfs |-> [cur |-> 0, stack |-> <<[tag |-> "FILE", end |-> 0]>>],lphase |-> "write",llog |-> <<>>,lhdrs |-> (0 :> [tag |-> "MVER", size |-> 4] @@ 12 :> [tag |-> "MOGP", size |-> 0] @@ 88 :> [tag |-> "MLIQ", size |-> 54]),lpc |-> 4,lmohd |-> <<>>]),
    ([lsh |-> [kind |-> "group", ver |-> 1, nvert |-> 0, nidx |-> 0, nnorm |-> 0, ntc |-> 0, ncol |-> -1, nbatch |-> 0, nbsp |-> 0, liq |-> 1, lw |-> 3, lh |-> 2, ndref |-> 0],lopen |-> <<>>,lplan |-> <<[tag |-> "MVER", size |-> 4, op |-> "leaf", emit |-> 4], [tag |-> "MOGP", size |-> 68, op |-> "open", emit |-> 68], [tag |-> "MLIQ", size |-> 54, op |-> "leaf", emit |-> 54], [tag |-> "", size |-> 0, op |-> "close", emit |-> 0]>>,lcur |-> 150,lfs |-> [cur |-> 0, stack |-> <<[tag |-> "FILE", end |-> 0]>>],lphase |-> "write",llog |-> <<>>,lhdrs |-> (0 :> [tag |-> "MVER", size |-> 4] @@ 12 :> [tag |-> "MOGP", size |-> 68] @@ 88 :> [tag |-> "MLIQ", size |-> 54]),lpc |-> 5,lmohd |-> <<>>]),
    ([lsh |-> [kind |-> "group", ver |-> 1, nvert |-> 0, nidx |-> 0, nnorm |-> 0, ntc |-> 0, ncol |-> -1, nbatch |-> 0, nbsp |-> 0, liq |-> 1, lw |-> 3, lh |-> 2, ndref |-> 0],lopen |-> <<>>,lplan |-> <<[tag |-> "MVER", size |-> 4, op |-> "leaf", emit |-> 4], [tag |-> "MOGP", size |-> 68, op |-> "open", emit |-> 68], [tag |-> "MLIQ", size |-> 54, op |-> "leaf", emit |-> 54], [tag |-> "", size |-> 0, op |-> "close", emit |-> 0]>>,lcur |-> 150,lfs |-> [cur |-> 0, stack |-> <<[tag |-> "FILE", end |-> 150]>>],lphase |-> "walk",llog |-> <<>>,lhdrs |-> (0 :> [tag |-> "MVER", size |-> 4] @@ 12 :> [tag |-> "MOGP", size |-> 68] @@ 88 :> [tag |-> "MLIQ", size |-> 54]),lpc |-> 5,lmohd |-> <<>>]),
    ([lsh |-> [kind |-> "group", ver |-> 1, nvert |-> 0, nidx |-> 0, nnorm |-> 0, ntc |-> 0, ncol |-> -1, nbatch |-> 0, nbsp |-> 0, liq |-> 1, lw |-> 3, lh |-> 2, ndref |-> 0],lopen |-> <<>>,lplan |-> <<[tag |-> "MVER", size |-> 4, op |-> "leaf", emit |-> 4], [tag |-> "MOGP", size |-> 68, op |-> "open", emit |-> 68], [tag |-> "MLIQ", size |-> 54, op |-> "leaf", emit |-> 54], [tag |-> "", size |-> 0, op |-> "close", emit |-> 0]>>,lcur |-> 150,lfs |-> [cur |-> 12, stack |-> <<[tag |-> "FILE", end |-> 150]>>],lphase |-> "walk",llog |-> <<[tag |-> "MVER", size |-> 4, off |-> 0, depth |-> 1]>>,lhdrs |-> (0 :> [tag |-> "MVER", size |-> 4] @@ 12 :> [tag |-> "MOGP", size |-> 68] @@ 88 :> [tag |-> "MLIQ", size |-> 54]),lpc |-> 5,lmohd |-> <<>>]),
    ([lsh |-> [kind |-> "group", ver |-> 1, nvert |-> 0, nidx |-> 0, nnorm |-> 0, ntc |-> 0, ncol |-> -1, nbatch |-> 0, nbsp |-> 0, liq |-> 1, lw |-> 3, lh |-> 2, ndref |-> 0],lopen |-> <<>>,lplan |-> <<[tag |-> "MVER", size |-> 4, op |-> "leaf", emit |-> 4], [tag |-> "MOGP", size |-> 68, op |-> "open", emit |-> 68], [tag |-> "MLIQ", size |-> 54, op |-> "leaf", emit |-> 54], [tag |-> "", size |-> 0, op |-> "close", emit |-> 0]>>,lcur |-> 150,lfs |-> [cur |-> 88, stack |-> <<[tag |-> "FILE", end |-> 150], [tag |-> "MOGP", end |-> 88]>>],lphase |-> "walk",llog |-> <<[tag |-> "MVER", size |-> 4, off |-> 0, depth |-> 1], [tag |-> "MOGP", size |-> 68, off |-> 12, depth |-> 1]>>,lhdrs |-> (0 :> [tag |-> "MVER", size |-> 4] @@ 12 :> [tag |-> "MOGP", size |-> 68] @@ 88 :> [tag |-> "MLIQ", size |-> 54]),lpc |-> 5,lmohd |-> <<>>]),
    ([lsh |-> [kind |-> "group", ver |-> 1, nvert |-> 0, nidx |-> 0, nnorm |-> 0, ntc |-> 0, ncol |-> -1, nbatch |-> 0, nbsp |-> 0, liq |-> 1, lw |-> 3, lh |-> 2, ndref |-> 0],lopen |-> <<>>,lplan |-> <<[tag |-> "MVER", size |-> 4, op |-> "leaf", emit |-> 4], [tag |-> "MOGP", size |-> 68, op |-> "open", emit |-> 68], [tag |-> "MLIQ", size |-> 54, op |-> "leaf", emit |-> 54], [tag |-> "", size |-> 0, op |-> "close", emit |-> 0]>>,lcur |-> 150,lfs |-> [cur |-> 88, stack |-> <<[tag |-> "FILE", end |-> 150]>>],lphase |-> "walk",llog |-> <<[tag |-> "MVER", size |-> 4, off |-> 0, depth |-> 1], [tag |-> "MOGP", size |-> 68, off |-> 12, depth |-> 1]>>,lhdrs |-> (0 :> [tag |-> "MVER", size |-> 4] @@ 12 :> [tag |-> "MOGP", size |-> 68] @@ 88 :> [tag |-> "MLIQ", size |-> 54]),lpc |-> 5,lmohd |-> <<>>]),
    ([lsh |-> [kind |-> "group", ver |-> 1, nvert |-> 0, nidx |-> 0, nnorm |-> 0, ntc |-> 0, ncol |-> -1, nbatch |-> 0, nbsp |-> 0, liq |-> 1, lw |-> 3, lh |-> 2, ndref |-> 0],lopen |-> <<>>,lplan |-> <<[tag |-> "MVER", size |-> 4, op |-> "leaf", emit |-> 4], [tag |-> "MOGP", size |-> 68, op |-> "open", emit |-> 68], [tag |-> "MLIQ", size |-> 54, op |-> "leaf", emit |-> 54], [tag |-> "", size |-> 0, op |-> "close", emit |-> 0]>>,lcur |-> 150,lfs |-> [cur |-> 150, stack |-> <<[tag |-> "FILE", end |-> 150]>>],lphase |-> "walk",llog |-> <<[tag |-> "MVER", size |-> 4, off |-> 0, depth |-> 1], [tag |-> "MOGP", size |-> 68, off |-> 12, depth |-> 1], [tag |-> "MLIQ", size |-> 54, off |-> 88, depth |-> 1]>>,lhdrs |-> (0 :> [tag |-> "MVER", size |-> 4] @@ 12 :> [tag |-> "MOGP", size |-> 68] @@ 88 :> [tag |-> "MLIQ", size |-> 54]),lpc |-> 5,lmohd |-> <<>>]),
    ([lsh |-> [kind |-> "group", ver |-> 1, nvert |-> 0, nidx |-> 0, nnorm |-> 0, ntc |-> 0, ncol |-> -1, nbatch |-> 0, nbsp |-> 0, liq |-> 1, lw |-> 3, lh |-> 2, ndref |-> 0],lopen |-> <<>>,lplan |-> <<[tag |-> "MVER", size |-> 4, op |-> "leaf", emit |-> 4], [tag |-> "MOGP", size |-> 68, op |-> "open", emit |-> 68], [tag |-> "MLIQ", size |-> 54, op |-> "leaf", emit |-> 54], [tag |-> "", size |-> 0, op |-> "close", emit |-> 0]>>,lcur |-> 150,lfs |-> [cur |-> 150, stack |-> <<[tag |-> "FILE", end |-> 150]>>],lphase |-> "done",llog |-> <<[tag |-> "MVER", size |-> 4, off |-> 0, depth |-> 1], [tag |-> "MOGP", size |-> 68, off |-> 12, depth |-> 1], [tag |-> "MLIQ", size |-> 54, off |-> 88, depth |-> 1]>>,lhdrs |-> (0 :> [tag |-> "MVER", size |-> 4] @@ 12 :> [tag |-> "MOGP", size |-> 68] @@ 88 :> [tag |-> "MLIQ", size |-> 54]),lpc |-> 5,lmohd |-> <<>>])
    >>
----


=============================================================================

---- CONFIG MC_WmoLayout_TTrace_1790644400 ----
CONSTANTS
    Dev = { "mogp_size_hdr_only" }

INVARIANT
    _inv

CHECK_DEADLOCK
    \* CHECK_DEADLOCK off because of PROPERTY or INVARIANT above.
    FALSE

INIT
    _init

NEXT
    _next

CONSTANT
    _TETrace <- _trace

ALIAS
    _expression
=============================================================================
\* Generated on Tue Sep 29 01:14:00 UTC 2026