--------------------------- MODULE Trace_BufferPool ---------------------------
(* Stage (D) for X01: the recorded behaviour of the real wow_mpq::BufferPool against BufferPool.tla.          *)
(*                                                                                                            *)
(* A trace starts with Reset (PoolConfig, mode).  Mode "seq": one thread, one Call event per call, carrying   *)
(* what the caller saw (category, len, capacity of the buffer handed out) and the pool's whole observable     *)
(* state after the call (the four counters, hit_rate, pool_sizes).  The specification's critical sections run *)
(* as silent steps between Begin and End of the call; at End every observation is compared with the model's   *)
(* state (P-conjuncts, BAD when violated):                                                                    *)
(*    category = the smallest sufficient one; handed-out len = 0; capacity >= category capacity (>= request   *)
(*    unless oversize); pool_sizes <= max and = the model's queue lengths; hits / misses / returns / discards *)
(*    = the model's counters (all 0 with statistics off); hit_rate = hits / (hits + misses).                  *)
(* Mode "conc": 2..4 threads ran their programs freely; the Conc event carries every thread's calls with the  *)
(* caller-visible results, and the quiescent state after the join.  Interleaving-independent laws are judged  *)
(* from the numbers when the event is loaded (per-get conjuncts as above, hits + misses = gets, returns +     *)
(* discards = drops, pool <= max, zero when disabled); then TLC searches for a LINEARISATION: an order of the *)
(* lock acquisitions of the specification (all other steps are thread-local, lock-protected or commuting      *)
(* increments and run with priority) that ends in the observed quiescent state and explains every pool_sizes  *)
(* component a thread read.  No such order -> the event is not consumed ("unexplained").                      *)
(* The as-coded deviation ReturnsAll (returns counts discarded buffers too) is recognised by its exact        *)
(* arithmetic and named "dev:ReturnsAll".  DRIFT (never a verdict): capacity below the model's lower bound    *)
(* (another buffer than the FIFO head was handed out), Vec length arithmetic.                                 *)
(* Events are not spec steps one-to-one: the position reached is kept in TLC register 1.                      *)
EXTENDS BufferPool, Json, IOUtils, TLCExt

Rec == ndJsonDeserialize(IOEnv.TRACE)
TraceCatCap == <<4096, 65536, 1048576>>
TraceFreshId == 1          \* buffer identity is not observable: one id for all (NoAlias is a model-level invariant)
VARIABLES tl,        \* index of the event being explained
          vtcall,    \* seq: the call of event tl has begun
          vtpos,     \* conc: thread -> index of its next call
          vtrun      \* conc: the programs of event tl are loaded
tvars == <<tl, vtcall, vtpos, vtrun>>

Advance == tl' = tl + 1 /\ TLCSet(1, Max2(TLCGet(1), tl + 1))
NoPos == [t \in Threads |-> 0]

\* ---- Reset ----------------------------------------------------------------------------------------
T_Reset ==
  /\ Rec[tl].ev = "Reset" /\ ~vtcall /\ ~vtrun
  /\ vbcfg'  = [maxper |-> Rec[tl].maxper, stats |-> Rec[tl].stats]
  /\ vbpool' = [c \in Cats |-> <<>>]
  /\ vbheld' = [t \in Threads |-> [s \in 1..MaxHeld |-> NoGuard]]
  /\ vbstat' = [hits |-> 0, misses |-> 0, returns |-> 0, discards |-> 0]
  /\ vblock' = [c \in Cats |-> 0]
  /\ vbpc'   = [t \in Threads |-> Idle]
  /\ vbcnt'  = [gets |-> 0, drops |-> 0, takes |-> 0, reused |-> 0, alloc |-> 0, discarded |-> 0]
  /\ Advance /\ UNCHANGED <<vtcall, vtpos, vtrun>>

\* ---- what a caller sees of one get (interleaving-independent) ------------------------------------------
GetWhy(o) ==
  IF o.cat \notin Cats THEN "category"
  ELSE IF o.cat # SmallestSufficient(o.arg) THEN "category"
  ELSE IF o.len # 0 THEN "handed-out-not-empty"
  ELSE IF o.cap < CatCap[o.cat] THEN "capacity-below-category"
  ELSE IF o.arg <= CatCap[3] /\ o.cap < o.arg THEN "capacity-below-request"
  ELSE ""
RateWhy(st, rate) ==
  LET tot == st[1] + st[2] IN
  IF tot = 0 THEN (IF rate = 0 THEN "" ELSE "hit-rate")
  ELSE IF rate * tot - st[1] * 1000000 > tot \/ st[1] * 1000000 - rate * tot > tot THEN "hit-rate" ELSE ""
\* the begin of a call (the part of it that is an action of the specification)
Begin(t, o) ==
  CASE o.op = "get"    -> StartGet(t, o.arg, o.slot)
    [] o.op = "write"  -> DoWrite(t, o.slot, o.arg)
    [] o.op = "shrink" -> DoShrink(t, o.slot)
    [] o.op = "take"   -> DoTake(t, o.slot)
    [] o.op = "drop"   -> StartDrop(t, o.slot)
    [] o.op = "sizes"  -> StartSizes(t)
    [] o.op = "stats"  -> DoStats(t)
    [] OTHER           -> FALSE          \* "panic": no action of the specification

\* ---- mode seq -------------------------------------------------------------------------------------
SeqWhy(e) ==
  LET st == e.st  sz == e.sz  g == GetWhy(e) IN
  IF e.op = "get" /\ g # "" THEN g
  ELSE IF \E c \in Cats : sz[c] > vbcfg.maxper THEN "pool-over-max"
  ELSE IF \E c \in Cats : sz[c] # Len(vbpool[c]) THEN "pool-size"
  ELSE IF ~vbcfg.stats /\ st # <<0, 0, 0, 0>> THEN "stats-disabled-nonzero"
  ELSE IF st[1] # vbstat.hits THEN "hits"
  ELSE IF st[2] # vbstat.misses THEN "misses"
  ELSE IF st[4] # vbstat.discards THEN "discards"
  ELSE IF st[3] # vbstat.returns
       THEN (IF vbcfg.stats /\ vbcnt.discarded > 0 /\ st[3] = vbstat.returns + vbcnt.discarded THEN "dev:ReturnsAll" ELSE "returns")
  ELSE RateWhy(st, e.rate)
SeqDrift(e) ==
  LET g == vbheld[e.t][e.slot] IN
  IF e.op \in {"get", "write", "shrink"} /\ g # NoGuard /\ (e.cap < g.buf.cap \/ e.len # g.buf.len)
  THEN PrintT(<<"DRIFT", tl, "vec-" \o e.op>>) ELSE TRUE
T_Begin ==
  /\ Rec[tl].ev = "Call" /\ ~vtcall /\ ~vtrun
  /\ Begin(Rec[tl].t, Rec[tl])
  /\ vtcall' = TRUE /\ UNCHANGED <<tl, vtpos, vtrun>>
T_Step ==
  /\ Rec[tl].ev = "Call" /\ vtcall /\ ~IsIdle(Rec[tl].t)
  /\ Step(Rec[tl].t)
  /\ UNCHANGED tvars
T_End ==
  /\ Rec[tl].ev = "Call" /\ vtcall /\ IsIdle(Rec[tl].t)
  /\ LET w == SeqWhy(Rec[tl]) IN IF w # "" THEN PrintT(<<"BAD", tl, w>>) ELSE SeqDrift(Rec[tl])
  /\ vtcall' = FALSE /\ Advance /\ UNCHANGED <<vtpos, vtrun>> /\ UNCHANGED bpvars

\* ---- mode conc ------------------------------------------------------------------------------------
NT(e) == Len(e.prog)
Ops(e) == UNION {{<<t, i>> : i \in 1..Len(e.prog[t])} : t \in 1..NT(e)}
CountOps(e, kind) == Cardinality({p \in Ops(e) : e.prog[p[1]][p[2]].op = kind})
ConcWhy(e) ==
  LET st == e.st  sz == e.sz
      badget == {p \in Ops(e) : e.prog[p[1]][p[2]].op = "get" /\ GetWhy(e.prog[p[1]][p[2]]) # ""}
      gets == CountOps(e, "get")  drops == CountOps(e, "drop")
  IN
  IF e.panic THEN "panic"
  ELSE IF badget # {} THEN LET p == CHOOSE q \in badget : TRUE IN GetWhy(e.prog[p[1]][p[2]])
  ELSE IF \E c \in Cats : sz[c] > vbcfg.maxper THEN "pool-over-max"
  ELSE IF \E p \in Ops(e) : e.prog[p[1]][p[2]].op = "sizes" /\ \E c \in Cats : e.prog[p[1]][p[2]].sz[c] > vbcfg.maxper THEN "pool-over-max"
  ELSE IF ~vbcfg.stats THEN (IF st # <<0, 0, 0, 0>> THEN "stats-disabled-nonzero" ELSE "")
  ELSE IF st[1] + st[2] # gets THEN "conservation-gets"
  ELSE IF st[3] + st[4] # drops THEN (IF st[3] = drops /\ st[4] > 0 THEN "dev:ReturnsAll" ELSE "conservation-drops")
  ELSE ""
T_Load ==
  /\ Rec[tl].ev = "Conc" /\ ~vtrun /\ ~vtcall
  /\ LET w == ConcWhy(Rec[tl]) IN IF w # "" THEN PrintT(<<"BAD", tl, w>>) ELSE TRUE
  /\ vtrun' = TRUE /\ vtpos' = [t \in Threads |-> 1]
  /\ UNCHANGED <<tl, vtcall>> /\ UNCHANGED bpvars
HasNext(t) == t <= NT(Rec[tl]) /\ vtpos[t] <= Len(Rec[tl].prog[t])
\* steps that need no lock: thread-local, inside a critical section, or a commuting counter increment
Urgent(t) == (IsIdle(t) /\ HasNext(t)) \/ vbpc[t].ph \in {"g_cs", "g_count", "d_pre", "d_cs", "d_count", "s_cs"}
UrgentSet == {t \in Threads : Urgent(t)}
MayMove(t) == IF UrgentSet # {} THEN t = CHOOSE u \in UrgentSet : \A v \in UrgentSet : u <= v
              ELSE TRUE
\* (the caller's own changes of the Vec are not compared in concurrent runs: they are skipped, which keeps the pooled buffers
\* indistinguishable and the search small)
CBegin(t, o) == IF o.op \in {"write", "shrink"} THEN DoStats(t) ELSE Begin(t, o)
T_CBegin(t) ==
  /\ IsIdle(t) /\ HasNext(t)
  /\ CBegin(t, Rec[tl].prog[t][vtpos[t]])
  /\ vtpos' = [vtpos EXCEPT ![t] = @ + 1]
  /\ UNCHANGED <<tl, vtcall, vtrun>>
\* a pool_sizes component a thread read must be the queue length at that critical section
SizesSeen(t) == vbpc[t].ph = "s_cs" => Rec[tl].prog[t][vtpos[t] - 1].sz[vbpc[t].cat] = Len(vbpool[vbpc[t].cat])
T_CStep(t) ==
  /\ ~IsIdle(t) /\ SizesSeen(t)
  /\ Step(t)
  /\ UNCHANGED tvars
T_Conc ==
  /\ Rec[tl].ev = "Conc" /\ vtrun
  /\ \E t \in Threads : MayMove(t) /\ (T_CBegin(t) \/ T_CStep(t))
\* the observed quiescent state is the model's (returns: the intended count, or the as-coded one already reported at load)
T_Quiesce ==
  /\ Rec[tl].ev = "Conc" /\ vtrun
  /\ \A t \in Threads : IsIdle(t) /\ ~HasNext(t)
  /\ LET st == Rec[tl].st  sz == Rec[tl].sz IN
     /\ \A c \in Cats : sz[c] = Len(vbpool[c])
     /\ st[1] = vbstat.hits /\ st[2] = vbstat.misses /\ st[4] = vbstat.discards
     /\ (st[3] = vbstat.returns \/ (vbcfg.stats /\ st[3] = vbstat.returns + vbcnt.discarded))
  /\ vtrun' = FALSE /\ vtpos' = NoPos /\ Advance /\ UNCHANGED vtcall /\ UNCHANGED bpvars

Init == /\ tl = 1 /\ vtcall = FALSE /\ vtpos = NoPos /\ vtrun = FALSE /\ TLCSet(1, 1)
        /\ BPInit(0, FALSE)
Next == /\ tl <= Len(Rec)
        /\ \/ T_Reset \/ T_Begin \/ T_Step \/ T_End \/ T_Load \/ T_Conc \/ T_Quiesce
Accepted == LET d == TLCGet(1) IN
            IF d = Len(Rec) + 1 THEN PrintT(<<"CONSUMED", Len(Rec)>>) ELSE Print(<<"TRACE_STUCK_AT", d>>, FALSE)
=============================================================================
