//! Applying one concrete mutation (`op`) to a seed file. The ops are produced by the parent from
//! the TLC fault plan (see main.rs::expand) and are self-contained JSON objects:
//!   {"k":"base"}                                   the unmutated seed
//!   {"k":"set","f":<field idx>,"val":"<u64 dec>"}  overwrite a field (width bytes, LE; inside an
//!                                                   encrypted region: decrypt, patch, re-encrypt)
//!   {"k":"set2","f":i,"val":..,"g":j,"val2":..}     two sibling fields edited together
//!   {"k":"resize","r":i,"at":p,"n":k,"grow":bool,"tail":bool}   structured region / inner array one byte or element off
//!   {"k":"tok","at":p,"marker":m,"n":k,"then":t}    k marker bytes and one ordinary token over a codec token stream
//!   {"k":"tag","f":<field idx>,"how":"unknown|reversed|next|zero"}
//!   {"k":"cut","at":n}                             keep the first n bytes
//!   {"k":"chunk","seq":s,"op":"swap|dup|del|zero|over","pos":p}   single edit of a chunk sequence
//!   {"k":"havoc","n":k}                            seeded random mutation number k
use crate::seed::{Field, Seed};
use wverif_common::*;

pub fn read_field(bytes: &[u8], f: &Field) -> u64 {
    let mut v = 0u64;
    if let Some(e) = &f.enc {
        let mut words = region_words(bytes, e.start, e.len);
        wow_mpq::crypto::decrypt_block(&mut words, e.key);
        let plain: Vec<u8> = words.iter().flat_map(|w| w.to_le_bytes()).collect();
        let o = f.off - e.start;
        for i in (0..f.width as usize).rev() {
            v = (v << 8) | plain[o + i] as u64;
        }
        return v;
    }
    for i in (0..f.width as usize).rev() {
        v = (v << 8) | bytes[f.off + i] as u64;
    }
    v
}

fn region_words(bytes: &[u8], start: usize, len: usize) -> Vec<u32> {
    bytes[start..start + len].chunks_exact(4).map(|c| u32::from_le_bytes([c[0], c[1], c[2], c[3]])).collect()
}

pub fn write_field(bytes: &mut [u8], f: &Field, val: u64) {
    let le = val.to_le_bytes();
    if let Some(e) = &f.enc {
        let mut words = region_words(bytes, e.start, e.len);
        wow_mpq::crypto::decrypt_block(&mut words, e.key);
        let mut plain: Vec<u8> = words.iter().flat_map(|w| w.to_le_bytes()).collect();
        let o = f.off - e.start;
        plain[o..o + f.width as usize].copy_from_slice(&le[..f.width as usize]);
        let mut words: Vec<u32> = plain.chunks_exact(4).map(|c| u32::from_le_bytes([c[0], c[1], c[2], c[3]])).collect();
        wow_mpq::crypto::encrypt_block(&mut words, e.key);
        for (i, w) in words.iter().enumerate() {
            bytes[e.start + 4 * i..e.start + 4 * i + 4].copy_from_slice(&w.to_le_bytes());
        }
        return;
    }
    bytes[f.off..f.off + f.width as usize].copy_from_slice(&le[..f.width as usize]);
}

fn add_u32(bytes: &mut [u8], off: usize, delta: i64) {
    if off + 4 > bytes.len() {
        return;
    }
    let v = u32::from_le_bytes([bytes[off], bytes[off + 1], bytes[off + 2], bytes[off + 3]]) as i64;
    let n = (v + delta).clamp(0, u32::MAX as i64) as u32;
    bytes[off..off + 4].copy_from_slice(&n.to_le_bytes());
}

pub const BOUNDARY32: [u32; 12] =
    [0, 1, 2, 3, 4, 0x7F, 0xFF, 0xFFFF, 0x7FFF_FFFF, 0x8000_0000, 0xFFFF_FFFF, 0x0001_0000];

pub fn apply(seed: &Seed, op: &Value, label: &str) -> Vec<u8> {
    let mut b = seed.bytes.clone();
    match gs(op, "k") {
        "base" => {}
        "set" => {
            let f = &seed.fields[gi(op, "f") as usize];
            let val: u64 = gs(op, "val").parse().unwrap_or_else(|_| tool_error("bad val"));
            write_field(&mut b, f, val);
        }
        "set2" => {
            let f = &seed.fields[gi(op, "f") as usize];
            let g = &seed.fields[gi(op, "g") as usize];
            let v: u64 = gs(op, "val").parse().unwrap_or_else(|_| tool_error("bad val"));
            let v2: u64 = gs(op, "val2").parse().unwrap_or_else(|_| tool_error("bad val2"));
            write_field(&mut b, f, v);
            write_field(&mut b, g, v2);
        }
        "resize" => {
            let r = &seed.regions[gi(op, "r") as usize];
            let (at, n) = (gi(op, "at") as usize, gi(op, "n") as usize);
            let (grow, tail) = (gb(op, "grow"), gb(op, "tail"));
            let end = r.start + r.len;
            let mut delta: i64 = 0;
            if tail {
                // the container declares n bytes less / more; no byte moves
                delta = if grow { n as i64 } else { -(n as i64) };
            } else if grow {
                // n filler bytes behind the array; the rest of the region moves back and its last n bytes fall off
                let mut span = b[r.start..end].to_vec();
                let o = at - r.start;
                for k in 0..n {
                    span.insert(o + k, 0xA5);
                }
                span.truncate(r.len);
                b[r.start..end].copy_from_slice(&span);
            } else {
                // the array loses its last n bytes; the rest of the region moves up, the container declares n less
                let mut span = b[r.start..end].to_vec();
                let o = at - r.start;
                span.drain(o - n..o);
                span.resize(r.len, 0);
                b[r.start..end].copy_from_slice(&span);
                delta = -(n as i64);
            }
            if delta != 0 {
                for &fi in &r.size_fields {
                    let f = &seed.fields[fi];
                    let v = read_field(&b, f) as i64 + delta;
                    write_field(&mut b, f, v.max(0) as u64);
                }
            }
        }
        "tok" => {
            let at = gi(op, "at") as usize;
            let n = gi(op, "n") as usize;
            let (mb, then) = (gi(op, "marker") as u8, gi(op, "then") as u8);
            if at + n < b.len() {
                for x in &mut b[at..at + n] {
                    *x = mb;
                }
                b[at + n] = then;
            }
        }
        "tag" => {
            let f = &seed.fields[gi(op, "f") as usize];
            let o = f.off;
            match gs(op, "how") {
                "unknown" => b[o..o + 4].copy_from_slice(b"QZXJ"),
                "reversed" => b[o..o + 4].reverse(),
                "zero" => b[o..o + 4].copy_from_slice(&[0; 4]),
                "next" => {
                    // the tag of the chunk that follows this one (role confusion: payload of one
                    // kind under the tag of another); falls back to the previous chunk's tag
                    let sz = seed.u32_at(o + 4) as usize;
                    let n = o + 8 + sz;
                    let other = seed
                        .seqs
                        .iter()
                        .flat_map(|s| s.items.iter())
                        .map(|it| it.0)
                        .find(|&h| h == n && h + 4 <= seed.bytes.len())
                        .or_else(|| {
                            seed.seqs.iter().flat_map(|s| s.items.iter()).map(|it| it.0).filter(|&h| h < o).last()
                        });
                    if let Some(h) = other {
                        let t = [seed.bytes[h], seed.bytes[h + 1], seed.bytes[h + 2], seed.bytes[h + 3]];
                        b[o..o + 4].copy_from_slice(&t);
                    } else {
                        b[o..o + 4].copy_from_slice(b"QZXJ");
                    }
                }
                h => tool_error(&format!("unknown tag edit {h}")),
            }
        }
        "cut" => {
            let at = (gi(op, "at") as usize).min(b.len());
            b.truncate(at);
        }
        "chunk" => {
            let s = &seed.seqs[gi(op, "seq") as usize];
            let p = gi(op, "pos") as usize;
            let (off, tot) = s.items[p];
            let mut delta: i64 = 0;
            match gs(op, "op") {
                "swap" => {
                    // swap chunk p with chunk p+1
                    let (off2, tot2) = s.items[p + 1];
                    let a = seed.bytes[off..off + tot].to_vec();
                    let c = seed.bytes[off2..off2 + tot2].to_vec();
                    let mid = seed.bytes[off + tot..off2].to_vec();
                    let mut n = Vec::with_capacity(b.len());
                    n.extend_from_slice(&seed.bytes[..off]);
                    n.extend_from_slice(&c);
                    n.extend_from_slice(&mid);
                    n.extend_from_slice(&a);
                    n.extend_from_slice(&seed.bytes[off2 + tot2..]);
                    b = n;
                }
                "dup" => {
                    let a = seed.bytes[off..off + tot].to_vec();
                    let mut n = Vec::with_capacity(b.len() + tot);
                    n.extend_from_slice(&seed.bytes[..off + tot]);
                    n.extend_from_slice(&a);
                    n.extend_from_slice(&seed.bytes[off + tot..]);
                    b = n;
                    delta = tot as i64;
                }
                "del" => {
                    b.drain(off..off + tot);
                    delta = -(tot as i64);
                }
                "zero" => {
                    // size field := 0, payload stays in place (is then walked as chunk headers)
                    b[off + 4..off + 8].copy_from_slice(&0u32.to_le_bytes());
                }
                "over" => {
                    // size field := everything up to the end of the enclosing region + 1
                    let end = s.items.last().map(|l| l.0 + l.1).unwrap_or(b.len());
                    let v = (end - (off + 8) + 1) as u32;
                    b[off + 4..off + 8].copy_from_slice(&v.to_le_bytes());
                }
                o => tool_error(&format!("unknown chunk edit {o}")),
            }
            if delta != 0 {
                for &pf in &s.parent_size_fields {
                    // parent size fields lie before the edited chunk, so their offsets are stable
                    add_u32(&mut b, pf, delta);
                }
            }
        }
        "havoc" => {
            let n = gi(op, "n");
            let mut rng = Rng::derive(wverif_common::seed(), &format!("c05/{label}/{n}"));
            havoc(seed, &mut b, &mut rng);
        }
        k => tool_error(&format!("unknown op kind {k}")),
    }
    b
}

/// Seeded havoc: 1..4 stacked random edits, biased towards the structured parts of the file.
fn havoc(seed: &Seed, b: &mut Vec<u8>, rng: &mut Rng) {
    let rounds = 1 + rng.below(4);
    for _ in 0..rounds {
        if b.is_empty() {
            return;
        }
        match rng.below(10) {
            0 | 1 => {
                // boundary value into a random inventory field
                if !seed.fields.is_empty() {
                    let f = &seed.fields[rng.below(seed.fields.len() as u64) as usize];
                    if f.off + f.width as usize <= b.len() && f.enc.as_ref().map(|e| e.start + e.len <= b.len()).unwrap_or(true) {
                        let v = pick_value(b.len(), rng);
                        write_field(b, f, v);
                    }
                }
            }
            2 | 3 => {
                // boundary u32 at a random aligned position in the first 4 KiB or anywhere
                let span = if rng.chance(2, 3) { b.len().min(4096) } else { b.len() };
                if span >= 4 {
                    let o = (rng.below((span / 4) as u64) * 4) as usize;
                    if o + 4 <= b.len() {
                        let v = pick_value(b.len(), rng) as u32;
                        b[o..o + 4].copy_from_slice(&v.to_le_bytes());
                    }
                }
            }
            4 => {
                let o = rng.below(b.len() as u64) as usize;
                b[o] ^= 1 << rng.below(8);
            }
            5 => {
                let o = rng.below(b.len() as u64) as usize;
                b[o] = *rng.pick(&[0u8, 1, 0x7F, 0x80, 0xFF, 0x41]);
            }
            6 => {
                // random bytes over a short run
                let o = rng.below(b.len() as u64) as usize;
                let n = (1 + rng.below(16) as usize).min(b.len() - o);
                for x in &mut b[o..o + n] {
                    *x = rng.byte();
                }
            }
            7 => {
                // truncate
                let at = rng.below(b.len() as u64 + 1) as usize;
                b.truncate(at);
            }
            8 => {
                // copy a block over another place (splice)
                let n = (1 + rng.below(64) as usize).min(b.len());
                let s = rng.below((b.len() - n + 1) as u64) as usize;
                let d = rng.below((b.len() - n + 1) as u64) as usize;
                let blk = b[s..s + n].to_vec();
                b[d..d + n].copy_from_slice(&blk);
            }
            _ => {
                // insert or delete a short block (shifts everything behind it)
                let o = rng.below(b.len() as u64) as usize;
                let n = 1 + rng.below(12) as usize;
                if rng.chance(1, 2) {
                    let blk = rng.bytes(n);
                    let tail = b.split_off(o);
                    b.extend_from_slice(&blk);
                    b.extend_from_slice(&tail);
                } else {
                    let e = (o + n).min(b.len());
                    b.drain(o..e);
                }
            }
        }
    }
}

fn pick_value(len: usize, rng: &mut Rng) -> u64 {
    match rng.below(4) {
        0 => *rng.pick(&BOUNDARY32) as u64,
        1 => (len as u64).wrapping_add(rng.below(3)).wrapping_sub(1),
        2 => rng.below(len as u64 + 1),
        _ => rng.next_u32() as u64,
    }
}
