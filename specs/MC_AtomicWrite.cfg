CONSTANTS
  Paths = {"D", "T1", "T2"}
  Fds = {3, 4, 5, 6, 7}
  NW = 3
  NF = 2
  MaxFaults = 3
  Ops = {"build_stream", "build_buf", "compact", "rebuild", "create"}
  Strategy = "temp"
  SkipUnreadable = FALSE
  StrictErr = FALSE
  DirtySession = FALSE
INIT Init
NEXT Next
CHECK_DEADLOCK FALSE
INVARIANT TypeOK
INVARIANT DestPrevOrNew
INVARIANT ErrLeavesPrev
INVARIANT NoWriteToDest
INVARIANT NoTempAfterErr
INVARIANT OkMeansNew
INVARIANT NoStuck
