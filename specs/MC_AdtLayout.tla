--------------------------- MODULE MC_AdtLayout ---------------------------
(* Stage (A) instance of AdtLayout: NK = 3 MCIN entries / auto MCNKs instead of 256, user tiles   *)
(* with 2 MCNKs, every subset of the optional top-level kinds x 6 versions (inadmissible ones end *)
(* in BuildReject), every subset of {MCRF, MCLQ, MCCV} as optional sub-chunks, two rebuild rounds.*)
(* MC_AdtLayout.cfg        : the code as it is after all C14 fix commits (deviations Pad8 and      *)
(*                           MtxfAlways only) -- the strict invariants below hold                  *)
(* MC_AdtLayout_ideal.cfg  : the format (no deviation at all)                                      *)
(* MC_AdtLayout_legacy.cfg : the code before the fixes (all named deviations): the tolerant        *)
(*                           invariants of AdtLayout hold, every action incl. ParseFail is covered *)
(* MC_AdtLayout_dev<Name>.cfg (hand-run, notes/C14.md): current code + ONE repaired deviation       *)
(*                           switched back on; each violates the strict invariant named there       *)
(* MC_AdtLayout_mutant.cfg : MhdrFileRelative = TRUE, must violate MhdrPointsAtNamed (hand-run)     *)
EXTENDS AdtLayout
CodeDeviations   == {"Pad8", "MtxfAlways"}
LegacyDeviations == {"Pad8", "McinExcl", "MtxfToEof", "RefsTriple", "InjectMfbo", "MclqIncl", "MtxfAlways", "BmeshNotMop"}
NoDeviations     == {}
DevMcinExcl   == CodeDeviations \cup {"McinExcl"}
DevMtxfToEof  == CodeDeviations \cup {"MtxfToEof"}
DevRefsTriple == CodeDeviations \cup {"RefsTriple"}
DevInjectMfbo == CodeDeviations \cup {"InjectMfbo"}
DevMclqIncl   == CodeDeviations \cup {"MclqIncl"}
DevBmeshNotMop == CodeDeviations \cup {"BmeshNotMop"}
DevNoTruncate  == CodeDeviations \cup {"NoTruncate"}
DevBuilderDropsMamp == CodeDeviations \cup {"BuilderDropsMamp"}

\* ---- strict invariants (do not consult Deviations): what the repaired code and the format satisfy
\* no rebuilt file is longer than its predecessor (the first rebuild may shrink when the detected version
\* cannot carry a chunk: blend mesh without MTXP) and from the second rebuild on the length is a fixpoint
StrictNoGrowth == \A j \in 1..(Len(alens) - 1) : alens[j + 1] <= alens[j] /\ (j >= 2 => alens[j + 1] = alens[j])
\* MCIN size = chunk size including its header (docs/adt.md)
StrictMcinSize == Walked => \A j \in 1..NK : McinSizeDelta(Observed, j) = 0
\* the parser accepts every file the serializer produced
ParseNeverFails == apc # "parsefail"
\* parse reports exactly the sub-chunks that were written; a rebuild carries exactly the parsed optional kinds
\* parse reports every optional top-level kind that was written, except an MTXF handed to a pre-WotLK builder
\* (never written).  Violated by "BmeshNotMop" (hand-run MC_AdtLayout_devBmeshNotMop.cfg), the code before 7ec19f1.
ParseKeepsOpts == apc \in {"rebuild", "done"} => \A kd \in aopts \ aparse.opts : kd = "MTXF" /\ aver < WotLK
ParseKeepsSubs == apc \in {"rebuild", "done"} => aparse.subs = SubsOf
RebuildKeepsOpts == (around > 0 /\ apc = "MVER") => aopts = aparse.opts
=============================================================================
