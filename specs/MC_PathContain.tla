---------------------------- MODULE MC_PathContain ----------------------------
(* Stage (A) for C11 (see the .cfg files):                                                           *)
(*   MC_PathContain_guarded[_q]        the code as written (Guard = TRUE), every name of <= 4 (3)     *)
(*                                     components, one entry per run: every touched path is below out *)
(*   MC_PathContain_multi_guarded[_q]  two entries sharing one file system (conflicts, aborts)        *)
(*   MC_PathContain[_q]                the deviation BeginUnguarded enabled: the escaping (name,      *)
(*                                     option) pairs are EXACTLY EscapesUnguarded                      *)
(*   MC_PathContain_refuted            the deviation against `Contained`: TLC must find the violation  *)
(*   MC_PathContain_multi, _win, _win_guarded   multi-entry deviation; windows Prefix flavour          *)
EXTENDS PathContain
CONSTANTS MaxComps, MaxEntries, MCForms

Opts == [preserve : BOOLEAN, explicit : BOOLEAN, chain : BOOLEAN, form : MCForms, preout : BOOLEAN, skip : BOOLEAN,
         unread : SUBSET (1..MaxEntries)]

\* chain / skip only matter when some entry is unreadable: one representative otherwise
Relevant(opt, k) == /\ opt.unread \subseteq 1..k
                    /\ (opt.unread = {} => (~opt.chain /\ ~opt.skip))
                    /\ (opt.unread # {} => (~opt.preout /\ Cardinality(opt.unread) = 1))   \* one unreadable entry, one pre-state of out
Init == \E k \in 1..MaxEntries : \E names \in [1..k -> CompSeqs(MaxComps)] : \E opt \in Opts : Relevant(opt, k) /\ InitWith(names, opt)

\* the list TLC is asked for: which names escape under which option in the unguarded deviation
EscapingPreserve == {cs \in CompSeqs(MaxComps) : EscapesUnguarded(cs, TRUE, TRUE)}
EscapingFlatten  == {cs \in CompSeqs(MaxComps) : EscapesUnguarded(cs, FALSE, TRUE)}
ASSUME PrintT(<<"ESCAPING", Cardinality(EscapingPreserve), "of", Cardinality(CompSeqs(MaxComps)),
                "with preserve;", Cardinality(EscapingFlatten), "without">>)
\* the informal rule of DESIGN.md: preserve /\ (leading separator \/ a `..`) is necessary ...
ASSUME \A cs \in EscapingPreserve : BadForGuard(cs)
\* ... but not sufficient (e.g. `a\..` or `..` alone touch nothing outside): the exact set is smaller
ASSUME \E cs \in CompSeqs(MaxComps) : BadForGuard(cs) /\ cs \notin EscapingPreserve
=============================================================================
