CONSTANTS
  MaxLen = 16
  Faults = {}
SPECIFICATION Spec
INVARIANTS TypeOK ReadInBounds AllocBounded WorkBounded CursorInside OutcomeTotal TableIndexInBounds OutputBounded BackrefInBounds
PROPERTIES ChunkProgress ArrayProgress StringProgress TokenProgress Termination
CHECK_DEADLOCK TRUE
