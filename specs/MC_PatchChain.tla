---------------------------- MODULE MC_PatchChain ----------------------------
(* Stage (A) for C08: every chain reachable with at most MaxLen entries (duplicates of an archive  *)
(* allowed) over 4 archives + one non-existent path, priorities {-1, 0, 5} (ties and a negative), *)
(* all operations incl. the failing ones and both parallel constructors.                          *)
EXTENDS PatchWorld

CONSTANTS MaxLen, AllowDups     \* AllowDups: an archive may be added while it is in the chain
Arch   == StdArchives \cup {Bogus}
Pairs  == [a : Arch, p : StdPrios]
\* argument lists of the parallel constructors: all lists of <= 1 element, the 2-element lists over
\* 3 paths x 2 priorities, and a menu of longer ones with
\* ties in both orders, a duplicate and a missing file
Pairs2 == [a : {"A1", "A2", "AX"}, p : {0, 5}]
Pairs3 == [a : {"A1", "A2"}, p : {0, 5}]
Menu   == { <<[a |-> "A1", p |-> 0], [a |-> "A2", p |-> 5], [a |-> "A3", p |-> 0]>>,
            <<[a |-> "A3", p |-> 0], [a |-> "A2", p |-> 0], [a |-> "A1", p |-> 0], [a |-> "A4", p |-> 0]>>,
            <<[a |-> "A4", p |-> -1], [a |-> "A1", p |-> 5], [a |-> "A4", p |-> -1], [a |-> "A2", p |-> 5]>>,
            <<[a |-> "A1", p |-> 0], [a |-> "AX", p |-> 5], [a |-> "A3", p |-> 0]>> }
Lists  == IF MaxLen <= 3
          THEN {<<>>} \cup {<<x>> : x \in Pairs2} \cup Menu        \* (all 2- and 3-lists: ParAgree below)
          ELSE {<<>>, <<[a |-> "AX", p |-> 0]>>} \cup {<<x>> : x \in Pairs3} \cup Menu

Init == vchain = <<>> /\ vmap = [n \in NamesOf(StdWorld) |-> 0]

DoNew          == New
DoAdd          == \E a \in StdArchives, p \in StdPrios : (AllowDups \/ PosOf(vchain, a) = 0) /\ AddArchive(a, p)
DoAddFail      == AddArchiveFail(Bogus)
DoRemove       == \E a \in StdArchives : RemoveArchive(a)
DoRemoveAbsent == \E a \in Arch : RemoveAbsent(a)
DoSet          == \E a \in StdArchives, p \in StdPrios : SetPriority(a, p)
DoSetFail      == \E a \in Arch : SetPriorityFail(a)
DoClear        == Clear
\* the constructor does not look at the current chain: exploring it from the empty chain loses nothing
DoFromPar      == vchain = <<>> /\ \E l \in Lists : FromParallel(l)
DoFromParFail  == vchain = <<>> /\ \E l \in Lists : FromParallelFail(l)
DoAddPar       == \E l \in Lists : (AllowDups \/ \A i \in 1..Len(l) : PosOf(vchain, l[i].a) = 0) /\ AddParallel(l)
DoAddParFail   == \E l \in Lists : AddParallelFail(l)
Next == \/ DoNew \/ DoAdd \/ DoAddFail \/ DoRemove \/ DoRemoveAbsent \/ DoSet \/ DoSetFail \/ DoClear
        \/ DoFromPar \/ DoFromParFail \/ DoAddPar \/ DoAddParFail

Bound == Len(vchain) <= MaxLen

\* sequential and parallel construction agree: all 2-lists, the 3-lists over 3 archives x {0,5}, the menu
Lists3 == Lists \cup {<<x, y>> : x, y \in [a : StdArchives, p : StdPrios]}
          \cup {<<x, y, z>> : x, y, z \in [a : {"A1", "A2", "A3"}, p : {0, 5}]}
ASSUME ParAgree == \A l \in Lists3 : AllExist(StdWorld, l) => ParallelAgrees(StdWorld, l)
\* the three former deviations of the code are refuted on concrete chains (what the check reported before the fixes)
Ch(l) == SeqBuild(<<>>, l)
ASSUME DevRefuted ==
  /\ DevRefutedOn("d1", Ch(<<[a |-> "A4", p |-> 5], [a |-> "A1", p |-> 0], [a |-> "A2", p |-> -1]>>))
  /\ DevRefutedOn("d2", Ch(<<[a |-> "A2", p |-> 5], [a |-> "A1", p |-> 0]>>))
  /\ DevRefutedOn("d3", Ch(<<[a |-> "A3", p |-> 5], [a |-> "A1", p |-> 0]>>))
  \* (round 4) an empty winning version is a version: over a non-empty older one, and as the only one
  /\ DevRefutedOn("d4", Ch(<<[a |-> "A2", p |-> 5], [a |-> "A1", p |-> 0]>>))
  /\ DevRefutedOn("d4", Ch(<<[a |-> "A3", p |-> 0]>>))
\* ... and the chain resolves through empty contents: empty base, a patch whose result is empty, a patch on top of that
ASSUME EmptyIsAVersion ==
  LET c4 == Ch(<<[a |-> "A2", p |-> -1], [a |-> "A1", p |-> -1], [a |-> "A3", p |-> 0], [a |-> "A4", p |-> 5]>>)
      c3 == Ch(<<[a |-> "A1", p |-> -1], [a |-> "A2", p |-> 0], [a |-> "A3", p |-> 5]>>)
  IN  /\ PropRead(c4, StdWorld, "e3") = Res("ok", "x94")
      /\ PropRead(c3, StdWorld, "e3") = Res("ok", EmptyC)
      /\ PropRead(c3, StdWorld, "e1") = Res("ok", "c83")
      /\ PropRead(c4, StdWorld, "e1") = Res("ok", EmptyC)
      /\ PropRead(c4, StdWorld, "e2") = Res("ok", EmptyC)
\* the deviation of SetPriority is real: re-prioritising to the *same* priority can change the winner
ASSUME SetPrioDeviates ==
  LET c0 == SeqBuild(<<>>, <<[a |-> "A1", p |-> 0], [a |-> "A2", p |-> 0]>>)
      c1 == Insert(ChRemove(c0, "A1"), "A1", 0)
  IN  c0[1].a = "A1" /\ c1[1].a = "A2"
=============================================================================
