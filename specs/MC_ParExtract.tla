---------------------------- MODULE MC_ParExtract ----------------------------
(* Stage (A) for C09: every schedule of every call with |req| <= MaxLen names over {a, b, x} (x is not *)
(* in the archive: missing names at every position, duplicates), 1..MaxT workers, unbatched and       *)
(* batch sizes 1..MaxB, skip_errors on and off; then the archive is replaced (generation 2: b is gone, x is new, a has other    *)
(* contents) and a second call is made by the same workers.                                                        *)
(* A call is any interface with explicit arguments (Start), extract_with_config with a configuration whose batch    *)
(* size may be unset (StartCfg: bopt = 0; thresholds scaled to SwitchAt / AdaptAt of the cfg) or a multi-archive      *)
(* helper (StartMulti: the request is the archive list, |req| = 0..MaxLen archives incl. the non power of two 3);    *)
(* the result is collected in place or by a reduce tree in every bracketing.                                         *)
EXTENDS ParExtract
CONSTANTS MaxLen, MaxT, MaxB
Alphabet == {"a", "b", "x"}
MCPresentAt == <<{"a", "b"}, {"a", "x"}>>       \* generation 1, generation 2
Reqs == UNION {[1..n -> Alphabet] : n \in 0..(MaxLen - 1)} \cup [1..MaxLen -> {"a", "x"}]
Init == \/ \E req \in Reqs, t \in 1..MaxT, b \in 0..MaxB, skip \in BOOLEAN : Start(req, t, b, skip)
        \/ \E req \in Reqs, t \in 1..MaxT, bopt \in 0..MaxB, skip \in BOOLEAN : StartCfg(req, t, bopt, skip)
        \/ \E areq \in Reqs, t \in 1..MaxT : StartMulti(areq, t)
DoTake    == \E w \in Workers, k \in Tasks : TakeTask(w, k)
DoSeek    == \E w \in Workers : Seek(w)
DoReadOne == \E w \in Workers : ReadOne(w)
DoFail    == \E w \in Workers : FailFast(w)
DoSkip    == \E k \in Tasks : SkipTask(k)
DoCollect == Collect
DoBeginReduce == BeginReduce
DoMerge   == \E j \in 1..Len(vparts) : Merge(j)
DoCollectReduced == CollectReduced
\* the next call on the replaced archive: the requests that tell generations apart (a name that is gone, one that is new)
Reqs2     == {<<>>, <<"a">>, <<"b">>, <<"x">>, <<"a", "b">>, <<"x", "a">>, <<"b", "a", "x">>}
DoReplace == \E req \in Reqs2 : ReplaceAndCall(req)
Next == DoTake \/ DoSeek \/ DoReadOne \/ DoFail \/ DoSkip \/ DoCollect \/ DoBeginReduce \/ DoMerge \/ DoCollectReduced \/ DoReplace
=============================================================================
