CONSTANTS
  MaxLen = 24
  Faults = {}
INIT TInit
NEXT TNext
POSTCONDITION Accepted
CHECK_DEADLOCK FALSE
