CONSTANT SubmeshStep = 48
CONSTANT AnimBoneRule = "table"
CONSTANT RelocAdvanceAlways = FALSE
CONSTANT CollectSkipRule = "all-empty"
CONSTANT SaveTruncates = TRUE
CONSTANT ViewBatchBytes = 24
INIT Init
NEXT Next
POSTCONDITION Accepted
CHECK_DEADLOCK FALSE
