\* named deviation (must be refuted): embedded view batch count = len/96, as before 1115b56 -> ASSUME ReaderWriterAgree false
CONSTANT SubmeshStep = 48
CONSTANT AnimBoneRule = "table"
CONSTANT RelocAdvanceAlways = FALSE
CONSTANT SaveTruncates = TRUE
CONSTANT ViewBatchBytes = 96
INIT Init
NEXT Next
INVARIANT CursorIsEmitted
INVARIANT SegmentsTile
INVARIANT RegionsInsideFile
INVARIANT RegionsDisjoint
INVARIANT HeaderMatchesEmitted
INVARIANT RoundTrip
INVARIANT RewriteStable
INVARIANT ConvertSame
INVARIANT ConvertKeeps
CHECK_DEADLOCK FALSE
