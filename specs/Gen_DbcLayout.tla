---------------------------- MODULE Gen_DbcLayout ----------------------------
(* Stage (B) for C17: TLC enumerates table shapes (schema x key position/type x record count class   *)
(* x string class) and emits with each shape the numbers the byte-level builder and the walker need  *)
(* (record size, field count, per-field offsets): the specification, not the Rust crate, is the      *)
(* source of the layout.                                                                            *)
EXTENDS DbcLayout, Json, IOUtils

Thorough == IOEnv.VERIF_TIER = "thorough"
Seed     == atoi(IOEnv.VERIF_SEED)

Arrs == {0, 1, 3}
FieldSet == {[ty |-> t, arr |-> a] : t \in Types, a \in Arrs}
FieldSeq == SetToSeq(FieldSet)                                     \* 27 field kinds
NF == Len(FieldSeq)
StrClasses == <<"plain", "dup", "empty", "nonascii", "long">>
Cls(gi) == StrClasses[(gi % 5) + 1]

KeysFor(gs) == {gk \in 0..Len(gs) : KeyOk(gs, gk)}
\* key options of a schema: none, and the first / last legal key field
KeyChoices(gs) == LET gks == KeysFor(gs) \ {0} IN
                  {0} \cup (IF gks = {} THEN {} ELSE {CHOOSE gk \in gks : \A gj \in gks : gk <= gj, CHOOSE gk \in gks : \A gj \in gks : gk >= gj})

NameClsSeq == <<"distinct", "dupAdjacent", "dupApart", "allEqual">>
KeyOrderSeq == <<"random", "ascDense", "ascGaps", "desc", "permSpan", "dupSpan">>
KeyBase(gs, gk) == IF gk > 0 /\ gs[gk].ty = "Int32" THEN -3 ELSE 10          \* Int32 columns cross zero
\* gko = "random": the driver draws keys (duplicates, unsorted); otherwise the key column is the specification's
ShapeK(gs, gk, gn, gc, gko) ==
    LET gh == Len(gs) + gk + gn + FieldCount(gs) + Seed
        gkeys == IF gko = "random" \/ gk = 0 THEN <<>> ELSE KeyColumnOf(gko, gn, KeyBase(gs, gk)) IN
    [kind |-> "dbc", schema |-> gs, key |-> gk, n |-> gn, strcls |-> gc,
     rs |-> RecordSize(gs), fc |-> FieldCount(gs), offs |-> FieldOffsets(gs),
     size0 |-> FileSize(gn, RecordSize(gs), 0),
     routes |-> IF gn <= 128 THEN SetToSeq(RoutesFor(gn)) ELSE <<>>,
     \* the kinds of string reference the input table uses, in the order the builder cycles through them
     refkinds |-> IF gh % 2 = 0 THEN <<"start">> ELSE <<"start", "inside", "nul", "zero", "last", "inside">>,
     \* column names (labels only): class rotates with the shape
     namecls |-> NameClsSeq[((gh \div 2) % 4) + 1], fnames |-> FieldNames(NameClsSeq[((gh \div 2) % 4) + 1], Len(gs)),
     keyorder |-> IF gk = 0 THEN "none" ELSE gko, keys |-> gkeys,
     absent |-> IF gkeys = <<>> THEN <<>> ELSE SetToSeq(AbsentProbes(gkeys, KeyBase(gs, gk)))]
Shape(gs, gk, gn, gc) ==
    ShapeK(gs, gk, gn, gc, IF gk > 0 /\ gn >= 4 /\ gn <= 128 THEN KeyOrderSeq[((Len(gs) + gn + gk + Seed) % 6) + 1] ELSE "random")

One == {<<gf>> : gf \in FieldSet}
Two == {<<gf, gg>> : gf \in FieldSet, gg \in FieldSet}
Idx3 == {gt \in (1..NF) \X (1..NF) \X (1..NF) : TRUE}
Three(gstride) == {<<FieldSeq[gt[1]], FieldSeq[gt[2]], FieldSeq[gt[3]]>> :
                   gt \in {gtt \in Idx3 : gstride = 1 \/ (gtt[1] * 5 + gtt[2] * 3 + gtt[3] + Seed) % gstride = 0}}
\* seed-rotated schemas of 4, 5, 6 and 12 fields: a different sample of the 27^k spaces for every seed
Pseudo(gj, gp) == ((((gj * 7919 + gp * 104729 + (Seed % 1000) * 1299709 + gj * gp * 31) % 1000003) \div 7) % NF) + 1
MidSchema(glen, gj) == [gp \in 1..glen |-> FieldSeq[Pseudo(gj, gp)]]
MidSchemas == {MidSchema(glen, gj) : glen \in {4, 5, 6, 12}, gj \in 1..(IF Thorough THEN 400 ELSE 60)}

\* long schemas: up to 24 fields cycling through all field kinds, with a key of the wanted type put
\* at the wanted position
LongSchema(glen, gj, gkpos, gkty) ==
    [gi \in 1..glen |-> IF gi = gkpos THEN [ty |-> gkty, arr |-> 0] ELSE FieldSeq[((gi * 7 + gj * 5 + Seed) % NF) + 1]]
KeyPos(gl, gq) == CASE gq = 0 -> 0 [] gq = 1 -> 1 [] gq = 2 -> gl \div 2 [] OTHER -> gl      \* absent / first / middle / last
LongShapes == {Shape(LongSchema(gl, gj, KeyPos(gl, gq), gkt), KeyPos(gl, gq), gn, Cls(gj + gl)) :
                 gl \in {8, 24}, gj \in 0..(IF Thorough THEN 5 ELSE 1), gq \in 0..3, gkt \in {"UInt32", "Int32"},
                 gn \in IF Thorough THEN {2, 100, 1000} ELSE {100}}
BigShapes == {Shape(LongSchema(gl, 3, gkp, gkt), gkp, 10000, Cls(gl + gkp)) :
                 gl \in IF Thorough THEN {3, 8, 24} ELSE {6}, gkp \in IF Thorough THEN {1, 3} ELSE {2}, gkt \in {"UInt32", "Int32"}}

\* key-order slice: every order class x table sizes 4, 5, 9, 100 x key first / middle / last x both key types
KeyShapes == {ShapeK(LongSchema(6, gj, gkp, gkt), gkp, gn, Cls(gj + gkp + gn), gko) :
                gj \in 0..1, gkp \in {1, 3, 6}, gkt \in {"UInt32", "Int32"}, gn \in {4, 5, 9, 100}, gko \in KeyOrders}

Small(gschemas, gns) == UNION {{Shape(gs, gk, gn, Cls(Len(gs) + gk + gn + FieldCount(gs))) : gk \in KeyChoices(gs), gn \in gns} : gs \in gschemas}

Shapes == Small(One, {0, 1, 2, 100})
          \cup Small(Two, IF Thorough THEN {0, 2, 3} ELSE {2})
          \cup Small(Three(IF Thorough THEN 1 ELSE 41), {2})
          \cup Small(MidSchemas, {3})
          \cup LongShapes \cup BigShapes \cup KeyShapes

Cases == SetToSeq(Shapes)
GInit == vsch = 0 /\ vkey = 0 /\ vrecs = 0 /\ vlen = 0 /\ vhdr = 0 /\ vout = 0 /\ vblock = 0 /\ vrefs = 0 /\ vpc = "gen" /\ vdev = 0 /\ vread = 0 /\ vkmap = 0
GNext == UNCHANGED dvars
ASSUME ndJsonSerialize(IOEnv.CASES, Cases)
ASSUME PrintT(<<"GENERATED", Len(Cases)>>)
=============================================================================
