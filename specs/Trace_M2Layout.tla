--------------------------- MODULE Trace_M2Layout ---------------------------
(* Stage (D) for C13: TLC validates the behaviour recorded by harness/props/c13 against M2Layout.          *)
(*                                                                                                         *)
(* Layer R (verdict): per-section content tokens of Write-input vs Parse-output; Rewrite bytes = Write     *)
(* bytes; Convert(v,v) keeps every token and the bytes; Convert(a,b) keeps the cross-version token of      *)
(* every section in Representable(a,b), in memory and after write+parse in version b.                      *)
(* Layer L: the arrays the independent walker found (using the header positions / element sizes this spec  *)
(* emitted in stage B) are replayed against the running-offset machine: inside the file and pairwise       *)
(* disjoint = verdict (LAYOUT); contiguity / order / counts = DRIFT (diagnostic only).                     *)
(*                                                                                                         *)
(* A rejected event prints one line <<"BAD", tl, "conjunct section">> per failing (conjunct, section), so    *)
(* that every section has its own finding and signature.  A byte-unstable rewrite behind a Parse that       *)
(* already differed is attributed to exactly the sections that differed.                                    *)
EXTENDS M2Layout, Json, IOUtils, TLCExt

Rec == ndJsonDeserialize(IOEnv.TRACE)
VARIABLES tl,      \* position in the trace
          tcase,   \* the Reset event of the current behaviour
          twr,     \* the Write event of the current behaviour ([res |-> "none"] before it)
          tph,     \* "reset" | "written" | "parsed" | "dead"
          tpm      \* the sections in which Parse of this behaviour differed from the input
tvars == <<tl, tcase, twr, tph, tpm>>
NoWrite == [res |-> "none"]

\* A rejection is a set of <<conjunct, section>> pairs; each pair is printed as its own short line
\* <<"BAD", tl, "conjunct section">> (TLC wraps long values, so never one long string).  Diagnostics use DRIFT.
Item(key, set) == {<<key, sec>> : sec \in set}
Flag(key, cond) == IF cond THEN {<<key, "-">>} ELSE {}
Say(kind, pairs) == \A pr \in pairs : PrintT(<<kind, tl, pr[1] \o " " \o pr[2]>>)
IsErr(res) == res \notin {"ok", "panic", "hang", "hugealloc", "skipped"}

Names == DOMAIN twr.secs
\* full tokens differ / cross-version tokens differ
DiffT(secs, among) == {sec \in among : secs[sec][1] # twr.secs[sec][1]}
DiffX(secs, among) == {sec \in among : secs[sec][2] # twr.secs[sec][2]}
\* token names of sections both versions can represent (views = embedded skin profiles only up to TBC)
RepNames(va, vb) == {sec \in Names : sec \notin {"views", "views_submeshes"} \/ "views" \in Representable(va, vb)}
\* skin / anim conversions (SkinFile::convert, AnimFile::convert): the content every layout can hold, and when the
\* conversion is the identity (old skin layout up to WotLK, new layout from Cataclysm; legacy .anim up to WoD, MAOF from Legion)
OldSkinVers == {"Vanilla", "TBC", "WotLK"}
ContentNames == CASE tcase.kind = "skin" -> {"indices", "triangles", "bone_indices", "submeshes", "batches"}
                  [] tcase.kind = "anim" -> {"sections", "nsections", "ids"}
                  [] OTHER -> Names
SameConv(e) == CASE tcase.kind = "skin" -> (tcase.fmt = "skin_old" /\ e.to \in OldSkinVers) \/ (tcase.fmt = "skin_new" /\ e.to = e.from /\ e.to \notin OldSkinVers)
                 [] OTHER -> e.from = e.to

\* ---- layer L ------------------------------------------------------------------------------------------
Pop(arrs) == {j \in 1..Len(arrs) : arrs[j][2] > 0}
Lo(a) == a[3]
Hi(a) == a[3] + a[2] * a[4]
Outside(e) == {e.arrs[j][1] : j \in {q \in Pop(e.arrs) : Lo(e.arrs[q]) < e.hsize \/ Hi(e.arrs[q]) > e.len \/ Hi(e.arrs[q]) < 0}}
Overlap(e) == {e.arrs[j][1] : j \in {q \in Pop(e.arrs) : \E p \in Pop(e.arrs) : p # q /\ Lo(e.arrs[q]) < Hi(e.arrs[p]) /\ Lo(e.arrs[p]) < Hi(e.arrs[q])}}
\* the writer's order: each populated array starts at or behind the end of the previous one (the machine's cursor)
OutOfOrder(e) == LET pp == SetToSortSeq(Pop(e.arrs), <) IN
                 {e.arrs[pp[j]][1] : j \in {q \in 2..Len(pp) : Lo(e.arrs[pp[q]]) < Hi(e.arrs[pp[q - 1]])}}
FirstNotAtHeader(e) == LET pp == SetToSortSeq(Pop(e.arrs), <) IN Len(pp) > 0 /\ Lo(e.arrs[pp[1]]) # e.hsize
HeaderSizeDrift(e) == tcase.kind = "m2" /\ e.hsize # HeaderSize("m2", tcase.vn)

\* ---- events -------------------------------------------------------------------------------------------
T_Reset(e) == /\ e.ev = "Reset"
              /\ tcase' = e /\ twr' = NoWrite /\ tph' = "reset" /\ tpm' = {}

T_Write(e) == /\ e.ev = "Write" /\ tph = "reset"
              /\ twr' = e /\ UNCHANGED <<tcase, tpm>>
              /\ IF e.res = "ok" THEN tph' = "written"
                 ELSE IF IsErr(e.res) THEN tph' = "dead"                  \* the writer rejected the object: allowed
                 ELSE Say("BAD", {<<"write-res", e.res>>}) /\ tph' = "dead"

T_Arrays(e) == /\ e.ev = "Arrays" /\ tph = "written"
               /\ UNCHANGED <<tcase, twr, tph, tpm>>
               /\ LET why == Item("layout-outside", Outside(e)) \cup Item("layout-overlap", Overlap(e))
                      dr  == Item("order", OutOfOrder(e)) \cup Flag("first-not-at-header", FirstNotAtHeader(e))
                             \cup Flag("header-size", HeaderSizeDrift(e))
                  IN Say("BAD", why) /\ Say("DRIFT", dr)

\* save(path) over every pre-state of the destination: the file is exactly the bytes of write (M2Layout!SaveToPath)
T_Save(e) == /\ e.ev = "Save" /\ tph = "written"
             /\ UNCHANGED <<tcase, twr, tph, tpm>>
             /\ IF e.res = "ok" /\ e.tok = twr.tok /\ e.len = twr.len /\ e.len = SaveToPath(twr.len, e.prelen) THEN TRUE
                ELSE Say("BAD", {<<IF e.res = "ok" THEN "save-bytes" ELSE "save-res", e.pre>>})

T_Parse(e) == /\ e.ev = "Parse" /\ tph = "written"
              /\ UNCHANGED <<tcase, twr>>
              /\ IF e.res = "ok"
                 THEN /\ tph' = "parsed"
                      /\ tpm' = DiffT(e.secs, Names)
                      /\ Say("BAD", Item("parse", DiffT(e.secs, Names)))
                 ELSE /\ tph' = "dead" /\ tpm' = {"-"}
                      /\ Say("BAD", {<<"parse-res", e.res>>})

T_Rewrite(e) == /\ e.ev = "Rewrite" /\ tph = "parsed"
                /\ UNCHANGED <<tcase, twr, tph, tpm>>
                /\ IF e.res = "ok" /\ e.tok = twr.tok /\ e.len = twr.len THEN TRUE
                   ELSE Say("BAD", IF e.res # "ok" THEN {<<"rewrite-res", e.res>>}
                                   ELSE IF tpm # {} THEN Item("rewrite-after-parse-mismatch", tpm) ELSE {<<"rewrite", "bytes">>})

T_Convert(e) == /\ e.ev = "Convert" /\ tph \in {"written", "parsed", "dead"} /\ twr.res = "ok" /\ e.from = tcase.ver
                /\ UNCHANGED <<tcase, twr, tph, tpm>>
                /\ LET samev == SameConv(e)
                       \* skins: inside one layout family the family's header scalars are representable too (hdr_scalars)
                       rep == IF tcase.kind = "m2" THEN RepNames(e.from, e.to)
                              ELSE IF tcase.kind = "skin" /\ ((tcase.fmt = "skin_new") = (e.to \notin OldSkinVers)) /\ "hdr_scalars" \in Names
                                   THEN ContentNames \cup {"hdr_scalars"} ELSE ContentNames
                       why == IF e.res # "ok" THEN {<<"convert-res", e.res>>}
                              ELSE (IF samev THEN Item("convert-same", DiffT(e.secs, Names)) ELSE Item("convert", DiffX(e.secs, rep)))
                                   \* the converted model carries the requested version: end of the (multi-step) path of M2Layout
                                   \cup Flag("convert-version", tcase.kind = "m2" /\ e.rver # VerNum(FinalVersion(e.from, e.to)))
                                   \* header-level counts of the converted model, in memory and after write+parse (M2Layout!ExpectedProfiles)
                                   \cup Flag("convert-header-counts", tcase.kind = "m2" /\ VerNum(e.to) > 263
                                               /\ e.rprof # ExpectedProfiles(e.from, e.to, tcase.shape.views, e.sprof))
                                   \cup Flag("convert-parse-header-counts", tcase.kind = "m2" /\ e.pres = "ok"
                                               /\ (IF VerNum(e.to) > 263 THEN e.pprof # ExpectedProfiles(e.from, e.to, tcase.shape.views, e.sprof)
                                                                        ELSE e.pviews # ExpectedViewsAfterParse(e.from, e.to, tcase.shape.views)))
                                   \cup Flag("convert-parse-version", tcase.kind = "m2" /\ e.pres = "ok" /\ e.pver # VerNum(e.to))
                                   \cup (IF e.wres # "ok" THEN (IF IsErr(e.wres) /\ ~samev THEN {} ELSE {<<"convert-write-res", e.wres>>})
                                       ELSE (IF samev THEN Flag("convert-same-bytes", e.wtok # twr.tok \/ e.wlen # twr.len) ELSE {})
                                            \cup (IF e.pres # "ok" THEN {<<"convert-parse-res", e.pres>>}
                                                ELSE IF samev THEN {} ELSE Item("convert-parse", DiffX(e.psecs, rep))))
                   IN Say("BAD", why)

Init == /\ tl = 1 /\ tcase = [kind |-> "none"] /\ twr = NoWrite /\ tph = "none" /\ tpm = {}
        /\ mfmt = "m2" /\ mver = "WotLK" /\ mshape = ZeroFn /\ mtail = ZeroFn /\ mpc = "start" /\ msec = 1
        /\ mcur = 0 /\ memit = 0 /\ mhdr = NoHdr /\ mtrk = ZeroFn /\ mfile = << >> /\ mparsed = NoParse /\ mgen = 0 /\ mfirst = 0
Next == /\ tl <= Len(Rec)
        /\ tl' = tl + 1
        /\ UNCHANGED mvars
        /\ LET e == Rec[tl] IN T_Reset(e) \/ T_Write(e) \/ T_Arrays(e) \/ T_Save(e) \/ T_Parse(e) \/ T_Rewrite(e) \/ T_Convert(e)

Accepted == LET d == TLCGet("stats").diameter IN
            IF d - 1 = Len(Rec) THEN PrintT(<<"CONSUMED", Len(Rec)>>) ELSE Print(<<"TRACE_STUCK_AT", d>>, FALSE)
=============================================================================
