//! Dispatch over the per-format modules. Each module provides
//!   seed_names(thorough) -> Vec<String>   stable names of its seed files (quick: about 2)
//!   build(name) -> Seed                   valid file + field inventory (deterministic, cheap)
//!   run(runner, bytes, aux)               call every public entry point of observe_at on `bytes`
use crate::seed::{Aux, Seed};
use crate::worker::Runner;

pub const FORMATS: &[&str] = &["mpq", "ptch", "m2", "skin", "anim", "adt", "wmo", "blp", "dbc", "wdt", "wdl"];

pub fn seed_names(fmt: &str, thorough: bool) -> Vec<String> {
    match fmt {
        "mpq" => crate::fmt_mpq::seed_names(thorough),
        "ptch" => crate::fmt_ptch::seed_names(thorough),
        "m2" => crate::fmt_m2::seed_names(thorough),
        "skin" => crate::fmt_skin::seed_names(thorough),
        "anim" => crate::fmt_anim::seed_names(thorough),
        "adt" => crate::fmt_adt::seed_names(thorough),
        "wmo" => crate::fmt_wmo::seed_names(thorough),
        "blp" => crate::fmt_blp::seed_names(thorough),
        "dbc" => crate::fmt_dbc::seed_names(thorough),
        "wdt" => crate::fmt_wdt::seed_names(thorough),
        "wdl" => crate::fmt_wdl::seed_names(thorough),
        _ => wverif_common::tool_error(&format!("unknown format {fmt}")),
    }
}

pub fn build(fmt: &str, name: &str) -> Seed {
    let s = match fmt {
        "mpq" => crate::fmt_mpq::build(name),
        "ptch" => crate::fmt_ptch::build(name),
        "m2" => crate::fmt_m2::build(name),
        "skin" => crate::fmt_skin::build(name),
        "anim" => crate::fmt_anim::build(name),
        "adt" => crate::fmt_adt::build(name),
        "wmo" => crate::fmt_wmo::build(name),
        "blp" => crate::fmt_blp::build(name),
        "dbc" => crate::fmt_dbc::build(name),
        "wdt" => crate::fmt_wdt::build(name),
        "wdl" => crate::fmt_wdl::build(name),
        _ => wverif_common::tool_error(&format!("unknown format {fmt}")),
    };
    assert_eq!(s.format, fmt);
    s
}

pub fn run(fmt: &str, r: &mut Runner, bytes: &[u8], aux: &Aux) {
    match fmt {
        "mpq" => crate::fmt_mpq::run(r, bytes, aux),
        "ptch" => crate::fmt_ptch::run(r, bytes, aux),
        "m2" => crate::fmt_m2::run(r, bytes, aux),
        "skin" => crate::fmt_skin::run(r, bytes, aux),
        "anim" => crate::fmt_anim::run(r, bytes, aux),
        "adt" => crate::fmt_adt::run(r, bytes, aux),
        "wmo" => crate::fmt_wmo::run(r, bytes, aux),
        "blp" => crate::fmt_blp::run(r, bytes, aux),
        "dbc" => crate::fmt_dbc::run(r, bytes, aux),
        "wdt" => crate::fmt_wdt::run(r, bytes, aux),
        "wdl" => crate::fmt_wdl::run(r, bytes, aux),
        _ => wverif_common::tool_error(&format!("unknown format {fmt}")),
    }
}
