---------------------------- MODULE Gen_PatchChain ----------------------------
(* Stage (B) for C08.  TLC explores the chain model breadth-first; states are identified by the   *)
(* chain alone (VIEW), so every *transition* of the reachable graph is met exactly once, when its  *)
(* source state is expanded.  For every (state, operation) pair one case is printed: the history   *)
(* that first reached the state (`pre`) and the operation (`op`).  The driver replays pre . op on  *)
(* a real PatchChain built from real archives and sweeps all names afterwards: transition coverage *)
(* of the model, incl. the failing operations.                                                     *)
(*   GEN_MAXLEN  states with at most that many entries are expanded                                *)
(*   GEN_DUPS    "1": an archive may be added while it is already in the chain                     *)
(* In simulation mode (GEN_WALK = depth) random long histories are printed instead (kind "walk").  *)
EXTENDS PatchWorld, Json, IOUtils

VARIABLES vhist, vdone
GenMaxLen == atoi(IOEnv.GEN_MAXLEN)
Dups      == IOEnv.GEN_DUPS = "1"
WalkDepth == atoi(IOEnv.GEN_WALK)            \* 0 = enumeration mode

Arch  == StdArchives \cup {Bogus}
Op(k, a, p, l) == [op |-> k, a |-> a, p |-> p, l |-> l]
E(a, p) == [a |-> a, p |-> p]
\* argument lists for the parallel constructors: ties in both orders, descending / ascending input,
\* negative priority, a duplicate, a missing file in first / middle position, the empty list
ParLists == { <<>>,
              <<E("A1", 0), E("A2", 0)>>, <<E("A2", 0), E("A1", 0)>>,
              <<E("A1", -1), E("A2", 0), E("A3", 5)>>, <<E("A3", 5), E("A4", 5), E("A1", 5), E("A2", 5)>>,
              <<E("A4", 0), E("A3", 5), E("A2", 0), E("A1", 5)>>,
              <<E("A2", 0), E("A4", -1), E("A2", 0)>>,
              <<E("AX", 0), E("A1", 5)>>, <<E("A1", 0), E("AX", 5), E("A3", 0)>> }

Emit(o) == IF WalkDepth = 0
           THEN PrintT("CASE " \o ToJson([kind |-> "hist", pre |-> vhist, op |-> o]))
           ELSE TRUE
Do(o, A) == /\ ~vdone /\ A /\ Emit(o) /\ vhist' = Append(vhist, o) /\ UNCHANGED vdone

DoAdd     == \E a \in Arch, p \in StdPrios :
               /\ (Dups \/ PosOf(vchain, a) = 0)
               /\ (WalkDepth > 0 => Len(vchain) <= GenMaxLen)
               /\ Do(Op("add", a, p, <<>>), AddArchive(a, p) \/ AddArchiveFail(a))
DoSet     == \E a \in Arch, p \in StdPrios : Do(Op("set", a, p, <<>>), SetPriority(a, p) \/ SetPriorityFail(a))
DoRemove  == \E a \in Arch : Do(Op("remove", a, 0, <<>>), RemoveArchive(a) \/ RemoveAbsent(a))
DoClear   == Do(Op("clear", "", 0, <<>>), Clear)
DoFromPar == \E l \in ParLists : Do(Op("fromPar", "", 0, l), FromParallel(l) \/ FromParallelFail(l))
DoAddPar  == \E l \in ParLists : /\ (WalkDepth > 0 => Len(vchain) + Len(l) <= GenMaxLen + 2)
                                 /\ (Dups \/ \A i \in 1..Len(l) : PosOf(vchain, l[i].a) = 0)
                                 /\ Do(Op("addPar", "", 0, l), AddParallel(l) \/ AddParallelFail(l))
Step == DoAdd \/ DoSet \/ DoRemove \/ DoClear \/ DoFromPar \/ DoAddPar

EmitWalk == /\ ~vdone /\ WalkDepth > 0 /\ Len(vhist) >= WalkDepth
            /\ PrintT("CASE " \o ToJson([kind |-> "walk", ops |-> vhist]))
            /\ vdone' = TRUE /\ UNCHANGED <<vchain, vmap, vhist>>

Init == vchain = <<>> /\ vmap = [n \in NamesOf(StdWorld) |-> 0] /\ vhist = <<>> /\ vdone = FALSE
Next == IF WalkDepth > 0 /\ Len(vhist) >= WalkDepth THEN EmitWalk
        ELSE ((WalkDepth > 0 \/ Len(vchain) <= GenMaxLen) /\ Step)
GView == vchain

ASSUME PrintT("CASE " \o ToJson([kind |-> "world", names |-> WorldNames, archives |-> StdWorld, fmt |-> StdFormat]))
=============================================================================
