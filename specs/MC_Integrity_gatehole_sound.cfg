CONSTANTS
  AsCoded = FALSE
  GateHole = TRUE
INIT IInit
NEXT INext
CHECK_DEADLOCK FALSE
INVARIANT ITypeOK
INVARIANT Sound
