CONSTANT SubmeshStep = 48
CONSTANT AnimBoneRule = "table"
CONSTANT RelocAdvanceAlways = FALSE
CONSTANT CollectSkipRule = "all-empty"
CONSTANT SaveTruncates = TRUE
CONSTANT ViewBatchBytes = 24
INIT Init
NEXT Next
INVARIANT CursorIsEmitted
INVARIANT SegmentsTile
INVARIANT RegionsInsideFile
INVARIANT RegionsDisjoint
INVARIANT HeaderMatchesEmitted
INVARIANT RoundTrip
INVARIANT RewriteStable
INVARIANT ConvertSame
INVARIANT ConvertKeeps
CHECK_DEADLOCK FALSE
