------------------------------ MODULE MC_Codec ------------------------------
(* Stage (A) for C03: every selector 0..255 x boundary lengths x abstract pipeline-output lengths      *)
(* (incl. the boundaries of the store-raw rule n-2, n-1, n and of the 1000:1 limit n/1001, n/1000,     *)
(* n/999).  TLC checks never-expand, prefix-iff-shrunk, "supported selectors succeed",                 *)
(* "own output accepted" outside the named region BombHeuristicRejectsOwnOutput, and "decode is the     *)
(* reverse of encode" outside the named dispatch deviations, which it also shows to be exact.          *)
EXTENDS Codec

MCLens == {0, 1, 2, 3, 4, 5, 127, 128, 129, 130, 255, 256, 257, 511, 512, 513, 4095, 4096, 4097,
           65535, 65536, 65537, 131072, 1048576, 2097152}
\* abstract pipeline output lengths; codecs emit at least one byte (assumption A1 of the check)
MCOut(n) == {c \in {1, 2, 20, 44, 150, n \div 1001, n \div 1000, n \div 999, n - 2, n - 1, n, n + 8} : c >= 1}

\* the full selector x length x output product with no history, and the supported selectors with every history volume
MCInit == \/ CInitWithH(Selectors, MCLens, MCOut, {0})
          \/ CInitWithH(LosslessSingles \cup AdpcmSelectors, MCLens, MCOut, HistVolumes \ {0})
NegShared == FALSE
MCNext == CNext

ASSUME SupportedInvert
ASSUME DeviationExact
\* the deviations, spelled out, so that a change of the model that widens them is noticed
ASSUME {m \in Selectors : Supported(m) /\ ~Inverts(m)} = {PKWARE, ADPCM_MONO + PKWARE, ADPCM_STEREO + PKWARE}
ASSUME \A m \in LosslessSingles : CompressPlan(m).ok /\ (Inverts(m) \/ m = PKWARE)
ASSUME DecodeClass(PKWARE) = "err" /\ DecodeClass(ADPCM_MONO + BZIP2) = "ok" /\ DecodeClass(ZLIB) = "ok"
\* the region where the limits refuse the compressor's own output is exactly n div d > 1000 for n <= 2 MiB:
\* the adaptive table never binds earlier
ASSUME \A m \in {ZLIB, BZIP2, SPARSE, PKWARE, LZMA, 66, 144, 160} : \A n \in MCLens : \A d \in MCOut(n) :
          (PreCheck(m, d, n) # "ok") <=> BombHeuristicRejectsOwnOutput(d, n)
=============================================================================
