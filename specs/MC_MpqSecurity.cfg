CONSTANTS
  DevWrapRecord = FALSE
  DevMulOverflow = FALSE
  DevAMonZero = FALSE
INIT Init
NEXT Next
INVARIANTS InvMonBound InvCheckAgree
PROPERTIES PropGrow PropSticky
CHECK_DEADLOCK FALSE
