CONSTANTS
  Threads = {t1}
  ArchFiles = {"A", "B"}
  Names = {"f0", "f1", "f2", "f3", "g0", "g1", "g2", "g3", "g4", "g5", "g6", "g7", "g8", "g9", "ga", "gb", "n259", "n260", "n261", "n1024"}
  Dev = {}
  Budget = 0
  CallFns = {"OpenArchive", "CreateArchive", "CloseArchive", "OpenFileEx", "CloseFile", "ReadFile", "SetFilePointer", "GetFileSize", "GetFileName", "GetFileInfo", "HasFile", "VerifyFile", "EnumFiles", "GetArchiveName", "ExtractFile", "AddFile", "RemoveFile", "RenameFile", "FlushArchive", "VerifyArchive", "FindFirst", "FindNext", "FindClose"}
  MaxOpen = 12
  HashCap = 16
  Rich = TRUE
  PreOpen = 5
CONSTANT NextId <- MCNextId
INIT GInit
NEXT GNext
CHECK_DEADLOCK FALSE
