//! PTCH / BSD0 *encoder* used to manufacture patch entries (never used as an oracle: every
//! patch that is applied is re-evaluated by TLC with the reference semantics of specs/Ptch.tla
//! on the logged bytes).
use wverif_common::md5_raw;

pub const PTCH: u32 = 0x4843_5450;
pub const MD5_: u32 = 0x5f35_444d;
pub const XFRM: u32 = 0x4d52_4658;
pub const COPY: u32 = 0x5950_4f43;
pub const BSD0: u32 = 0x3044_5342;
pub const BSDIFF40: u64 = 0x3034_4646_4944_5342;

/// One bsdiff control triple in the MPQ dialect: add length, copy-from-extra length, and a
/// sign-magnitude 32-bit seek on the old file.
#[derive(Clone, Copy, Debug)]
pub struct Ctrl {
    pub add: u32,
    pub mov: u32,
    pub seek: i64,
}

pub fn seek_raw(seek: i64) -> u32 {
    if seek < 0 {
        0x8000_0000u32 | ((-seek) as u32 & 0x7FFF_FFFF)
    } else {
        seek as u32
    }
}

/// RLE encoder matching the decoder described at zezula.net/en/mpq/patchfiles.html:
/// `0x80|n-1` + n literal bytes (n <= 128), `n-1` = n zero bytes (n <= 128).
pub fn rle_encode(b: &[u8]) -> Vec<u8> {
    let mut o = Vec::new();
    let mut i = 0;
    while i < b.len() {
        if b[i] == 0 {
            let mut n = 0;
            while i + n < b.len() && b[i + n] == 0 && n < 128 {
                n += 1;
            }
            o.push((n - 1) as u8);
            i += n;
        } else {
            let mut n = 0;
            while i + n < b.len() && b[i + n] != 0 && n < 128 {
                n += 1;
            }
            o.push(0x80 | (n - 1) as u8);
            o.extend_from_slice(&b[i..i + n]);
            i += n;
        }
    }
    o
}

/// Raw (un-RLE'd) bsdiff40 image: header, control block, data block, extra block.
pub fn bsdiff_image(ctrl_raw: &[[u32; 3]], data: &[u8], extra: &[u8], new_size: u64) -> Vec<u8> {
    let mut o = Vec::new();
    o.extend_from_slice(&BSDIFF40.to_le_bytes());
    o.extend_from_slice(&((ctrl_raw.len() * 12) as u64).to_le_bytes());
    o.extend_from_slice(&(data.len() as u64).to_le_bytes());
    o.extend_from_slice(&new_size.to_le_bytes());
    for c in ctrl_raw {
        for w in c {
            o.extend_from_slice(&w.to_le_bytes());
        }
    }
    o.extend_from_slice(data);
    o.extend_from_slice(extra);
    o
}

pub struct Header {
    pub patch_data_size: u32,
    pub size_before: u32,
    pub size_after: u32,
    pub md5_before: [u8; 16],
    pub md5_after: [u8; 16],
    pub xfrm_block_size: u32,
    pub kind: u32,
}

pub fn ptch_file(h: &Header, payload: &[u8]) -> Vec<u8> {
    let mut o = Vec::new();
    for w in [PTCH, h.patch_data_size, h.size_before, h.size_after, MD5_, 40] {
        o.extend_from_slice(&w.to_le_bytes());
    }
    o.extend_from_slice(&h.md5_before);
    o.extend_from_slice(&h.md5_after);
    for w in [XFRM, h.xfrm_block_size, h.kind] {
        o.extend_from_slice(&w.to_le_bytes());
    }
    o.extend_from_slice(payload);
    o
}

/// Encoder-side application of a control sequence (to learn which new content the plan produces;
/// the reference that *judges* is Ptch.tla). Offsets outside the old file contribute nothing.
pub fn encode_apply(old: &[u8], ctrl: &[Ctrl], data: &[u8], extra: &[u8]) -> Vec<u8> {
    let mut new = Vec::new();
    let (mut op, mut dp, mut ep) = (0i64, 0usize, 0usize);
    for c in ctrl {
        for j in 0..c.add as usize {
            let d = data.get(dp + j).copied().unwrap_or(0);
            let oi = op + j as i64;
            let ob = if oi >= 0 && (oi as usize) < old.len() { old[oi as usize] } else { 0 };
            new.push(d.wrapping_add(ob));
        }
        dp += c.add as usize;
        op += c.add as i64;
        for j in 0..c.mov as usize {
            new.push(extra.get(ep + j).copied().unwrap_or(0));
        }
        ep += c.mov as usize;
        op += c.seek;
    }
    new
}

/// A complete well-formed BSD0 PTCH file turning `old` into the content determined by
/// (ctrl, data, extra). Returns (ptch bytes, new content).
pub fn make_bsd0(old: &[u8], ctrl: &[Ctrl], data: &[u8], extra: &[u8]) -> (Vec<u8>, Vec<u8>) {
    let new = encode_apply(old, ctrl, data, extra);
    let raw: Vec<[u32; 3]> = ctrl.iter().map(|c| [c.add, c.mov, seek_raw(c.seek)]).collect();
    let img = bsdiff_image(&raw, data, extra, new.len() as u64);
    let mut payload = (img.len() as u32).to_le_bytes().to_vec();
    payload.extend_from_slice(&rle_encode(&img));
    let h = Header {
        patch_data_size: img.len() as u32,
        size_before: old.len() as u32,
        size_after: new.len() as u32,
        md5_before: md5_raw(old),
        md5_after: md5_raw(&new),
        xfrm_block_size: 12 + payload.len() as u32,
        kind: BSD0,
    };
    (ptch_file(&h, &payload), new)
}

pub fn make_copy(old: &[u8], new: &[u8]) -> Vec<u8> {
    let h = Header {
        patch_data_size: new.len() as u32,
        size_before: old.len() as u32,
        size_after: new.len() as u32,
        md5_before: md5_raw(old),
        md5_after: md5_raw(new),
        xfrm_block_size: 12 + new.len() as u32,
        kind: COPY,
    };
    ptch_file(&h, new)
}

/// The bytes stored in an MPQ for a patch entry: TPatchInfo (28 bytes) followed by the PTCH file.
pub fn mpq_patch_entry(ptch: &[u8]) -> Vec<u8> {
    let mut o = Vec::new();
    o.extend_from_slice(&28u32.to_le_bytes());
    o.extend_from_slice(&0u32.to_le_bytes());
    o.extend_from_slice(&(ptch.len() as u32).to_le_bytes());
    o.extend_from_slice(&md5_raw(ptch));
    o.extend_from_slice(ptch);
    o
}
