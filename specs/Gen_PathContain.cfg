CONSTANTS
  Guard = TRUE
  Plat = "posix"
INIT GInit
NEXT GNext
CHECK_DEADLOCK FALSE
