"""C12 -- writing an archive (build / compact) is all-or-nothing at the destination path."""
import json
import re

from vlib import core

META = {
    "level": "fault_enumeration",
    "level_text": "AtomicWrite.tla models the destination directory at system-call level (objects, directory entries, descriptors) and "
                  "the programs of ArchiveBuilder::build, MutableArchive::compact, rebuild_archive and OpenOptions::create / SFileCreateArchive as coded; TLC checks exhaustively that under process death "
                  "at every point and every choice of <= 3 failing system calls the destination is the previous file or a complete new archive, "
                  "and refutes the two mutant designs (direct write, copy+remove) and the code's own deviation (compact skips unreadable files). "
                  "Binding: the real worker process is run under strace for V1..V4 x dest pre-states {absent, archive, edited in place, 0-byte placeholder, garbage, "
                  "read-only, directory, hard-linked elsewhere (nlink 2), symlink to a file} x operations {build, compact (clean / dirty session), rebuild_archive, OpenOptions::create, SFileCreateArchive}; "
                  "SIGKILL at the entry of every system call of the operation, EIO at every system call, ENOSPC (one-shot and persistent) at every "
                  "space-consuming call, RLIMIT_FSIZE limits, and (EIO, then kill/EIO on the error path) pairs are injected; every strace log is "
                  "translated into system-call events and replayed by TLC on the FS layer of the specification together with what the destination "
                  "held afterwards (reopened with the library, content tokens); Trace_AtomicWrite decides.",
    "level_note": "Process death and injected errno only (no power loss / page-cache model: build() issues no fsync, which the property does not ask for). "
                  "strace delivers SIGKILL at system-call entry (the call does not execute) and fails a call without executing it. Pairs of faults on the same "
                  "system-call name cannot be expressed with strace and are skipped. Single-threaded worker assumed (checked: a second pid is a tool error).",
    "technique": "TLA+ specification of the file-system protocol (AtomicWrite.tla) model-checked with TLC; fault enumeration on the real process "
                 "with strace injection; trace validation of the system-call logs and post-states against the specification",
    "design_ref": "DESIGN.md section 5, C12; appendix A.3",
    "crates": ["c12"],
}

NEGATIVE = [
    # cfg suffix, invariant TLC must refute, meaning
    ("_direct", "DestPrevOrNew", "mutant design: File::create(dest) and write in place"),
    ("_placeholder", "DestPrevOrNew", "mutant design: an empty file at dest is treated as a placeholder and filled in place"),
    ("_rmonerr", "DestPrevOrNew", "mutant design: rebuild removes the target path when the build fails"),
    ("_probe", "DestPrevOrNew", "mutant design: create() probes writability with File::create(dest) before building"),
    ("_keepinode", "DestPrevOrNew", "mutant design: compact of a hard-linked archive copies the temp over dest instead of renaming"),
    ("_rebuildskip", "DestPrevOrNew", "deviation (the code before 9d57560): rebuild skips a source file whose read fails and still replaces the target"),
    ("_copy", "DestPrevOrNew", "mutant design: persist replaced by copy + remove"),
    ("_ascoded", "DestPrevOrNew", "deviation: compact() skips a source file whose read fails (I/O errors until 131a1c3; non-I/O errors still)"),
    ("_dirtyflush", "DestPrevOrNew", "code deviation: compact() of a session with pending changes first flushes them in place into dest"),
    ("_stricterr", "ErrLeavesPrev", "code deviation: compact() can return Err after its rename (reopen fails)"),
]


def sig(b):
    r = b.get("reset") or {}
    why = str(b.get("why", "")).strip('"')
    rec = b.get("rec") or {}
    fsys = r.get("fsys", "")
    fam = "read" if fsys in ("read", "pread64", "readv", "lseek", "statx", "fstat", "newfstatat") else fsys
    if rec.get("ev") in ("Write", "Open", "Trunc"):
        # P3 is about the system-call pattern of the operation, whatever fault (if any) the run carried
        return {"op": r.get("op"), "fkind": "-", "fsys_family": "-", "ev": rec.get("ev"), "why": why, "fault_phase": "-", "exit": "-"}
    return {"op": r.get("op"), "fkind": r.get("fkind"), "fsys_family": fam, "ev": rec.get("ev"), "why": why,
            "fault_phase": b.get("fault_phase", "?"), "exit": b.get("exit", "?")}


def annotate(bad, trace):
    """Class attributes of a rejected run, computed from its own events: in which phase of the operation the
    first failed system call occurred (source_read = a read/lseek failed before the first byte of the new
    archive was written; write = after; none) and how the process ended."""
    if not bad:
        return
    lines = open(trace).read().splitlines()
    for b in bad:
        evs = [json.loads(x) for x in lines[b["reset_line"] - 1:b["line"]]]
        phase, wrote, ext = "none", False, "?"
        for e in evs:
            if e["ev"] == "Write" and e.get("res") == "ok" and e.get("n", 0) > 0:
                wrote = True
            if phase == "none" and (e["ev"] == "Fail" or e.get("res") == "err"):
                if e["ev"] == "Fail" and e["sys"] in ("read", "pread64", "readv", "lseek", "statx", "fstat", "newfstatat") and not wrote:
                    phase = "source_read"
                else:
                    phase = "write_phase" if wrote else "setup"
            if e["ev"] == "Exit":
                ext = e["status"]
            if e["ev"] == "Killed":
                ext = "killed"
        b["fault_phase"], b["exit"] = phase, ext


def run(ctx, cases_override=None):
    ctx.mc("MC_AtomicWrite", timeout=600, allow_uncovered=("B_CopyOpen", "B_Copy", "B_CopyRm", "C_Flush", "X_Probe", "X_ProbeClose", "C_KeepOpen", "C_KeepCopy"))
    refuted = []
    for suffix, inv, meaning in NEGATIVE:
        rc, text = ctx.tlc("MC_AtomicWrite", "MC_AtomicWrite" + suffix, workers=2, timeout=300)
        if f"Invariant {inv} is violated" not in text:
            raise core.ToolError(f"stage A: TLC did not refute {inv} for MC_AtomicWrite{suffix} ({meaning}); the model lost its teeth:\n"
                                 + core._tail(text))
        m = re.search(r"(\d+) states generated, (\d+) distinct states found", text)
        refuted.append({"cfg": "MC_AtomicWrite" + suffix, "refuted": inv, "meaning": meaning,
                        "states": int(m.group(2)) if m else None})
    core.log(f"(A) refuted as required: {[r['cfg'] for r in refuted]}")
    if cases_override:
        cases, ncases = cases_override, sum(1 for _ in open(cases_override))
    else:
        cases, ncases = ctx.gen("Gen_AtomicWrite")
    binary = ctx.build("c12")
    trace = ctx.harness(binary, cases, timeout=1500)
    res = ctx.validate("Trace_AtomicWrite", trace, timeout=900)
    annotate(res["bad"], trace)
    kinds, sigs, samples = {}, set(), []
    nev = 0
    post = {"prev": 0, "other": 0}
    with open(trace) as f:
        for line in f:
            r = json.loads(line)
            nev += 1
            if r["ev"] == "Reset":
                kinds[r["fkind"]] = kinds.get(r["fkind"], 0) + 1
                if r["fkind"] != "none" and r["landed"]:
                    sigs.add((r["op"], r["ver"], r["prevk"], r["opt"], r["fkind"], r["fsys"], r["fk"], r["fsys2"], r["fk2"], r["fsize"]))
                if kinds[r["fkind"]] <= 1:
                    s = dict(r)
                    s["expect"] = s["expect"][:2]
                    samples.append(s)
            elif r["ev"] == "Post" and len(samples) < 14:
                s = dict(r)
                s["files"] = s["files"][:2]
                samples.append(s)
    cov = {
        "evaluations": res["traces"],
        "distinct_nontrivial": len(sigs),
        "rule": "one evaluation = one run of the real worker process under strace (system-call trace + post-state validated by TLC); "
                "non-trivial = distinct (op, version, previous-state, options, fault kind, system call, ordinal[, second fault]) whose injection landed",
        "samples": samples,
        "traces_validated_against_impl": res["traces"],
        "events": res["events"],
        "runs_by_fault_kind": kinds,
        "plans_generated_by_tlc": ncases,
        "refuted_models": refuted,
        "exhaustive": False,
    }
    assumptions = ["process death = SIGKILL at system-call entry; I/O error = the call fails without effect (strace injection)",
                   "no power-loss model (no fsync is issued by build(); durability is outside the property)",
                   "the worker is single-threaded and deterministic up to temp-file names"]
    return core.finish(ctx, "fault_enumeration", cov, assumptions, res["bad"], sig_fn=sig, trace=trace)


def replay(ctx, payload):
    # re-run the plan (configuration x fault family) the rejected run belongs to
    cases, _ = ctx.gen("Gen_AtomicWrite")
    idx = int(str(payload.get("case", "0:")).split(":")[0])
    lines = open(cases).read().splitlines()
    sel = ctx.path("replay-cases.ndjson")
    with open(sel, "w") as f:
        f.write(lines[idx] + "\n")
    return run(ctx, cases_override=sel)
