"""C15 -- WMO root and group files survive write -> parse -> write; header counts = list lengths;
string-table offsets resolve; conversions keep representable content."""
import json
from vlib import core

META = {
    "level": "model_checking",
    "level_text": "Decided by TLC. Stage A (exhaustive on the model): WmoLayout.tla is the format writer of WMO root and group files (record "
                  "sizes and MOHD fields from docs/.../wmo.md, emission plan, string tables, lists of lists, MOGP container with back-patched "
                  "size) followed by an independent walker; for every combination of empty/populated lists x Classic..MoP, every pattern of "
                  "empty inner lists, roots and groups, TLC checks cursor bookkeeping after every chunk, that the walker is never lost, tiling "
                  "of file and MOGP payload, MOHD counts = list lengths = record counts, string-table offsets resolve, visible-block regions "
                  "disjoint and terminated, MOPT never without MOPV, well-formedness of the catalogued BSP trees and portal graphs; six code "
                  "deviations observed earlier are named switches that TLC refutes; MC_ChunkFraming checks the generic framing rules. Stage B: "
                  "TLC enumerates the shape cases (deterministic slices + LCG draws written in TLA+). Stage D (on events recorded from the real "
                  "WmoWriter / WmoParser / parse_wmo / WmoConverter): equality of per-section content tokens after parse through both parsers, "
                  "second-write identity as a whole and chunk by chunk, MOHD counts and chunk record counts read from the produced bytes, "
                  "resolution of MOMT/MOGI string offsets against the MOTX/MOGN tables, MOGP tiling and group sub-chunk record counts, BSP "
                  "records = tree written and well-formed, MOPR records = references written and a valid portal graph, conversion keeps the "
                  "sections owed by ConvRootOwed/ConvGroupOwed and the converted object survives write->parse in the target version.",
    "level_note": "Only observed, compared as opaque tokens (64-bit SHA-1 prefix of the Debug rendering, or of raw bytes): all payload values "
                  "(floats, colours, indices, names). The independent walker in the driver knows only the framing rule and the record sizes / "
                  "field offsets that TLC emitted with the cases. Stage A speaks about the model; only stages C+D speak about the code. The "
                  "shape space is sampled, not exhausted (exhaustive=false): quick ~1 180 cases, thorough ~14 600. Versions Classic..MoP (all "
                  "MVER 17); convex volume planes (MCVP) are outside the property's list and not generated. The legacy group parser is a stub "
                  "(known finding), so group content is judged through parse_wmo only (projections both object models can express); liquid "
                  "payload and MOBA flag bytes of groups are not compared across the two object models.",
    "technique": "TLA+ layout specification model-checked by TLC; TLC-generated shapes replayed on the real writer/parsers/converter; trace validation by TLC",
    "design_ref": "DESIGN.md section 5, C13-C18 recipe and the C15 paragraph",
    "crates": ["c15"],
}

# shape fields that are list cardinalities (a case is non-trivial when at least one of them is > 0)
LIST_DIMS = ("bits", "ntex", "nmat", "ngrp", "nport", "npref", "nvbl", "nlight", "ndd", "nds",
             "nvert", "nidx", "nnorm", "ntc", "ncol", "nbatch", "nbsp", "ndref", "liq")
DIMS = ("bits", "ntex", "nmat", "ngrp", "nport", "npref", "nvbl", "nlight", "ndd", "nds", "sky", "names", "xf")


def sig(b):
    rec = b.get("rec") or {}
    rs = b.get("reset") or {}
    sh = rs.get("shape") or {}
    s = {"ev": b.get("ev"), "why": str(b.get("why", "")).strip('"'), "kind": rs.get("kind"), "ver": rs.get("ver"),
         "to": rs.get("to"),
         # where the independent walker first lost the tiling; only deterministic (and only used) for root files
         "brk": rs.get("brk", "") if rs.get("kind") == "root" else ""}
    for k in ("phase", "name", "field", "what", "table", "api", "tag"):
        if k in rec:
            s[k] = rec[k]
    if rec.get("ev") == "AltWrite":
        s["api"] = rec.get("api")
    if "res" in rec:
        s["res"] = str(rec["res"])[:120]
    if rs.get("kind") in ("root", "rootconv"):
        for d in DIMS:
            if d in sh:
                s[d] = sh[d]
    else:
        for d in ("nvert", "nidx", "nnorm", "ntc", "ncol", "nbatch", "nbsp", "liq", "ndref", "xf", "bits"):
            if d in sh:
                s[d] = sh[d]
    return s


def run(ctx, cases_override=None):
    import os
    if not os.environ.get("C15_SKIP_MC"):          # self-test runs on mutants skip stage A (it does not depend on /repo)
        ctx.mc("MC_ChunkFraming", timeout=600)
        ctx.mc("MC_WmoLayout", timeout=1200)
    else:
        ctx.mc_stats.append({"module": "skipped", "cfg": "skipped", "states": 1, "transitions": 1, "actions": {}, "wall_s": 0})
    if cases_override:
        cases, ncases = cases_override, sum(1 for _ in open(cases_override))
    else:
        cases, ncases = ctx.gen("Gen_WmoLayout", timeout=900)
    binary = ctx.build("c15")
    trace = ctx.harness(binary, cases)
    res = ctx.validate("Trace_WmoLayout", trace, timeout=1500)
    kinds, by_kind, samples, classes = {}, {}, [], set()
    with open(trace) as f:
        for line in f:
            r = json.loads(line)
            kinds[r["ev"]] = kinds.get(r["ev"], 0) + 1
            if r["ev"] == "Reset":
                by_kind[r["kind"]] = by_kind.get(r["kind"], 0) + 1
                sh = r.get("shape", {})
                if any(isinstance(sh.get(k), int) and sh.get(k) > 0 for k in LIST_DIMS):
                    classes.add(json.dumps({k: v for k, v in sh.items() if k != "id"}, sort_keys=True))
            if kinds[r["ev"]] <= 1:
                s = dict(r)
                for k in ("cs", "strs", "refs", "want"):
                    if k in s:
                        s[k] = s[k][:3]
                samples.append(s)
    cov = {
        "traces_validated_against_impl": res["traces"],
        "samples": samples,
        "events_by_kind": kinds,
        "cases_by_kind": by_kind,
        "cases_generated_by_tlc": ncases,
        "evaluations": res["events"] - res["traces"],
        "distinct_nontrivial": len(classes),
        "rule": "one evaluation = one recorded event judged by TLC in trace validation (Write/AltWrite/Chunks/Count/StrRef/Bsp/PortalRefs/Parse/"
                "Sec/Rewrite/RwChunk/Convert/End; Reset events are not counted); distinct_nontrivial = number of distinct shape records "
                "(kind, version, conversion target, list cardinalities, inner-list patterns, string class, extreme floats, BSP tree / portal "
                "graph, flag class) among the replayed cases in which at least one list cardinality (ntex..nds for roots, nvert..ndref/liq for groups) "
                "is > 0",
        # stage B enumerates deterministic slices completely, but the shape space as a whole is sampled (seeded draws)
        "exhaustive": False,
    }
    assumptions = [
        "versions Classic..MoP (all store 17 in MVER); the version field of a parsed root is not content (the format cannot express it)",
        "root objects are consistent: bounding box = union of the group boxes, header counts = list lengths, texture offsets of materials point at texture names",
        "doodad-set names fit the 20-byte field; visible-block entries are not 0xFFFF (list terminator); no NaN",
        "flags carry only bits defined by the crate's bitflags types (the parser truncates unknown bits)",
        "HAS_SKYBOX is derived from the skybox field by the writer and is excluded from the header token",
    ]
    return core.finish(ctx, "model_checking", cov, assumptions, res["bad"], sig_fn=sig, trace=trace)


def replay(ctx, payload):
    """Re-run the single case of a replay file (the layout record + that case)."""
    cases, _ = ctx.gen("Gen_WmoLayout", timeout=900)
    want = str(payload.get("case", "")).split(":")[0]
    lines = open(cases).read().splitlines()
    sel = ctx.path("replay-cases.ndjson")
    with open(sel, "w") as f:
        f.write(lines[0] + "\n")
        for l in lines[1:]:
            if str(json.loads(l).get("id")) == want:
                f.write(l + "\n")
    return run(ctx, cases_override=sel)
