---- MODULE MC_BoundedReader ----
(* Stage (A) for C05: the intended (checked) reader design is total on every adversarial file of
   length 0..MaxLen whose fields take boundary values.  MC_BoundedReader.cfg: Faults = {}.
   MC_BoundedReader_faulty.cfg: one deviation at a time (FAULT from the environment); TLC must find
   a violation for each, which shows that the invariants discriminate and that the boundary set
   reaches every modelled defect class. *)
EXTENDS BoundedReader, IOUtils
FaultFromEnv == IF "FAULT" \in DOMAIN IOEnv THEN {IOEnv.FAULT} ELSE {}
====
