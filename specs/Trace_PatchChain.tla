--------------------------- MODULE Trace_PatchChain ---------------------------
(* Stage (D) for C08: the operations the driver performed on a real wow_mpq::PatchChain are run    *)
(* through the actions of PatchChain.tla; after every operation the answers the real chain gave    *)
(* (Read under three spellings, Contains, FindArchive, List) are compared with what the property   *)
(* demands of the specification's state.  The spec state is driven by the operations alone.        *)
(*                                                                                                 *)
(* P-conjuncts (BAD): result class of the operation; Read acceptable (PatchChain!Acceptable) for   *)
(*   every name and spelling, identical across spellings and through extract_files (batch);        *)
(*   every name and spelling, identical across spellings; Contains; FindArchive; List = union as a *)
(*   set of names; no foreign names; archive count.                                                *)
(* D-conjuncts (DRIFT): order reported by get_chain_info; the same name listed in two spellings.   *)
(* A rejected Read carries a tag computed here from the case: which single named deviation of the  *)
(* code (d1/d2/d3) explains the observed answer, "multi" if only several together do, otherwise    *)
(* "unverified" (bytes where an error was due), "wrong" or "crash".                                *)
EXTENDS PatchChain, Json, IOUtils, TLCExt

Rec == ndJsonDeserialize(IOEnv.TRACE)
TraceWorld == Rec[1].world          \* every Reset of one run carries the same world
CTok       == Rec[1].ctok
TNames     == Rec[1].names
VARIABLE tl

\* ---- binding of one Op record to the spec action ------------------------------------------------
Exists(a)    == a \in ArchIds(Cont)
ListArg(e)   == [i \in 1..Len(e.l) |-> [a |-> e.l[i].a, p |-> e.l[i].p]]
SpecStep(e) ==
  CASE e.op = "new"     -> New
    [] e.op = "add"     -> IF Exists(e.a) THEN AddArchive(e.a, e.p) ELSE AddArchiveFail(e.a)
    [] e.op = "set"     -> IF PosOf(vchain, e.a) # 0 THEN SetPriority(e.a, e.p) ELSE SetPriorityFail(e.a)
    [] e.op = "remove"  -> IF PosOf(vchain, e.a) # 0 THEN RemoveArchive(e.a) ELSE RemoveAbsent(e.a)
    [] e.op = "clear"   -> Clear
    [] e.op = "fromPar" -> IF AllExist(Cont, ListArg(e)) THEN FromParallel(ListArg(e)) ELSE FromParallelFail(ListArg(e))
    [] e.op = "addPar"  -> IF AllExist(Cont, ListArg(e)) THEN AddParallel(ListArg(e)) ELSE AddParallelFail(ListArg(e))
ExpRes(e) ==
  CASE e.op \in {"new", "clear"} -> "ok"
    [] e.op = "add"     -> IF Exists(e.a) THEN "ok" ELSE "err"
    [] e.op = "set"     -> IF PosOf(vchain, e.a) # 0 THEN "ok" ELSE "err"
    [] e.op = "remove"  -> IF PosOf(vchain, e.a) # 0 THEN "ok" ELSE "absent"
    [] e.op \in {"fromPar", "addPar"} -> IF AllExist(Cont, ListArg(e)) THEN "ok" ELSE "err"

\* ---- comparison of observations with the post-state (primed variables) ---------------------------
ObsRes(o) == IF o[1] = "ok"
             THEN (IF \E c \in DOMAIN CTok : CTok[c] = o[2]
                   THEN Res("ok", CHOOSE c \in DOMAIN CTok : CTok[c] = o[2]) ELSE Res("ok", "?"))
             ELSE Res(o[1], "")
ReadTag(n, o) ==
  LET r == ObsRes(o)
  IN  IF Acceptable(r, vchain', Cont, vmap', n) THEN ""
      ELSE IF r.res \in {"panic", "hang"} THEN "crash"
      ELSE IF r = ReadWith({"d4"}, vchain', Cont, vmap', n) THEN "d4"
      ELSE IF r = ReadWith({"d3"}, vchain', Cont, vmap', n) THEN "d3"
      ELSE IF r = ReadWith({"d2"}, vchain', Cont, vmap', n) THEN "d2"
      ELSE IF r = ReadWith({"d1"}, vchain', Cont, vmap', n) THEN "d1"
      ELSE IF r = OldCodeRead(vchain', Cont, vmap', n) THEN "multi"
      ELSE IF r.res = "ok" /\ IdealRead(vchain', Cont, vmap', n).res # "ok" THEN "unverified"
      ELSE "wrong"
NameTags(e, k) ==
  LET n  == TNames[k]
      t1 == ReadTag(n, e.obs.rd[k])
  IN  (IF t1 # "" THEN <<"read:" \o t1 \o ":" \o n>> ELSE <<>>)
      \o (IF e.obs.rd2[k] # e.obs.rd[k] \/ e.obs.rd3[k] # e.obs.rd[k] THEN <<"read:spelling">> ELSE <<>>)
      \* extract_files (one batch call over all names) answers as read_file does, name by name, in request order
      \o (IF e.obs.rdx[k] # e.obs.rd[k] THEN <<"read:extract:" \o n>> ELSE <<>>)
      \o (IF \E j \in 1..3 : e.obs.has[k][j] # ContainsSpec(vmap', n) THEN <<"contains">> ELSE <<>>)
      \o (IF e.obs.fnd[k] # FindSpec(vchain', vmap', n) THEN <<"find">> ELSE <<>>)
Listed(e)   == {e.obs.lst[i] : i \in 1..Len(e.obs.lst)}
SweepTags(e) ==
  FoldLeft(LAMBDA acc, k : acc \o NameTags(e, k), <<>>, [k \in 1..Len(TNames) |-> k])
  \o (IF e.obs.lres # "ok" \/ Listed(e) # ListSpec(vchain', Cont) THEN <<"list:union">> ELSE <<>>)
  \o (IF Len(e.obs.lstx) # 0 THEN <<"list:foreign">> ELSE <<>>)
  \o (IF "panics" \in DOMAIN e.obs /\ Len(e.obs.panics) # 0 THEN <<"crash:" \o e.obs.panics[1]>> ELSE <<>>)
ChainPairs(ch) == [i \in 1..Len(ch) |-> <<ch[i].a, ch[i].p>>]
Bag(sq)        == [x \in {sq[i] : i \in 1..Len(sq)} |-> Cardinality({i \in 1..Len(sq) : sq[i] = x})]
OpTags(e) ==
  (IF e.res # ExpRes(e) THEN <<"op:result">> ELSE <<>>)
  \o (IF e.count # Len(vchain') \/ Bag(e.chain) # Bag(ChainPairs(vchain')) THEN <<"op:membership">> ELSE <<>>)
  \o (IF e.sw THEN SweepTags(e) ELSE <<>>)
Drift(e) ==
  (IF e.chain # ChainPairs(vchain') THEN <<"chain-order">> ELSE <<>>)
  \o (IF e.sw /\ Cardinality(Listed(e)) # Len(e.obs.lst) THEN <<"list-duplicate-spellings">> ELSE <<>>)

T_Reset == Rec[tl].ev = "Reset" /\ New
T_Op    == /\ Rec[tl].ev = "Op"
           /\ SpecStep(Rec[tl])
           /\ LET e == Rec[tl] bad == OpTags(e) dr == Drift(e)
              IN  /\ (IF bad # <<>> THEN PrintT(<<"BAD", tl, bad>>) ELSE TRUE)
                  /\ (IF dr # <<>> THEN PrintT(<<"DRIFT", tl, dr>>) ELSE TRUE)

Init == tl = 1 /\ vchain = <<>> /\ vmap = [n \in NamesOf(Cont) |-> 0]
Next == tl <= Len(Rec) /\ tl' = tl + 1 /\ (T_Reset \/ T_Op)

Accepted == LET d == TLCGet("stats").diameter IN
            IF d - 1 = Len(Rec) THEN PrintT(<<"CONSUMED", Len(Rec)>>) ELSE Print(<<"TRACE_STUCK_AT", d>>, FALSE)
=============================================================================
