
