--------------------------- MODULE Write_MpqFormat ---------------------------
(* Direction 2 of C02, reference side: TLC evaluates the reference writer (MpqFormat!RefWrite) on  *)
(* the concretised cases (file contents already cut into sectors and, where requested, compressed  *)
(* by Python's zlib/bz2) and emits the archive bytes in the standard format, plus -- where a named  *)
(* deviation of the library applies to some file -- the same files laid out in the library-reader  *)
(* dialect.  Every archive is read back by the reference reader before it is handed to the library *)
(* (selfok): an archive the reference itself cannot read would be a defect of the model, not of    *)
(* the library.  TLC also picks the absent names to probe: one that collides with the first file's *)
(* home slot (if the pool has one), one arbitrary.                                                 *)
EXTENDS MpqFormat, Json, IOUtils, TLC

Rec == ndJsonDeserialize(IOEnv.WCASES)

Prefix(len) == [pi \in 1..len |-> (pi * 7) % 251]
CfgOf(r)   == [ver |-> r.cfg.ver, shift |-> r.cfg.shift, hcount |-> r.cfg.hcount, ndel |-> r.cfg.ndel,
               hibt |-> r.cfg.hibt, prefix |-> Prefix(r.cfg.prefixlen)]
FileOf(f)  == [name |-> f.nb, fsize |-> f.fsize, enc |-> f.enc, single |-> f.single, cflag |-> f.cflag,
               sectors |-> [si \in 1..Len(f.sectors) |-> [m |-> f.sectors[si].m, p |-> f.sectors[si].p]]]

Encode(r) ==
  LET cfg   == CfgOf(r)
      ssize == SectorSize(cfg.shift)
      files == [fi \in 1..Len(r.files) |-> FileOf(r.files[fi])]
      wf    == \A fi \in 1..Len(files) : FileWellFormed(files[fi], ssize)
      std   == RefWrite(files, cfg, Std)
      names == {files[fi].name : fi \in 1..Len(files)}
      back  == RefRead(std, names, Std)
      labels == [fi \in 1..Len(files) |-> DevLabels(files[fi].name, back[files[fi].name])]
      selfok == /\ wf
                /\ OpenArchive(std).res = "ok" /\ OpenArchive(std).base = Len(cfg.prefix)
                /\ \A fi \in 1..Len(files) :
                     /\ back[files[fi].name].res = "ok"
                     /\ back[files[fi].name].sectors = ExpectSectors(files[fi], ssize)
                     /\ back[files[fi].name].fsize = files[fi].fsize
      anydev == \E fi \in 1..Len(files) : labels[fi] # {}
      pool   == r.absentpool
      coll   == {ai \in 1..Len(pool) : HomeSlot(pool[ai], cfg.hcount) = HomeSlot(files[1].name, cfg.hcount)}
      a1     == IF coll = {} THEN 1 ELSE CHOOSE ai \in coll : \A a2 \in coll : ai <= a2
      a2     == IF a1 = Len(pool) THEN 1 ELSE Len(pool)
  IN  [ case |-> r.case, selfok |-> selfok,
        std |-> std,
        lib |-> IF anydev THEN RefWrite(files, cfg, LibR) ELSE <<>>,
        labels |-> [fi \in 1..Len(files) |-> SetToSortSeq(labels[fi], LAMBDA x, y : TRUE)],
        absent |-> <<a1, a2>> ]

Out == [ri \in 1..Len(Rec) |-> Encode(Rec[ri])]
ASSUME ndJsonSerialize(IOEnv.OUT, Out)
ASSUME PrintT(<<"ENCODED", Len(Rec)>>)
=============================================================================
