CONSTANTS
  SectorSize = 4
  TableSize = 4
  HetSize = 8
  FlagFix = TRUE
  UseHetBet = TRUE
  BetFix = TRUE
  NameHash <- MCNameHash
  LibFileKey <- MCFileKey
  Het8 <- MCHet8
  BetL3 <- MCBetL3
  BetOaat <- MCBetOaat
  BetCsizeWidthSource <- NegBetWidth
INIT MCInit
NEXT MCNextOnce
INVARIANT BetRoundTrip
CHECK_DEADLOCK FALSE
