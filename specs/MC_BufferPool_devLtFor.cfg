CONSTANT Threads = {t1, t2}
CONSTANT CatCap <- MCCatCap
CONSTANT MaxHeld = 2
CONSTANT Dev = {"LtFor"}
CONSTANT Budget = 3
CONSTANT Sizes = {2}
CONSTANT MaxPers = {1}
CONSTANT StatsModes = {TRUE}
CONSTANT LocalOps = FALSE
SYMMETRY Sym
INIT Init
NEXT Next
INVARIANT PoolBounded
INVARIANT NoAlias
INVARIANT PooledEmpty
INVARIANT HandedOutEmpty
INVARIANT HandedOutCap
INVARIANT CategoryRight
INVARIANT OneLock
INVARIANT LockOwner
INVARIANT BufferFlow
INVARIANT CountersSane
INVARIANT Conservation
INVARIANT HitsExact
INVARIANT StatsOffZero
INVARIANT EndBalanced
PROPERTY MonotoneMC
CHECK_DEADLOCK TRUE
