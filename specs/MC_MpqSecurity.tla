--------------------------- MODULE MC_MpqSecurity ---------------------------
(* Stage (A) for X02/MpqSecurity: the session / monitor machine with boundary values at both ends  *)
(* of u64, and the theorems about the reference functions (ASSUMEs evaluated by TLC).             *)
EXTENDS MpqSecurity, TLC

VARIABLES vsess, vmon, vsteps
svars == <<vsess, vmon, vsteps>>
Lim == [maxsess |-> Lo(5), maxdec |-> Lo(3), ratio |-> 10, pattern |-> TRUE, adaptive |-> TRUE]
Bytes == {Lo(0), Lo(1), Lo(4), Lo(5), Hi(0), Hi(2)}
Sizes == {Lo(0), Lo(1), Lo(2), Lo(3), Hi(0), Hi(1)}

Tick == vsteps < 4 /\ vsteps' = vsteps + 1
Init == vsess = Sess0 /\ vmon = NoMon /\ vsteps = 0
Record == Tick /\ \E b \in Bytes : vsess' = RecordNext(vsess, b) /\ UNCHANGED vmon
\* a validated operation is recorded with its size: only what passed the check enters the session
Validated == Tick /\ \E ds \in 0..4 : /\ ValidateOut(vsess, Lim, 1, ds, 2, "plain") = "ok"
                                      /\ vsess' = RecordNext(vsess, Lo(ds))
                                      /\ vmon' = MonNew(NMin(Lo(ds), Lim.maxdec), "none")
NewMon == Tick /\ \E mx \in {Lo(2), Hi(0)}, tmo \in {"none", "zero"} : vmon' = MonNew(mx, tmo) /\ UNCHANGED vsess
MonCheck == Tick /\ vmon.live /\ \E sz \in Sizes : vmon' = MonCheckNext(vmon, sz) /\ UNCHANGED vsess
MonTick == Tick /\ vmon.live /\ vmon' = MonTickNext(vmon) /\ UNCHANGED vsess
MonCancel == Tick /\ vmon.live /\ vmon' = MonCancelNext(vmon) /\ UNCHANGED vsess
Next == Record \/ Validated \/ NewMon \/ MonCheck \/ MonTick \/ MonCancel

InvMonBound == NLe(vmon.bytes, vmon.max)                                     \* C2 for monitors
InvCheckAgree == CheckAddOut(vsess, Lim, Lo(0)) = CheckOut(vsess, Lim)
                 /\ (CheckOut(vsess, Lim) = "err" => \A a \in Bytes : CheckAddOut(vsess, Lim, a) = "err")
PropGrow == [][NLe(vsess.total, vsess'.total) /\ vsess.files <= vsess'.files]_svars     \* C1 (refuted under DevWrapRecord)
\* C3: once cancelled or expired a monitor accepts nothing any more, until it is replaced by a fresh one
Fresh(m) == m.live /\ m.bytes = NZero /\ ~m.cancel /\ m.expired = (m.tmo = "zero")
PropSticky == [][(vmon.live /\ (vmon.cancel \/ vmon.expired))
                    => (Fresh(vmon') \/ (vmon'.bytes = vmon.bytes /\ (vmon.cancel => vmon'.cancel) /\ (vmon.expired => vmon'.expired)))]_svars

\* ---- theorems about the reference functions ----------------------------------------------------
Bases == {1, 4, 5, 24, 25, 49, 50, 51, 99, 100, 1000, 1249, 1250, 4999, 5000, 5001, 10000, 49999, 50000, 199999, 200000, 200001, 1000000, 107374182}
Methods == {0, 1, 2, 3, 8, 16, 18, 32, 64, 128, 129}
Cuts == <<0, 1, 512, 513, 4096, 4097, 65536, 65537, 1048576, 1048577, 2000000000>>
ASSUME LimitMonotone == \A b \in Bases, m \in Methods : \A ii \in 1..(Len(Cuts) - 1) :
                           Limit(b, TRUE, Cuts[ii], m) >= Limit(b, TRUE, Cuts[ii + 1], m)                     \* C4
ASSUME LimitRange == \A b \in Bases, m \in Methods : \A ii \in 1..Len(Cuts) :
                           Limit(b, TRUE, Cuts[ii], m) \in 50..50000 /\ Limit(b, FALSE, Cuts[ii], m) = b
\* the hard limits are never relaxed by the pattern stage, and are exact at the boundary when it is off
ASSUME ValidateSound == \A tot \in {0, 3, 5}, cs \in {0, 1, 2, 99, 100}, ds \in {0, 1, 2, 3, 4, 10, 20, 21, 30},
                           m \in {0, 2, 129}, pat \in BOOLEAN :
                           LET ss == [total |-> Lo(tot), files |-> 0]
                               lm == [Lim EXCEPT !.pattern = pat, !.maxdec = Lo(25), !.maxsess = Lo(30)] IN
                           /\ ValidateOut(ss, lm, cs, ds, m, "plain") = "ok" => (cs > 0 /\ HardLimitsOk(ss, lm, cs, ds))
                           /\ (~pat /\ cs > 0 /\ HardLimitsOk(ss, lm, cs, ds)) => ValidateOut(ss, lm, cs, ds, m, "plain") = "ok"
=============================================================================
