CONSTANT Cont <- StdWorld
CONSTANT AllowDups = FALSE
CONSTANT MaxLen = 3
INIT Init
NEXT Next
CONSTRAINT Bound
INVARIANT TypeOK
INVARIANT Sorted
INVARIANT RanksArePermutation
INVARIANT StableAmongEquals
INVARIANT MapIsWinner
INVARIANT ReadIsProp
INVARIANT ListIsUnion
INVARIANT ContainsIsList
INVARIANT CodeIsIdeal
INVARIANT DeviationsExplainCode
INVARIANT CodeSafeModuloD2
CHECK_DEADLOCK FALSE
