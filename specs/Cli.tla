----------------------------------- MODULE Cli -----------------------------------
(* C20 -- the CLI's exit status and outputs tell the truth.                                           *)
(*                                                                                                    *)
(* A run of the tool is  Run(fam, cmd, input class, library verdicts, options) |-> outcome, where     *)
(* the outcome is what an observer of the process sees: exit status, what the tool itself printed     *)
(* about success/failure, the files it produced (content tokens + the library's verdict on them) and  *)
(* the facts it printed (names, counts).  The property is a set of obligations on outcomes:           *)
(*   O1  FailureClass(run)            => exit # 0                                                     *)
(*   O2  the tool printed a failure   => exit # 0        (its own verdict must reach the exit status) *)
(*   O3  exit = 0 /\ run is a producer => outputs complete (every wanted file present, bit-identical  *)
(*                                         tokens; produced files accepted by the library)            *)
(*   O4  exit = 0 /\ run is a viewer   => printed facts = the library's view                          *)
(* FailureClass is the matrix below.  The MPQ part is also a small state machine (Create ; Extract on  *)
(* an abstract file map) for which TLC checks that the obligations make create;extract the identity.  *)
EXTENDS Integers, Sequences, FiniteSets, TLC

\* ---------------------------------------------------------------------------------------------------
\* sub-commands (warcraft-rs --help, default features)
\* ---------------------------------------------------------------------------------------------------
Families == {"mpq", "dbc", "blp", "m2", "wmo", "adt", "wdt", "wdl"}
Cmds(f) == CASE f = "mpq" -> {"info", "validate", "list", "extract", "create", "rebuild", "compare", "tree", "debug", "patch-chain"}
             [] f = "dbc" -> {"info", "validate", "list", "export", "analyze", "discover"}
             [] f = "blp" -> {"info", "validate", "convert"}
             [] f = "m2"  -> {"info", "validate", "convert", "tree", "skin-info", "skin-convert", "anim-info", "anim-convert", "blp-info"}
             [] f = "wmo" -> {"info", "validate", "convert", "list", "tree", "export", "extract-groups"}
             [] f = "adt" -> {"info", "validate", "convert", "tree"}
             [] f = "wdt" -> {"info", "validate", "convert", "tiles", "tree"}
             [] f = "wdl" -> {"info", "validate", "convert", "tree"}
AllCmds == UNION {{<<f, c>> : c \in Cmds(f)} : f \in Families}

\* input classes.  "valid" comes from the library's writers; "flagged" parses but fails the library's / tool's own
\* validation (a file whose data cannot be read inside an openable archive, a WDT with invalid flags, ...);
\* the damaged classes are judged by the library first (verdict `lib`): only damage the library itself
\* rejects creates an obligation.
\* damage BY REGION of a container whose header points at tables (MPQ: hash table, block table): the file is cut inside
\* one table, every region stored before it intact.  (The positional classes above never leave one table whole and the
\* next one unreadable.)  Two boundary classes per table, because a reader may shrink a table to the entries that are there:
\*   cut_T0  no whole entry of table T survives (cut at the table's start .. inside its first entry): T is unreadable
\*   cut_T   at least one whole entry survives and at least one is lost
\* As with every damage class the library's verdict on the same bytes decides.
RegionDamage == {"cut_hash0", "cut_hash", "cut_block0", "cut_block"}
Damaged == {"empty", "trunc_head", "trunc_mid", "trunc_tail", "corrupt_magic", "corrupt_size", "corrupt_rand"} \cup RegionDamage
HeadDamage == {"empty", "trunc_head", "corrupt_magic"}          \* nothing can be read: no sub-command can do its job
\* "flagviol": parses and passes the default validation, but violates the rule an optional validate flag enforces
\* (blp --strict: each dimension a power of two; wdl --version V: chunks of a later format) -- the library is asked per flag.
Inputs == {"valid", "flagged", "flagviol", "nonexistent"} \cup Damaged
\* what may already be at the place a producing sub-command writes to; the obligations do not depend on it
\* "samelen": a regular file of exactly the length the output will have, every byte different (an older generation of the
\* same fixed-size file in a reused output directory): nothing but the content tells it from the output
PreStates == {"empty", "shorter", "longer", "samelen", "dir", "readonly"}
LibVerdicts == {"ok", "err", "panic", "n/a"}

\* sub-commands that by design consume the whole input (so any damage the library rejects defeats them)
WholeByDesign(f, c) == c \in {"validate", "convert", "export", "list", "tiles", "extract", "rebuild", "compare",
                             "skin-convert", "anim-convert", "analyze", "discover"}
\* sub-commands of the format families that go through the SAME library entry point the reference verdict `lib` is taken from
\* (dbc: DbcParser::parse + parse_records -- `dbc info` prints a sample record; blp: load_blp; m2 / skin / anim: *::load;
\* wmo: parse_wmo_with_metadata; adt: parse_adt_with_metadata; wdt: WdtReader::read; wdl: WdlParser::parse): if the library
\* rejects the bytes at that entry point the sub-command cannot have done its job, wherever the damage is (header intact / body
\* truncated, string block cut, header field damaged with the body intact)
SameEntry(f, c) == f # "mpq" /\ c \in {"info", "tree", "skin-info", "anim-info", "blp-info"}
Whole(f, c) == WholeByDesign(f, c) \/ SameEntry(f, c)
\* sub-commands whose job is to write files
Producer(f, c) == c \in {"convert", "skin-convert", "anim-convert", "export", "create", "extract", "rebuild"}
\* sub-commands whose printed facts are compared with the library's view
Viewer(f, c) == <<f, c>> \in {<<"mpq", "list">>, <<"mpq", "tree">>, <<"mpq", "info">>, <<"wdt", "tiles">>, <<"dbc", "export">>,
                               <<"blp", "convert">>}   \* per output-format / filter / selector option

\* The filter contract of `--filter PATTERN` ("supports wildcards"), stated independently of utils/io.rs: matching is
\* case-insensitive; `*` stands for any (possibly empty) run of characters and is the only wildcard (`?` is an ordinary character);
\* a pattern without `*` selects the names that CONTAIN it.  p, t: sequences of one-character strings, already lower-cased.
RECURSIVE GlobFrom(_, _, _, _)
GlobFrom(p, t, i, j) == IF i > Len(p) THEN j > Len(t)
                        ELSE IF p[i] = "*" THEN GlobFrom(p, t, i + 1, j) \/ (j <= Len(t) /\ GlobFrom(p, t, i, j + 1))
                        ELSE j <= Len(t) /\ p[i] = t[j] /\ GlobFrom(p, t, i + 1, j + 1)
HasStar(p) == \E i \in 1..Len(p) : p[i] = "*"
GlobMatch(p, t) == IF p = <<>> THEN TRUE
                   ELSE IF HasStar(p) THEN GlobFrom(p, t, 1, 1)
                   ELSE \E k \in 0..(Len(t) - Len(p)) : SubSeq(t, k + 1, k + Len(p)) = p

\* ---------------------------------------------------------------------------------------------------
\* the matrix: is this run one the tool cannot carry out?
\* r: [fam, cmd, input, lib, libval, missing, skip, sel]
\*   lib     library verdict on the (possibly damaged) input: "ok" | "err" | "panic" | "n/a"(nonexistent)
\*   libval  library verdict of validation / of reading every file: "ok" | "fail" | "n/a"
\*   missing an explicitly requested name is absent from the archive (mpq extract)
\*   skip    --skip-errors given
\*   sel     a numeric selector option (--mipmap-level ...) names something the input has ("in"), does not have ("out"), or "n/a"
\* ---------------------------------------------------------------------------------------------------
Rejected(r) == r.lib \in {"err", "panic"}
FailureClass(r) ==
    \/ r.input = "nonexistent"                                          \* unreadable input
    \/ r.input \in HeadDamage /\ Rejected(r)                             \* malformed: nothing readable
    \/ r.input \in Damaged /\ Rejected(r) /\ Whole(r.fam, r.cmd)         \* malformed: whole-input sub-commands
    \/ r.cmd = "validate" /\ r.libval = "fail"                           \* failed validation
    \/ r.sel = "out"                                                     \* asked for something the input does not contain
    \/ r.fam = "mpq" /\ r.cmd = "extract" /\ ~r.skip /\ (r.missing \/ r.libval = "fail")   \* failed extraction, no error skipping
Obligation(r) == IF FailureClass(r) THEN "must_fail"
                 ELSE IF Producer(r.fam, r.cmd) THEN "complete_if_zero"
                 ELSE IF Viewer(r.fam, r.cmd) THEN "view_if_zero"
                 ELSE "free"
Obligations == {"must_fail", "complete_if_zero", "view_if_zero", "free"}

\* ---------------------------------------------------------------------------------------------------
\* outcomes and the obligations on them
\* o: [exit, says_fail, want, got, outs_ok, view_ok, rt_ok, pre_ok]
\*   want / got: sets of <<name, token>>;  outs_ok: every produced file is accepted by the library
\*   rt_ok: the conversion A -> B (this run) followed by B -> A' gave token(A') = token(A), or that is not demanded of this path
\* ---------------------------------------------------------------------------------------------------
\* pre_ok: the produced file equals (token and length) what the same command produces into a fresh location
Complete(o) == o.want \subseteq o.got /\ o.outs_ok /\ o.pre_ok
O1(r, o) == FailureClass(r) => o.exit # 0
O2(r, o) == o.says_fail => o.exit # 0
O3(r, o) == (o.exit = 0 /\ Producer(r.fam, r.cmd)) => Complete(o)
\* O5: conversions along representable paths (same version, or up to a newer version and back) lose nothing:
\* converting the result back yields an object with the same token.  The paths are listed explicitly, per file kind.
RoundTripExact == {
    <<"adt", "classic>cataclysm>classic">>, <<"adt", "classic>wotlk>classic">>,
    <<"anim", "legion>legion>legion">>,
    <<"m2", "cataclysm>cataclysm>cataclysm">>, <<"m2", "mop>cataclysm>mop">>, <<"m2", "tbc>1.12.1>tbc">>, <<"m2", "tbc>cataclysm>tbc">>,
    <<"m2", "vanilla>1.12.1>vanilla">>, <<"m2", "vanilla>cataclysm>vanilla">>, <<"m2", "wotlk>cataclysm>wotlk">>,
    <<"skin", "wotlk>wotlk>wotlk">>,
    <<"wdl", "legion>legion>legion">>, <<"wdl", "vanilla>legion>vanilla">>, <<"wdl", "vanilla>wotlk>vanilla">>, <<"wdl", "wotlk>wotlk>wotlk">>,
    <<"wdt", "wotlk>classic>wotlk">> }
O5(r, o) == o.exit = 0 => o.rt_ok
O4(r, o) == (o.exit = 0 /\ Viewer(r.fam, r.cmd) /\ r.lib = "ok") => o.view_ok     \* a view needs a library view to compare with
Truthful(r, o) == O1(r, o) /\ O2(r, o) /\ O3(r, o) /\ O4(r, o) /\ O5(r, o)
\* which obligation an outcome breaks (used as the rejection reason in trace validation)
Broken(r, o) == IF ~O1(r, o) THEN "exit0-on-failure-class"
                ELSE IF ~O2(r, o) THEN "exit0-after-printing-failure"
                ELSE IF ~O3(r, o) THEN "exit0-with-incomplete-output"
                ELSE IF ~O4(r, o) THEN "exit0-with-wrong-view"
                ELSE IF ~O5(r, o) THEN "exit0-but-roundtrip-differs"
                ELSE "none"

\* ---------------------------------------------------------------------------------------------------
\* state machine: a session of runs over an abstract file system (the MPQ pipeline carries state)
\* ---------------------------------------------------------------------------------------------------
CONSTANTS Names, Toks        \* small sets for the model
VARIABLES vdisk,     \* input directory: name -> token   (function on a subset of Names)
          vmade,     \* an archive exists
          varch,     \* archive content: name -> token
          vdamaged,  \* names inside the archive whose data cannot be read
          vout,      \* extraction directory: name -> token
          vlast,     \* [r, o] of the last run
          vextracted \* an extraction has run
cvars == <<vdisk, vmade, varch, vdamaged, vout, vlast, vextracted>>

Maps == UNION {[S -> Toks] : S \in SUBSET Names}
AsSet(m) == {<<n, m[n]>> : n \in DOMAIN m}
Run0(f, c, inp) == [fam |-> f, cmd |-> c, input |-> inp, lib |-> "ok", libval |-> "ok", missing |-> FALSE, skip |-> FALSE, sel |-> "n/a"]

NoOutcome == [exit |-> 0, says_fail |-> FALSE, want |-> {}, got |-> {}, outs_ok |-> TRUE, view_ok |-> TRUE, rt_ok |-> TRUE, pre_ok |-> TRUE]
NoRun == [r |-> Run0("mpq", "-", "valid"), o |-> NoOutcome]
EmptyMap == [n \in {} |-> "t"]
HasRun == vlast.r.cmd # "-"
Init == /\ vdisk \in Maps /\ vmade = FALSE /\ varch = EmptyMap /\ vdamaged = {} /\ vout = EmptyMap /\ vlast = NoRun /\ vextracted = FALSE

\* mpq create: a truthful tool either fails and says so, or leaves an archive holding exactly the inputs
Create(ok) ==
    /\ ~vmade
    /\ LET r == Run0("mpq", "create", "valid")
           o == [exit |-> IF ok THEN 0 ELSE 1, says_fail |-> ~ok, want |-> AsSet(vdisk),
                 got |-> IF ok THEN AsSet(vdisk) ELSE {}, outs_ok |-> TRUE, view_ok |-> TRUE, rt_ok |-> TRUE, pre_ok |-> TRUE] IN
       /\ varch' = IF ok THEN vdisk ELSE EmptyMap
       /\ vmade' = ok
       /\ vlast' = [r |-> r, o |-> o]
    /\ UNCHANGED <<vdisk, vdamaged, vout, vextracted>>

\* somebody damages the data of one stored file (the archive still opens)
Damage(n) ==
    /\ vmade /\ n \in DOMAIN varch /\ n \notin vdamaged
    /\ vdamaged' = vdamaged \cup {n}
    /\ UNCHANGED <<vdisk, vmade, varch, vout, vlast, vextracted>>

\* the output directory is not empty: a stale file of some name is already there (pre-state of a producer)
\* "stale" = any other file; "stale_samelen" = a file with the length of the archive member of that name, other content
StaleToks == {"stale", "stale_samelen"}
Plant(n, st) ==
    /\ vmade /\ ~vextracted /\ n \notin DOMAIN vout      \* (between create and extract: where the driver plants)
    /\ vout' = [m \in DOMAIN vout \cup {n} |-> IF m = n THEN st ELSE vout[m]]
    /\ UNCHANGED <<vdisk, vmade, varch, vdamaged, vlast, vextracted>>

\* mpq extract of a set of requested names (possibly absent ones), with or without --skip-errors; what was in
\* the directory under the same name is replaced, other files stay
Extract(req, skip) ==
    /\ vmade /\ ~vextracted
    /\ LET present == req \cap DOMAIN varch
           readable == present \ vdamaged
           failed == req \ readable
           r == [Run0("mpq", "extract", "valid") EXCEPT !.missing = (req \ DOMAIN varch # {}), !.skip = skip,
                                                        !.libval = IF present \cap vdamaged # {} THEN "fail" ELSE "ok"]
           exit == IF failed # {} /\ ~skip THEN 1 ELSE 0
           written == [n \in DOMAIN vout \cup readable |-> IF n \in readable THEN varch[n] ELSE vout[n]]
           o == [exit |-> exit, says_fail |-> exit # 0, want |-> {<<n, varch[n]>> : n \in readable},
                 got |-> AsSet(written), outs_ok |-> TRUE, view_ok |-> TRUE, rt_ok |-> TRUE, pre_ok |-> TRUE] IN
       /\ vout' = written
       /\ vlast' = [r |-> r, o |-> o]
    /\ vextracted' = TRUE
    /\ UNCHANGED <<vdisk, vmade, varch, vdamaged>>

\* DEVIATION (seeded change class "open without truncate"): what is already in the directory under a requested name survives,
\* the run still reports success
ExtractKeepsStale(req) ==
    /\ vmade /\ ~vextracted
    /\ LET readable == (req \cap DOMAIN varch) \ vdamaged
           r == Run0("mpq", "extract", "valid")
           written == [n \in DOMAIN vout \cup readable |-> IF n \in DOMAIN vout THEN vout[n] ELSE varch[n]]
           o == [NoOutcome EXCEPT !.want = {<<n, varch[n]>> : n \in readable}, !.got = AsSet(written)] IN
       /\ vout' = written
       /\ vlast' = [r |-> r, o |-> o]
    /\ vextracted' = TRUE
    /\ UNCHANGED <<vdisk, vmade, varch, vdamaged>>

\* DEVIATION (seeded change class "skip what looks up to date"): a file already in the directory under a requested name whose
\* METADATA equals the member's (same length) is not rewritten, the run still counts it and reports success
ExtractSkipsSameLen(req) ==
    /\ vmade /\ ~vextracted
    /\ LET readable == (req \cap DOMAIN varch) \ vdamaged
           r == Run0("mpq", "extract", "valid")
           kept(n) == n \in DOMAIN vout /\ vout[n] = "stale_samelen"
           written == [n \in DOMAIN vout \cup readable |-> IF n \in readable /\ ~kept(n) THEN varch[n] ELSE vout[n]]
           o == [NoOutcome EXCEPT !.want = {<<n, varch[n]>> : n \in readable}, !.got = AsSet(written)] IN
       /\ vout' = written
       /\ vlast' = [r |-> r, o |-> o]
    /\ vextracted' = TRUE
    /\ UNCHANGED <<vdisk, vmade, varch, vdamaged>>

\* mpq validate as coded (since 01748b8): reads every file, fails when one cannot be read
Validate ==
    /\ vmade
    /\ LET bad == vdamaged # {}
           r == [Run0("mpq", "validate", IF bad THEN "flagged" ELSE "valid") EXCEPT !.libval = IF bad THEN "fail" ELSE "ok"]
           o == [exit |-> IF bad THEN 1 ELSE 0, says_fail |-> bad, want |-> {}, got |-> {}, outs_ok |-> TRUE, view_ok |-> TRUE, rt_ok |-> TRUE, pre_ok |-> TRUE] IN
       vlast' = [r |-> r, o |-> o]
    /\ UNCHANGED <<vdisk, vmade, varch, vdamaged, vout, vextracted>>

\* DEVIATION (the code before /repo commit 01748b8, F-C20-a): validate reports the failure and returns Ok(())
ValidateDeviant ==
    /\ vmade
    /\ LET bad == vdamaged # {}
           r == [Run0("mpq", "validate", IF bad THEN "flagged" ELSE "valid") EXCEPT !.libval = IF bad THEN "fail" ELSE "ok"]
           o == [exit |-> 0, says_fail |-> bad, want |-> {}, got |-> {}, outs_ok |-> TRUE, view_ok |-> TRUE, rt_ok |-> TRUE, pre_ok |-> TRUE] IN
       vlast' = [r |-> r, o |-> o]
    /\ UNCHANGED <<vdisk, vmade, varch, vdamaged, vout, vextracted>>

\* list / info of the archive
View ==
    /\ vmade
    /\ vlast' = [r |-> Run0("mpq", "list", "valid"),
                 o |-> [exit |-> 0, says_fail |-> FALSE, want |-> {}, got |-> {}, outs_ok |-> TRUE, view_ok |-> TRUE, rt_ok |-> TRUE, pre_ok |-> TRUE]]
    /\ UNCHANGED <<vdisk, vmade, varch, vdamaged, vout, vextracted>>

\* any sub-command of any family on any input class: a truthful tool fails exactly on the failure class
Other(f, c, inp, lib) ==
    /\ ~vmade /\ ~HasRun                 \* stateless runs: explored once per input directory, not per session state
    /\ LET r == [Run0(f, c, inp) EXCEPT !.lib = lib]
           o == [exit |-> IF FailureClass(r) THEN 1 ELSE 0, says_fail |-> FailureClass(r), want |-> {}, got |-> {},
                 outs_ok |-> TRUE, view_ok |-> TRUE, rt_ok |-> TRUE, pre_ok |-> TRUE] IN
       vlast' = [r |-> r, o |-> o]
    /\ UNCHANGED <<vdisk, vmade, varch, vdamaged, vout, vextracted>>

NextIntended ==
    \/ \E ok \in BOOLEAN : Create(ok)
    \/ \E n \in Names : Damage(n)
    \/ \E n \in Names : \E st \in StaleToks : Plant(n, st)
    \/ \E req \in SUBSET Names : \E skip \in BOOLEAN : req # {} /\ Extract(req, skip)
    \/ Validate
    \/ View
    \/ \E fc \in AllCmds : \E inp \in Inputs : \E lib \in {"ok", "err"} :
          (inp = "nonexistent" => lib = "ok") /\ Other(fc[1], fc[2], inp, lib)
NextDeviant == NextIntended \/ ValidateDeviant
NextDeviant2 == NextIntended \/ \E req \in SUBSET Names : req # {} /\ ExtractKeepsStale(req)
NextDeviant3 == NextIntended \/ \E req \in SUBSET Names : req # {} /\ ExtractSkipsSameLen(req)

\* ---------------------------------------------------------------------------------------------------
\* what TLC checks on the model
\* ---------------------------------------------------------------------------------------------------
LastTruthful == HasRun => Truthful(vlast.r, vlast.o)
\* create ; extract(everything) = identity on tokens, whenever both runs exit 0 and nothing was damaged
\* -- whatever stale files were in the output directory before (a stale file under a requested name is ruled out by
\* ExtractComplete: the wanted token must be there)
RoundTrip == (vmade /\ vextracted /\ vdamaged = {}) =>
             \A n \in DOMAIN vout : vout[n] \in StaleToks \/ (n \in DOMAIN vdisk /\ vout[n] = vdisk[n])
\* exit 0 of an extraction means every requested readable file is there
ExtractComplete == (HasRun /\ vlast.r.cmd = "extract" /\ vlast.o.exit = 0) => vlast.o.want \subseteq AsSet(vout)
\* the matrix is total and single-valued, and is not vacuous: every sub-command has runs it must fail and runs it need not
MatrixTotal == \A fc \in AllCmds : \A inp \in Inputs : \A lib \in {"ok", "err"} :
                  Obligation([Run0(fc[1], fc[2], inp) EXCEPT !.lib = lib]) \in Obligations
MatrixNotVacuous == \A fc \in AllCmds :
                  /\ FailureClass(Run0(fc[1], fc[2], "nonexistent"))
                  /\ FailureClass([Run0(fc[1], fc[2], "empty") EXCEPT !.lib = "err"])
                  /\ ~FailureClass(Run0(fc[1], fc[2], "valid"))
                  /\ ~FailureClass([Run0(fc[1], fc[2], "trunc_tail") EXCEPT !.lib = "ok"])   \* damage the library tolerates binds nobody
                  /\ \A rd \in RegionDamage : ~FailureClass([Run0(fc[1], fc[2], rd) EXCEPT !.lib = "ok"])
\* a table the library cannot read defeats every whole-input sub-command of the container family, whichever table it is
RegionDamageBinds == \A rd \in RegionDamage : \A c \in Cmds("mpq") :
                  WholeByDesign("mpq", c) => FailureClass([Run0("mpq", c, rd) EXCEPT !.lib = "err"])
EveryFamilyHasAProducer == \A f \in Families : \E c \in Cmds(f) : Producer(f, c)
=============================================================================
