CONSTANTS
  Threads = {"T0", "T1", "T2", "T3"}
  ArchFiles = {"A", "B"}
  Names = {"f0", "f1", "f2", "f3", "g0", "g1", "g2", "g3", "g4", "g5", "g6", "g7", "g8", "g9", "ga", "gb", "n259", "n260", "n261", "n1024"}
  Dev = {}
CONSTANT NextId <- TrNextId
INIT TInit
NEXT TNext
INVARIANTS CursorInRange IdsUnique CloseInvalidatesOwn NoOrphans
POSTCONDITION Accepted
CHECK_DEADLOCK FALSE
