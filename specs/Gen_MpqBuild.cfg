
