CONSTANTS
  RFiles <- MListedNoSelf
  RTok <- MTok
  REnc = {"secret"}
  RSig = {"(signature)"}
  REmpty = {"empty"}
  RHetBet = FALSE
  RUnlisted <- MUnlisted
SPECIFICATION NoLfSpec
INVARIANT TargetEnumerable
CHECK_DEADLOCK FALSE
