//! X03 driver: replays TLC-generated editing histories on the real `wow_wmo::WmoEditor` and records, after every call,
//! the call's result and the projection of the whole object onto the abstract WMO of specs/WmoEditor.tla.
//! It records; TLC (Trace_WmoEditor) decides.
//!
//! case: {kind, init: 0|1|2, ops: [{op, id, a, b, c, d}]}
//! ids: texture "t<id>.blp", material.shader = id, group info name "g<id>", vertex.x = id, doodad def name_offset = id,
//!      doodad set name "s<id>".
use serde_json::{json, Value};
use std::collections::HashMap;
use std::io::Cursor;
use wow_wmo::{
    BoundingBox, Color, Vec3, WmoBatch, WmoDoodadDef, WmoDoodadSet, WmoEditor, WmoFlags, WmoGroup, WmoGroupFlags, WmoGroupHeader,
    WmoGroupInfo, WmoHeader, WmoMaterial, WmoMaterialFlags, WmoParser, WmoPortalReference, WmoRoot, WmoVersion,
};
use wverif_common::*;

const GM: usize = 24;

fn v3(x: f32) -> Vec3 {
    Vec3 { x, y: 0.0, z: 0.0 }
}
fn bb() -> BoundingBox {
    BoundingBox { min: v3(0.0), max: v3(0.0) }
}
fn mat(id: i64, t1: i64, t2: i64) -> WmoMaterial {
    WmoMaterial {
        flags: WmoMaterialFlags::empty(),
        shader: id as u32,
        blend_mode: 0,
        texture1: t1 as u32,
        emissive_color: Color::default(),
        sidn_color: Color::default(),
        framebuffer_blend: Color::default(),
        texture2: t2 as u32,
        diffuse_color: Color::default(),
        ground_type: 0,
    }
}
fn dd(id: i64) -> WmoDoodadDef {
    WmoDoodadDef { name_offset: id as u32, position: v3(1.0), orientation: [0.0, 0.0, 0.0, 1.0], scale: 1.0, color: Color::default(), set_index: 0 }
}
fn ds(id: i64, st: i64, n: i64) -> WmoDoodadSet {
    WmoDoodadSet { name: format!("s{id}"), start_doodad: st as u32, n_doodads: n as u32 }
}
fn ginfo(id: i64) -> WmoGroupInfo {
    WmoGroupInfo { flags: WmoGroupFlags::empty(), bounding_box: bb(), name: format!("g{id}") }
}
fn version(k: i64) -> WmoVersion {
    match k {
        0 => WmoVersion::Classic,
        1 => WmoVersion::Tbc,
        2 => WmoVersion::Wotlk,
        _ => WmoVersion::Cataclysm,
    }
}
fn version_ord(v: WmoVersion) -> i64 {
    [WmoVersion::Classic, WmoVersion::Tbc, WmoVersion::Wotlk, WmoVersion::Cataclysm].iter().position(|x| *x == v).map(|p| p as i64).unwrap_or(99)
}

fn make_root(init: i64) -> WmoRoot {
    let (tex, mats, gis, dds, dss, prs): (Vec<i64>, Vec<(i64, i64, i64)>, Vec<i64>, Vec<i64>, Vec<(i64, i64, i64)>, Vec<u16>) = match init {
        0 => (vec![], vec![], vec![], vec![], vec![], vec![]),
        1 => (vec![1, 2], vec![(3, 0, 1), (4, 1, 1)], vec![5, 6], vec![7, 8, 9], vec![(10, 0, 2), (11, 2, 1)], vec![0, 1, 1]),
        2 => (vec![1], vec![(3, 0, 0)], vec![5], vec![7], vec![(10, 0, 1), (11, 1, 0)], vec![0]),
        k => tool_error(&format!("unknown init {k}")),
    };
    WmoRoot {
        version: WmoVersion::Classic,
        materials: mats.iter().map(|m| mat(m.0, m.1, m.2)).collect(),
        groups: gis.iter().map(|g| ginfo(*g)).collect(),
        portals: vec![],
        portal_references: prs.iter().map(|g| WmoPortalReference { portal_index: 0, group_index: *g, side: 0 }).collect(),
        visible_block_lists: vec![],
        lights: vec![],
        doodad_defs: dds.iter().map(|d| dd(*d)).collect(),
        doodad_sets: dss.iter().map(|s| ds(s.0, s.1, s.2)).collect(),
        bounding_box: bb(),
        textures: tex.iter().map(|t| format!("t{t}.blp")).collect(),
        texture_offset_index_map: HashMap::new(),
        header: WmoHeader {
            n_materials: mats.len() as u32,
            n_groups: gis.len() as u32,
            n_portals: 0,
            n_lights: 0,
            n_doodad_names: dds.len() as u32,
            n_doodad_defs: dds.len() as u32,
            n_doodad_sets: dss.len() as u32,
            flags: WmoFlags::empty(),
            ambient_color: Color::default(),
        },
        skybox: None,
        convex_volume_planes: None,
    }
}

fn make_group(id: i64, gidx: i64, nv: i64, m: i64, d: i64) -> WmoGroup {
    let vertices: Vec<Vec3> = (1..=nv).map(|k| v3((id * 10 + k) as f32)).collect();
    let indices: Vec<u16> = if nv == 0 { vec![] } else { (0..3).map(|k| (k % nv) as u16).collect() };
    let batches = if m < 0 {
        vec![]
    } else {
        vec![WmoBatch { flags: [0; 10], material_id: m as u16, start_index: 0, count: indices.len() as u16, start_vertex: 0, end_vertex: nv.max(1) as u16 - 1, use_large_material_id: false }]
    };
    WmoGroup {
        header: WmoGroupHeader { flags: WmoGroupFlags::empty(), bounding_box: bb(), name_offset: 0, group_index: gidx as u32 },
        materials: if m < 0 { vec![] } else { vec![m as u16] },
        normals: if nv == 3 { vertices.iter().map(|_| Vec3 { x: 0.0, y: 0.0, z: 1.0 }).collect() } else { vec![] },
        vertices,
        tex_coords: vec![],
        batches,
        indices,
        vertex_colors: None,
        bsp_nodes: None,
        liquid: None,
        doodad_refs: if d < 0 { None } else { Some(vec![d as u16]) },
    }
}

fn num_id(s: &str) -> i64 {
    let d: String = s.chars().filter(|c| c.is_ascii_digit()).collect();
    d.parse().unwrap_or(-1)
}

/// The projection of the real object onto the abstract WMO.
fn project(e: &WmoEditor) -> Value {
    let r = e.root();
    let mut grp = vec![];
    let mut i = 0;
    while let Some(g) = e.group(i) {
        grp.push(json!({
            "gidx": g.header.group_index,
            "v": g.vertices.iter().map(|v| v.x as i64).collect::<Vec<_>>(),
            "ix": g.indices.iter().map(|x| *x as i64).collect::<Vec<_>>(),
            "bm": g.batches.iter().map(|b| b.material_id as i64).collect::<Vec<_>>(),
            "na": g.normals.len(),
            "ml": g.materials.iter().map(|x| *x as i64).collect::<Vec<_>>(),
            "dr": g.doodad_refs.as_ref().map(|v| v.iter().map(|x| *x as i64).collect::<Vec<_>>()).unwrap_or_default(),
        }));
        i += 1;
    }
    json!({
        "tex": r.textures.iter().map(|t| num_id(t)).collect::<Vec<_>>(),
        "mat": r.materials.iter().map(|m| json!({"id": m.shader, "t1": m.texture1, "t2": m.texture2})).collect::<Vec<_>>(),
        "gi": r.groups.iter().map(|g| num_id(&g.name)).collect::<Vec<_>>(),
        "grp": grp,
        "gmod": (0..GM).map(|i| e.is_group_modified(i)).collect::<Vec<_>>(),
        "dd": r.doodad_defs.iter().map(|d| d.name_offset as i64).collect::<Vec<_>>(),
        "ds": r.doodad_sets.iter().map(|s| json!({"id": num_id(&s.name), "st": s.start_doodad, "n": s.n_doodads})).collect::<Vec<_>>(),
        "hdr": {"nmat": r.header.n_materials, "ngrp": r.header.n_groups, "ndd": r.header.n_doodad_defs, "ndn": r.header.n_doodad_names,
                "nds": r.header.n_doodad_sets},
        "pr": r.portal_references.iter().map(|p| p.group_index as i64).collect::<Vec<_>>(),
        "rmod": e.is_root_modified(),
        "ver": version_ord(e.current_version()),
        "orig": version_ord(e.original_version()),
    })
}

fn cls<T>(r: &Result<T, wow_wmo::WmoError>) -> String {
    match r {
        Ok(_) => "ok".into(),
        Err(_) => "err".into(),
    }
}

/// One call. Returns (res, variant, ret, back) — back = lengths read back by the parser from the saved root ([-1;5] otherwise).
fn call(e: &mut WmoEditor, o: &Value) -> (String, String, i64, Value) {
    let (op, id, a, b, c, d) = (gs(o, "op").to_string(), gi(o, "id"), gi(o, "a"), gi(o, "b"), gi(o, "c"), gi(o, "d"));
    let none = json!([-1, -1, -1, -1, -1]);
    let out = guarded(|| -> (String, String, i64, Value) {
        let mut back = none.clone();
        let mut variant = String::new();
        macro_rules! fin {
            ($r:expr, $ret:expr) => {{
                let r = $r;
                if let Err(er) = &r {
                    variant = variant_name(er);
                }
                let ret: i64 = match &r {
                    Ok(x) => $ret(x),
                    Err(_) => -1,
                };
                (cls(&r), variant, ret, back)
            }};
        }
        match op.as_str() {
            "add_texture" => ("ok".into(), variant, e.add_texture(format!("t{id}.blp")) as i64, back),
            "remove_texture" => fin!(e.remove_texture(a as usize), |_x: &String| 0),
            "add_material" => ("ok".into(), variant, e.add_material(mat(id, a, b)) as i64, back),
            "remove_material" => fin!(e.remove_material(a as usize), |_x: &WmoMaterial| 0),
            "create_group" => ("ok".into(), variant, e.create_group(format!("g{id}")) as i64, back),
            "add_group" => fin!(e.add_group(make_group(id, a, b, c, d)), |_x: &()| 0),
            "remove_group" => fin!(e.remove_group(a as usize), |_x: &WmoGroupInfo| 0),
            "add_vertex" => fin!(e.add_vertex(a as usize, v3(id as f32)), |x: &usize| *x as i64),
            "remove_vertex" => fin!(e.remove_vertex(a as usize, b as usize), |_x: &Vec3| 0),
            "add_doodad" => ("ok".into(), variant, e.add_doodad(dd(id)) as i64, back),
            "remove_doodad" => fin!(e.remove_doodad(a as usize), |_x: &WmoDoodadDef| 0),
            "add_doodad_set" => ("ok".into(), variant, e.add_doodad_set(ds(id, a, b)) as i64, back),
            "remove_doodad_set" => fin!(e.remove_doodad_set(a as usize), |_x: &WmoDoodadSet| 0),
            "convert" => fin!(e.convert_to_version(version(a)), |_x: &()| 0),
            "save_root" => {
                let mut cur = Cursor::new(Vec::new());
                let r = e.save_root(&mut cur);
                if r.is_ok() {
                    cur.set_position(0);
                    match WmoParser::new().parse_root(&mut cur) {
                        Ok(p) => {
                            back = json!([p.textures.len(), p.materials.len(), p.groups.len(), p.doodad_defs.len(), p.doodad_sets.len()]);
                        }
                        Err(er) => {
                            variant = format!("parse:{}", variant_name(&er));
                            back = json!([-2, -2, -2, -2, -2]);
                        }
                    }
                }
                fin!(r, |_x: &()| 0)
            }
            "save_group" => {
                let mut cur = Cursor::new(Vec::new());
                fin!(e.save_group(&mut cur, a as usize), |_x: &()| 0)
            }
            k => tool_error(&format!("unknown op {k}")),
        }
    });
    match out {
        Outcome::Done(x) => x,
        Outcome::Panic(m) => ("panic".into(), m, -1, none),
        _ => ("hang".into(), String::new(), -1, none),
    }
}

fn main() {
    let a = args();
    install_quiet_panic_hook();
    let cases = read_cases(&a.cases);
    let trace = Trace::create(&a.trace);
    for (ci, case) in cases.iter().enumerate() {
        if case.get("kind").and_then(|k| k.as_str()) == Some("skip") {
            continue;
        }
        let init = gi(case, "init");
        let mut e = WmoEditor::new(make_root(init));
        trace.ev(json!({"ev": "Reset", "case": ci, "init": init, "st": project(&e)}));
        for o in ga(case, "ops") {
            let (res, variant, ret, back) = call(&mut e, o);
            trace.ev(json!({"ev": "Call", "case": ci, "op": gs(o, "op"), "id": gi(o, "id"), "a": gi(o, "a"), "b": gi(o, "b"), "c": gi(o, "c"), "d": gi(o, "d"),
                            "res": res, "variant": variant, "ret": ret, "back": back, "st": project(&e)}));
        }
    }
    trace.flush();
}
