#!/usr/bin/env python3
"""Corrupted-trace self-test for C02: take the trace of an accepted run (VERIF_KEEP=1 bin/vcheck C02 leaves it in
/var/tmp/wverif.C02.<pid>/trace.ndjson), alter ONE logged field of an event that was accepted, and validate again.
usage: corrupt_trace.py <trace.ndjson>"""
import json, os, sys
sys.path.insert(0, os.path.dirname(os.path.dirname(os.path.dirname(os.path.abspath(__file__)))))
from vlib import core

src = sys.argv[1]
lines = open(src).read().splitlines()
ctx = core.Ctx("C02", "quick", 1, {})
results = {}
try:
    for kind in ("RefFile.tok", "RefOpen.shift", "Read.tok", "Absent.res", "List.names"):
        recs = [json.loads(l) for l in lines]
        done = None
        for i, r in enumerate(recs):
            if kind == "RefFile.tok" and r["ev"] == "RefFile" and r["labels"] == "" and r["std"]["res"] == "ok" and r["std"]["len"] > 0:
                r["std"]["tok"] = "0" * 16; done = i
            elif kind == "RefOpen.shift" and r["ev"] == "RefOpen" and r["open"] == "ok":
                r["shift"] = (r["shift"] + 1) % 4; done = i
            elif kind == "Read.tok" and r["ev"] == "Read" and r["labels"] == "" and r["std"]["res"][2] == "ok":
                r["std"]["tok"][2] = "f" * 16; done = i
            elif kind == "Absent.res" and r["ev"] == "Absent":
                r["std"]["res"][1] = "ok"; done = i
            elif kind == "List.names" and r["ev"] == "List" and r["std"]["res"] == "ok" and len(r["std"]["names"]) > 1:
                r["std"]["names"] = r["std"]["names"][:-1]; r["std"]["sizes"] = r["std"]["sizes"][:-1]; done = i
            if done is not None:
                break
        p = ctx.path("corrupt.ndjson")
        with open(p, "w") as f:
            for r in recs:
                f.write(json.dumps(r) + "\n")
        res = ctx.validate("Trace_MpqFormat", p, shards=8)
        hit = [b for b in res["bad"] if b["line"] == done + 1]
        results[kind] = (done + 1, [(b["ev"], b["why"]) for b in hit])
        print(f"{kind}: corrupted line {done+1} -> rejected: {bool(hit)} {[(b['ev'], b['why']) for b in hit]}", flush=True)
finally:
    ctx.cleanup()
sys.exit(0 if all(v[1] and all('unexplained' in w for _, w in v[1]) for v in results.values()) else 1)
