CONSTANT Dev = {}
INIT Init
NEXT Next
INVARIANT FrameWellFormed
POSTCONDITION Accepted
CHECK_DEADLOCK FALSE
