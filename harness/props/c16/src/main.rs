//! C16 driver: synthetic images -> image_to_blp -> encode -> (walker reads header / locator from the
//! bytes at the positions TLC emitted) -> parse -> decode level 0.  Observations only.
use image::{DynamicImage, RgbaImage};
use wow_blp::convert::{
    blp_to_image, image_to_blp, AlphaBits, Blp2Format, BlpOldFormat, BlpTarget, DxtAlgorithm, FilterType,
};
use wow_blp::encode::{encode_blp0, save_blp};
use wow_blp::parser::load_blp;
use wow_blp::path::make_mipmap_path;
use wow_blp::parser::{parse_blp_with_externals, preloaded_mipmaps};
use wow_blp::{BlpContent, BlpImage};
use wverif_common::*;

fn make_image(cls: &str, w: u32, h: u32, rng: &mut Rng) -> RgbaImage {
    let mut img = RgbaImage::new(w, h);
    let pal: Vec<[u8; 3]> = (0..12).map(|_| [rng.byte(), rng.byte(), rng.byte()]).collect();
    for (x, y, p) in img.enumerate_pixels_mut() {
        p.0 = match cls {
            "gradient" => [
                (x * 255 / w.max(2).saturating_sub(1)).min(255) as u8,
                (y * 255 / h.max(2).saturating_sub(1)).min(255) as u8,
                ((x + y) % 256) as u8,
                ((x * 7 + y * 13) % 256) as u8,
            ],
            "fewcolors" => {
                let c = pal[rng.below(12) as usize];
                [c[0], c[1], c[2], [0u8, 64, 128, 255][rng.below(4) as usize]]
            }
            "transparent" => [rng.byte(), rng.byte(), rng.byte(), 0],
            "binalpha" => [rng.byte(), rng.byte(), rng.byte(), if rng.chance(1, 2) { 255 } else { 0 }],
            _ => [rng.byte(), rng.byte(), rng.byte(), rng.byte()],
        };
    }
    img
}

fn target(ver: &str, enc: &str, alpha: i64) -> BlpTarget {
    let ab = match alpha {
        0 => AlphaBits::NoAlpha,
        1 => AlphaBits::Bit1,
        4 => AlphaBits::Bit4,
        _ => AlphaBits::Bit8,
    };
    let has_alpha = alpha != 0;
    let alg = DxtAlgorithm::RangeFit;
    match (ver, enc) {
        ("Blp0", "raw1") => BlpTarget::Blp0(BlpOldFormat::Raw1 { alpha_bits: ab }),
        ("Blp0", "jpeg") => BlpTarget::Blp0(BlpOldFormat::Jpeg { has_alpha }),
        ("Blp1", "raw1") => BlpTarget::Blp1(BlpOldFormat::Raw1 { alpha_bits: ab }),
        ("Blp1", "jpeg") => BlpTarget::Blp1(BlpOldFormat::Jpeg { has_alpha }),
        ("Blp2", "raw1") => BlpTarget::Blp2(Blp2Format::Raw1 { alpha_bits: ab }),
        ("Blp2", "raw3") => BlpTarget::Blp2(Blp2Format::Raw3),
        ("Blp2", "jpeg") => BlpTarget::Blp2(Blp2Format::Jpeg { has_alpha }),
        ("Blp2", "dxt1") => BlpTarget::Blp2(Blp2Format::Dxt1 { has_alpha, compress_algorithm: alg }),
        ("Blp2", "dxt3") => BlpTarget::Blp2(Blp2Format::Dxt3 { has_alpha, compress_algorithm: alg }),
        ("Blp2", "dxt5") => BlpTarget::Blp2(Blp2Format::Dxt5 { has_alpha, compress_algorithm: alg }),
        _ => tool_error(&format!("no target for {ver}/{enc}")),
    }
}

fn class<T, E: std::fmt::Debug>(o: Outcome<Result<T, E>>) -> (String, Option<T>) {
    match o {
        Outcome::Done(Ok(v)) => ("ok".into(), Some(v)),
        Outcome::Done(Err(e)) => (format!("err:{}", variant_name(&e)), None),
        Outcome::Panic(_) => ("panic".into(), None),
        Outcome::Hang => ("hang".into(), None),
    }
}
fn u32_at(b: &[u8], p: usize) -> i64 {
    if p + 4 <= b.len() {
        (u32::from_le_bytes([b[p], b[p + 1], b[p + 2], b[p + 3]]).min(0x7fff_0000)) as i64
    } else {
        -1
    }
}
fn level_sizes(b: &BlpImage) -> Vec<usize> {
    match &b.content {
        BlpContent::Raw1(c) => c.images.iter().map(|i| i.len()).collect(),
        BlpContent::Raw3(c) => c.images.iter().map(|i| i.len()).collect(),
        BlpContent::Jpeg(c) => c.images.iter().map(|i| i.len()).collect(),
        BlpContent::Dxt1(c) | BlpContent::Dxt3(c) | BlpContent::Dxt5(c) => c.images.iter().map(|i| i.len()).collect(),
    }
}

fn run_case(case: &str, c: &Value, rng: &mut Rng, scratch: &Scratch) -> Vec<Value> {
    let mut evs = Vec::new();
    let (ver, enc, alpha) = (gs(c, "ver"), gs(c, "enc"), gi(c, "alpha"));
    let (w, h, mips, cls) = (gi(c, "w") as u32, gi(c, "h") as u32, gb(c, "mips"), gs(c, "img"));
    let (hdr, loc) = (gi(c, "hdr") as usize, gi(c, "loc") as usize);
    evs.push(json!({"ev":"Reset","case":case,"ver":ver,"enc":enc,"alpha":alpha,"w":w,"h":h,"mips":mips,"img":cls}));
    let src = make_image(cls, w, h, rng);
    let src_tok = tok(src.as_raw());
    let tgt = target(ver, enc, alpha);
    let dynimg = DynamicImage::ImageRgba8(src.clone());
    let (cres, blp) = class(guarded(move || image_to_blp(dynimg, mips, tgt, FilterType::Triangle)));
    let Some(blp) = blp else {
        evs.push(json!({"ev":"Convert","case":case,"res":cres,"nimg":0,"stok":"-","lens":[]}));
        return evs;
    };
    let lens = level_sizes(&blp);
    evs.push(json!({"ev":"Convert","case":case,"res":cres,"nimg":lens.len(),"stok":dtok(&blp),"lens":lens}));
    let (eres, enc_out) = class(guarded(|| encode_blp0(&blp)));
    let Some(out) = enc_out else {
        evs.push(json!({"ev":"Encode","case":case,"res":eres,"len":0,"tok":"-","ext":[],"exttoks":[]}));
        return evs;
    };
    let bytes = out.blp_bytes;
    let ext: Vec<usize> = out.blp_mipmaps.iter().map(|m| m.len()).collect();
    let exttoks: Vec<String> = out.blp_mipmaps.iter().map(|m| tok(m)).collect();
    evs.push(json!({"ev":"Encode","case":case,"res":eres,"len":bytes.len(),"tok":tok(&bytes),"ext":ext,"exttoks":exttoks}));
    // header fields and locator, read from the produced bytes at the positions the specification gave
    let mut offs = Vec::new();
    let mut sizes = Vec::new();
    if loc > 0 {
        for i in 0..16 {
            offs.push(u32_at(&bytes, loc + 4 * i));
            sizes.push(u32_at(&bytes, loc + 64 + 4 * i));
        }
    }
    let has_mips = if ver == "Blp2" { bytes.get(11).map(|b| *b as i64).unwrap_or(-1) } else { u32_at(&bytes, 24) };
    let jh = if enc == "jpeg" { u32_at(&bytes, hdr) } else { 0 };
    evs.push(json!({"ev":"Header","case":case,"w":u32_at(&bytes, 12),"h":u32_at(&bytes, 16),"hasMips":has_mips,"offs":offs,"sizes":sizes,"jh":jh,
        "magic":String::from_utf8_lossy(&bytes[..4.min(bytes.len())]).to_string()}));
    let mm = out.blp_mipmaps.clone();
    let b2 = bytes.clone();
    let (pres, parsed) = class(guarded(move || {
        parse_blp_with_externals(&b2, |i| preloaded_mipmaps(&mm, i)).map_err(|e| format!("{e:?}"))
    }));
    let pres = if pres.starts_with("err") { "err:Parse".to_string() } else { pres };
    match &parsed {
        Some(p) => evs.push(json!({"ev":"Parse","case":case,"res":pres,"nimg":level_sizes(p).len(),"stok":dtok(p),"lens":level_sizes(p)})),
        None => evs.push(json!({"ev":"Parse","case":case,"res":pres,"nimg":0,"stok":"-","lens":[]})),
    }
    // every level of the parsed texture decoded: dimensions as the decoder reports them (for JPEG these are
    // the dimensions in the JPEG stream itself)
    if let Some(p) = &parsed {
        let n = level_sizes(p).len();
        let mut dims: Vec<Value> = Vec::new();
        let mut lres = "ok".to_string();
        for i in 0..n {
            let (r, d) = class(guarded(|| blp_to_image(p, i)));
            match d {
                Some(d) => dims.push(json!([d.width(), d.height()])),
                None => {
                    dims.push(json!([0, 0]));
                    if lres == "ok" {
                        lres = r;
                    }
                }
            }
        }
        evs.push(json!({"ev":"Levels","case":case,"res":lres,"dims":dims}));
    }
    // palettised encodings with an alpha plane: the alpha of EVERY level against the alpha of the source scaled
    // down the documented way (halve with resize_exact and the caller's filter, level by level)
    if let (Some(p), true) = (&parsed, enc == "raw1" && alpha > 0) {
        let n = level_sizes(p).len();
        let mut exp = DynamicImage::ImageRgba8(src.clone());
        let mut lv: Vec<Value> = Vec::new();
        for i in 0..n {
            if i > 0 {
                let (w2, h2) = ((exp.width() >> 1).max(1), (exp.height() >> 1).max(1));
                exp = exp.resize_exact(w2, h2, FilterType::Triangle);
            }
            let e = exp.to_rgba8();
            let (r, d) = class(guarded(|| blp_to_image(p, i)));
            let Some(d) = d else {
                lv.push(json!({"lvl":i,"res":r,"n":0,"dmin":0,"dmax":0,"dmean":0,"emin":0,"emax":0,"emean":0,"epos":0,"pairs":[],"full":false}));
                continue;
            };
            let d = d.into_rgba8();
            if d.dimensions() != e.dimensions() {
                lv.push(json!({"lvl":i,"res":"dims","n":0,"dmin":0,"dmax":0,"dmean":0,"emin":0,"emax":0,"emean":0,"epos":0,"pairs":[],"full":false}));
                continue;
            }
            let npx = (e.width() * e.height()) as u64;
            let (mut dmin, mut dmax, mut dsum, mut emin, mut emax, mut esum, mut epos) = (255u64, 0u64, 0u64, 255u64, 0u64, 0u64, 0u64);
            let mut seen = std::collections::BTreeSet::new();
            for (a, b) in e.pixels().zip(d.pixels()) {
                let (ea, da) = (a[3] as u64, b[3] as u64);
                dmin = dmin.min(da);
                dmax = dmax.max(da);
                dsum += da;
                emin = emin.min(ea);
                emax = emax.max(ea);
                esum += ea;
                if ea > 0 {
                    epos += 1;
                }
                if seen.len() < 300 {
                    seen.insert((a[3], b[3]));
                }
            }
            let full = seen.len() < 300;
            let pj: Vec<Value> = seen.iter().map(|(a, b)| json!([a, b])).collect();
            lv.push(json!({"lvl":i,"res":"ok","n":npx,"dmin":dmin,"dmax":dmax,"dmean":dsum / npx,"emin":emin,"emax":emax,"emean":esum / npx,
                "epos":epos,"pairs":pj,"full":full}));
        }
        evs.push(json!({"ev":"AlphaLevels","case":case,"levels":lv}));
    }
    if let (Some(p), true) = (&parsed, enc == "raw1" || enc == "raw3") {
        let (dres, dec) = class(guarded(|| blp_to_image(p, 0)));
        let mut pal_bad = 0usize;
        let mut pairs: Vec<(u8, u8)> = Vec::new();
        let mut l0 = "-".to_string();
        let mut dims = (0u32, 0u32);
        if let Some(d) = dec {
            let rgba = d.into_rgba8();
            dims = (rgba.width(), rgba.height());
            l0 = tok(rgba.as_raw());
            if let BlpContent::Raw1(r) = &p.content {
                let cm: std::collections::HashSet<u32> = r.cmap.iter().map(|c| c & 0x00ff_ffff).collect();
                for px in rgba.pixels() {
                    let col = px[0] as u32 | (px[1] as u32) << 8 | (px[2] as u32) << 16;
                    if !cm.contains(&col) {
                        pal_bad += 1;
                    }
                }
            }
            if rgba.dimensions() == src.dimensions() {
                let mut seen = std::collections::BTreeSet::new();
                for (a, b) in src.pixels().zip(rgba.pixels()) {
                    seen.insert((a[3], b[3]));
                }
                pairs = seen.into_iter().collect();
            }
        }
        let pj: Vec<Value> = pairs.iter().map(|(a, b)| json!([a, b])).collect();
        evs.push(json!({"ev":"Decode","case":case,"res":dres,"l0tok":l0,"srctok":src_tok,"palBad":pal_bad,"pairs":pj,"dw":dims.0,"dh":dims.1}));
    }
    // ---- the file-path API: save_blp over a destination in each pre-state, then load_blp ----
    for pre in ga(c, "pre") {
        let pre = pre.as_str().unwrap();
        let dir = scratch.file(&format!("{}_{}", case.replace(':', "_"), pre));
        std::fs::create_dir_all(&dir).unwrap_or_else(|e| tool_error(&format!("mkdir {dir:?}: {e}")));
        let path = dir.join("tex.blp");
        if pre != "absent" {
            // an earlier save of a smaller / larger texture of the same target at the same path
            let (pw, ph) = if pre == "shorter" { ((w / 2).max(1), (h / 2).max(1)) } else { ((w * 2).min(1024), (h * 2).min(1024)) };
            let pimg = DynamicImage::ImageRgba8(make_image(cls, pw, ph, rng));
            let ptgt = target(ver, enc, alpha);
            if let Outcome::Done(Ok(pb)) = guarded(move || image_to_blp(pimg, mips, ptgt, FilterType::Triangle)) {
                let _ = guarded(|| save_blp(&pb, &path));
            }
        }
        let (sres, _) = class(guarded(|| save_blp(&blp, &path)));
        let main = std::fs::read(&path).unwrap_or_default();
        let mut ftoks: Vec<String> = Vec::new();
        for i in 0..out.blp_mipmaps.len() {
            let fb = make_mipmap_path(&path, i).and_then(|p| std::fs::read(p).ok()).unwrap_or_default();
            ftoks.push(tok(&fb));
        }
        let (lres, loaded) = class(guarded(|| load_blp(&path).map_err(|e| format!("{e:?}"))));
        let lres = if lres.starts_with("err") { "err:Load".to_string() } else { lres };
        let stok = loaded.map(|l| dtok(&l)).unwrap_or_else(|| "-".into());
        evs.push(json!({"ev":"File","case":case,"pre":pre,"sres":sres,"mainLen":main.len(),"mainTok":tok(&main),"extToks":ftoks,"lres":lres,"stok":stok}));
        let _ = std::fs::remove_dir_all(&dir);
    }
    evs
}

fn main() {
    let a = args();
    install_quiet_panic_hook();
    let cases = read_cases(&a.cases);
    let trace = Trace::create(&a.trace);
    let seed = seed();
    let scratch = Scratch::new("c16");
    let results: Vec<std::sync::Mutex<Vec<Value>>> = (0..cases.len()).map(|_| std::sync::Mutex::new(Vec::new())).collect();
    par_for(cases.len(), ncpu().min(8), |ci| {
        let c = &cases[ci];
        let case = format!("{ci}:blp");
        let mut rng = Rng::derive(seed, &case);
        *results[ci].lock().unwrap() = run_case(&case, c, &mut rng, &scratch);
    });
    for r in results {
        trace.block(r.into_inner().unwrap());
    }
    trace.flush();
}
