----------------------------- MODULE MpqFormatHB -----------------------------
(***************************************************************************)
(* Growth round 4 of the C02 reference: MPQ format versions 3 and 4.       *)
(*   - V3 (68 byte) and V4 (208 byte) headers: 64-bit archive size, HET /  *)
(*     BET positions, V4 table sizes, raw chunk size, six MD5 digests      *)
(*     (this module names the byte range every digest covers; MD5 itself   *)
(*     is computed by Python's hashlib, like zlib today);                  *)
(*   - HET and BET tables: extended header, table key, optional           *)
(*     compression, HET header / name-hash array / bit-packed file-index   *)
(*     array, BET header / flag array / bit-packed entries / bit-packed    *)
(*     name-hash array; lookup = HET probe + BET hash verification;        *)
(*   - the inverse writer steps WEmitHet / WEmitBet / HeaderBytesX.        *)
(* Written from docs/src/formats/archives/mpq.md (field lists of the       *)
(* headers and of both tables) and from the public format description      *)
(* (StormLib's documented behaviour) for what mpq.md leaves open:          *)
(*   * the name hash is Bob Jenkins' hashlittle2 (pc = 2, pb = 1) of the   *)
(*     name folded to LOWER case with '/' -> '\', value (pb << 32) | pc,    *)
(*     cut to hash_entry_size bits, top bit of that width always set;      *)
(*   * the HET array holds the top 8 bits (0x00 = free, 0x80 = deleted),   *)
(*     the BET name-hash array the remaining hash_entry_size - 8 bits;     *)
(*   * probing starts at hash mod total_count, stops at a free entry;      *)
(*   * the stride of the two bit arrays is the *total* entry size          *)
(*     (index_size_total / name_hash_size_total), the value the low        *)
(*     index_size / name_hash_size bits of it;                             *)
(*   * the 12-byte extended header is in clear, the rest is (optionally    *)
(*     compressed, then) encrypted with the key of "(hash table)" (HET) /  *)
(*     "(block table)" (BET); a table is compressed iff it is stored       *)
(*     shorter than data_size says;                                        *)
(*   * a V3 header carries no table sizes: a table extends to the next     *)
(*     table position (or the end of the archive);                         *)
(*   * raw_chunk_size # 0 announces MD5 arrays behind every file/table.    *)
(* NOT transcribed from the Rust sources.  hashlittle2 is MpqCrypto's.     *)
(*                                                                         *)
(* Named deviations ("x-dialect" record xd; XStd = the published format):  *)
(*   upper    names folded to UPPER case before hashing                    *)
(*   nor64    at width 64 the top bit is not forced to 1                    *)
(*   betfull  the BET name hash is the whole hash at the BET's own width   *)
(*            (top bit forced), independent of the HET width               *)
(*   free255  the free marker of the HET array is 0xFF                     *)
(*   libhdr   index_size_total / name_hash_size_total hold the bit size of *)
(*            the WHOLE array (stride = effective size), block_index_size  *)
(*            is 0, table_size counts the extended header, raw_chunk_size   *)
(*            is 0x4000 although no chunk digests exist                    *)
(*   betorder BET entry fields file size / compressed size swapped         *)
(*            (must-refute only)                                           *)
(*   hetlow   HET byte and start slot from the LOW 8 bits, BET part = the  *)
(*            high bits                              (must-refute only)    *)
(* XLib = what the library under test does today (upper, nor64, betfull,   *)
(* free255, libhdr): known finding C02-HETBET-DIALECT.                     *)
(***************************************************************************)
EXTENDS MpqFormat

XStd == [upper |-> FALSE, nor64 |-> FALSE, betfull |-> FALSE, free255 |-> FALSE, libhdr |-> FALSE,
         betorder |-> FALSE, hetlow |-> FALSE]
XLib == [upper |-> TRUE, nor64 |-> TRUE, betfull |-> TRUE, free255 |-> TRUE, libhdr |-> TRUE,
         betorder |-> FALSE, hetlow |-> FALSE]
XFlags == {"upper", "nor64", "betfull", "free255", "libhdr", "betorder", "hetlow"}
XOnly(lb) == [fl \in XFlags |-> fl = lb]

---------------------------------------------------------------------------
(* Bit strings: sequences of 0/1, least significant bit first.             *)
BitAt(bytes, bp) == IF bp \div 8 < Len(bytes) THEN (bytes[(bp \div 8) + 1] \div (2 ^ (bp % 8))) % 2 ELSE 0    \* bp 0-based
GetBits(bytes, bp, cnt) == [bi \in 1..cnt |-> BitAt(bytes, bp + bi - 1)]
\* value of a bit string if it is < 2^24, else -1
BitsNat(bits) ==
  IF \E bi \in 25..Len(bits) : bits[bi] = 1 THEN -1
  ELSE FoldLeft(LAMBDA acc, bi : acc + bits[bi] * (2 ^ (bi - 1)), 0, [bi \in 1..Min2(Len(bits), 24) |-> bi])
NatBits(v, cnt) == [bi \in 1..cnt |-> IF bi <= 30 THEN (v \div (2 ^ (bi - 1))) % 2 ELSE 0]
Ones(cnt) == [bi \in 1..cnt |-> 1]
PackBits(bits) ==
  LET bt(ix) == IF ix <= Len(bits) THEN bits[ix] ELSE 0
  IN  [yi \in 1..CeilDiv(Len(bits), 8) |->
         bt(8*yi-7) + 2*bt(8*yi-6) + 4*bt(8*yi-5) + 8*bt(8*yi-4) + 16*bt(8*yi-3) + 32*bt(8*yi-2) + 64*bt(8*yi-1) + 128*bt(8*yi)]
WordBits(w) == [bi \in 1..32 |-> IF bi <= 16 THEN (w[2] \div (2 ^ (bi - 1))) % 2 ELSE (w[1] \div (2 ^ (bi - 17))) % 2]
\* (value of bits) mod m, most significant bit first (Horner)
ModBits(bits, m) == FoldLeft(LAMBDA acc, bi : (2 * acc + bits[bi]) % m, 0, [qi \in 1..Len(bits) |-> Len(bits) + 1 - qi])
BitsNeeded(v) == IF v <= 0 THEN 1 ELSE CHOOSE e \in 1..30 : 2 ^ (e - 1) <= v /\ v < 2 ^ e
LE64n(v) == LE32n(v) \o LE32n(0)

---------------------------------------------------------------------------
(* Name hash of the HET/BET tables.                                        *)
LowerFold(c) == Lower(Slash(c))
UpperFold(c) == Upper(Slash(c))
\* the 64 bits of (pb << 32) | pc, least significant first
JenkinsBits(name, xd) ==
  LET h == HashLittle2([ci \in 1..Len(name) |-> IF xd.upper THEN UpperFold(name[ci]) ELSE LowerFold(name[ci])], <<0, 2>>, <<0, 1>>)
  IN  WordBits(h.c) \o WordBits(h.b)
\* cut to `width` bits (8..64), top bit of that width forced to 1
MaskedHash(b64, width, xd) ==
  [bi \in 1..width |-> IF bi = width /\ ~(xd.nor64 /\ width = 64) THEN 1 ELSE b64[bi]]
\* the byte kept in the HET array and the part kept in the BET name-hash array
HetByte(mh, xd)  == IF xd.hetlow THEN BitsNat(SubSeq(mh, 1, 8)) ELSE BitsNat(SubSeq(mh, Len(mh) - 7, Len(mh)))
BetPart(b64, hetw, betw, xd) ==
  IF xd.betfull THEN MaskedHash(b64, betw, xd)
  ELSE IF xd.hetlow THEN SubSeq(MaskedHash(b64, hetw, xd), 9, hetw)
  ELSE SubSeq(MaskedHash(b64, hetw, xd), 1, hetw - 8)
HetStart(mh, total, xd) == IF xd.hetlow THEN BitsNat(SubSeq(mh, 1, 8)) % total ELSE ModBits(mh, total)
HetFree(xd) == IF xd.free255 THEN 255 ELSE 0

---------------------------------------------------------------------------
(*                     V3 / V4 HEADER                                      *)
HeaderSizeX(ver) == IF ver = 3 THEN 208 ELSE HeaderSize(ver)
\* a 64-bit little-endian field as a natural (-1: does not fit a small archive)
U64Nat(bs, off) == IF U32At(bs, off + 4) = WZero THEN NatOf(U32At(bs, off)) ELSE -1
NoDigests == [block |-> <<>>, hash |-> <<>>, hiblock |-> <<>>, bet |-> <<>>, het |-> <<>>, header |-> <<>>]
\* fields beyond the V2 header; -1 where the header version does not have them
ParseHeaderX(bs, base) ==
  LET ver == U16At(bs, base + 12)
      v3  == ver >= 2 /\ base + 68 <= Len(bs)
      v4  == ver >= 3 /\ base + 208 <= Len(bs)
      dg(off) == SubSeq(bs, base + off + 1, base + off + 16)
  IN  [ asize64 |-> IF v3 THEN U64Nat(bs, base + 44) ELSE -1,
        betpos  |-> IF v3 THEN U64Nat(bs, base + 52) ELSE -1,
        hetpos  |-> IF v3 THEN U64Nat(bs, base + 60) ELSE -1,
        htsz    |-> IF v4 THEN U64Nat(bs, base + 68) ELSE -1,
        btsz    |-> IF v4 THEN U64Nat(bs, base + 76) ELSE -1,
        hibtsz  |-> IF v4 THEN U64Nat(bs, base + 84) ELSE -1,
        hetsz   |-> IF v4 THEN U64Nat(bs, base + 92) ELSE -1,
        betsz   |-> IF v4 THEN U64Nat(bs, base + 100) ELSE -1,
        rawchunk |-> IF v4 THEN NatOf(U32At(bs, base + 108)) ELSE -1,
        digests |-> IF v4 THEN [block |-> dg(112), hash |-> dg(128), hiblock |-> dg(144), bet |-> dg(160), het |-> dg(176), header |-> dg(192)]
                    ELSE NoDigests ]

\* V3 carries no sizes: a table extends to the next table position or the end of the archive
NextBoundary(pos, others, alen) ==
  LET later == {pp \in others : pp > pos}
  IN  IF later = {} THEN alen ELSE CHOOSE pp \in later : \A p2 \in later : pp <= p2
\* sizes of the HET / BET tables: from the V4 header, or by the next-table rule
XSizes(hn, hx, alen) ==
  LET posns == {hx.hetpos, hx.betpos, hn.hibt} \cup (IF hn.htcount > 0 THEN {hn.htpos} ELSE {}) \cup (IF hn.btcount > 0 THEN {hn.btpos} ELSE {})
  IN  [ hetsz |-> IF hn.ver >= 3 THEN hx.hetsz ELSE NextBoundary(hx.hetpos, posns, alen) - hx.hetpos,
        betsz |-> IF hn.ver >= 3 THEN hx.betsz ELSE NextBoundary(hx.betpos, posns, alen) - hx.betpos ]

Disjoint(p1, s1, p2, s2) == s1 = 0 \/ s2 = 0 \/ p1 + s1 <= p2 \/ p2 + s2 <= p1
\* What the reference requires of a V3/V4 header (all arguments naturals; alen = bytes from the
\* header to the end of the file; hetsz/betsz = XSizes).  Re-evaluated on logged integers by the trace spec.
\* Subset: classic tables stored uncompressed, no raw chunk digests.
HeaderConformsX(ver, hsize, asize64, alen, shift, htpos, btpos, htcount, btcount, hibt, hthi, bthi,
                hetpos, betpos, hetsz, betsz, htsz, btsz, hibtsz, rawchunk, xd) ==
  LET hibtlen == IF hibt = 0 THEN 0 ELSE 2 * btcount
      tabs == << <<htpos, 16 * htcount>>, <<btpos, 16 * btcount>>, <<hibt, hibtlen>>, <<hetpos, hetsz>>, <<betpos, betsz>> >>
  IN  /\ ver \in {2, 3} /\ hsize = HeaderSizeX(ver)
      /\ shift \in 0..22 /\ hthi = 0 /\ bthi = 0
      /\ asize64 = alen                                               \* 64-bit archive size
      /\ htcount >= 0 /\ btcount >= 0 /\ (htcount = 0 \/ IsPow2(htcount))
      /\ (hetpos = 0) = (betpos = 0)                                  \* both tables or none
      /\ (hetpos = 0 => htcount >= 1)                                 \* some way to find files
      /\ (htcount > 0 => htpos >= hsize /\ htpos + 16 * htcount <= alen)
      /\ (btcount > 0 => btpos >= hsize /\ btpos + 16 * btcount <= alen)
      /\ (hibt # 0 => hibt >= hsize /\ hibt + hibtlen <= alen)
      /\ (hetpos # 0 => /\ hetpos >= hsize /\ hetsz >= 12 + 32 /\ hetpos + hetsz <= alen
                        /\ betpos >= hsize /\ betsz >= 12 + 76 /\ betpos + betsz <= alen)
      /\ \A t1 \in 1..5, t2 \in 1..5 : t1 < t2 => Disjoint(tabs[t1][1], tabs[t1][2], tabs[t2][1], tabs[t2][2])
      /\ (ver = 3 => /\ htsz = 16 * htcount /\ btsz = 16 * btcount /\ hibtsz = hibtlen
                     /\ rawchunk = (IF xd.libhdr THEN 16384 ELSE 0))

\* The byte ranges the V4 digests cover (relative to the MPQ header) and where each digest is kept.
\* A digest of an absent table is not checked.  The header digest covers the header up to itself.
Md5Ranges(hn, hx) ==
  IF hn.ver # 3 THEN <<>> ELSE
  SelectSeq(<< [what |-> "block",   lo |-> hn.btpos,  len |-> hx.btsz,   at |-> 112],
               [what |-> "hash",    lo |-> hn.htpos,  len |-> hx.htsz,   at |-> 128],
               [what |-> "hiblock", lo |-> hn.hibt,   len |-> hx.hibtsz, at |-> 144],
               [what |-> "bet",     lo |-> hx.betpos, len |-> hx.betsz,  at |-> 160],
               [what |-> "het",     lo |-> hx.hetpos, len |-> hx.hetsz,  at |-> 176],
               [what |-> "header",  lo |-> 0,         len |-> 192,       at |-> 192] >>,
            LAMBDA rg : rg.len > 0 /\ rg.lo >= 0)

---------------------------------------------------------------------------
(*                     HET / BET TABLES: READER                            *)
SigHET == <<72, 69, 84, 26>>        \* 'H' 'E' 'T' 0x1A
SigBET == <<66, 69, 84, 26>>        \* 'B' 'E' 'T' 0x1A
\* Extended table at [pos, pos+size): header in clear, body decrypted; compressed iff stored shorter than data_size.
\* The body is returned as a sector-like record (m = method byte or -1, p = payload): Python inflates it.
ExtTable(bs, base, pos, size, sig, key) ==
  IF pos <= 0 \/ size < 12 \/ base + pos + size > Len(bs)
  THEN [res |-> "malformed:range", version |-> -1, dsize |-> -1, stored |-> -1, m |-> -1, p |-> <<>>]
  ELSE LET raw   == SubSeq(bs, base + pos + 1, base + pos + size)
           dsize == NatOf(U32At(raw, 8))
           body  == StdCryptBytes(SubSeq(raw, 13, size), key, StdDecWords)
           comp  == dsize > size - 12 /\ size > 12
       IN  [ res |-> IF SubSeq(raw, 1, 4) # sig THEN "malformed:signature"
                     ELSE IF NatOf(U32At(raw, 4)) # 1 THEN "malformed:version"
                     ELSE IF dsize < 0 THEN "malformed:datasize" ELSE "ok",
             version |-> NatOf(U32At(raw, 4)), dsize |-> dsize, stored |-> size - 12,
             m |-> IF comp THEN body[1] ELSE -1,
             p |-> IF comp THEN SubSeq(body, 2, Len(body)) ELSE SubSeq(body, 1, Min2(Len(body), IF dsize < 0 THEN 0 ELSE dsize)) ]

NoHet == [res |-> "none", tsize |-> -1, maxfiles |-> -1, total |-> -1, hbits |-> -1, itotal |-> -1, iextra |-> -1,
          isize |-> -1, ibytes |-> -1, dlen |-> -1]
NoBet == [res |-> "none", tsize |-> -1, nfiles |-> -1, unk |-> -1, esize |-> -1,
          bipos |-> -1, bifsize |-> -1, bicsize |-> -1, biflag |-> -1, biunk |-> -1,
          bcpos |-> -1, bcfsize |-> -1, bccsize |-> -1, bcflag |-> -1, bcunk |-> -1,
          htotal |-> -1, hextra |-> -1, hsize |-> -1, hbytes |-> -1, nflags |-> -1, dlen |-> -1]
\* header fields of the plain (decrypted, decompressed) table bodies
HetHeader(hb) ==
  IF Len(hb) < 32 THEN [NoHet EXCEPT !.res = "malformed:short", !.dlen = Len(hb)]
  ELSE LET fld(off) == NatOf(U32At(hb, off))
       IN  [res |-> "ok", tsize |-> fld(0), maxfiles |-> fld(4), total |-> fld(8), hbits |-> fld(12), itotal |-> fld(16),
            iextra |-> fld(20), isize |-> fld(24), ibytes |-> fld(28), dlen |-> Len(hb)]
BetHeader(bb) ==
  IF Len(bb) < 76 THEN [NoBet EXCEPT !.res = "malformed:short", !.dlen = Len(bb)]
  ELSE LET fld(off) == NatOf(U32At(bb, off))
       IN  [res |-> "ok", tsize |-> fld(0), nfiles |-> fld(4), unk |-> fld(8), esize |-> fld(12),
            bipos |-> fld(16), bifsize |-> fld(20), bicsize |-> fld(24), biflag |-> fld(28), biunk |-> fld(32),
            bcpos |-> fld(36), bcfsize |-> fld(40), bccsize |-> fld(44), bcflag |-> fld(48), bcunk |-> fld(52),
            htotal |-> fld(56), hextra |-> fld(60), hsize |-> fld(64), hbytes |-> fld(68), nflags |-> fld(72), dlen |-> Len(bb)]

\* strides of the two bit arrays
HetStride(het, xd) == IF xd.libhdr THEN het.isize ELSE het.itotal
BetHStride(bet, xd) == IF xd.libhdr THEN bet.hsize ELSE bet.htotal

\* conformance of the table headers (records of naturals as produced above / as logged); dsize = data_size of the extended header
HetConforms(het, dsize, xd) ==
  /\ het.res = "ok" /\ het.dlen = dsize
  /\ \A fl \in {"tsize", "maxfiles", "total", "hbits", "itotal", "iextra", "isize", "ibytes"} : het[fl] >= 0
  /\ het.total >= 1 /\ het.maxfiles <= het.total
  /\ het.hbits \in 8..64
  /\ het.isize \in 1..24 /\ 2 ^ het.isize >= het.maxfiles
  /\ IF xd.libhdr THEN het.itotal = het.total * het.isize /\ het.iextra = 0 /\ het.ibytes = 0 /\ het.tsize = dsize + 12
     ELSE /\ het.isize = het.itotal - het.iextra
          /\ het.ibytes = CeilDiv(het.total * het.itotal, 8)
          /\ het.tsize = dsize                  \* "size of the entire table including the (HET) header": the data after the extended header
  /\ dsize = 32 + het.total + CeilDiv(het.total * HetStride(het, xd), 8)
BetConforms(bet, dsize, xd) ==
  LET flds == << <<bet.bipos, bet.bcpos>>, <<bet.bifsize, bet.bcfsize>>, <<bet.bicsize, bet.bccsize>>,
                 <<bet.biflag, bet.bcflag>>, <<bet.biunk, bet.bcunk>> >>
  IN  /\ bet.res = "ok" /\ bet.dlen = dsize
      /\ \A fl \in DOMAIN bet \ {"res"} : bet[fl] >= 0
      /\ \A f1 \in 1..5 : flds[f1][1] + flds[f1][2] <= bet.esize                                  \* every field inside the entry
      /\ \A f1 \in 1..5, f2 \in 1..5 : f1 < f2 => Disjoint(flds[f1][1], flds[f1][2], flds[f2][1], flds[f2][2])
      /\ bet.bcpos <= 24 /\ bet.bcfsize <= 24 /\ bet.bccsize <= 24 /\ bet.bcflag <= 24            \* small archives
      /\ (bet.nflags = 0 => bet.nfiles = 0) /\ 2 ^ bet.bcflag >= bet.nflags
      /\ bet.hsize \in 0..64
      /\ IF xd.libhdr THEN bet.htotal = bet.nfiles * bet.hsize /\ bet.hextra = 0 /\ bet.hbytes = CeilDiv(bet.htotal, 8) /\ bet.tsize = dsize + 12
         ELSE /\ bet.hsize = bet.htotal - bet.hextra
              /\ bet.hbytes = CeilDiv(bet.nfiles * bet.htotal, 8)
              /\ bet.tsize = dsize
      /\ dsize = 76 + 4 * bet.nflags + CeilDiv(bet.nfiles * bet.esize, 8) + CeilDiv(bet.nfiles * BetHStride(bet, xd), 8)
\* the two tables describe the same file set; the BET keeps what the HET byte leaves of the name hash
HetBetAgree(het, bet, xd) ==
  /\ bet.nfiles = het.maxfiles
  /\ (xd.betfull \/ bet.hsize + 8 = het.hbits)
  /\ (xd.betfull => bet.hsize >= 8)

\* An opened pair of tables: headers + the four arrays (offsets into the plain bodies)
XTables(hb, bb) ==
  LET het == HetHeader(hb)
      bet == BetHeader(bb)
  IN  [het |-> het, bet |-> bet, hb |-> hb, bb |-> bb]
HetByteAt(xt, slot) == xt.hb[32 + slot + 1]
HetIndexAt(xt, slot, xd) == BitsNat(GetBits(SubSeq(xt.hb, 32 + xt.het.total + 1, Len(xt.hb)), slot * HetStride(xt.het, xd), xt.het.isize))
BetFlagsAt(xt, fx) == U32At(xt.bb, 76 + 4 * fx)
BetEntriesOff(xt) == 76 + 4 * xt.bet.nflags
BetHashesOff(xt) == BetEntriesOff(xt) + CeilDiv(xt.bet.nfiles * xt.bet.esize, 8)
BetField(xt, idx, bi, bc) == BitsNat(GetBits(SubSeq(xt.bb, BetEntriesOff(xt) + 1, BetHashesOff(xt)), idx * xt.bet.esize + bi, bc))
BetHashAt(xt, idx, xd) == GetBits(SubSeq(xt.bb, BetHashesOff(xt) + 1, Len(xt.bb)), idx * BetHStride(xt.bet, xd), xt.bet.hsize)
\* the BET entry of file idx as a block-table entry (words), or "bad" if a field does not fit / the flag index is out of range
BetEntry(xt, idx, xd) ==
  LET pos   == BetField(xt, idx, xt.bet.bipos, xt.bet.bcpos)
      fsz   == BetField(xt, idx, IF xd.betorder THEN xt.bet.bicsize ELSE xt.bet.bifsize, IF xd.betorder THEN xt.bet.bccsize ELSE xt.bet.bcfsize)
      csz   == BetField(xt, idx, IF xd.betorder THEN xt.bet.bifsize ELSE xt.bet.bicsize, IF xd.betorder THEN xt.bet.bcfsize ELSE xt.bet.bccsize)
      fx    == BetField(xt, idx, xt.bet.biflag, xt.bet.bcflag)
  IN  IF pos < 0 \/ fsz < 0 \/ csz < 0 \/ fx < 0 \/ fx >= xt.bet.nflags THEN [ok |-> FALSE, be |-> <<>>]
      ELSE [ok |-> TRUE, be |-> [pos |-> WFromNat(pos), csize |-> WFromNat(csz), fsize |-> WFromNat(fsz), flags |-> BetFlagsAt(xt, fx)]]

\* every occupied HET slot points at a file; every BET entry decodes          (slot-level conformance)
XSlotsOk(xt, xd) ==
  /\ \A slot \in 0..(xt.het.total - 1) :
       LET hbyte == HetByteAt(xt, slot)
       IN  \/ hbyte = HetFree(xd) \/ (~xd.free255 /\ hbyte = 128)                      \* free / deleted
           \/ ((hbyte >= 128 \/ xd.nor64) /\ HetIndexAt(xt, slot, xd) \in 0..(xt.bet.nfiles - 1))
  /\ \A idx \in 0..(xt.bet.nfiles - 1) : BetEntry(xt, idx, xd).ok

\* lookup: HET probe from (hash mod total_count) comparing the kept byte, then BET hash verification.  File index or -1.
HetLookup(xt, name, xd) ==
  LET b64   == JenkinsBits(name, xd)
      mh    == MaskedHash(b64, xt.het.hbits, xd)
      total == xt.het.total
      start == HetStart(mh, total, xd)
      want1 == HetByte(mh, xd)
      want2 == BetPart(b64, xt.het.hbits, xt.bet.hsize, xd)
      probe(acc, pk) ==
        IF acc.stop THEN acc
        ELSE LET slot  == (start + pk) % total
                 hbyte == HetByteAt(xt, slot)
             IN  IF hbyte = HetFree(xd) THEN [acc EXCEPT !.stop = TRUE]
                 ELSE IF hbyte = want1
                      THEN LET idx == HetIndexAt(xt, slot, xd)
                           IN  IF idx >= 0 /\ idx < xt.bet.nfiles /\ BetHashAt(xt, idx, xd) = want2
                               THEN [stop |-> TRUE, idx |-> idx] ELSE acc
                      ELSE acc
  IN  FoldLeft(probe, [stop |-> FALSE, idx |-> -1], [pk \in 1..total |-> pk - 1]).idx

\* read a file through HET/BET (file dialect d for the data, x-dialect xd for the tables)
RefReadFileX(bs, base, shift, xt, name, d, xd) ==
  LET idx == HetLookup(xt, name, xd)
  IN  IF idx < 0 THEN NoFile("notfound")
      ELSE LET en == BetEntry(xt, idx, xd)
           IN  IF ~en.ok THEN NoFile("malformed:betentry")
               ELSE [ReadBlock(bs, base, SectorSize(shift), en.be, idx, name, d) EXCEPT !.locale = 0, !.platform = 0]

\* An opened V3/V4 archive (header level): classic part judged like a V2 header, the rest by HeaderConformsX
OpenArchiveX(bs) ==
  LET base == FindHeader(bs)
  IN  IF base < 0 THEN [res |-> "noheader", base |-> -1, alen |-> 0]
      ELSE LET hn == HeaderNat(ParseHeader(bs, base))
               hx == ParseHeaderX(bs, base)
               alen == Len(bs) - base
               xs == XSizes(hn, hx, alen)
           IN  [res |-> "ok", base |-> base, alen |-> alen, hn |-> hn, hx |-> hx, xs |-> xs]
HeaderOkX(ar, xd) ==
  LET hn == ar.hn  hx == ar.hx
  IN  /\ \A fld \in {"hsize", "htpos", "btpos", "htcount", "btcount", "hibt"} : hn[fld] >= 0
      /\ hx.asize64 >= 0 /\ hx.hetpos >= 0 /\ hx.betpos >= 0
      /\ (hn.ver = 3 => \A fld \in {"htsz", "btsz", "hibtsz", "hetsz", "betsz", "rawchunk"} : hx[fld] >= 0)
      /\ HeaderConformsX(hn.ver, hn.hsize, hx.asize64, ar.alen, hn.shift, hn.htpos, hn.btpos, hn.htcount, hn.btcount, hn.hibt,
                         hn.hthi, hn.bthi, hx.hetpos, hx.betpos, ar.xs.hetsz, ar.xs.betsz, hx.htsz, hx.btsz, hx.hibtsz, hx.rawchunk, xd)

---------------------------------------------------------------------------
(*                     HET / BET TABLES: WRITER                            *)
(* cfg gains: hetbet (write the two tables), classic (also write the       *)
(* classic hash/block tables), hbits (width of the name hash, 16..64),     *)
(* hettotal (entries of the HET array, >= number of files), iextra / hextra *)
(* (unused extra bits per index / name-hash entry), slack (extra bits per   *)
(* BET field), hetstored / betstored (bodies as compressed by Python:      *)
(* <<>> = store raw).                                                      *)
---------------------------------------------------------------------------
\* slot assignment: files in block order, linear probing from the start slot to the first free slot
HetAssign(names, total, hbits, xd) ==
  LET ins(acc, fi) ==
        LET mh    == MaskedHash(JenkinsBits(names[fi], xd), hbits, xd)
            start == HetStart(mh, total, xd)
            free  == {pk \in 0..(total - 1) : acc.idx[((start + pk) % total) + 1] < 0}
            pk0   == CHOOSE pk \in free : \A p2 \in free : pk <= p2
            slot  == ((start + pk0) % total) + 1
        IN  [nh |-> [acc.nh EXCEPT ![slot] = HetByte(mh, xd)], idx |-> [acc.idx EXCEPT ![slot] = fi - 1]]
  IN  FoldLeft(ins, [nh |-> [si \in 1..total |-> HetFree(xd)], idx |-> [si \in 1..total |-> -1]], [fi \in 1..Len(names) |-> fi])

HetBody(names, cfg, xd) ==
  LET nfiles == Len(names)
      total  == cfg.hettotal
      isize  == BitsNeeded(nfiles)                 \* the all-ones value stays free for unused slots
      itotal == isize + cfg.iextra
      stride == IF xd.libhdr THEN isize ELSE itotal
      asg    == HetAssign(names, total, cfg.hbits, xd)
      ibits  == ConcatAll([si \in 1..total |->
                   (IF asg.idx[si] < 0 THEN Ones(isize) ELSE NatBits(asg.idx[si], isize)) \o NatBits(0, stride - isize)])
      ibytes == PackBits(ibits)
      dsize  == 32 + total + Len(ibytes)
  IN  LE32n(IF xd.libhdr THEN dsize + 12 ELSE dsize) \o LE32n(nfiles) \o LE32n(total) \o LE32n(cfg.hbits)
      \o LE32n(IF xd.libhdr THEN total * isize ELSE itotal) \o LE32n(IF xd.libhdr THEN 0 ELSE cfg.iextra) \o LE32n(isize)
      \o LE32n(IF xd.libhdr THEN 0 ELSE Len(ibytes))
      \o asg.nh \o ibytes

MaxOf(sq) == FoldLeft(LAMBDA acc, v : IF v > acc THEN v ELSE acc, 0, sq)
\* distinct flag words in order of first appearance
FlagArray(blocks) == FoldLeft(LAMBDA acc, bi : IF \E ai \in 1..Len(acc) : acc[ai] = blocks[bi].flags THEN acc ELSE Append(acc, blocks[bi].flags),
                              <<>>, [bi \in 1..Len(blocks) |-> bi])
BetBody(names, blocks, cfg, xd) ==
  LET nfiles == Len(blocks)
      fa     == FlagArray(blocks)
      fxOf(fl) == (CHOOSE ai \in 1..Len(fa) : fa[ai] = fl) - 1
      bcpos  == BitsNeeded(MaxOf([bi \in 1..nfiles |-> NatOf(blocks[bi].pos)])) + cfg.slack
      bcfs   == BitsNeeded(MaxOf([bi \in 1..nfiles |-> NatOf(blocks[bi].fsize)])) + cfg.slack
      bccs   == BitsNeeded(MaxOf([bi \in 1..nfiles |-> NatOf(blocks[bi].csize)])) + cfg.slack
      bcfl   == BitsNeeded(Len(fa) - 1)
      bcunk  == cfg.slack
      esize  == bcpos + bcfs + bccs + bcfl + bcunk
      hsize  == IF xd.betfull THEN 64 ELSE cfg.hbits - 8
      htotal == hsize + (IF xd.libhdr THEN 0 ELSE cfg.hextra)
      \* published order of the fields inside an entry: file position, file size, compressed size, flag index, unknown
      entry(bi) == NatBits(NatOf(blocks[bi].pos), bcpos)
                   \o NatBits(NatOf(IF xd.betorder THEN blocks[bi].csize ELSE blocks[bi].fsize), bcfs)
                   \o NatBits(NatOf(IF xd.betorder THEN blocks[bi].fsize ELSE blocks[bi].csize), bccs)
                   \o NatBits(fxOf(blocks[bi].flags), bcfl) \o NatBits(0, bcunk)
      ebytes == PackBits(ConcatAll([bi \in 1..nfiles |-> entry(bi)]))
      hbytes == PackBits(ConcatAll([bi \in 1..nfiles |->
                   BetPart(JenkinsBits(names[bi], xd), cfg.hbits, hsize, xd) \o NatBits(0, htotal - hsize)]))
      dsize  == 76 + 4 * Len(fa) + Len(ebytes) + Len(hbytes)
  IN  LE32n(IF xd.libhdr THEN dsize + 12 ELSE dsize) \o LE32n(nfiles) \o LE32n(16) \o LE32n(esize)
      \o LE32n(0) \o LE32n(bcpos) \o LE32n(bcpos + bcfs) \o LE32n(bcpos + bcfs + bccs) \o LE32n(bcpos + bcfs + bccs + bcfl)
      \o LE32n(bcpos) \o LE32n(bcfs) \o LE32n(bccs) \o LE32n(bcfl) \o LE32n(bcunk)
      \o LE32n(IF xd.libhdr THEN nfiles * hsize ELSE htotal) \o LE32n(IF xd.libhdr THEN 0 ELSE cfg.hextra) \o LE32n(hsize) \o LE32n(Len(hbytes)) \o LE32n(Len(fa))
      \o ConcatAll([ai \in 1..Len(fa) |-> LE32(fa[ai])]) \o ebytes \o hbytes

\* stored form of a table: extended header in clear + body (raw, or method byte + payload as compressed by Python) encrypted
ExtStored(sig, body, stored, key) ==
  sig \o LE32n(1) \o LE32n(Len(body)) \o StdCryptBytes(IF stored = <<>> THEN body ELSE stored, key, StdEncWords)

WBeginX(files, cfg) == WBegin(files, cfg) @@ [hetpos |-> 0, betpos |-> 0, hetsz |-> 0, betsz |-> 0]
\* WBegin reserves HeaderSize(ver) bytes; a V4 header is larger
WBeginX4(files, cfg) == [WBeginX(files, cfg) EXCEPT !.img = Zeros(HeaderSizeX(cfg.ver))]
NamesOf(files) == [fi \in 1..Len(files) |-> files[fi].name]

WEmitHet(st, files, cfg, xd) ==
  IF ~cfg.hetbet THEN st
  ELSE LET tbl == ExtStored(SigHET, HetBody(NamesOf(files), cfg, xd), cfg.hetstored, TableKeyHash)
       IN  [st EXCEPT !.hetpos = Len(st.img), !.hetsz = Len(tbl), !.img = st.img \o tbl]
WEmitBet(st, files, cfg, xd) ==
  IF ~cfg.hetbet THEN st
  ELSE LET tbl == ExtStored(SigBET, BetBody(NamesOf(files), st.blocks, cfg, xd), cfg.betstored, TableKeyBlock)
       IN  [st EXCEPT !.betpos = Len(st.img), !.betsz = Len(tbl), !.img = st.img \o tbl]
\* classic tables are optional next to HET/BET
\* cfg.ghost: the classic hash table is written but holds no entry (HET/BET replace it: a standard reader never consults
\* it when HET/BET are present); an absent table has position 0 like an absent hi-block / HET / BET table
WEmitHashX(st, cfg) ==
  IF ~cfg.classic THEN st
  ELSE IF cfg.ghost
       THEN [st EXCEPT !.htpos = Len(st.img),
                       !.img = st.img \o EncTable(ConcatAll([hs \in 1..cfg.hcount |-> HashEntryBytes(EmptyHashEntry)]), TableKeyHash)]
       ELSE WEmitHash(st, cfg)
WEmitBlockX(st, cfg) == IF cfg.classic THEN WEmitBlock(st, cfg) ELSE st
WEmitHiBlockX(st, cfg) == IF cfg.classic THEN WEmitHiBlock(st, cfg) ELSE st

\* the six digests are left zero: Python's hashlib fills them in over the ranges Md5Ranges names
HeaderBytesX(st, cfg, xd) ==
  LET hcnt == IF cfg.classic THEN cfg.hcount ELSE 0
      bcnt == IF cfg.classic THEN Len(st.blocks) ELSE 0
  IN  Magic \o LE32n(HeaderSizeX(cfg.ver)) \o LE32n(Len(st.img)) \o LE16(cfg.ver) \o LE16(cfg.shift)
        \o LE32n(st.htpos) \o LE32n(st.btpos) \o LE32n(hcnt) \o LE32n(bcnt)
        \o LE32n(st.hibtpos) \o LE32n(0) \o LE16(0) \o LE16(0)
        \o LE64n(Len(st.img)) \o LE64n(st.betpos) \o LE64n(st.hetpos)
        \o (IF cfg.ver = 3
            THEN LE64n(16 * hcnt) \o LE64n(16 * bcnt) \o LE64n(IF st.hibtpos = 0 THEN 0 ELSE 2 * bcnt)
                 \o LE64n(st.hetsz) \o LE64n(st.betsz) \o LE32n(IF xd.libhdr THEN 16384 ELSE 0) \o Zeros(96)
            ELSE <<>>)
WPatchHeaderX(st, cfg, xd) ==
  IF cfg.ver >= 2 THEN [st EXCEPT !.img = HeaderBytesX(st, cfg, xd) \o SubSeq(st.img, HeaderSizeX(cfg.ver) + 1, Len(st.img))]
  ELSE WPatchHeader(st, cfg)

\* the whole writer as the fold of its steps (all versions)
RefWriteXD(files, cfg, dials, xd) ==
  LET s0 == FoldLeft(LAMBDA st, fi : WAppendFile(st, files[fi], cfg, dials[fi]), WBeginX4(files, cfg), [fi \in 1..Len(files) |-> fi])
      s1 == WEmitBet(WEmitHet(s0, files, cfg, xd), files, cfg, xd)
      s2 == WEmitHiBlockX(WEmitBlockX(WEmitHashX(s1, cfg), cfg), cfg)
  IN  WFinish(WPatchHeaderX(s2, cfg, xd), cfg)
RefWriteX(files, cfg, d, xd) == RefWriteXD(files, cfg, [fi \in 1..Len(files) |-> d], xd)

\* reading back what RefWriteX laid out, with the plain table bodies (what Python's inflate returns for a compressed
\* table is by construction the body the writer made)
XTablesOfArchive(bs, ar) ==
  LET ht == ExtTable(bs, ar.base, ar.hx.hetpos, ar.xs.hetsz, SigHET, TableKeyHash)
      bt == ExtTable(bs, ar.base, ar.hx.betpos, ar.xs.betsz, SigBET, TableKeyBlock)
  IN  [het |-> ht, bet |-> bt]
=============================================================================
