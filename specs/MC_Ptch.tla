------------------------------- MODULE MC_Ptch -------------------------------
(* Stage (A) for the patch applier of C08: every plan over small files -- old files of 2..3 bytes, 1..2 *)
(* control triples with add 0..2, copy 0..1, seek in {-2, 0, 1}, data/extra blocks of the exact or a wrong      *)
(* length, matching / mismatching base digest, right / wrong declared result -- is run through the      *)
(* applier state machine of Ptch.tla.  SeekMode = "signed": safety, liveness for well-formed plans,     *)
(* iteration = fold = closed form.  SeekMode = "saturate" (the code's deviation d3): safety still holds, *)
(* liveness does not (witness below).                                                                    *)
EXTENDS Ptch

Olds    == {<<7, 250>>, <<7, 250, 9>>}
Triples == [add : 0..2, mov : 0..1, seek : {-2, 0, 1}]
Ctrls   == {<<t>> : t \in Triples} \cup {<<t, u>> : t, u \in Triples}
SumAdd(c) == DataPre(c, Len(c) + 1)
SumMov(c) == ExtPre(c, Len(c) + 1)
Datas(c)  == {[j \in 1..SumAdd(c) |-> (3 * j) % 256]}
             \cup (IF SumAdd(c) > 0 THEN {[j \in 1..(SumAdd(c) - 1) |-> 1]} ELSE {})
Extras(c) == {[j \in 1..SumMov(c) |-> 100 + j], [j \in 1..(SumMov(c) + 1) |-> 100 + j]}
Decls(o, c, d, e) ==
  IF WellFormedPlan(o, c, d, e)
  THEN {DeclNew(o, c, d, e), [j \in 1..NewPre(c, Len(c) + 1) |-> 1]}
  ELSE {[j \in 1..NewPre(c, Len(c) + 1) |-> 1]}
Bsd0Plans == UNION { UNION { UNION { { [kind |-> "bsd0", old |-> o, ctrl |-> c, data |-> d, extra |-> e, copy |-> <<>>,
                                        baseOk |-> b, decl |-> n] : b \in BOOLEAN, n \in Decls(o, c, d, e) }
                                     : e \in Extras(c) } : d \in Datas(c) } : o \in Olds, c \in Ctrls }
CopyPlans == { [kind |-> "copy", old |-> o, ctrl |-> <<>>, data |-> <<>>, extra |-> <<>>, copy |-> n,
                baseOk |-> b, decl |-> m] : o \in Olds, b \in BOOLEAN, n \in {<<>>, <<1, 2>>}, m \in {<<>>, <<1, 2>>} }

Init == pplan \in (Bsd0Plans \cup CopyPlans) /\ pphase = "start" /\ pacc = Acc0 /\ pci = 0
Next == PtchNext

\* d3 in the model: a well-formed patch with a backward seek that the saturating variant rejects although the
\* signed reference produces the declared file -- and still never returns other bytes
WOld == <<1, 2, 3, 4>>
WCtrl == <<[add |-> 3, mov |-> 0, seek |-> -1], [add |-> 1, mov |-> 0, seek |-> 0]>>
WData == <<0, 0, 0, 0>>
ASSUME Witness ==
  /\ WellFormedPlan(WOld, WCtrl, WData, <<>>)
  /\ DeclNew(WOld, WCtrl, WData, <<>>) = <<1, 2, 3, 3>>
  /\ LET r == RunCtrl(WOld, WCtrl, WData, <<>>, 4).no
     IN  IF SeekMode = "signed" THEN r = <<1, 2, 3, 3>> ELSE r = <<1, 2, 3, 1>>
\* RLE: decode inverts the two canonical encodings of every short string over {0, 1, 255}
RleLit(s)  == IF s = <<>> THEN <<>> ELSE <<127 + Len(s)>> \o s
RleEach(s) == FoldLeft(LAMBDA acc, x : acc \o (IF x = 0 THEN <<0>> ELSE <<128, x>>), <<>>, s)
ASSUME RleRoundTrip ==
  \A n \in 0..4 : \A s \in [1..n -> {0, 1, 255}] :
     /\ RleDecode(RleLit(s), n) = [ok |-> TRUE, out |-> s]
     /\ RleDecode(RleEach(s), n) = [ok |-> TRUE, out |-> s]
     /\ ~RleDecode(RleEach(s), n + 1).ok
ASSUME RleZeros == RleDecode(<<4, 129, 9, 8, 0>>, 8) = [ok |-> TRUE, out |-> <<0, 0, 0, 0, 0, 9, 8, 0>>]
=============================================================================
