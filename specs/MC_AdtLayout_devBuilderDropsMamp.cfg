CONSTANTS
  Deviations <- DevBuilderDropsMamp
  MhdrFileRelative = FALSE
  NK = 3
  MaxRounds = 2
INIT Init
NEXT Next
INVARIANT CursorBookkeeping
INVARIANT FrameWellFormed
INVARIANT WalkerNeverLost
INVARIANT FramingTiles
INVARIANT MhdrPointsAtNamed
INVARIANT MhdrFlagsConsistent
INVARIANT McinPointsAtMcnk
INVARIANT McnkOfsPointAtNamed
INVARIANT FileEqualsBytes
INVARIANT McnkSizeFieldsConsistent
INVARIANT VersionRuleHolds
INVARIANT OnlyNamedLoss
INVARIANT NoGrowth
INVARIANT StrictNoGrowth
INVARIANT StrictMcinSize
INVARIANT ParseNeverFails
INVARIANT ParseKeepsSubs
INVARIANT RebuildKeepsOpts
INVARIANT ParseKeepsOpts
CHECK_DEADLOCK FALSE
