------------------------------ MODULE MC_MpqIo ------------------------------
(* Stage (A) for X02/MpqIo: the code-shaped machine of MpqIo on small files, every action with     *)
(* every boundary argument.  Checked: the positional-read contract and the agreement of the three  *)
(* readers for every (off, len) of the scope in every reachable state, the counter laws, the       *)
(* session limit.  MC_MpqIo.cfg = the machine as intended (all Dev* FALSE): all invariants hold.   *)
(* MC_MpqIo_dev<k>.cfg switch one named deviation on: TLC must REFUTE the named invariant.         *)
EXTENDS MpqIo, TLC

VARIABLES vio, vsteps
mcvars == <<vio, vsteps>>

Lens == {0, 1, 3}
Base(L) == [enable |-> TRUE, maxmap |-> Lo(L), maxarch |-> Lo(L + 5), maxdec |-> Lo(100), maxasync |-> 100, maxext |-> 1,
            maxsess |-> Lo(4), chunk |-> 0]
Cfgs(L) == { Base(L),
             [Base(L) EXCEPT !.enable = FALSE],
             [Base(L) EXCEPT !.maxmap = Lo(L - 1)],
             [Base(L) EXCEPT !.maxarch = Lo(L - 1), !.maxsess = Hi(0)],
             [Base(L) EXCEPT !.maxdec = Lo(2), !.chunk = 2],
             [Base(L) EXCEPT !.maxasync = 2, !.chunk = 2] }
Offs(L) == {Lo(ii) : ii \in 0..(L + 1)} \cup {Hi(0), Hi(1)}
RLens(L) == 0..(L + 1)
ReqSet(L) == {<<Lo(0), Lo(0)>>, <<Lo(0), Lo(L)>>, <<Lo(1), Lo(L)>>, <<Lo(0), Lo(3)>>, <<Lo(0), Hi(0)>>, <<Hi(0), Lo(0)>>}
ReqSeqs(L) == {<<>>} \cup {<<a>> : a \in ReqSet(L)} \cup {<<a, b>> : a \in {<<Lo(0), Lo(L)>>, <<Lo(0), Hi(0)>>}, b \in ReqSet(L)}
                     \cup {<<a, a, a>> : a \in {<<Lo(0), Lo(0)>>}}

Init == /\ \E L \in Lens : \E cfg \in Cfgs(L) : vio = S0(L, 3, cfg)
        /\ vsteps = 0

Tick == vsteps < 3 /\ vsteps' = vsteps + 1
Open == Tick /\ \E via \in {"new", "from_file", "manager"} : vio' = OpenNext(vio, via, OpenOut(vio.len, vio.cfg))
ARead == Tick /\ \E off \in Offs(vio.len), len \in RLens(vio.len) :
            vio' = AReadNext(vio, len, AsyncReadOut(vio.len, vio.cfg, vio.shut, off, len))
AExact == Tick /\ \E off \in Offs(vio.len), len \in RLens(vio.len) : vio' = AExactNext(vio, off, len)
ATimeout == Tick /\ ~vio.shut /\ vio' = ATimeoutNext(vio)
ADrop == Tick /\ ~vio.shut /\ vio' = ADropNext(vio)
Extract == Tick /\ \E reqs \in ReqSeqs(vio.len) :
             /\ ExtractOut(vio.len, vio.cfg, vio.shut, vio.sess, reqs) # "panic"
             /\ vio' = ExtractNext(vio, reqs)
ExtractPanics == Tick /\ \E reqs \in ReqSeqs(vio.len) :
             /\ ExtractOut(vio.len, vio.cfg, vio.shut, vio.sess, reqs) = "panic"
             /\ vio' = [vio EXCEPT !.mm = "crashed"]
Shutdown == Tick /\ vio' = ShutdownNext(vio)
\* plain and mmap reads do not change the state: their contract is the state predicate InvContract

Next == Open \/ ARead \/ AExact \/ ATimeout \/ ADrop \/ Extract \/ ExtractPanics \/ Shutdown

InvContract == \A off \in Offs(vio.len), len \in RLens(vio.len) : ContractAt(vio, off, len)
InvAgree    == \A off \in Offs(vio.len), len \in RLens(vio.len) : AgreeAt(vio, off, len)
InvCounters == CountersOk(vio.ctr)
InvSession  == NLe(vio.sess.total, vio.cfg.maxsess)
InvNoPanic  == vio.mm # "crashed"
\* a mapping is open only when the file is non-empty and within both maxima
InvOpen     == vio.mm = "open" => OpenOut(vio.len, vio.cfg) = "ok"
PropMono    == [][CountersMono(vio.ctr, vio'.ctr)]_mcvars
=============================================================================
