---------------------------- MODULE MC_MpqFormat ----------------------------
(* Stage (A) for C02: the reference implementation is consistent with itself.                     *)
(*                                                                                                *)
(* The writer runs as a state machine (one TLC step per layout step: begin, one step per file,     *)
(* hash table, block table, hi-block table, header back-patch); the reader then looks up and       *)
(* decodes every file and an absent name.  TLC checks on 8/16-byte sectors, for every              *)
(* configuration x file shape x encryption mode x dialect of the model:                            *)
(*   RoundTrip         RefRead(RefWrite(f,c,d), d) = f, RefWrite = fold of the steps, header ok    *)
(*   AbsentNotFound    a name that was not written is not found (also across deleted slots)        *)
(*   DeviationsBreak   an archive written in the standard format and decoded in a library dialect  *)
(*                     (or vice versa) does NOT give the files back exactly where a named          *)
(*                     deviation applies -- i.e. each deviation is an interoperability defect on   *)
(*                     the model, and is harmless where its label does not apply                   *)
(* plus the published constants as ASSUMEs.                                                        *)
EXTENDS MpqFormat, TLC, IOUtils

ASSUME KeyHashTable  == TableKeyHash  = <<50095, 14192>>      \* 0xC3AF3770  (mpq.md "Table Encryption")
ASSUME KeyBlockTable == TableKeyBlock = <<60547, 45987>>      \* 0xEC83B3A3
ASSUME ListfileSlot  == HashString(<<40,108,105,115,116,102,105,108,101,41>>, TABLE_OFFSET) = <<24381, 59481>>  \* 0x5F3DE859
ASSUME FlagValues    == /\ Hex32(F_COMPRESS) = "00000200" /\ Hex32(F_ENCRYPTED) = "00010000"
                        /\ Hex32(F_FIXKEY) = "00020000"   /\ Hex32(F_SINGLE) = "01000000"
                        /\ Hex32(F_EXISTS) = "80000000"   /\ Hex32(F_IMPLODE) = "00000100"
ASSUME StdCipherIsWordCipher ==      \* whole dwords: same as MpqCrypto's block cipher; tail left in clear
  LET kk == <<4660, 22136>>  bs == <<1,2,3,4,5,6,7,8,9,10,11>>
  IN  /\ SubSeq(StdCryptBytes(bs, kk, StdEncWords), 1, 8) = BytesOf(EncryptBlock(WordsOf(SubSeq(bs,1,8)), kk))
      /\ SubSeq(StdCryptBytes(bs, kk, StdEncWords), 9, 11) = <<9,10,11>>
      /\ StdCryptBytes(StdCryptBytes(bs, kk, StdEncWords), kk, StdDecWords) = bs
      /\ UnitDecrypt(UnitEncrypt(bs, kk, LibW), kk, LibR) = bs
      /\ UnitEncrypt(bs, kk, LibW) # UnitEncrypt(bs, kk, Std)

\* model size: "cov" (tiny, run under -coverage for the vacuity guard), "quick", "thorough"
Model == IF "C02_MODEL" \in DOMAIN IOEnv THEN IOEnv.C02_MODEL ELSE "quick"

NameA  == <<97>>                                                        \* "a"
\* "D\x" colliding with "a" on the home slot of a 4-entry table: exercises probing
NameB  == CHOOSE nm \in {<<68, 92, ch>> : ch \in 97..122} : HomeSlot(nm, 4) = HomeSlot(NameA, 4)
Absent == CHOOSE nm \in {<<ch, 113>> : ch \in 97..122} : HomeSlot(nm, 4) = HomeSlot(NameA, 4)

Raw(bytes)   == [m |-> -1, p |-> bytes]
Cmp(mb, pl)  == [m |-> mb, p |-> pl]
Ramp(lo, cnt) == [ri \in 1..cnt |-> (lo + 17 * ri) % 256]

\* file shapes; ssz = sector size of the configuration (8 or 16)
Shape(kind, ssz) ==
  CASE kind = "tiny"    -> [fsize |-> 3,  single |-> TRUE,  cflag |-> FALSE, sectors |-> <<Raw(Ramp(1, 3))>>]
    [] kind = "unitcmp" -> [fsize |-> 8,  single |-> TRUE,  cflag |-> TRUE,  sectors |-> <<Cmp(M_ZLIB, Ramp(9, 3))>>]
    [] kind = "bigunit" -> [fsize |-> 21, single |-> TRUE,  cflag |-> TRUE,  sectors |-> <<Cmp(M_BZIP2, Ramp(30, 6))>>]
    [] kind = "empty"   -> [fsize |-> 0,  single |-> FALSE, cflag |-> FALSE, sectors |-> <<>>]
    [] kind = "flagraw" -> [fsize |-> 6,  single |-> FALSE, cflag |-> TRUE,  sectors |-> <<Raw(Ramp(40, 6))>>]
    [] kind = "rawsecs" -> [fsize |-> 13, single |-> FALSE, cflag |-> FALSE,
                            sectors |-> IF ssz = 8 THEN <<Raw(Ramp(50, 8)), Raw(Ramp(60, 5))>> ELSE <<Raw(Ramp(50, 13))>>]
    [] kind = "cmpsecs" -> [fsize |-> 19, single |-> FALSE, cflag |-> TRUE,
                            sectors |-> IF ssz = 8 THEN <<Cmp(M_BZIP2, Ramp(70, 2)), Raw(Ramp(80, 8)), Cmp(M_ZLIB, Ramp(90, 1))>>
                                        ELSE <<Cmp(M_ZLIB, Ramp(70, 4)), Raw(Ramp(80, 3))>>]

Kinds1 == {"tiny", "unitcmp", "bigunit", "empty", "flagraw", "rawsecs", "cmpsecs", "crcsecs"}
Kinds2 == CASE Model = "cov" -> {"cmpsecs"} [] Model = "quick" -> {"cmpsecs"}
            [] OTHER -> {"tiny", "rawsecs", "cmpsecs", "unitcmp"}
Encs1  == IF Model = "cov" THEN {"fix"} ELSE {"plain", "enc", "fix"}
Encs2  == CASE Model = "cov" -> {"enc"} [] Model = "quick" -> {"fix"} [] OTHER -> {"plain", "enc", "fix"}
Dialects == IF Model = "cov" THEN {Std} ELSE {Std, LibW, LibR}

\* kind "crcsecs" = "cmpsecs" with sector checksums
MkFile(name, kind, enc, ssz) == [name |-> name, enc |-> enc, locale |-> 0, crc |-> kind = "crcsecs"]
                                @@ Shape(IF kind = "crcsecs" THEN "cmpsecs" ELSE kind, ssz)
Prefix512 == [pi \in 1..512 |-> (pi * 7) % 251]

Cfgs == {[ver |-> cc[1], shift |-> cc[2], hcount |-> 4, ndel |-> cc[3], hibt |-> cc[4],
          prefix |-> IF cc[4] THEN Prefix512 ELSE <<>>] :
            cc \in {c4 \in (IF Model = "cov" THEN {0, 1} ELSE {0, 1, 2}) \X {0, 1} \X {0, 1} \X BOOLEAN :
                      /\ (Model = "cov" => c4[3] = 1)
                      /\ (Model # "thorough" => c4[4] = (c4[3] = 1))}}

VARIABLES vfiles, vcfg, vdial, vwst, vphase, vnext, vimg, vchecked
mvars == <<vfiles, vcfg, vdial, vwst, vphase, vnext, vimg, vchecked>>

SSz == SectorSize(vcfg.shift)

Init == /\ vcfg \in Cfgs
        /\ vdial \in Dialects
        /\ \E k1 \in Kinds1, e1 \in Encs1, k2 \in Kinds2, e2 \in Encs2 :
             /\ (k1 = "crcsecs" => vdial # LibW)       \* the writer side of `crclayout` is not modelled
             /\ vfiles = << MkFile(NameB, k1, e1, SectorSize(vcfg.shift)), MkFile(NameA, k2, e2, SectorSize(vcfg.shift)) >>
        /\ vwst = <<>> /\ vphase = "begin" /\ vnext = 1 /\ vimg = <<>> /\ vchecked = {}

MBegin == /\ vphase = "begin"
          /\ \A fi \in 1..Len(vfiles) : FileWellFormed(vfiles[fi], SSz)
          /\ vwst' = WBegin(vfiles, vcfg) /\ vphase' = "files"
          /\ UNCHANGED <<vfiles, vcfg, vdial, vnext, vimg, vchecked>>
MAppendFile == /\ vphase = "files" /\ vnext <= Len(vfiles)
               /\ vwst' = WAppendFile(vwst, vfiles[vnext], vcfg, vdial) /\ vnext' = vnext + 1
               /\ UNCHANGED <<vfiles, vcfg, vdial, vphase, vimg, vchecked>>
MEmitHash == /\ vphase = "files" /\ vnext > Len(vfiles)
             /\ vwst' = WEmitHash(vwst, vcfg) /\ vphase' = "block"
             /\ UNCHANGED <<vfiles, vcfg, vdial, vnext, vimg, vchecked>>
MEmitBlock == /\ vphase = "block"
              /\ vwst' = WEmitBlock(vwst, vcfg) /\ vphase' = "hiblock"
              /\ UNCHANGED <<vfiles, vcfg, vdial, vnext, vimg, vchecked>>
MEmitHiBlock == /\ vphase = "hiblock"
                /\ vwst' = WEmitHiBlock(vwst, vcfg) /\ vphase' = "header"
                /\ UNCHANGED <<vfiles, vcfg, vdial, vnext, vimg, vchecked>>
MPatchHeader == /\ vphase = "header"
                /\ vimg' = WFinish(WPatchHeader(vwst, vcfg), vcfg) /\ vphase' = "read" /\ vwst' = <<>>
                /\ UNCHANGED <<vfiles, vcfg, vdial, vnext, vchecked>>
\* the reader: one step per looked-up name (no state besides which names were read)
MReadFile == /\ vphase = "read"
             /\ \E fi \in 1..Len(vfiles) : fi \notin vchecked /\ vchecked' = vchecked \cup {fi}
             /\ UNCHANGED <<vfiles, vcfg, vdial, vwst, vphase, vnext, vimg>>
MReadAbsent == /\ vphase = "read" /\ 0 \notin vchecked /\ vchecked' = vchecked \cup {0}
               /\ UNCHANGED <<vfiles, vcfg, vdial, vwst, vphase, vnext, vimg>>

Next == MBegin \/ MAppendFile \/ MEmitHash \/ MEmitBlock \/ MEmitHiBlock \/ MPatchHeader \/ MReadFile \/ MReadAbsent

\* ---- invariants --------------------------------------------------------------------------
Names == {vfiles[fi].name : fi \in 1..Len(vfiles)}
Decoded(dd) == RefRead(vimg, Names \cup {Absent}, dd)
Matches(dec, f) == /\ dec.res = "ok" /\ dec.fsize = f.fsize /\ dec.enc = f.enc
                   /\ dec.single = f.single /\ dec.cflag = f.cflag
                   /\ dec.sectors = ExpectSectors(f, SSz) /\ dec.locale = 0 /\ dec.platform = 0
                   /\ dec.crc = (IF f.crc /\ f.cflag /\ ~f.single /\ f.fsize > 0 THEN "ok" ELSE "none")

\* layout facts while writing: block entries point inside the image, in order, no overlap
LayoutOk == vphase \in {"files", "block", "hiblock", "header"} =>
  /\ \A bi \in 1..Len(vwst.blocks) :
       /\ NatOf(vwst.blocks[bi].pos) >= HeaderSize(vcfg.ver)
       /\ NatOf(vwst.blocks[bi].pos) + NatOf(vwst.blocks[bi].csize) <= Len(vwst.img)
       /\ (bi > 1 => NatOf(vwst.blocks[bi].pos) = NatOf(vwst.blocks[bi-1].pos) + NatOf(vwst.blocks[bi-1].csize))
  /\ Cardinality({hs \in 0..(vcfg.hcount - 1) : vwst.hash[hs].blk \notin {HASH_EMPTY, HASH_DELETED}}) = Len(vwst.blocks)
  \* every block index in the hash table is the index of a written block; tables follow the data, back to back
  /\ \A hs \in 0..(vcfg.hcount - 1) :
        vwst.hash[hs].blk \notin {HASH_EMPTY, HASH_DELETED} => NatOf(vwst.hash[hs].blk) \in 0..(Len(vwst.blocks) - 1)
  /\ (vphase \in {"block", "hiblock", "header"} =>
        /\ vwst.htpos = (IF vwst.blocks = <<>> THEN HeaderSize(vcfg.ver)
                         ELSE NatOf(vwst.blocks[Len(vwst.blocks)].pos) + NatOf(vwst.blocks[Len(vwst.blocks)].csize))
        /\ (vphase = "block" => Len(vwst.img) = vwst.htpos + 16 * vcfg.hcount))
  /\ (vphase \in {"hiblock", "header"} =>
        /\ vwst.btpos = vwst.htpos + 16 * vcfg.hcount
        /\ Len(vwst.img) >= vwst.btpos + 16 * Len(vwst.blocks))

RoundTrip == vphase = "read" /\ vchecked = {} =>
  LET ar  == OpenArchive(vimg)
      dec == Decoded(vdial)
  IN  /\ vimg = RefWrite(vfiles, vcfg, vdial)                 \* the fold equals the stepwise machine
      /\ ar.res = "ok" /\ ar.base = Len(vcfg.prefix)
      /\ ar.hn.ver = vcfg.ver /\ ar.hn.shift = vcfg.shift /\ ar.hn.htcount = vcfg.hcount /\ ar.hn.btcount = Len(vfiles)
      /\ \A fi \in 1..Len(vfiles) : Matches(dec[vfiles[fi].name], vfiles[fi])
      \* a non-conformant writer dialect is *visible* to the standard reader only through its labels
      /\ dec[Absent].res = "notfound"

AbsentNotFound == vphase = "read" => RefRead(vimg, {Absent}, Std)[Absent].res = "notfound"

\* cross-dialect: decode with the *other* side's dialect.  Std-written read by the library dialect
\* (direction 2) and library-written read by Std (direction 1).
Cross == IF vdial = Std THEN LibR ELSE Std
DeviationsBreak == vphase = "read" /\ vchecked = {} /\ vdial \in {Std, LibW} =>
  LET dec == Decoded(Cross)
      own == Decoded(vdial)
  IN  \A fi \in 1..Len(vfiles) :
        LET f == vfiles[fi]
            labels == DevLabels(f.name, own[f.name])
            \* "rawsector" only bites where the two sides really differ: writer table vs none (LibW->Std),
            \* one cipher block vs per-sector keys (Std->LibR: only for encrypted files with > 1 sector)
            bites == (labels \ {"rawsector"})
                     \cup (IF "rawsector" \in labels /\ (vdial = LibW \/ (f.enc # "plain" /\ Len(f.sectors) > 1))
                           THEN {"rawsector"} ELSE {})
        IN  (bites = {}) <=> Matches(dec[f.name], f)

=============================================================================
