CONSTANTS
  RFiles = {}
  RTok = {}
  REnc = {}
  RSig = {}
  REmpty = {}
  RHetBet = FALSE
INIT TInit
NEXT TNext
POSTCONDITION Accepted
CHECK_DEADLOCK FALSE
