#!/usr/bin/env python3
"""Growth round 4 corrupted-trace self-test for C02 (V3/V4 headers, MD5 digests, HET/BET tables): alter ONE logged field of an
event of a kept trace (VERIF_KEEP=1 bin/vcheck C02 -> /var/tmp/wverif.C02.<pid>/trace.ndjson) and validate again.  Events of
library-written V3/V4 archives are already rejected as `dev:libhetbet` (known finding): the corruption must turn the reason into
`unexplained` (or `md5`), i.e. the named dialect no longer explains the event.
usage: corrupt_trace_g4.py <trace.ndjson>"""
import json, os, sys
sys.path.insert(0, os.path.dirname(os.path.dirname(os.path.dirname(os.path.abspath(__file__)))))
from vlib import core

src = sys.argv[1]
lines = open(src).read().splitlines()
ctx = core.Ctx("C02", "quick", 1, {})
results = {}
KINDS = ("RefOpen.x.asize64", "RefOpen.x.md5.got", "RefTables.het.itotal", "RefTables.bet.bcfsize", "RefFileX.lib.tok", "RefAbsentX.lib",
         "Open.md5.header", "Read.devs.tok")
try:
    for kind in KINDS:
        recs = [json.loads(l) for l in lines]
        done = None
        for i, r in enumerate(recs):
            ev = r["ev"]
            if kind == "RefOpen.x.asize64" and ev == "RefOpen" and r["ver"] == 2 and r["open"] == "ok":
                r["x"]["asize64"] += 1; done = i
            elif kind == "RefOpen.x.md5.got" and ev == "RefOpen" and r["ver"] == 3 and r["x"]["md5"]:
                r["x"]["md5"][-1]["got"] = "0" * 32; done = i
            elif kind == "RefTables.het.itotal" and ev == "RefTables":
                r["het"]["itotal"] += 1; done = i
            elif kind == "RefTables.bet.bcfsize" and ev == "RefTables":
                r["bet"]["bcfsize"] += 1; done = i
            elif kind == "RefFileX.lib.tok" and ev == "RefFileX" and r["lib"]["res"] == "ok" and r["lib"]["len"] > 0:
                r["lib"]["tok"] = "0" * 16; done = i
            elif kind == "RefAbsentX.lib" and ev == "RefAbsentX":
                r["lib"] = "ok"; done = i
            elif kind == "Open.md5.header" and ev == "Open" and r["md5"]["res"] == "ok":
                r["md5"]["header"] = False; done = i
            elif kind == "Read.devs.tok" and ev == "Read" and r["devs"] and r["devs"][0]["labels"] == "libhetbet" and r["std"]["res"][0] != "ok":
                r["devs"][0]["r"]["tok"][0] = "f" * 16; done = i
            if done is not None:
                break
        if done is None:
            print(f"{kind}: no such event in this trace", flush=True)
            results[kind] = (0, [])
            continue
        p = ctx.path("corrupt.ndjson")
        with open(p, "w") as f:
            for r in recs:
                f.write(json.dumps(r) + "\n")
        res = ctx.validate("Trace_MpqFormat", p, shards=4)
        hit = [b for b in res["bad"] if b["line"] == done + 1]
        results[kind] = (done + 1, [(b["ev"], b["why"]) for b in hit])
        print(f"{kind}: corrupted line {done+1} -> rejected: {bool(hit)} {[(b['ev'], b['why']) for b in hit]}", flush=True)
finally:
    ctx.cleanup()
sys.exit(0 if all(v[1] and all('dev:' not in w for _, w in v[1]) for v in results.values()) else 1)
