import subprocess,sys,os,re
WT='/var/tmp/wt-c15'
W=WT+'/file-formats/graphics/wow-wmo/src/writer.rs'
C=WT+'/file-formats/graphics/wow-wmo/src/converter.rs'
def rep(path,a,b,count=1):
    s=open(path).read()
    assert a in s,(path,a)
    s=s.replace(a,b,count); open(path,'w').write(s)
M={
 'mutant-1':('n_groups written as groups.len()+1 in MOHD', lambda: rep(W,'writer.write_u32_le(wmo.groups.len() as u32)?;','writer.write_u32_le(wmo.groups.len() as u32 + 1)?;')),
 'mutant-2':('MOTX: no NUL terminator after the last texture name', lambda: (rep(W,'''        let header = ChunkHeader {
            id: chunks::MOTX,
            size: total_size as u32,
        };''','''        let header = ChunkHeader {
            id: chunks::MOTX,
            size: (total_size - 1) as u32,
        };'''), rep(W,'''        for texture in textures {
            writer.write_all(texture.as_bytes())?;
            writer.write_u8(0)?; // Null terminator
        }''','''        for (ti, texture) in textures.iter().enumerate() {
            writer.write_all(texture.as_bytes())?;
            if ti + 1 < textures.len() {
                writer.write_u8(0)?; // Null terminator
            }
        }'''))),
 'mutant-3':('MOPT: first-vertex index not advanced (every portal starts at vertex 0)', lambda: rep(W,'vertex_index += portal.vertices.len();','vertex_index += 0 * portal.vertices.len();')),
 'mutant-4':('MOVV offsets forget the 0xFFFF terminator of the preceding lists', lambda: rep(W,'current_offset += (list.len() + 1) * 2; // +1 for the 0xFFFF terminator, *2 for u16 size','current_offset += list.len() * 2;')),
 'mutant-5':('convert_root drops the doodad sets when downgrading below Cataclysm', lambda: rep(C,'''        // Update version number
        wmo.version = target_version;''','''        if target_version < WmoVersion::Cataclysm && wmo.version >= WmoVersion::Cataclysm {
            wmo.doodad_sets.clear();
        }

        // Update version number
        wmo.version = target_version;''')),
 'mutant-6':('MOGP size back-patched without the sub-chunks (header only)', lambda: rep(W,'let mogp_size = end_pos - mogp_pos - 8; // Subtract header size','let mogp_size = _subchunks_start - mogp_pos - 8; let _ = end_pos; // header only')),
 'mutant-7':('MOSB written for every version (also Classic/TBC)', lambda: rep(W,'if target_version.supports_feature(WmoFeature::SkyboxReferences) && wmo.skybox.is_some() {\n            self.write_skybox','if wmo.skybox.is_some() {\n            self.write_skybox')),
 'mutant-8':('MOGI name offsets accumulate name.len() without the NUL (needs >= 2 groups)', lambda: rep(W,'name_offset += group.name.len() as u32 + 1; // +1 for null terminator','name_offset += group.name.len() as u32;')),
 'mutant-9':('SkyboxReferences feature threshold moved from WotLK to Cataclysm (needs ver = WotLK and a skybox)', lambda: rep(WT+'/file-formats/graphics/wow-wmo/src/version.rs','Self::SkyboxReferences => WmoVersion::Wotlk,','Self::SkyboxReferences => WmoVersion::Cataclysm,')),
 'mutant-10':('MOHD n_doodad_sets written from doodad_defs.len() (needs |sets| != |defs|)', lambda: rep(W,'writer.write_u32_le(wmo.doodad_sets.len() as u32)?;','writer.write_u32_le(wmo.doodad_defs.len() as u32)?;')),
 'mutant-11':('convert_materials clears the shadow-batch flags also when upgrading to MoP (pairs 1..4 -> 5 only)', lambda: rep(C,'if to_version < WmoVersion::Mop && from_version >= WmoVersion::Mop {','if (to_version < WmoVersion::Mop) != (from_version < WmoVersion::Mop) {')),
 'mutant-12':('MOBN: leaf face_start shifted by the parity of num_faces (BSP face ranges no longer tile)', lambda: rep(W,'writer.write_u32_le(node.first_face as u32)?;','writer.write_u32_le(if is_leaf { node.first_face as u32 + (node.num_faces as u32 & 1) } else { 0 })?;')),
 'mutant-13':('MOPR: side written as 0 for every reference (portal graph: both references of a portal on the same side)', lambda: rep(W,'writer.write_u16_le(r.side)?;','writer.write_u16_le(r.side & 0)?;')),
 'refactor-1':('MODS emitted before MODN/MODD (order of the format documentation)', lambda: rep(W,'''        self.write_doodad_definitions(writer, &wmo.doodad_defs, target_version)?;
        self.write_doodad_sets(writer, &wmo.doodad_sets)?;''','''        self.write_doodad_sets(writer, &wmo.doodad_sets)?;
        self.write_doodad_definitions(writer, &wmo.doodad_defs, target_version)?;''')),
 'refactor-2':('write_textures assembles the MOTX payload in a buffer first', lambda: rep(W,'''        header.write(writer)?;

        // Write null-terminated strings
        for texture in textures {
            writer.write_all(texture.as_bytes())?;
            writer.write_u8(0)?; // Null terminator
        }''','''        header.write(writer)?;

        let mut payload = Vec::with_capacity(total_size);
        for texture in textures {
            payload.extend_from_slice(texture.as_bytes());
            payload.push(0);
        }
        writer.write_all(&payload)?;''')),
}
which=sys.argv[1:] or list(M)
for name in which:
    subprocess.run(['git','-C',WT,'checkout','--','.'],check=True)
    M[name][1]()
    d=subprocess.run(['git','-C',WT,'diff'],capture_output=True,text=True).stdout
    open('/verif/selftest/C15/%s.diff'%name,'w').write(d)
    env=dict(os.environ,VERIF_REPO=WT,C15_SKIP_MC='1')
    r=subprocess.run(['bin/vcheck','C15','--tier','quick'],cwd='/verif',env=env,capture_output=True,text=True)
    out=r.stdout+r.stderr
    os.makedirs('/var/tmp/c15-mutants',exist_ok=True); open('/var/tmp/c15-mutants/%s.out'%name,'w').write(out)
    viol=[l for l in out.splitlines() if l.startswith('VIOLATION')]
    sigs=[]
    for v in viol[:10]:
        import json
        f=v.split('replay=')[1]
        s=json.load(open(f))['sig']
        sigs.append({k:s[k] for k in ('ev','why','kind','name','field','what','phase','ver','to') if k in s})
    print(name,'|',M[name][0],'| rc',r.returncode,'| distinct violation sigs',len(viol),'|',sigs[:3],flush=True)
    subprocess.run('rm -f /verif/replays/C15/*.json',shell=True)
subprocess.run(['git','-C',WT,'checkout','--','.'],check=True)
