---------------------------- MODULE Trace_MpqMap ----------------------------
(***************************************************************************************************)
(* Stage (D) for C06: the events recorded while replaying a TLC-generated history on a real        *)
(* MutableArchive must be explained by the actions of MpqMap.                                      *)
(*                                                                                                 *)
(* P-conjuncts (verdict):                                                                          *)
(*   - every operation returned (res = "hang" / "panic" matches no action: the trace is stuck)     *)
(*   - res = ok only where the map operation is defined; a failure (a Fail action) only where a       *)
(*     plain map with capacity refuses, and then nothing changes                                   *)
(*   - after every close, a fresh Archive::open succeeds (Check) and read_file of EVERY name of    *)
(*     the universe equals vdisk (token equality; notfound for absent).  Names the history never   *)
(*     touched are part of the universe, so "untouched files stay bit-identical" is the same check.*)
(* A wrong Read is reported (BAD) and the model is resynchronised with the observation so that one *)
(* lost file does not cascade; a wrong operation result stops the trace (TRACE_STUCK_AT).          *)
(* D (DRIFT only): the List observation, the error variant of a refusal.                           *)
(***************************************************************************************************)
EXTENDS MpqMap, Sequences, Json, IOUtils, TLC, TLCExt

Rec == ndJsonDeserialize(IOEnv.TRACE)
VARIABLES tl,
          vreset,     \* index of the Reset event of the current trace (its `preds` = predictions of the code model)
          voptok      \* model token key ("i:<name>", "o<k>") -> content token actually used by the driver
tvars == <<tl, vdisk, vsess, vopen, vdirty, vcap, vextra, vreset, voptok>>
Keep == UNCHANGED <<vreset, voptok>>

Ev == Rec[tl]
Is(k) == Ev.ev = k

T_Reset == /\ Is("Reset")
           /\ vdisk' = Ev.initial /\ vsess' = Ev.initial /\ vopen' = FALSE /\ vdirty' = FALSE
           /\ vcap' = Ev.hsize /\ vextra' = Ev.nspecial
           /\ vreset' = tl /\ voptok' = Ev.toks

T_Open  == Is("Open") /\ Ev.res = "ok" /\ Open /\ Keep

T_Add   == /\ Is("Add") /\ UNCHANGED vreset
           /\ voptok' = [x \in DOMAIN voptok \cup {Ev.okey} |-> IF x = Ev.okey THEN Ev.tok ELSE voptok[x]]
           /\ \/ Ev.res = "ok" /\ Add(Ev.n, Ev.tok, Ev.rep)
              \/ Ev.res = "exists" /\ AddFailExists(Ev.n, Ev.rep)
              \/ Ev.res \notin {"ok", "exists", "hang", "panic", "notfound"} /\ AddFailFull(Ev.n)

T_Remove == /\ Is("Remove") /\ Keep
            /\ \/ Ev.res = "ok" /\ Remove(Ev.n)
               \/ Ev.res = "notfound" /\ RemoveFail(Ev.n)

T_Rename == /\ Is("Rename") /\ Keep
            /\ \/ Ev.res = "ok" /\ Rename(Ev.n, Ev.m)
               \/ Ev.res \in {"notfound", "exists"} /\ RenameFail(Ev.n, Ev.m)

T_Flush   == Is("Flush") /\ Ev.res = "ok" /\ Flush /\ Keep
T_Compact == Is("Compact") /\ Ev.res = "ok" /\ Compact(Ev.hsize, Ev.nspecial) /\ Keep
T_Close   == Is("Close") /\ Ev.res = "ok" /\ Close /\ Keep
\* a fresh Archive::open of the file after the session was closed must succeed
T_Check   == Is("Check") /\ Ev.res = "ok" /\ ~vopen /\ UNCHANGED mvars /\ Keep

ReadWhy(e) == IF vdisk[e.n] = None THEN "ghost"                    \* absent name is readable
              ELSE IF e.res = "notfound" THEN "lost"                \* present name not found
              ELSE IF e.res = "ok" THEN "corrupt"                   \* other bytes than were stored
              ELSE "unreadable"                                     \* present name, read fails
\* D: does the observation equal what the model of the code (MpqHashTable, implementation machine,
\* run by Gen_MpqHashTable) predicted for this name at this checkpoint?
PredFor(e) == LET ps == Rec[vreset].preds IN IF e.ck <= Len(ps) THEN ps[e.ck] ELSE [kind |-> "none"]
ModelSays(e) == LET p == PredFor(e) IN
    IF p.kind # "map" THEN "nopred"
    ELSE LET v == p.map[e.n] IN
         IF v = "none" THEN (IF e.res = "notfound" THEN "asmodel" ELSE "notmodel")
         ELSE IF v = "corrupt" THEN (IF e.res # "notfound" THEN "asmodel" ELSE "notmodel")
         ELSE IF e.res = "ok" /\ v \in DOMAIN voptok /\ voptok[v] = e.tok THEN "asmodel" ELSE "notmodel"
T_Read == /\ Is("Read") /\ ~vopen /\ Keep
          /\ IF ReadIs(Ev.n, Ev.res, Ev.tok)
             THEN /\ UNCHANGED mvars
                  /\ IF ModelSays(Ev) = "notmodel" THEN PrintT(<<"DRIFT", tl, "pred">>) ELSE TRUE
             ELSE /\ PrintT(<<"BAD", tl, ReadWhy(Ev), ModelSays(Ev)>>)
                  /\ vdisk' = [vdisk EXCEPT ![Ev.n] = IF Ev.res = "ok" THEN Ev.tok ELSE None]
                  /\ vsess' = vdisk'
                  /\ UNCHANGED <<vopen, vdirty, vcap, vextra>>

\* D: list() after reopen shows exactly the present names (plus special files, logged with "?")
Listed(e) == {e.names[j] : j \in 1..Len(e.names)}
T_List == /\ Is("List") /\ ~vopen /\ UNCHANGED mvars /\ Keep
          /\ IF Ev.res = "ok" /\ Present(vdisk) = {x \in Listed(Ev) : x \in DOMAIN vdisk}
             THEN TRUE ELSE PrintT(<<"DRIFT", tl, "list">>)

TInit == tl = 1 /\ MapInit(<<>>, 0, 0) /\ vreset = 0 /\ voptok = <<>>
TNext == /\ tl <= Len(Rec)
         /\ tl' = tl + 1
         /\ \/ T_Reset \/ T_Open \/ T_Add \/ T_Remove \/ T_Rename \/ T_Flush \/ T_Compact \/ T_Close
            \/ T_Check \/ T_Read \/ T_List

Accepted == LET d == TLCGet("stats").diameter IN
            IF d - 1 = Len(Rec) THEN PrintT(<<"CONSUMED", Len(Rec)>>) ELSE Print(<<"TRACE_STUCK_AT", d>>, FALSE)
=============================================================================
