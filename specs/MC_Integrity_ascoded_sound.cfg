CONSTANTS
  AsCoded = TRUE
  GateHole = FALSE
INIT IInit
NEXT INext
CHECK_DEADLOCK FALSE
INVARIANT ITypeOK
INVARIANT Sound
