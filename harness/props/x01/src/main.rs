//! X01 driver: runs TLC-generated operation programs on the real `wow_mpq::BufferPool` and records what a caller
//! can observe.  It records; TLC (Trace_BufferPool) decides.
//!
//! case: {kind: "seq"|"conc", label, maxper (-1 = BufferPool::new()), stats, prog: [[{op, slot, arg}]]}
//!   op: get(arg = size class 0..7 relative to the three capacities) | write(arg = 1 few, 2 fill to capacity, 3 grow)
//!       | shrink | drop | take | sizes | stats
//! seq  -> Reset + one Call event per call (guards still held at the end are dropped explicitly, in slot order)
//! conc -> per run: Reset + one Conc event (every thread's calls with the caller-visible results + the quiescent state)
use serde_json::{json, Value};
use std::sync::atomic::Ordering;
use std::sync::{Arc, Barrier};
use wow_mpq::buffer_pool::{BufferPool, BufferSize, PoolConfig, PooledBuffer};
use wverif_common::*;

const S: usize = 4096;
const M: usize = 65536;
const L: usize = 1048576;

fn concrete_size(class: i64, rng: &mut Rng) -> usize {
    let pick = |rng: &mut Rng, lo: usize, hi: usize| -> usize {
        match rng.below(3) {
            0 => lo,
            1 => hi,
            _ => rng.range(lo as u64, hi as u64) as usize,
        }
    };
    match class {
        0 => 0,
        1 => pick(rng, 1, S - 1),
        2 => S,
        3 => pick(rng, S + 1, M - 1),
        4 => M,
        5 => pick(rng, M + 1, L - 1),
        6 => L,
        _ => pick(rng, L + 1, 3 * L + 17),
    }
}

fn cat_of(sz: BufferSize) -> i64 {
    match sz {
        BufferSize::Small => 1,
        BufferSize::Medium => 2,
        BufferSize::Large => 3,
    }
}

fn stats_of(pool: &BufferPool) -> (Value, i64) {
    let s = pool.statistics();
    let v = json!([
        s.hits.load(Ordering::Relaxed),
        s.misses.load(Ordering::Relaxed),
        s.returns.load(Ordering::Relaxed),
        s.discards.load(Ordering::Relaxed)
    ]);
    let rate = (s.hit_rate() * 1_000_000.0).round() as i64;
    (v, rate)
}

fn sizes_of(pool: &BufferPool) -> Value {
    let (a, b, c) = pool.pool_sizes();
    json!([a, b, c])
}

fn make_pool(case: &Value) -> (BufferPool, i64, bool) {
    let maxper = gi(case, "maxper");
    if maxper < 0 {
        let p = BufferPool::new();
        let (m, s) = (p.config().max_buffers_per_size as i64, p.config().collect_stats);
        (p, m, s)
    } else {
        let stats = gb(case, "stats");
        (BufferPool::with_config(PoolConfig { max_buffers_per_size: maxper as usize, collect_stats: stats }), maxper, stats)
    }
}

/// One call on the real pool. Returns the record of what the caller saw: (arg, cat, len, cap, sz).
fn do_op<'a>(pool: &'a BufferPool, slots: &mut Vec<Option<PooledBuffer<'a>>>, op: &str, slot: usize, arg: i64, rng: &mut Rng,
             fill: u8) -> (i64, i64, i64, i64, Value) {
    let zero = json!([0, 0, 0]);
    while slots.len() <= slot {
        slots.push(None);
    }
    match op {
        "get" => {
            let req = concrete_size(arg, rng);
            let g = pool.get_buffer(BufferSize::for_capacity(req));
            let r = (req as i64, cat_of(g.size()), g.len() as i64, g.capacity() as i64, zero);
            slots[slot] = Some(g);
            r
        }
        "write" => {
            let g = slots[slot].as_mut().unwrap_or_else(|| tool_error("write on an empty slot"));
            let room = g.capacity() - g.len();
            let n = match arg {
                1 => rng.range(1, 64) as usize,
                2 => room,
                _ => room + 1 + rng.below(32) as usize,
            };
            let l = g.len();
            g.resize(l + n, fill);
            (n as i64, 0, g.len() as i64, g.capacity() as i64, zero)
        }
        "shrink" => {
            let g = slots[slot].as_mut().unwrap_or_else(|| tool_error("shrink on an empty slot"));
            **g = Vec::new();
            (0, 0, g.len() as i64, g.capacity() as i64, zero)
        }
        "take" => {
            let g = slots[slot].take().unwrap_or_else(|| tool_error("take on an empty slot"));
            let v = g.take();
            (0, 0, v.len() as i64, v.capacity() as i64, zero)
        }
        "drop" => {
            let g = slots[slot].take().unwrap_or_else(|| tool_error("drop on an empty slot"));
            drop(g);
            (0, 0, 0, 0, zero)
        }
        "sizes" => (0, 0, 0, 0, sizes_of(pool)),
        "stats" => {
            let _ = stats_of(pool);
            (0, 0, 0, 0, zero)
        }
        _ => tool_error(&format!("unknown op {op}")),
    }
}

/// the program of one thread + explicit drops of what it still holds at the end (ascending slots), as (op, slot, arg)
fn expand(prog: &[Value]) -> Vec<(String, usize, i64)> {
    let mut held: Vec<usize> = Vec::new();
    let mut out = Vec::new();
    for o in prog {
        let (op, slot) = (gs(o, "op").to_string(), gi(o, "slot") as usize);
        match op.as_str() {
            "get" => held.push(slot),
            "drop" | "take" => held.retain(|s| *s != slot),
            _ => {}
        }
        out.push((op, slot, gi(o, "arg")));
    }
    held.sort();
    for s in held {
        out.push(("drop".to_string(), s, 0));
    }
    out
}

fn run_seq(trace: &Trace, ci: usize, case: &Value) {
    let (pool, maxper, stats) = make_pool(case);
    let mut evs = vec![json!({"ev": "Reset", "case": ci, "mode": "seq", "label": gs(case, "label"), "maxper": maxper, "stats": stats, "nthreads": 1})];
    let prog = expand(ga(case, "prog")[0].as_array().unwrap());
    let mut rng = Rng::derive(seed(), &format!("x01-seq-{ci}"));
    let mut slots: Vec<Option<PooledBuffer>> = Vec::new();
    for (op, slot, arg) in prog {
        let r = guarded(|| do_op(&pool, &mut slots, &op, slot, arg, &mut rng, 0xA5));
        match r {
            Outcome::Done((a, cat, len, cap, _)) => {
                let (st, rate) = stats_of(&pool);
                evs.push(json!({"ev": "Call", "case": ci, "t": 1, "op": op, "slot": slot, "arg": a, "cat": cat, "len": len, "cap": cap,
                                "st": st, "sz": sizes_of(&pool), "rate": rate}));
            }
            _ => {
                evs.push(json!({"ev": "Call", "case": ci, "t": 1, "op": "panic", "slot": slot, "arg": arg, "cat": 0, "len": 0, "cap": 0,
                                "st": [0, 0, 0, 0], "sz": [0, 0, 0], "rate": 0}));
                break;
            }
        }
    }
    std::mem::forget(slots); // (after a panic a guard may be poisoned state; normally every slot is empty here)
    trace.block(evs);
}

fn run_conc(trace: &Trace, ci: usize, case: &Value, run: usize) {
    let (pool, maxper, stats) = make_pool(case);
    let progs: Vec<Vec<(String, usize, i64)>> = ga(case, "prog").iter().map(|p| expand(p.as_array().unwrap())).collect();
    let nt = progs.len();
    let barrier = Arc::new(Barrier::new(nt));
    let pool_ref = &pool;
    let mut results: Vec<(Vec<Value>, bool)> = Vec::new();
    std::thread::scope(|sc| {
        let hs: Vec<_> = progs
            .iter()
            .enumerate()
            .map(|(ti, prog)| {
                let barrier = barrier.clone();
                sc.spawn(move || {
                    let mut rng = Rng::derive(seed(), &format!("x01-conc-{ci}-{run}-{ti}"));
                    let mut jit = Rng::derive(seed(), &format!("x01-jit-{ci}-{run}-{ti}"));
                    let mut slots: Vec<Option<PooledBuffer>> = Vec::new();
                    let mut recs = Vec::new();
                    let mut panicked = false;
                    barrier.wait();
                    for (op, slot, arg) in prog {
                        match jit.below(4) {
                            0 => std::thread::yield_now(),
                            1 => {
                                for _ in 0..jit.below(2000) {
                                    std::hint::spin_loop();
                                }
                            }
                            _ => {}
                        }
                        match guarded(|| do_op(pool_ref, &mut slots, op, *slot, *arg, &mut rng, 0x10 + ti as u8)) {
                            Outcome::Done((a, cat, len, cap, sz)) => {
                                recs.push(json!({"op": op, "slot": slot, "arg": a, "cat": cat, "len": len, "cap": cap, "sz": sz}))
                            }
                            _ => {
                                panicked = true;
                                break;
                            }
                        }
                    }
                    if panicked {
                        std::mem::forget(slots);
                    }
                    (recs, panicked)
                })
            })
            .collect();
        for h in hs {
            results.push(h.join().unwrap_or((Vec::new(), true)));
        }
    });
    let (st, _) = stats_of(&pool);
    let panic = results.iter().any(|r| r.1);
    let prog: Vec<Value> = results.into_iter().map(|r| Value::Array(r.0)).collect();
    trace.block(vec![
        json!({"ev": "Reset", "case": ci, "mode": "conc", "label": gs(case, "label"), "maxper": maxper, "stats": stats, "nthreads": nt}),
        json!({"ev": "Conc", "case": ci, "run": run, "panic": panic, "prog": prog, "st": st, "sz": sizes_of(&pool)}),
    ]);
}

fn main() {
    let a = args();
    install_quiet_panic_hook();
    let cases = read_cases(&a.cases);
    let trace = Trace::create(&a.trace);
    let runs = if thorough() { 8 } else { 3 };
    for (ci, case) in cases.iter().enumerate() {
        match gs(case, "kind") {
            "seq" => run_seq(&trace, ci, case),
            "conc" => {
                for r in 0..runs {
                    run_conc(&trace, ci, case, r);
                }
            }
            "skip" => {}
            k => tool_error(&format!("unknown case kind {k}")),
        }
    }
    trace.flush();
}
