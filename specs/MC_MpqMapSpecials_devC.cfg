\* as coded: ... and the rows of untouched blocks lose their digests
CONSTANTS
  Names = {"a", "b"}
  Toks = {"t1"}
  LfBig = TRUE
  QDevs = {"parseshift"}
  MaxBlocks = 4
  StartKinds <- KindsQuick
SPECIFICATION MCSpec
CONSTRAINT Bound
PROPERTY AttrUntouchedRowsKept
CHECK_DEADLOCK FALSE
