---------------------------- MODULE Trace_AnimMgr ----------------------------
(* Stage (D) for X04: the recorded behaviour of the real AnimationManager against AnimMgr.tla.                      *)
(* Reset carries the sequence table and the global durations the manager was built from and the projection of the  *)
(* fresh object; every Call carries the call, its outcome (ok | hang | panic | abort) and the projection after it.  *)
(* An event is explained when SOME final state of the specification's call (all outcomes of the LCG: repeat counts,  *)
(* variation probabilities) has exactly the observed projection: index, time, global timers, blend factor (fraction  *)
(* against the logged value * 1e6), and -- when the Debug rendering was readable (hid) -- the repeat counter, main   *)
(* variation and the whole next state.  No such state -> the event is not consumed ("unexplained").                  *)
(* split(a, b): update(a); update(b) must be explained, update(a + b) on the clone must be explained from the same   *)
(* pre-state, and where no chaining / random choice is involved the two observable projections must be EQUAL.       *)
(* On top of conformance the stated property is evaluated on the observed values (BAD, named):                      *)
(*   the call terminates; index in range; time is a number, >= 0, < duration (duration > 0); blend in [0, 1];       *)
(*   global timers in [0, duration); track values (linear on the animation time, linear on global sequence 0, step):  *)
(*   the key's value at key times (step: the earlier key's value always), between the two keys otherwise.              *)
(* The machine followed is the code of today (Dev = AsCoded minus the deviations whose finding is marked fixed); what the    *)
(* as-coded deviations produce is accepted as explained and reported under the deviation's name.                     *)
EXTENDS AnimMgr, Json, IOUtils, TLC, TLCExt

Rec == ndJsonDeserialize(IOEnv.TRACE)
TraceDev == {d \in AsCoded : ("X04_FIX_" \o d) \notin DOMAIN IOEnv}    \* the check sets X04_FIX_<dev> for findings with status "fixed"
VARIABLE tl
tvars == <<tl, vam>>

KeyT == <<0, 100, 400, 1000>>
KeyV == <<0, 10, 40, 20>>          \* driver: bone 0, translation.x, linear, the same keys for every sequence

Abs(x) == IF x < 0 THEN -x ELSE x
BlendMatches(bl, o) == Abs(o * bl[2] - bl[1] * 1000000) <= bl[2]
PubMatches(S, o) == /\ S.cur.idx = o.idx /\ S.cur.time = o.time /\ S.gt = o.gt /\ BlendMatches(S.bl, o.bl) /\ Len(S.seqs) = o.nseq
Matches(S, o) == /\ PubMatches(S, o)
                 /\ o.hid => /\ S.cur.rep = o.crep /\ S.cur.main = o.cmain
                             /\ S.nxt.idx = o.nidx /\ S.nxt.time = o.ntime /\ S.nxt.rep = o.nrep /\ S.nxt.main = o.nmain

\* ---- the property, on observed values ----------------------------------------------------------------------------
KeyIdx(t) == IF t >= KeyT[4] THEN 4 ELSE CHOOSE i \in 1..3 : KeyT[i] <= t /\ t < KeyT[i + 1]
\* v = the logged value * 1000 of a track with the keys above evaluated at time t; step = interpolation type 0
KeyWhy(t, v, step, tag) ==
  IF t = NAN \/ t < 0 THEN ""
  ELSE LET i == KeyIdx(t) IN
       IF i = 4 THEN (IF v = KeyV[4] * 1000 THEN "" ELSE "track-last-key" \o tag)
       ELSE IF t = KeyT[i] \/ step THEN (IF v = KeyV[i] * 1000 THEN "" ELSE "track-key-value" \o tag)
       ELSE IF v < Min2(KeyV[i], KeyV[i + 1]) * 1000 \/ v > Max2(KeyV[i], KeyV[i + 1]) * 1000 THEN "track-not-between" \o tag
       ELSE ""
First(a, b, c) == IF a # "" THEN a ELSE IF b # "" THEN b ELSE c
TrackWhy(S, o) ==
  IF S.cur.idx = NONE \/ S.bl # <<1, 1>> THEN ""                    \* (no animation: defaults; blended values: not judged)
  ELSE First(KeyWhy(o.time, o.tx, FALSE, ""),
             KeyWhy(IF Len(S.gd) > 0 THEN o.gt[1] ELSE o.time, o.gx, FALSE, ":global"),   \* global sequence 0 drives bone 1 when it exists
             KeyWhy(o.time, o.sx, TRUE, ":step"))
LerpOk(t, v) ==
  IF t = NAN \/ t < 0 \/ t >= KeyT[4] THEN TRUE
  ELSE LET i == KeyIdx(t)  w == KeyT[i + 1] - KeyT[i] IN
       Abs(v * w - (KeyV[i] * 1000 * w + (KeyV[i + 1] - KeyV[i]) * 1000 * (t - KeyT[i]))) <= 2 * w
TrackDrift(S, o) ==          \* exact linear interpolation (a refinement the property does not demand)
  IF S.cur.idx = NONE \/ S.bl # <<1, 1>> THEN TRUE
  ELSE LerpOk(o.time, o.tx) /\ LerpOk(IF Len(S.gd) > 0 THEN o.gt[1] ELSE o.time, o.gx)
ObsWhy(pre, S, o) ==
  LET tab == S.seqs IN
  IF o.idx # NONE /\ (o.idx < 0 \/ o.idx >= Len(tab)) THEN "index-range"
  ELSE IF o.time = NAN THEN "dev:ZeroDurNaN"
  ELSE IF o.time < 0 THEN "time-negative"
  ELSE IF o.idx # NONE /\ At(tab, o.idx).dur > 0 /\ o.time >= At(tab, o.idx).dur /\ pre.cur # S.cur     \* (reported where it arises, not again by calls that change nothing)
       THEN (IF pre.cur.rep > 0 /\ Has("RepeatNoRewind") THEN "dev:RepeatNoRewind" ELSE "time-bound")
  ELSE IF o.bl < 0 \/ o.bl > 1000000 THEN "blend-range"
  ELSE IF \E i \in 1..Len(S.gd) : o.gt[i] < 0 \/ (S.gd[i] > 0 /\ o.gt[i] >= S.gd[i]) THEN "global-range"
  ELSE TrackWhy(S, o)
Report(why) == IF why = "" THEN TRUE ELSE PrintT(<<"BAD", tl, why>>)
Drift(ok, what) == IF ok THEN TRUE ELSE PrintT(<<"DRIFT", tl, what>>)

Init == tl = 1 /\ vam = EmptyM
Advance == tl' = tl + 1

T_Reset == LET e == Rec[tl] IN
  /\ e.ev = "Reset" /\ e.res = "ok"
  /\ \E S \in (IF e.mode = "empty" THEN {EmptyM} ELSE NewAll(e.tab, e.gd)) :
        /\ Matches(S, e.obs) /\ vam' = S
        /\ Report(ObsWhy(S, S, e.obs)) /\ Drift(TrackDrift(S, e.obs), "track-lerp")
  /\ Advance

Cands(S, e) == CASE e.op = "update" -> UpdateAll(S, e.a)
                 [] e.op = "setid" -> SetIdAll(S, e.a)
                 [] e.op = "setidx" -> SetIndexAll(S, e.a)
T_Call == LET e == Rec[tl] IN
  /\ e.ev = "Call" /\ e.op \in {"update", "setid", "setidx"} /\ vam.pc = "idle"
  /\ \/ /\ e.res = "ok"
        /\ \E S \in Cands(vam, e) : /\ S.pc = "idle" /\ Matches(S, e.obs) /\ vam' = S
                                    /\ Report(ObsWhy(vam, S, e.obs)) /\ Drift(TrackDrift(S, e.obs), "track-lerp")
     \/ /\ e.res = "hang"            \* explained only where the as-coded machine itself never comes back
        /\ \E S \in Cands(vam, e) : S.pc = "hung" /\ vam' = S /\ Report("dev:VarCycleHang")
  /\ Advance

T_Split == LET e == Rec[tl] IN
  /\ e.ev = "Call" /\ e.op = "split" /\ vam.pc = "idle"
  /\ \/ /\ e.res = "ok"
        /\ \E S1 \in UpdateAll(vam, e.a) : /\ S1.pc = "idle"
             /\ \E S2 \in UpdateAll(S1, e.b) : /\ S2.pc = "idle" /\ Matches(S2, e.obs) /\ vam' = S2
                  /\ \E S3 \in UpdateAll(vam, e.a + e.b) : S3.pc = "idle" /\ Matches(S3, e.obs2)
                  /\ Report(IF NoChain(vam) /\ NoChain(S1) /\ <<e.obs.idx, e.obs.time, e.obs.gt, e.obs.bl>> # <<e.obs2.idx, e.obs2.time, e.obs2.gt, e.obs2.bl>>
                            THEN "not-additive" ELSE ObsWhy(S1, S2, e.obs))
     \/ /\ e.res = "hang"
        /\ \E S1 \in UpdateAll(vam, e.a) : \/ S1.pc = "hung" /\ vam' = S1
                                           \/ S1.pc = "idle" /\ \E S2 \in UpdateAll(S1, e.b) : S2.pc = "hung" /\ vam' = S2
        /\ Report("dev:VarCycleHang")
  /\ Advance

Next == tl <= Len(Rec) /\ (T_Reset \/ T_Call \/ T_Split)
Accepted == LET d == TLCGet("stats").diameter IN
            IF d - 1 = Len(Rec) THEN PrintT(<<"CONSUMED", Len(Rec)>>) ELSE Print(<<"TRACE_STUCK_AT", d>>, FALSE)
=============================================================================
