INIT MCInit
NEXT MCNext
INVARIANT NeverExpand
INVARIANT PrefixIffShrunk
INVARIANT SupportedSucceed
INVARIANT OwnOutputAccepted
INVARIANT DispatchInverse
INVARIANT HistoryIndependent
CHECK_DEADLOCK FALSE
