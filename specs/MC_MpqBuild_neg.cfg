CONSTANTS
  SectorSize = 4
  TableSize = 4
  HetSize = 8
  FlagFix = FALSE
  UseHetBet = FALSE
  BetFix = FALSE
  NameHash <- MCNameHash
  LibFileKey <- MCFileKey
  Het8 <- MCHet8
  BetL3 <- MCBetL3
  BetOaat <- MCBetOaat
INIT MCInit
NEXT MCNextOnce
INVARIANT NegNoFlagDeviation
CHECK_DEADLOCK FALSE
