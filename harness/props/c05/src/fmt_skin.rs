//! C05 seeds, field inventory and entry points for .skin files (wow_m2::parse_skin).
//!
//! Seeds are written by the library's own `SkinG::<H>::write` (old format: `OldSkinHeader`,
//! "SKIN" + 5 M2Arrays + bone_count_max; new format: `SkinHeader`, "SKIN" + version + name +
//! vertex_count + 5 M2Arrays [+ centre/bounds for version 4 "BfA"]). `parse_skin` picks the
//! format from the second u32 (<= 4: new format version, > 4: old format index count), so the
//! old-format seeds carry more than 4 indices.
//!
//! The inventory reads every count/offset back from the written file: the writer advances its
//! offset by 40 bytes per submesh although a submesh is 48 bytes on disk, so `batches.offset` of a
//! library-written file points into the submesh table; the fields registered for `batch[i]` are
//! those the parser actually reads (at `batches.offset + 24 * i`).
use crate::seed::{Aux, Seed};
use crate::worker::{errname, Runner};
use std::io::Cursor;
use wow_m2::skin::{OldSkin, OldSkinHeader, Skin, SkinBatch, SkinHeader, SkinSubmesh};
use wow_m2::M2Version;

pub fn seed_names(thorough: bool) -> Vec<String> {
    let mut v = vec!["old-2sub".to_string(), "new-v4-bfa".to_string()];
    if thorough {
        v.push("new-v1-cata".into());
        v.push("new-v4-legion".into());
        v.push("new-v0".into());
        v.push("old-min".into());
        // new-format version words 2 (MoP) and 3 (WoD); an old-format file whose index count (3) is a legal new-format
        // version, so that detect_skin_format has to decide by the plausibility of the array references
        v.push("new-v2-mop".into());
        v.push("new-v3-wod".into());
        v.push("old-3idx".into());
    }
    v
}

fn submesh(i: u16) -> SkinSubmesh {
    SkinSubmesh {
        id: i,
        level: 0,
        vertex_start: 3 * i,
        vertex_count: 3,
        triangle_start: 3 * i,
        triangle_count: 3,
        bone_count: 2,
        bone_start: i,
        bone_influence: 1,
        center: [0.5, 1.0, 1.5],
        sort_center: [0.25, 0.5, 0.75],
        bounding_radius: 2.0,
    }
}

fn batch(i: u16) -> SkinBatch {
    SkinBatch {
        flags: 0x10,
        priority_plane: 0,
        shader_id: 0x8000 + i,
        skin_section_index: i,
        geoset_index: i,
        color_index: 0xFFFF,
        material_index: i,
        material_layer: 0,
        texture_count: 1,
        texture_combo_index: i,
        texture_coord_combo_index: 0,
        texture_weight_combo_index: 0,
        texture_transform_combo_index: 0xFFFF,
    }
}

struct Parts {
    indices: Vec<u16>,
    triangles: Vec<u16>,
    bone_indices: Vec<u8>,
    submeshes: Vec<SkinSubmesh>,
    batches: Vec<SkinBatch>,
}

fn parts(nsub: u16) -> Parts {
    parts_nv(nsub, (3 * nsub).max(6))
}

fn parts_nv(nsub: u16, nv: u16) -> Parts {
    Parts {
        indices: (0..nv).collect(),
        triangles: (0..nv).map(|i| (i + 1) % nv).collect(),
        bone_indices: (0..nv as usize * 4).map(|i| (i % 3) as u8).collect(),
        submeshes: (0..nsub).map(submesh).collect(),
        batches: (0..nsub).map(batch).collect(),
    }
}

fn arr(s: &mut Seed, pos: usize, name: &str, unit: usize) -> (usize, usize) {
    let c = s.u32_at(pos) as usize;
    let o = s.u32_at(pos + 4) as usize;
    s.field_ex(pos, 4, "count", format!("hdr.{name}.count"), o, unit, None);
    s.field_ex(pos + 4, 4, "offset", format!("hdr.{name}.offset"), 0, 1, None);
    (c, o)
}

fn inventory(s: &mut Seed, arrays_at: usize, p: &Parts) {
    let len = s.bytes.len();
    let (ci, oi) = arr(s, arrays_at, "indices", 2);
    let (ct, ot) = arr(s, arrays_at + 8, "triangles", 2);
    let (cb, ob) = arr(s, arrays_at + 16, "bone_indices", 4);
    let (cs, os) = arr(s, arrays_at + 24, "submeshes", 48);
    let (cq, oq) = arr(s, arrays_at + 32, "batches", 24);
    assert_eq!((ci, ct, cb, cs, cq), (p.indices.len(), p.triangles.len(), p.bone_indices.len() / 4, p.submeshes.len(), p.batches.len()));
    for (c, o, u) in [(ci, oi, 2), (ct, ot, 2), (cb, ob, 4), (cs, os, 48), (cq, oq, 24)] {
        assert!(c == 0 || o + c * u <= len, "skin: array outside the written file");
    }
    // a few entries of the index tables (they index the model's vertex list)
    if ci > 0 {
        s.field_ex(oi, 2, "index", "indices[0]", oi + 2, 1, None);
        s.field_ex(oi + 2 * (ci - 1), 2, "index", format!("indices[{}]", ci - 1), oi + 2 * ci, 1, None);
        s.field_ex(ot, 2, "index", "triangles[0]", ot + 2, 1, None);
        s.field_ex(ob, 1, "index", "bone_indices[0]", ob + 1, 1, None);
    }
    // first and last submesh: fields that index into the other arrays
    let mut subs: Vec<usize> = vec![];
    if cs > 0 {
        subs.push(0);
        if cs > 1 {
            subs.push(cs - 1);
        }
    }
    for i in subs {
        let b = os + 48 * i;
        assert_eq!(u16::from_le_bytes([s.bytes[b + 4], s.bytes[b + 5]]), p.submeshes[i].vertex_start);
        s.field_ex(b, 2, "index", format!("submesh[{i}].id"), b + 2, 1, None);
        s.field_ex(b + 2, 2, "index", format!("submesh[{i}].level"), b + 4, 1, None);
        s.field_ex(b + 4, 2, "index", format!("submesh[{i}].vertex_start"), oi, 2, None);
        s.field_ex(b + 6, 2, "count", format!("submesh[{i}].vertex_count"), oi + 2 * p.submeshes[i].vertex_start as usize, 2, None);
        s.field_ex(b + 8, 2, "index", format!("submesh[{i}].triangle_start"), ot, 2, None);
        s.field_ex(b + 10, 2, "count", format!("submesh[{i}].triangle_count"), ot + 2 * p.submeshes[i].triangle_start as usize, 2, None);
        s.field_ex(b + 12, 2, "count", format!("submesh[{i}].bone_count"), ob, 4, None);
        s.field_ex(b + 14, 2, "index", format!("submesh[{i}].bone_start"), ob, 4, None);
        s.field_ex(b + 16, 2, "index", format!("submesh[{i}].bone_influence"), b + 18, 1, None);
    }
    let mut bs: Vec<usize> = vec![];
    if cq > 0 {
        bs.push(0);
        if cq > 1 {
            bs.push(cq - 1);
        }
    }
    for i in bs {
        let b = oq + 24 * i;
        s.field_ex(b, 1, "index", format!("batch[{i}].flags"), b + 1, 1, None);
        s.field_ex(b + 2, 2, "index", format!("batch[{i}].shader_id"), b + 4, 1, None);
        s.field_ex(b + 4, 2, "index", format!("batch[{i}].skin_section_index"), os, 48, None);
        s.field_ex(b + 6, 2, "index", format!("batch[{i}].geoset_index"), os, 48, None);
        s.field_ex(b + 10, 2, "index", format!("batch[{i}].material_index"), b + 12, 1, None);
        s.field_ex(b + 14, 2, "count", format!("batch[{i}].texture_count"), b + 16, 1, None);
        s.field_ex(b + 16, 2, "index", format!("batch[{i}].texture_combo_index"), b + 18, 1, None);
    }
}

pub fn build(name: &str) -> Seed {
    match name {
        "old-2sub" | "old-min" | "old-3idx" => {
            let p = match name {
                "old-min" => parts(0),
                "old-3idx" => parts_nv(1, 3),
                _ => parts(2),
            };
            let mut h = OldSkinHeader::new();
            h.bone_count_max = 21;
            let skin = OldSkin {
                header: h,
                indices: p.indices.clone(),
                triangles: p.triangles.clone(),
                bone_indices: p.bone_indices.clone(),
                submeshes: p.submeshes.clone(),
                batches: p.batches.clone(),
            };
            let mut out = Cursor::new(Vec::new());
            skin.write(&mut out).expect("skin: OldSkin::write");
            let mut s = Seed::new("skin", name, out.into_inner());
            if name == "old-3idx" {
                // read as a new-format header, the array references at 20.. are the old header's bone_indices / submeshes /
                // batches pairs, (bone_count_max, first index data word) and index data: the fourth pair points far outside
                // the file, which is what makes detect_skin_format reject the new-format reading
                assert_eq!(s.u32_at(4), 3);
                assert!(s.u32_at(48) as usize > s.bytes.len(), "skin: old-3idx must not look like a new-format file");
            } else {
                assert!(s.u32_at(4) > 4, "skin: old-format seed must have more than 4 indices");
            }
            s.field(0, 4, "index", "hdr.magic");
            inventory(&mut s, 4, &p);
            assert_eq!(s.u32_at(44), 21);
            s.field(44, 4, "index", "hdr.bone_count_max");
            s
        }
        "new-v4-bfa" | "new-v1-cata" | "new-v4-legion" | "new-v0" | "new-v2-mop" | "new-v3-wod" => {
            let (ver, nsub) = match name {
                "new-v2-mop" => (M2Version::MoP, 1),
                "new-v3-wod" => (M2Version::WoD, 2),
                "new-v4-bfa" => (M2Version::BfA, 2),
                "new-v1-cata" => (M2Version::Cataclysm, 3),
                "new-v4-legion" => (M2Version::Legion, 1),
                _ => (M2Version::WotLK, 2),
            };
            let p = parts(nsub);
            let mut h = SkinHeader::new(ver);
            h.vertex_count = p.indices.len() as u32;
            if ver >= M2Version::BfA {
                h.center_position = Some([1.0, 2.0, 3.0]);
                h.center_bounds = Some(4.0);
            }
            let skin = Skin {
                header: h,
                indices: p.indices.clone(),
                triangles: p.triangles.clone(),
                bone_indices: p.bone_indices.clone(),
                submeshes: p.submeshes.clone(),
                batches: p.batches.clone(),
            };
            let mut out = Cursor::new(Vec::new());
            skin.write(&mut out).expect("skin: Skin::write");
            let mut s = Seed::new("skin", name, out.into_inner());
            assert!(s.u32_at(4) <= 4);
            s.field(0, 4, "index", "hdr.magic");
            s.field(4, 4, "index", "hdr.version");
            // the writer never emits a name; the parser only reads the pair
            s.field_ex(8, 4, "strlen", "hdr.name.count", s.u32_at(12) as usize, 1, None);
            s.field_ex(12, 4, "stroff", "hdr.name.offset", 0, 1, None);
            let oi = s.u32_at(24) as usize;
            s.field_ex(16, 4, "count", "hdr.vertex_count", oi, 2, None);
            inventory(&mut s, 20, &p);
            s
        }
        _ => wverif_common::tool_error(&format!("skin: unknown seed {name}")),
    }
}

pub fn run(r: &mut Runner, bytes: &[u8], _aux: &Aux) {
    r.call("parse_skin", || wow_m2::parse_skin(&mut Cursor::new(bytes)).map(|_| ()).map_err(errname));
}
