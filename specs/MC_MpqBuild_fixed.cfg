CONSTANTS
  SectorSize = 4
  TableSize = 4
  FlagFix = TRUE
  NameHash <- MCNameHash
  LibFileKey <- MCFileKey
INIT MCInit
NEXT MCNextOnce
INVARIANT LayoutAgreement
INVARIANT FixRemovesDeviation
INVARIANT ShortcutUnreachable
INVARIANT SectorTestSound
INVARIANT StoredBound
INVARIANT NoOverlap
INVARIANT TableWellFormed
INVARIANT KeyAgreement
INVARIANT ReadBack
INVARIANT ReadBackNeverNotFound
INVARIANT AbsentNotFound
CHECK_DEADLOCK FALSE
